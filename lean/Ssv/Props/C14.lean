/-
C14 — The validator message queue neither loses nor duplicates messages.
Property theorems only (helpers: Ssv/Proofs/Queue.lean). Everything is for ALL queue contents, ALL
filters, ALL prioritizer states and ALL sequences of atomic steps (= all interleavings of concurrent
producers with the single consumer, a Go channel operation being one atomic step).
-/
import Ssv.Proofs.Queue

namespace Ssv.Queue

variable {α : Type}

/-! ## the in-memory pop -/

/-- index bookkeeping of the scan, needs no assumption on `prior` -/
private theorem selectFrom_idx (prior : α → α → Bool) (adm : α → Bool) (full : List α) :
    ∀ (rest seen : List α) (best : Option (Nat × α)), full = seen ++ rest →
      ((∀ j h, best = some (j, h) → full[j]? = some h ∧ adm h = true) ∧ (best = none → ∀ y ∈ seen, adm y = false)) →
      ((∀ j h, selectFrom prior adm rest seen.length best = some (j, h) → full[j]? = some h ∧ adm h = true) ∧
       (selectFrom prior adm rest seen.length best = none → ∀ y ∈ full, adm y = false)) := by
  intro rest
  induction rest with
  | nil =>
    intro seen best hfull hok
    simp only [List.append_nil] at hfull
    subst hfull
    simpa [selectFrom] using hok
  | cons x xs ih =>
    intro seen best hfull hok
    have hfull' : full = (seen ++ [x]) ++ xs := by simp [hfull]
    have hx : full[seen.length]? = some x := by simp [hfull]
    have hlen : (seen ++ [x]).length = seen.length + 1 := by simp
    simp only [selectFrom]
    rw [← hlen]
    apply ih (seen ++ [x]) _ hfull'
    by_cases hadm : adm x = true
    · simp only [hadm, if_true]
      cases hb : best with
      | none =>
        refine ⟨?_, by simp⟩
        intro j h hjh
        simp only [Option.some.injEq, Prod.mk.injEq] at hjh
        obtain ⟨rfl, rfl⟩ := hjh
        exact ⟨hx, hadm⟩
      | some jh =>
        obtain ⟨j, h⟩ := jh
        have := hok.1 j h hb
        by_cases hp : prior x h = true
        · simp only [hp, if_true]
          refine ⟨?_, by simp⟩
          intro j' h' hjh
          simp only [Option.some.injEq, Prod.mk.injEq] at hjh
          obtain ⟨rfl, rfl⟩ := hjh
          exact ⟨hx, hadm⟩
        · simp only [hp]
          refine ⟨?_, by simp⟩
          intro j' h' hjh
          simp only [Bool.false_eq_true, if_false, Option.some.injEq, Prod.mk.injEq] at hjh
          obtain ⟨e1, e2⟩ := hjh
          subst e1; subst e2
          exact this
    · have hadm' : adm x = false := by simpa using hadm
      simp only [hadm', Bool.false_eq_true, if_false]
      refine ⟨hok.1, ?_⟩
      intro hb y hy
      rcases List.mem_append.1 hy with hy | hy
      · exact hok.2 hb y hy
      · simp at hy; subst hy; exact hadm'

private theorem selectFrom_idx_top (prior : α → α → Bool) (adm : α → Bool) (l : List α) :
    (∀ j h, selectFrom prior adm l 0 none = some (j, h) → l[j]? = some h ∧ adm h = true) ∧
    (selectFrom prior adm l 0 none = none → ∀ y ∈ l, adm y = false) := by
  have := selectFrom_idx prior adm l l [] none (by simp)
    ⟨(by intro j h hh; cases hh), (by intro _ y hy; cases hy)⟩
  simpa using this

/-- conservation: a pop removes exactly the message it returns and nothing when it returns nothing
    (in particular a pop whose filter rejects everything discards nothing) -/
theorem C14_pop_conserves (prior : α → α → Bool) (adm : α → Bool) (l : List α) :
    match popList prior adm l with
    | (l', none) => l' = l
    | (l', some x) => l.Perm (x :: l') := by
  unfold popList
  cases h : selectFrom prior adm l 0 none with
  | none => simp
  | some jx =>
    obtain ⟨j, x⟩ := jx
    have := (selectFrom_idx_top prior adm l).1 j x h
    exact perm_eraseIdx l j x this.1

/-- a returned message is admitted by the filter of that pop -/
theorem C14_pop_admissible (prior : α → α → Bool) (adm : α → Bool) (l : List α) (x : α)
    (h : (popList prior adm l).2 = some x) : adm x = true := by
  unfold popList at h
  cases hs : selectFrom prior adm l 0 none with
  | none => simp [hs] at h
  | some jx =>
    obtain ⟨j, y⟩ := jx
    simp [hs] at h; subst h
    exact ((selectFrom_idx_top prior adm l).1 j y hs).2

/-- completeness: a pop returns a message whenever an admissible one is queued -/
theorem C14_pop_complete (prior : α → α → Bool) (adm : α → Bool) (l : List α)
    (h : ∃ m ∈ l, adm m = true) : (popList prior adm l).2.isSome = true := by
  unfold popList
  cases hs : selectFrom prior adm l 0 none with
  | none =>
    obtain ⟨m, hm, ha⟩ := h
    have := (selectFrom_idx_top prior adm l).2 hs m hm
    simp [this] at ha
  | some jx => simp

/-- a pop whose filter admits nothing leaves the list untouched -/
theorem C14_pop_rejecting_filter_keeps_all (prior : α → α → Bool) (adm : α → Bool) (l : List α)
    (h : ∀ m ∈ l, adm m = false) : popList prior adm l = (l, none) := by
  have hc := C14_pop_conserves prior adm l
  cases hp : popList prior adm l with
  | mk l' r =>
    cases r with
    | none => simp [hp] at hc; simp [hc]
    | some x =>
      have hx := C14_pop_admissible prior adm l x (by simp [hp])
      simp [hp] at hc
      have : x ∈ l := hc.symm.subset (by simp)
      simp [h x this] at hx

/-- maximality: for any total preorder `prior`, the returned message is `Prior` to every admissible queued one -/
theorem C14_pop_maximal (prior : α → α → Bool) (adm : α → Bool)
    (hrefl : ∀ a, prior a a = true)
    (htot : ∀ a b, prior a b = true ∨ prior b a = true)
    (htr : ∀ a b c, prior a b = true → prior b c = true → prior a c = true)
    (l : List α) (x : α) (h : (popList prior adm l).2 = some x) :
    ∀ y ∈ l, adm y = true → prior x y = true := by
  unfold popList at h
  cases hs : selectFrom prior adm l 0 none with
  | none => simp [hs] at h
  | some jx =>
    obtain ⟨j, z⟩ := jx
    simp [hs] at h; subst h
    exact ((selectFrom_top prior adm hrefl htot htr l).some_ok j z hs).2.2

/-! ## the documented priority order -/

/-- the standard prioritizer is a total preorder for every prioritizer state, so `C14_pop_maximal` applies to it -/
theorem C14_standard_prior_total_preorder (s : PState) :
    (∀ a, prior s a a = true) ∧ (∀ a b, prior s a b = true ∨ prior s b a = true) ∧
    (∀ a b c, prior s a b = true → prior s b c = true → prior s a c = true) :=
  ⟨prior_refl s, prior_total s, prior_trans s⟩

/-- duty start strictly before timeout strictly before every other message -/
theorem C14_order_events_first (s : PState) (i j k : Nat) (b : Body) (hb : ∀ t, b ≠ .event t) :
    prior s ⟨i, .event 1⟩ ⟨j, .event 0⟩ = true ∧ prior s ⟨j, .event 0⟩ ⟨i, .event 1⟩ = false ∧
    prior s ⟨j, .event 0⟩ ⟨k, b⟩ = true ∧ prior s ⟨k, b⟩ ⟨j, .event 0⟩ = false := by
  refine ⟨by simp [prior, scoreMessageType], by simp [prior, scoreMessageType], ?_, ?_⟩ <;>
  · cases b with
    | event t => exact absurd rfl (hb t)
    | consensus => simp [prior, scoreMessageType]
    | partialSig => simp [prior, scoreMessageType]

/-- consensus traffic of the current height strictly before consensus traffic of any other height -/
theorem C14_order_current_height_first (s : PState) (i j r1 r2 t1 t2 n1 n2 h2 : Nat) (hne : h2 ≠ s.height) :
    prior s ⟨i, .consensus s.height r1 t1 n1⟩ ⟨j, .consensus h2 r2 t2 n2⟩ = true ∧
    prior s ⟨j, .consensus h2 r2 t2 n2⟩ ⟨i, .consensus s.height r1 t1 n1⟩ = false := by
  by_cases hgt : h2 > s.height
  · simp [prior, scoreMessageType, compareHeightOrSlot, scoreHeight, hne, hgt]
  · simp [prior, scoreMessageType, compareHeightOrSlot, scoreHeight, hne, hgt]

/-! ### the rest of the documented order, clause by clause -/

/-- non-event message -/
def nonEvent (m : Msg) : Prop := ∀ t, m.body ≠ .event t

theorem smt_nonEvent (m : Msg) (h : nonEvent m) : scoreMessageType m = 0 := by
  obtain ⟨i, b⟩ := m
  cases b with
  | event t => exact absurd rfl (h t)
  | consensus => simp [scoreMessageType]
  | partialSig => simp [scoreMessageType]

/-- among non-event messages (consensus AND partial-signature traffic) everything for the current height / slot
    goes strictly before everything for another height / slot, whatever the types, rounds and running state -/
theorem C14_order_current_before_other (s : PState) (a b : Msg) (ha : nonEvent a) (hb : nonEvent b)
    (hca : compareHeightOrSlot s a = 1) (hcb : compareHeightOrSlot s b ≠ 1) :
    prior s a b = true ∧ prior s b a = false := by
  have h2 : compareHeightOrSlot s b = 0 ∨ compareHeightOrSlot s b = 2 := by
    have : compareHeightOrSlot s b ≤ 2 := by
      unfold compareHeightOrSlot; split <;> (try split) <;> (try split) <;> omega
    omega
  rcases h2 with h2 | h2 <;> simp [prior, smt_nonEvent a ha, smt_nonEvent b hb, hca, h2, scoreHeight]

/-- … and everything for a later height / slot strictly before everything for an earlier one -/
theorem C14_order_future_before_past (s : PState) (a b : Msg) (ha : nonEvent a) (hb : nonEvent b)
    (hca : compareHeightOrSlot s a = 2) (hcb : compareHeightOrSlot s b = 0) :
    prior s a b = true ∧ prior s b a = false := by
  simp [prior, smt_nonEvent a ha, smt_nonEvent b hb, hca, hcb, scoreHeight]

/-- current height, instance running: consensus strictly before pre-consensus strictly before post-consensus
    partial signatures of the current slot -/
theorem C14_order_running_subtypes (s : PState) (hr : s.hasRunningInstance = true) (i j k r t n : Nat) :
    prior s ⟨i, .consensus s.height r t n⟩ ⟨j, .partialSig s.slot false⟩ = true ∧
    prior s ⟨j, .partialSig s.slot false⟩ ⟨i, .consensus s.height r t n⟩ = false ∧
    prior s ⟨j, .partialSig s.slot false⟩ ⟨k, .partialSig s.slot true⟩ = true ∧
    prior s ⟨k, .partialSig s.slot true⟩ ⟨j, .partialSig s.slot false⟩ = false := by
  simp [prior, scoreMessageType, compareHeightOrSlot, scoreMessageSubtype, hr, isConsensus, isPre, isPost]

/-- current height, no instance running: pre-consensus before post-consensus before consensus -/
theorem C14_order_idle_subtypes (s : PState) (hr : s.hasRunningInstance = false) (i j k r t n : Nat) :
    prior s ⟨j, .partialSig s.slot false⟩ ⟨k, .partialSig s.slot true⟩ = true ∧
    prior s ⟨k, .partialSig s.slot true⟩ ⟨j, .partialSig s.slot false⟩ = false ∧
    prior s ⟨k, .partialSig s.slot true⟩ ⟨i, .consensus s.height r t n⟩ = true ∧
    prior s ⟨i, .consensus s.height r t n⟩ ⟨k, .partialSig s.slot true⟩ = false := by
  simp [prior, scoreMessageType, compareHeightOrSlot, scoreMessageSubtype, hr, isConsensus, isPre, isPost]

/-- current-height consensus traffic: the current round strictly before later rounds strictly before earlier rounds -/
theorem C14_order_rounds (s : PState) (i j k t1 t2 t3 n1 n2 n3 r2 r3 : Nat) (h2 : r2 > s.round) (h3 : r3 < s.round) :
    prior s ⟨i, .consensus s.height s.round t1 n1⟩ ⟨j, .consensus s.height r2 t2 n2⟩ = true ∧
    prior s ⟨j, .consensus s.height r2 t2 n2⟩ ⟨i, .consensus s.height s.round t1 n1⟩ = false ∧
    prior s ⟨j, .consensus s.height r2 t2 n2⟩ ⟨k, .consensus s.height r3 t3 n3⟩ = true ∧
    prior s ⟨k, .consensus s.height r3 t3 n3⟩ ⟨j, .consensus s.height r2 t2 n2⟩ = false := by
  have e2 : r2 ≠ s.round := by omega
  have e3 : r3 ≠ s.round := by omega
  have g3 : ¬ r3 > s.round := by omega
  cases hr : s.hasRunningInstance <;>
    simp [prior, scoreMessageType, compareHeightOrSlot, scoreMessageSubtype, hr, isConsensus, isPre, isPost,
      scoreRound, e2, e3, h2, g3]

/-- same height and round: proposal before prepare before commit before round-change -/
theorem C14_order_types (s : PState) (i j r n1 n2 t1 t2 : Nat) (ht1 : t1 < t2) (ht2 : t2 ≤ 3) :
    prior s ⟨i, .consensus s.height r t1 n1⟩ ⟨j, .consensus s.height r t2 n2⟩ = true ∧
    prior s ⟨j, .consensus s.height r t2 n2⟩ ⟨i, .consensus s.height r t1 n1⟩ = false := by
  have : (t1 = 0 ∧ (t2 = 1 ∨ t2 = 2 ∨ t2 = 3)) ∨ (t1 = 1 ∧ (t2 = 2 ∨ t2 = 3)) ∨ (t1 = 2 ∧ t2 = 3) := by omega
  cases hr : s.hasRunningInstance <;>
  rcases this with ⟨rfl, rfl | rfl | rfl⟩ | ⟨rfl, rfl | rfl⟩ | ⟨rfl, rfl⟩ <;>
    simp [prior, scoreMessageType, compareHeightOrSlot, scoreMessageSubtype, hr, isConsensus, isPre, isPost,
      scoreRound, scoreConsensusType]

/-- other heights: a decided message (commit with more than a quorum… as the code tests it: `len(signers) > quorum`)
    strictly before every non-decided message of the same side -/
theorem C14_order_decided_first (s : PState) (i j h r1 r2 t2 n1 n2 : Nat) (hh : h ≠ s.height)
    (hd : n1 > s.quorum) (hnd : ¬ (t2 = 2 ∧ n2 > s.quorum)) :
    prior s ⟨i, .consensus h r1 2 n1⟩ ⟨j, .consensus h r2 t2 n2⟩ = true ∧
    prior s ⟨j, .consensus h r2 t2 n2⟩ ⟨i, .consensus h r1 2 n1⟩ = false := by
  have hnd' : isDecided s ⟨j, .consensus h r2 t2 n2⟩ = false := by
    simp [isDecided]; intro e; subst e; omega
  have hd' : isDecided s ⟨i, .consensus h r1 2 n1⟩ = true := by simp [isDecided, hd]
  by_cases hgt : h > s.height
  · simp [prior, scoreMessageType, compareHeightOrSlot, hh, hgt, scoreMessageSubtype, hd', hnd', isPre, isConsensus]
  · simp [prior, scoreMessageType, compareHeightOrSlot, hh, hgt, scoreMessageSubtype, hd', hnd', isCommit]
    by_cases e : t2 = 2 <;> simp [e]

/-- non-vacuity: concrete messages meet the hypotheses of the order theorems -/
example : nonEvent ⟨1, .consensus 5 1 0 1⟩ ∧ nonEvent ⟨2, .partialSig 4 true⟩ ∧
    compareHeightOrSlot ⟨true, 5, 1, 5, 3⟩ ⟨1, .consensus 5 1 0 1⟩ = 1 ∧
    compareHeightOrSlot ⟨true, 5, 1, 5, 3⟩ ⟨2, .partialSig 4 true⟩ = 0 := by
  refine ⟨by intro t; simp, by intro t; simp, by decide, by decide⟩

/-! ## every operation sequence / interleaving -/

/-- the atomic steps of the queue plus the public composite operations; `prior`/`adm` of each pop are arbitrary -/
inductive Op (α : Type)
  | tryPush (m : α)
  | recvOne
  | readInbox
  | popMem (prior : α → α → Bool) (adm : α → Bool)
  | tryPop (prior : α → α → Bool) (adm : α → Bool)
  | popBlocking (readFirst : Bool) (prior : α → α → Bool) (adm : α → Bool)

/-- queue state with two ghost logs: messages pushed successfully, messages returned by pops -/
structure Hist (α : Type) where
  q : Q α
  pushed : List α
  returned : List α

def Hist.step (h : Hist α) : Op α → Hist α
  | .tryPush m => let (q', ok) := h.q.tryPush m; { h with q := q', pushed := if ok then m :: h.pushed else h.pushed }
  | .recvOne => { h with q := h.q.recvOne }
  | .readInbox => { h with q := h.q.readInbox }
  | .popMem p a => let (q', r) := h.q.popMem p a; { h with q := q', returned := r.toList ++ h.returned }
  | .tryPop p a => let (q', r) := h.q.tryPop p a; { h with q := q', returned := r.toList ++ h.returned }
  | .popBlocking rf p a => let (q', r) := h.q.popBlocking rf p a; { h with q := q', returned := r.toList ++ h.returned }

def Hist.Inv (h : Hist α) : Prop := h.pushed.Perm (h.returned ++ h.q.inbox ++ h.q.list)

private theorem popMem_inv (q : Q α) (p : α → α → Bool) (a : α → Bool) (pushed returned : List α)
    (hinv : pushed.Perm (returned ++ q.inbox ++ q.list)) :
    pushed.Perm (((q.popMem p a).2.toList ++ returned) ++ (q.popMem p a).1.inbox ++ (q.popMem p a).1.list) := by
  have hc := C14_pop_conserves p a q.list
  unfold Q.popMem
  cases hp : popList p a q.list with
  | mk l' r =>
    cases r with
    | none => simp [hp] at hc; simp [hc]; simpa using hinv
    | some x =>
      simp [hp] at hc
      simp only [Option.toList, List.cons_append, List.nil_append]
      refine hinv.trans ?_
      have : (returned ++ q.inbox ++ q.list).Perm (returned ++ q.inbox ++ (x :: l')) := List.Perm.append_left _ hc
      refine this.trans ?_
      simpa using (List.perm_middle (l₁ := returned ++ q.inbox) (a := x) (l₂ := l'))

private theorem readInbox_inv (q : Q α) (pushed returned : List α)
    (hinv : pushed.Perm (returned ++ q.inbox ++ q.list)) :
    pushed.Perm (returned ++ q.readInbox.inbox ++ q.readInbox.list) := by
  simp only [Q.readInbox, List.append_nil]
  refine hinv.trans ?_
  rw [List.append_assoc]
  exact List.Perm.append_left _ (List.Perm.append_right _ (List.reverse_perm _).symm)

private theorem waitLoop_perm (adm : α → Bool) (inb list : List α) :
    ((waitLoop adm inb list).1 ++ (waitLoop adm inb list).2).Perm (inb ++ list) := by
  induction inb generalizing list with
  | nil => simp [waitLoop]
  | cons m rest ih =>
    simp only [waitLoop]
    split
    · simpa using (List.perm_middle (l₁ := rest) (a := m) (l₂ := list))
    · refine (ih (m :: list)).trans ?_
      simpa using (List.perm_middle (l₁ := rest) (a := m) (l₂ := list))

theorem step_inv (h : Hist α) (op : Op α) (hinv : h.Inv) : (h.step op).Inv := by
  unfold Hist.Inv at *
  cases op with
  | tryPush m =>
    simp only [Hist.step, Q.tryPush]
    split
    · simp only [if_true]
      refine (List.Perm.cons m hinv).trans ?_
      have : (m :: (h.returned ++ h.q.inbox ++ h.q.list)).Perm (h.returned ++ (h.q.inbox ++ [m]) ++ h.q.list) := by
        have := (List.perm_middle (l₁ := h.returned ++ h.q.inbox) (a := m) (l₂ := h.q.list)).symm
        simpa using this
      exact this
    · simpa using hinv
  | recvOne =>
    simp only [Hist.step, Q.recvOne]
    split
    · exact hinv
    · rename_i m rest hm
      rw [hm] at hinv
      refine hinv.trans ?_
      simp only [List.append_assoc, List.cons_append]
      exact List.Perm.append_left _ List.perm_middle.symm
  | readInbox => exact readInbox_inv h.q h.pushed h.returned hinv
  | popMem p a => exact popMem_inv h.q p a h.pushed h.returned hinv
  | tryPop p a =>
    simp only [Hist.step, Q.tryPop]
    exact popMem_inv h.q.readInbox p a h.pushed h.returned (readInbox_inv h.q h.pushed h.returned hinv)
  | popBlocking rf p a =>
    simp only [Hist.step, Q.popBlocking]
    have h1 : h.pushed.Perm (h.returned ++ (if rf then h.q.readInbox else h.q).inbox ++ (if rf then h.q.readInbox else h.q).list) := by
      cases rf
      · simpa using hinv
      · simpa using readInbox_inv h.q h.pushed h.returned hinv
    generalize (if rf = true then h.q.readInbox else h.q) = q1 at h1
    have h2 := popMem_inv q1 p a h.pushed h.returned h1
    cases hp : q1.popMem p a with
    | mk q2 r =>
      rw [hp] at h2
      cases r with
      | some m => simpa using h2
      | none =>
        simp only [Option.toList, List.nil_append] at h2
        simp only []
        have hw := waitLoop_perm a q2.inbox q2.list
        cases hwl : waitLoop a q2.inbox q2.list with
        | mk inb l =>
          rw [hwl] at hw
          simp only at hw
          have h3 : h.pushed.Perm (h.returned ++ inb ++ l) := by
            refine h2.trans ?_
            rw [List.append_assoc, List.append_assoc]
            exact List.Perm.append_left _ hw.symm
          let q3 : Q α := { q2 with inbox := inb, list := l }
          exact popMem_inv q3.readInbox p a h.pushed h.returned (readInbox_inv q3 h.pushed h.returned h3)

/-- conservation over every history: after ANY sequence of pushes, channel receives, inbox reads,
    pops, try-pops and blocking pops (arbitrary filters and prioritizers at each pop), the multiset of
    successfully pushed messages equals the multiset of returned messages plus what is still queued:
    nothing is lost, nothing is duplicated, nothing is discarded by a pop that does not return it. -/
theorem C14_history_conservation (cap : Nat) (ops : List (Op α)) :
    (ops.foldl Hist.step ⟨⟨[], cap, []⟩, [], []⟩).Inv := by
  suffices ∀ (h : Hist α), h.Inv → (ops.foldl Hist.step h).Inv from this _ (by simp [Hist.Inv])
  induction ops with
  | nil => intro h hh; simpa using hh
  | cons op ops ih => intro h hh; exact ih _ (step_inv h op hh)

/-- `TryPop` returns a message whenever an admissible one is anywhere in the queue (channel or list) -/
theorem C14_tryPop_complete (q : Q α) (prior : α → α → Bool) (adm : α → Bool)
    (h : ∃ m ∈ q.inbox ++ q.list, adm m = true) : (q.tryPop prior adm).2.isSome = true := by
  unfold Q.tryPop Q.popMem
  apply C14_pop_complete
  obtain ⟨m, hm, ha⟩ := h
  refine ⟨m, ?_, ha⟩
  simp only [Q.readInbox, List.mem_append, List.mem_reverse]
  simpa [List.mem_append] using hm

/-- the blocking `Pop` (with a context cancelled once nothing more arrives) also returns a message
    whenever an admissible one is queued, whatever the outcome of its read-frequency test -/
theorem C14_popBlocking_complete (q : Q α) (rf : Bool) (prior : α → α → Bool) (adm : α → Bool)
    (h : ∃ m ∈ q.inbox ++ q.list, adm m = true) : (q.popBlocking rf prior adm).2.isSome = true := by
  simp only [Q.popBlocking]
  generalize hq1 : (if rf = true then q.readInbox else q) = q1
  have h1 : ∃ m ∈ q1.inbox ++ q1.list, adm m = true := by
    obtain ⟨m, hm, ha⟩ := h
    refine ⟨m, ?_, ha⟩
    cases rf
    · simp at hq1; subst hq1; exact hm
    · simp at hq1; subst hq1
      simp only [Q.readInbox, List.nil_append, List.mem_append, List.mem_reverse]
      simpa [List.mem_append] using hm
  cases hp : q1.popMem prior adm with
  | mk q2 r =>
    cases r with
    | some m => simp
    | none =>
      simp only
      have hc := C14_pop_conserves prior adm q1.list
      have hq2 : q2.inbox = q1.inbox ∧ q2.list = q1.list := by
        unfold Q.popMem at hp
        cases hpl : popList prior adm q1.list with
        | mk l' r' =>
          rw [hpl] at hp hc
          simp at hp
          obtain ⟨e1, e2⟩ := hp
          subst e2
          simp at hc
          subst e1
          exact ⟨rfl, hc⟩
      have hw := waitLoop_perm adm q2.inbox q2.list
      cases hwl : waitLoop adm q2.inbox q2.list with
      | mk inb l =>
        rw [hwl] at hw
        simp only at hw
        unfold Q.popMem
        apply C14_pop_complete
        obtain ⟨m, hm, ha⟩ := h1
        refine ⟨m, ?_, ha⟩
        have : m ∈ inb ++ l := hw.symm.subset (by rw [hq2.1, hq2.2]; exact hm)
        simp only [Q.readInbox, List.mem_append, List.mem_reverse]
        simpa [List.mem_append] using this

/-! ## the defect repaired by `fix: queue pop must not drop or skip messages …` (kept as a regression witness) -/

/-- the scan of the ORIGINAL `pop` for lists of at least two items: start from the head even when the
    filter rejects it, replace it only by an item that is both `Prior` to it and admitted -/
def selectOld (prior : α → α → Bool) (adm : α → Bool) : List α → Nat → (Nat × α) → (Nat × α)
  | [], _, best => best
  | x :: xs, i, best => selectOld prior adm xs (i + 1) (if prior x best.2 && adm x then (i, x) else best)

/-- the ORIGINAL `priorityQueue.pop` -/
def popListOld (prior : α → α → Bool) (adm : α → Bool) : List α → List α × Option α
  | [] => ([], none)
  | [x] => if adm x then ([], some x) else ([x], none)
  | x :: y :: rest =>
    let (i, h) := selectOld prior adm (y :: rest) 1 (0, x)
    ((x :: y :: rest).eraseIdx i, if adm h then some h else none)

/-- the original pop lost the head when the filter rejected it: two queued consensus messages, a filter
    admitting nothing — afterwards only one is queued and nothing was returned -/
theorem C14_old_pop_dropped_head :
    popListOld (prior ⟨true, 100, 1, 64, 3⟩) (fun _ => false)
      [⟨2, .consensus 101 1 1 1⟩, ⟨1, .consensus 100 1 1 1⟩] = ([⟨1, .consensus 100 1 1 1⟩], none) := by
  decide

/-- … and it failed to return an admissible message queued behind a rejected, higher-priority head -/
theorem C14_old_pop_incomplete :
    popListOld (prior ⟨true, 100, 1, 64, 3⟩) (fun m => m.id == 2)
      [⟨1, .consensus 100 1 1 1⟩, ⟨2, .consensus 101 1 1 1⟩] = ([⟨2, .consensus 101 1 1 1⟩], none) := by
  decide

/-! ## non-vacuity -/

example : (popList (prior ⟨true, 100, 1, 64, 3⟩) (fun _ => false)
    [(⟨2, .consensus 101 1 1 1⟩ : Msg), ⟨1, .consensus 100 1 1 1⟩]) =
    ([⟨2, .consensus 101 1 1 1⟩, ⟨1, .consensus 100 1 1 1⟩], none) := by decide

example : (popList (prior ⟨true, 100, 1, 64, 3⟩) (fun m => m.id == 2)
    [(⟨1, .consensus 100 1 1 1⟩ : Msg), ⟨2, .consensus 101 1 1 1⟩]).2 = some ⟨2, .consensus 101 1 1 1⟩ := by decide

example : (popList (prior ⟨true, 100, 1, 64, 3⟩) filterAny
    [(⟨1, .consensus 101 1 1 1⟩ : Msg), ⟨2, .event 0⟩, ⟨3, .consensus 100 1 0 1⟩, ⟨4, .event 1⟩]).2 = some ⟨4, .event 1⟩ := by decide

end Ssv.Queue
