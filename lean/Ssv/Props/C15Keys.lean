/-
C15, key layer: the decided-instance store keeps, per store prefix (duty role) and identifier, one "highest" entry and one
entry per height. The heights model treats that as a map; these theorems show that the byte keys realising the map never
collide and that CleanAllInstances removes exactly one identifier's entries — for ALL prefixes, identifiers and heights.
-/
import Ssv.Model.StoreKey
import Ssv.Props.C18

namespace Ssv.StoreKey
open Ssv.Topics (le64 unLe64 unLe64_le64)

/-- tie: the regenerated tag constants have the shape the proofs use (equal total width 16 = 8 + 8; they differ in the first byte) -/
theorem C15_tie_store_tags :
    Gen.heights_highestInstanceKey = "highest_instance" ∧ Gen.heights_instanceKey = "instance" ∧
    highestTag.length = 16 ∧ instanceTag.length = 8 ∧ highestTag.head? ≠ instanceTag.head? := by decide

theorem le64_length (n : Nat) : (le64 n).length = 8 := by simp [le64]

theorem keyPart_length (k : Kind) : (keyPart k).length = 16 := by
  cases k with
  | highest => exact C15_tie_store_tags.2.2.1
  | inst h => simp [keyPart, le64_length, C15_tie_store_tags.2.2.2.1]

theorem le64_inj (a b : Nat) (ha : a < 2 ^ 64) (hb : b < 2 ^ 64) (h : le64 a = le64 b) : a = b := by
  have := congrArg unLe64 h
  rwa [unLe64_le64 a ha, unLe64_le64 b hb] at this

theorem keyPart_inj (k1 k2 : Kind)
    (h1 : ∀ h, k1 = .inst h → h < 2 ^ 64) (h2 : ∀ h, k2 = .inst h → h < 2 ^ 64)
    (h : keyPart k1 = keyPart k2) : k1 = k2 := by
  cases k1 with
  | highest =>
    cases k2 with
    | highest => rfl
    | inst b =>
      exfalso
      have := congrArg List.head? h
      simp only [keyPart] at this
      have e : (instanceTag ++ le64 (b % 2 ^ 64)).head? = instanceTag.head? := by
        have : instanceTag ≠ [] := by decide
        cases hh : instanceTag with
        | nil => exact absurd hh this
        | cons x xs => simp
      rw [e] at this
      exact C15_tie_store_tags.2.2.2.2 this
  | inst a =>
    cases k2 with
    | highest =>
      exfalso
      have := congrArg List.head? h
      simp only [keyPart] at this
      have e : (instanceTag ++ le64 (a % 2 ^ 64)).head? = instanceTag.head? := by
        have : instanceTag ≠ [] := by decide
        cases hh : instanceTag with
        | nil => exact absurd hh this
        | cons x xs => simp
      rw [e] at this
      exact C15_tie_store_tags.2.2.2.2 this.symm
    | inst b =>
      simp only [keyPart] at h
      have := List.append_cancel_left h
      have ha := h1 a rfl
      have hb := h2 b rfl
      rw [Nat.mod_eq_of_lt ha, Nat.mod_eq_of_lt hb] at this
      rw [le64_inj a b ha hb this]

/-- **No two entries share a database key.** For ALL store prefixes (duty roles — also when one role name is a prefix of
    another, as SYNC_COMMITTEE / SYNC_COMMITTEE_CONTRIBUTION), ALL identifiers of one common length (message ids are 56 bytes)
    and ALL 64-bit heights: equal Badger keys ⇒ same store, same identifier, same entry. -/
theorem C15_store_keys_injective (p1 p2 id1 id2 : List Nat) (k1 k2 : Kind)
    (hid : id1.length = id2.length)
    (h1 : ∀ h, k1 = .inst h → h < 2 ^ 64) (h2 : ∀ h, k2 = .inst h → h < 2 ^ 64)
    (h : dbKey p1 id1 k1 = dbKey p2 id2 k2) : p1 = p2 ∧ id1 = id2 ∧ k1 = k2 := by
  unfold dbKey at h
  have hlen := congrArg List.length h
  simp only [List.length_append, keyPart_length] at hlen
  have hp : p1.length = p2.length := by omega
  rw [List.append_assoc, List.append_assoc] at h
  obtain ⟨e1, h'⟩ := List.append_inj h hp
  obtain ⟨e2, h''⟩ := List.append_inj h' hid
  exact ⟨e1, e2, keyPart_inj k1 k2 h1 h2 h''⟩

/-- **CleanAllInstances(id) hits exactly id's per-height entries** of its own store: the prefix it deletes under is a prefix
    of an entry's key iff the entry is a per-height entry of that very identifier (never a "highest" entry, never another id) -/
theorem C15_clean_prefix_exact (pfx id id' : List Nat) (k : Kind) (hid : id'.length = id.length) :
    (cleanPrefix pfx id).isPrefixOf (dbKey pfx id' k) = true ↔ id' = id ∧ ∃ h, k = .inst h := by
  rw [List.isPrefixOf_iff_prefix]
  unfold cleanPrefix dbKey
  rw [List.append_assoc, List.append_assoc, List.prefix_append_right_inj]
  constructor
  · rintro ⟨t, ht⟩
    rw [List.append_assoc] at ht
    obtain ⟨e1, h'⟩ := List.append_inj ht hid.symm
    refine ⟨e1.symm, ?_⟩
    cases k with
    | inst h => exact ⟨h, rfl⟩
    | highest =>
      exfalso
      simp only [keyPart] at h'
      have := congrArg List.head? h'
      have e : (instanceTag ++ t).head? = instanceTag.head? := by
        have : instanceTag ≠ [] := by decide
        cases hh : instanceTag with
        | nil => exact absurd hh this
        | cons x xs => simp
      rw [e] at this
      exact C15_tie_store_tags.2.2.2.2 this.symm
  · rintro ⟨rfl, h, rfl⟩
    exact ⟨le64 (h % 2 ^ 64), by simp [keyPart]⟩

/-- hence, on any set of keys of one store, CleanAllInstances(id) keeps every entry of every OTHER identifier and removes
    every entry of `id` -/
theorem C15_clean_all_exact (pfx id id' : List Nat) (k : Kind) (keys : List (List Nat)) (hid : id'.length = id.length)
    (hk : ∀ h, k = .inst h → h < 2 ^ 64) (hmem : dbKey pfx id' k ∈ keys) :
    dbKey pfx id' k ∈ cleanAll pfx id keys ↔ id' ≠ id := by
  unfold cleanAll
  simp only [List.mem_filter, hmem, true_and, Bool.not_eq_true', decide_eq_true_eq]
  constructor
  · rintro ⟨h1, h2⟩ e
    subst e
    cases k with
    | highest => exact h2 rfl
    | inst h =>
      have := (C15_clean_prefix_exact pfx id' id' (.inst h) rfl).mpr ⟨rfl, h, rfl⟩
      rw [this] at h1; cases h1
  · intro hne
    constructor
    · cases hp : (cleanPrefix pfx id).isPrefixOf (dbKey pfx id' k) with
      | false => rfl
      | true => exact absurd ((C15_clean_prefix_exact pfx id id' k hid).mp hp).1 hne
    · intro e
      have := C15_store_keys_injective pfx pfx id' id k .highest hid hk (by intro h hh; cases hh) e
      exact hne this.2.1

/-- non-vacuity / concrete evaluation: the keys of height 1 and 256 of a 3-byte identifier under prefix "A" -/
example : dbKey [65] [1,2,3] (.inst 258) =
    [65, 1,2,3, 105,110,115,116,97,110,99,101, 2,1,0,0,0,0,0,0] ∧
    (cleanPrefix [65] [1,2,3]).isPrefixOf (dbKey [65] [1,2,3] (.inst 258)) = true ∧
    (cleanPrefix [65] [1,2,3]).isPrefixOf (dbKey [65] [1,2,3] .highest) = false := by decide


/-- across stores: with store prefixes of EQUAL length (or any two prefixes neither of which the other extends by the start of an
    identifier) CleanAllInstances of one store never reaches another store's entries -/
theorem C15_clean_prefix_other_store (p1 p2 id id' : List Nat) (k : Kind) (hp : p1.length = p2.length)
    (h : (cleanPrefix p1 id).isPrefixOf (dbKey p2 id' k) = true) : p1 = p2 := by
  rw [List.isPrefixOf_iff_prefix] at h
  obtain ⟨t, ht⟩ := h
  unfold cleanPrefix dbKey at ht
  simp only [List.append_assoc] at ht
  exact (List.append_inj ht hp).1

/-- the production role names are NOT of equal length and one extends another: the only cross-store hit needs an identifier that
    starts with the rest of the longer role name (witness; message identifiers start with the 4-byte domain type, none of which
    spells "_CON") -/
example : (cleanPrefix (bytesOf "SYNC_COMMITTEE") (bytesOf "_CONTRIBUTIONx")).isPrefixOf
    (dbKey (bytesOf "SYNC_COMMITTEE_CONTRIBUTION") (bytesOf "xinstance12345") (.inst 7)) = true := by decide

end Ssv.StoreKey
