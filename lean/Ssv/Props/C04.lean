/-
C04 — An operator never signs a slashable attestation or block, across restarts.
Property theorems only (model: Ssv/Model/Slashing.lean, invariant and lemmas: Ssv/Proofs/Slashing.lean).

All statements quantify over EVERY operation history (`List Op`, any length, any order of
add / add-with-storage-fault / remove / remove-with-storage-fault / reactivate / split reactivate /
sign attestation / sign block / clock advance / restart), every clock start and every network parameter.

Hypotheses of the main theorems, as per-step guards (`Along cfg P s ops` = `P` holds at every step):
* `SignedOk`  — a SIGNED attestation has `source < target` and `target ≤ epoch(clock at signing time)`; a SIGNED
  block has `slot ≤ clock`. The second halves are the property's own quantifier ("targets and block slots not
  beyond the clock at signing time, as duties are"). `source < target` is enforced by the attester value check of
  ssv-spec (`AttesterValueCheckF`: "attestation data source > target") before any sign request is made; the key
  manager itself does not check it. Both hypotheses are necessary: `C04_without_src_lt_tgt_full_refuted` / `C04_target_next_epoch_full_refuted` below give
  histories, accepted step by step by the signer, that end in a slashable pair when one of them is dropped.
  (The value check admits `target ≤ current epoch + 1`; that point is outside the property's quantifier and
  `C04_target_next_epoch_full_refuted` shows the signer is NOT safe there: a remove + re-add in the
  same epoch re-installs `(e-1, e)` below the signed target `e+1`.)
* `Fresh`     — only for histories that split `BumpSlashingProtection` into its separate storage steps: the
  write happens while the clock still shows the epoch / slot the bump read at its beginning.
-/
import Ssv.Proofs.Slashing

namespace Ssv.Slashing

/-! ## ties to the regenerated facts -/

/-- the two gaps the bump adds to the current epoch / slot (the model imports them; the concrete witnesses
    below are computed with these values) -/
theorem C04_tie_constants :
    Gen.ekm_minSPAttestationEpochGap = 0 ∧ Gen.ekm_minSPProposalSlotGap = 0 := by decide

/-- the records live under the two prefixes named in the property's anchors -/
theorem C04_tie_prefixes :
    Gen.ekm_highestAttPrefix = "signer_data-highest_att-" ∧
    Gen.ekm_highestProposalPrefix = "signer_data-highest_prop-" := by decide

/-- call-site facts the model's step structure relies on:
    AddShare = wallet write lock, account lookup, bump, save account; RemoveShare = wallet write lock, lookup,
    delete att record, delete proposal record, delete account; BumpSlashingProtection takes NO lock and is
    clock read, attestation update, proposal update; each update is read → (epoch) → minimal → save;
    SignBeaconObject dispatches to signBeaconObject, which takes the wallet READ lock and dispatches to the
    library signers; the constructor (= restart) touches no record. -/
theorem C04_tie_callsites :
    Gen.calls_ekm_AddShare = ["Lock", "AccountByPublicKey", "BumpSlashingProtection", "saveShare"] ∧
    Gen.calls_ekm_RemoveShare =
      ["Lock", "AccountByPublicKey", "RemoveHighestAttestation", "RemoveHighestProposal", "DeleteAccountByPublicKey"] ∧
    Gen.calls_ekm_BumpSlashingProtection = ["EstimatedCurrentSlot", "updateHighestAttestation", "updateHighestProposal"] ∧
    Gen.calls_ekm_updateHighestAttestation =
      ["RetrieveHighestAttestation", "EstimatedEpochAtSlot", "computeMinimalAttestationSP", "SaveHighestAttestation"] ∧
    Gen.calls_ekm_updateHighestProposal = ["RetrieveHighestProposal", "computeMinimalProposerSP", "SaveHighestProposal"] ∧
    Gen.calls_ekm_SignBeaconObject = ["signBeaconObject"] ∧
    Gen.calls_ekm_signBeaconObject =
      ["RLock", "SignBeaconAttestation", "SignBlindedBeaconBlock", "SignBlindedBeaconBlock", "SignBeaconBlock"] ∧
    Gen.calls_ekm_IsAttestationSlashable = ["IsSlashableAttestation"] ∧
    Gen.calls_ekm_IsBeaconBlockSlashable = ["IsSlashableProposal"] ∧
    Gen.calls_ekm_New = ["NewSignerStorage", "OpenWallet", "NewNormalProtection", "NewSimpleSigner"] := by decide

/-- pinned library: account lookup, per-account lock, far-future check(s), slashability check, record update
    and only then the signature — for attestations and for (blinded or full) blocks -/
theorem C04_tie_library_order :
    Gen.calls_lib_SignBeaconAttestation =
      ["AccountByPublicKey", "lock", "IsValidFarFutureEpoch", "IsValidFarFutureEpoch", "IsSlashableAttestation",
       "UpdateHighestAttestation", "ValidationKeySign"] ∧
    Gen.calls_lib_SignBlock =
      ["AccountByPublicKey", "lock", "IsValidFarFutureSlot", "IsSlashableProposal", "UpdateHighestProposal",
       "ValidationKeySign"] ∧
    Gen.calls_lib_SignBeaconBlock = ["SignBlock"] ∧ Gen.calls_lib_SignBlindedBeaconBlock = ["SignBlock"] := by decide

/-- who calls add / remove / reactivate -/
theorem C04_tie_event_handlers :
    Gen.calls_eh_handleShareCreation = ["AddShare"] ∧
    Gen.calls_eh_handleValidatorRemoved = ["RemoveShare"] ∧
    Gen.calls_eh_handleClusterReactivated = ["BumpSlashingProtection"] := by decide

/-- the comparison / arithmetic operators and numeric literals of the functions the model transcribes, in source
    (AST pre-order) order, string literals dropped:
    `updateHighestAttestation`: `found && high != nil`, then `hs >= minS || ht >= minT` keeps the record;
    `updateHighestProposal`: `found && hp != 0`, then `hp >= min` keeps; `computeMinimalAttestationSP`: `epoch + gap`,
    `target - 1`; `SaveHighestProposal` refuses `slot == 0`;
    library: `IsSlashableAttestation` refuses `src < hs || tgt <= ht` (after `!found`), `IsSlashableProposal` accepts
    `slot > highest` (after `slot == 0`, `!found`), `UpdateHighestAttestation` raises each component with `<`,
    `UpdateHighestProposal` saves when `!found || highest < slot`. -/
theorem C04_tie_comparisons :
    opsOnly Gen.ops_ekm_updateHighestAttestation = ["!=", "&&", "!=", "||", ">=", ">=", "!="] ∧
    opsOnly Gen.ops_ekm_updateHighestProposal = ["!=", "&&", "!=", "0", ">=", "!="] ∧
    opsOnly Gen.ops_ekm_computeMinimalAttestationSP = ["+", "-", "1", "u&", "u&", "u&"] ∧
    opsOnly Gen.ops_ekm_computeMinimalProposerSP = ["+"] ∧
    opsOnly Gen.ops_ekm_SaveHighestProposal = ["==", "==", "0"] ∧
    opsOnly Gen.ops_lib_IsSlashableAttestation = ["==", "!=", "u!", "!=", "||", "<", "<=", "u&"] ∧
    opsOnly Gen.ops_lib_IsSlashableProposal = ["==", "0", "!=", "u!", ">", "u&", "u&"] ∧
    opsOnly Gen.ops_lib_UpdateHighestAttestation = ["==", "!=", "||", "u!", "==", "!=", "<", "<", "!="] ∧
    opsOnly Gen.ops_lib_UpdateHighestProposal = ["==", "0", "!=", "||", "u!", "<", "!="] := by decide

/-- fingerprints of the four functions of the PINNED module eth2-key-manager v1.4.0 (they can only change with a
    version bump in go.mod, after which the model has to be re-read against the new source) -/
theorem C04_tie_library_sources :
    Gen.src_lib_IsSlashableAttestation = "d628eca7d7dea427" ∧
    Gen.src_lib_IsSlashableProposal = "a54c5c029bef7882" ∧
    Gen.src_lib_UpdateHighestAttestation = "bce3da6024631f6f" ∧
    Gen.src_lib_UpdateHighestProposal = "0618e1f24b682873" := by decide

/-! ## what the ghost log must never contain -/

/-- no double vote, no surrounding / surrounded pair, no two blocks for one slot — over ALL pairs of released
    signatures of the share (pairs of positions: two releases with equal `(source, target)` count as a double vote) -/
def Safe (s : State) : Prop :=
  s.atts.Pairwise (fun a b => ¬ Slashable a b) ∧ s.blocks.Nodup

instance (s : State) : Decidable (Safe s) := by unfold Safe; infer_instance

/-! ## main theorems -/

/-- C04 for every history that may split reactivations into their separate storage steps, interleaved with
    anything (sign requests, removal, restart, faults, …), provided the split bump's writes are `Fresh`.
    PARTIAL with respect to `C04_no_slashable_pair_splits_full`: what is missing is the case where the clock
    crosses an epoch / slot boundary between a bump's clock read and its write (refuted below). -/
theorem C04_no_slashable_pair_splits_partial (cfg : Cfg) (c0 : Nat) (ops : List Op)
    (hwf : Along cfg (SignedOk cfg) (init c0) ops) (hfresh : Along cfg (Fresh cfg) (init c0) ops) :
    Safe (run cfg (init c0) ops) := by
  have h := inv_run ops (inv_init cfg c0) hwf hfresh
  exact ⟨h.attSafe, h.blkSafe⟩

/-- C04 as the property text quantifies it: all sequences of {add share, remove share, reactivate, sign
    attestation, sign block, advance clock, restart on the same database} (+ storage faults inside add/remove),
    any length, any order, with signed targets / slots not beyond the clock at signing time. -/
theorem C04_no_slashable_pair (cfg : Cfg) (c0 : Nat) (ops : List Op)
    (hatomic : ∀ op ∈ ops, Op.atomic op = true)
    (hwf : Along cfg (SignedOk cfg) (init c0) ops) :
    Safe (run cfg (init c0) ops) :=
  C04_no_slashable_pair_splits_partial cfg c0 ops hwf (fresh_of_atomic ops rfl hatomic)

/-- the full statement for split reactivations (no freshness hypothesis) … -/
def C04_no_slashable_pair_splits_full : Prop :=
  ∀ (cfg : Cfg) (c0 : Nat) (ops : List Op), Along cfg (SignedOk cfg) (init c0) ops → Safe (run cfg (init c0) ops)

def cfg32 : Cfg := ⟨32, 1000000, 32000000⟩

/-- the race: epoch 12, a reactivation reads the clock and the old record (9,10) and decides to write (11,12);
    the clock moves to epoch 13; (12,13) is signed [record (12,13)]; the bump writes (11,12) — LOWERING the
    record; (11,13) is signed: double vote on target 13. The same bump then reads the proposal record 320, decides
    to write 384; slot 416 is signed [record 416]; the bump writes 384; slot 416 is signed again.
    (corpus/C04/ekm_race_stale_bump_write.ops replays exactly this on the real code.) -/
def raceWitness : List Op :=
  [.addShare, .tick 64, .bumpBegin, .bumpRead, .tick 32, .signAtt 12 13, .bumpWrite, .signAtt 11 13,
   .bumpRead, .signBlock 416, .bumpWrite, .signBlock 416]

/-- … is false of the code: `BumpSlashingProtection` is not atomic with respect to signing and writes a value
    computed from a clock reading that may be stale at the time of the write. -/
theorem C04_no_slashable_pair_splits_full_refuted : ¬ C04_no_slashable_pair_splits_full := by
  intro h
  have := h cfg32 320 raceWitness (by decide)
  revert this
  decide

/-- what the race witness releases -/
example : (run cfg32 (init 320) raceWitness).atts = [(11, 13), (12, 13)] ∧
    (run cfg32 (init 320) raceWitness).blocks = [416, 416] := by decide

/-! ## each hypothesis of `SignedOk` is needed (the real signer was run at these excluded points, see notes/C04.md) -/

/-- `SignedOk` without `source < target` -/
def SignedOkNoSrc (cfg : Cfg) (s : State) (op : Op) : Prop :=
  (step cfg s op).2 = .signed →
    match op with
    | .signAtt _ y => y ≤ epochOf cfg s.clock
    | .signBlock slot => slot ≤ s.clock
    | _ => True

instance (cfg : Cfg) (s : State) (op : Op) : Decidable (SignedOkNoSrc cfg s op) := by
  unfold SignedOkNoSrc
  cases op <;> dsimp only <;> infer_instance

def C04_without_src_lt_tgt_full : Prop :=
  ∀ (cfg : Cfg) (c0 : Nat) (ops : List Op), (∀ op ∈ ops, Op.atomic op = true) →
    Along cfg (SignedOkNoSrc cfg) (init c0) ops → Safe (run cfg (init c0) ops)

/-- (50,11) is signed at epoch 11 (the signer accepts source ≥ target); remove + re-add installs (10,11);
    at epoch 60 (20,60) is signed: it surrounds (50,11). -/
theorem C04_without_src_lt_tgt_full_refuted : ¬ C04_without_src_lt_tgt_full := by
  intro h
  have := h cfg32 320 [.addShare, .tick 32, .signAtt 50 11, .removeShare, .addShare, .tick 1568, .signAtt 20 60]
    (by decide) (by decide)
  revert this
  decide

/-- `SignedOk` with the clock bound relaxed to what the ssv-spec value check admits (`target ≤ current epoch + 1`,
    `slot ≤ clock + 1`) -/
def SignedOkNextEpoch (cfg : Cfg) (s : State) (op : Op) : Prop :=
  (step cfg s op).2 = .signed →
    match op with
    | .signAtt x y => x < y ∧ y ≤ epochOf cfg s.clock + 1
    | .signBlock slot => slot ≤ s.clock + 1
    | _ => True

instance (cfg : Cfg) (s : State) (op : Op) : Decidable (SignedOkNextEpoch cfg s op) := by
  unfold SignedOkNextEpoch
  cases op <;> dsimp only <;> infer_instance

def C04_target_next_epoch_full : Prop :=
  ∀ (cfg : Cfg) (c0 : Nat) (ops : List Op), (∀ op ∈ ops, Op.atomic op = true) →
    Along cfg (SignedOkNextEpoch cfg) (init c0) ops → Safe (run cfg (init c0) ops)

/-- epoch 10: (10,11) is signed (target = next epoch); remove + re-add in the same epoch installs (9,10);
    (9,11) is signed: double vote on 11. Same with slot 321 at clock 320. -/
theorem C04_target_next_epoch_full_refuted : ¬ C04_target_next_epoch_full := by
  intro h
  have := h cfg32 320 [.addShare, .signAtt 10 11, .signBlock 321, .removeShare, .addShare, .signAtt 9 11, .signBlock 321]
    (by decide) (by decide)
  revert this
  decide

/-! ## missing record ⇒ refuse; a signature is only released after check and update -/

/-- no attestation record (never written, deleted by a half-finished removal, …) ⇒ the request is refused,
    nothing is released and nothing changes — whatever else the state is -/
theorem C04_refuse_when_missing (cfg : Cfg) (s : State) (x y : Nat) (h : s.d.att = none) :
    (step cfg s (.signAtt x y)).1 = s ∧ ∃ r, (step cfg s (.signAtt x y)).2 = .refused r := by
  simp only [step, stepSignAtt, h]
  repeat' split
  all_goals exact ⟨rfl, _, rfl⟩

/-- … with the library's own reason when the account exists and the epochs pass the far-future check -/
theorem C04_refuse_when_missing_tag (cfg : Cfg) (s : State) (x y : Nat) (h : s.d.att = none)
    (hacc : s.d.account = true) (hx : x ≤ cfg.ffEpoch) (hy : y ≤ cfg.ffEpoch) :
    step cfg s (.signAtt x y) = (s, .refused .attMissing) := by
  simp only [step, stepSignAtt, h, hacc]
  rw [if_neg (by simp), if_neg (by omega), if_neg (by omega)]

theorem C04_refuse_when_missing_block (cfg : Cfg) (s : State) (slot : Nat) (h : s.d.prop = none) :
    (step cfg s (.signBlock slot)).1 = s ∧ ∃ r, (step cfg s (.signBlock slot)).2 = .refused r := by
  simp only [step, stepSignBlock, h]
  repeat' split
  all_goals exact ⟨rfl, _, rfl⟩

theorem C04_refuse_when_missing_block_tag (cfg : Cfg) (s : State) (slot : Nat) (h : s.d.prop = none)
    (hacc : s.d.account = true) (hs : slot ≤ cfg.ffSlot) (h0 : slot ≠ 0) :
    step cfg s (.signBlock slot) = (s, .refused .propMissing) := by
  simp only [step, stepSignBlock, h, hacc]
  rw [if_neg (by simp), if_neg (by omega), if_neg h0]

/-- the pre-sign checks `IsAttestationSlashable` / `IsBeaconBlockSlashable` report a missing record as an error -/
theorem C04_check_missing (x y slot : Nat) (h0 : slot ≠ 0) :
    checkAtt none x y = some .attMissing ∧ checkProp none slot = some .propMissing := by
  simp [checkAtt, checkProp, h0]

/-- no account (removed share, never added) ⇒ refuse -/
theorem C04_refuse_without_account (cfg : Cfg) (s : State) (x y slot : Nat) (h : s.d.account = false) :
    step cfg s (.signAtt x y) = (s, .refused .noAccount) ∧
    step cfg s (.signBlock slot) = (s, .refused .noAccount) := by
  simp [step, stepSignAtt, stepSignBlock, h]

/-- a state with the account present and the attestation record missing is reachable (a removal whose second
    delete fails), and there attestation requests are refused while the intact proposal record still works -/
example :
    let s := run cfg32 (init 320) [.addShare, .removeFail 1]
    s.d = ⟨none, some 320, true⟩ ∧
    step cfg32 s (.signAtt 9 10) = (s, .refused .attMissing) ∧
    (step cfg32 s (.signBlock 0)).2 = .refused .slotZero := by decide

/-- a released attestation signature implies: account present, record present, request not below the record in
    source and strictly above it in target, and the record was raised to dominate the request in the same step -/
theorem C04_signed_only_after_check_and_update (cfg : Cfg) (s : State) (x y : Nat)
    (h : (step cfg s (.signAtt x y)).2 = .signed) :
    s.d.account = true ∧ ∃ hs ht, s.d.att = some (hs, ht) ∧ hs ≤ x ∧ ht < y ∧
      (step cfg s (.signAtt x y)).1.d.att = some (x, y) ∧
      (step cfg s (.signAtt x y)).1.atts = (x, y) :: s.atts := by
  rcases stepSignAtt_cases cfg s x y with ⟨_, h2⟩ | ⟨hs, ht, hatt, hx, hy, hacc, _, _, heq⟩
  · exact absurd h h2
  · have hx' : hs ≤ x := by omega
    have hy' : ht < y := by omega
    have hupd : updAtt (hs, ht) x y = (x, y) := by
      refine Prod.ext ?_ ?_ <;> simp only [updAtt] <;> split <;> omega
    refine ⟨hacc, hs, ht, hatt, hx', hy', ?_, ?_⟩
    · simp only [step, heq, hupd]
    · simp only [step, heq]

theorem C04_block_signed_only_after_check_and_update (cfg : Cfg) (s : State) (slot : Nat)
    (h : (step cfg s (.signBlock slot)).2 = .signed) :
    s.d.account = true ∧ ∃ hp, s.d.prop = some hp ∧ hp < slot ∧
      (step cfg s (.signBlock slot)).1.d.prop = some slot ∧
      (step cfg s (.signBlock slot)).1.blocks = slot :: s.blocks := by
  rcases stepSignBlock_cases cfg s slot with ⟨_, h2⟩ | ⟨hp, hprop, hc, hacc, _, heq⟩
  · exact absurd h h2
  · exact ⟨hacc, hp, hprop, hc, by simp only [step, heq], by simp only [step, heq]⟩

/-- a sign request whose record write fails (storage error, or the database is closed under the request between
    its check and its write) releases NOTHING and changes nothing — for every state; when the plain request would
    have been signed the refusal is `writeFailed`, otherwise it is the plain request's own refusal.
    Together with `C04_signed_only_after_check_and_update`: released ⇒ the raised record was written. -/
theorem C04_failed_write_refuses (cfg : Cfg) (s : State) (x y slot : Nat) :
    (step cfg s (.signAttFault x y)).1 = s ∧ (step cfg s (.signAttFault x y)).2 ≠ .signed ∧
    (step cfg s (.signBlockFault slot)).1 = s ∧ (step cfg s (.signBlockFault slot)).2 ≠ .signed ∧
    ((step cfg s (.signAtt x y)).2 = .signed → (step cfg s (.signAttFault x y)).2 = .refused .writeFailed) ∧
    ((step cfg s (.signBlock slot)).2 = .signed → (step cfg s (.signBlockFault slot)).2 = .refused .writeFailed) := by
  refine ⟨(stepSignAttFault_state cfg s x y).1, (stepSignAttFault_state cfg s x y).2,
    (stepSignBlockFault_state cfg s slot).1, (stepSignBlockFault_state cfg s slot).2, ?_, ?_⟩
  · intro h
    simp only [step] at h ⊢
    unfold stepSignAttFault
    split
    · rfl
    · rename_i o hne heq
      rw [heq] at h
      simp only at h
      subst h
      first | exact (hne _).elim | exact (hne _ rfl).elim | exact (hne rfl).elim
  · intro h
    simp only [step] at h ⊢
    unfold stepSignBlockFault
    split
    · rfl
    · rename_i o hne heq
      rw [heq] at h
      simp only at h
      subst h
      first | exact (hne _).elim | exact (hne _ rfl).elim | exact (hne rfl).elim

/-- non-vacuity: a request that would be signed is refused with `writeFailed` when its write fails, the record
    stays (10,11) after the following restart, and the same target is then still protected -/
example :
    let s := run cfg32 (init 320) [.addShare, .tick 40, .signAtt 10 11, .tick 32]
    (step cfg32 s (.signAtt 11 12)).2 = .signed ∧
    (step cfg32 s (.signAttFault 11 12)).2 = .refused .writeFailed ∧
    (run cfg32 s [.signAttFault 11 12, .restart, .signAtt 9 11]).atts = [(10, 11)] ∧
    (run cfg32 s [.signAttFault 11 12, .restart, .signAtt 9 11]).d.att = some (10, 11) := by decide

/-! ## restart -/

/-- a restart changes nothing durable and releases nothing; it only kills an in-flight bump -/
theorem C04_restart_identity (cfg : Cfg) (s : State) :
    (step cfg s .restart).1.d = s.d ∧ (step cfg s .restart).1.atts = s.atts ∧
    (step cfg s .restart).1.blocks = s.blocks ∧ (step cfg s .restart).1.clock = s.clock ∧
    (s.pend = none → (step cfg s .restart).1 = s) := by
  refine ⟨rfl, rfl, rfl, rfl, ?_⟩
  intro h
  simp only [step]
  cases s
  simp_all

/-! ## non-vacuity: concrete non-trivial histories satisfy the hypotheses -/

/-- a history with signatures before and after a restart, a refused double vote, a remove + re-add, a
    reactivation, a storage fault and clock advances: it is atomic and `SignedOk`, four attestations and two
    blocks are released, and they are safe -/
def sampleHistory : List Op :=
  [.addShare, .signAtt 9 10, .signBlock 320, .tick 40, .signAtt 10 11, .signAtt 9 11, .signBlock 350, .restart,
   .signAtt 10 11, .tick 64, .signAtt 11 13, .removeShare, .signAtt 12 13, .addShare, .signAtt 12 13,
   .signBlock 424, .tick 32, .bump, .tick 32, .signAtt 14 15, .signBlock 480, .removeFail 1, .signAtt 14 16]

example : (∀ op ∈ sampleHistory, Op.atomic op = true) ∧
    Along cfg32 (SignedOk cfg32) (init 320) sampleHistory ∧
    (run cfg32 (init 320) sampleHistory).atts = [(14, 15), (11, 13), (10, 11)] ∧
    (run cfg32 (init 320) sampleHistory).blocks = [480, 350] ∧
    (run cfg32 (init 320) sampleHistory).d = ⟨none, some 480, true⟩ := by decide

/-- a split reactivation interleaved with sign requests, `Fresh` and `SignedOk` both hold, signatures are released -/
def sampleSplit : List Op :=
  [.addShare, .tick 64, .bumpBegin, .bumpRead, .signAtt 10 12, .bumpWrite, .bumpRead, .signBlock 380, .bumpWrite,
   .tick 32, .signAtt 12 13, .signBlock 400]

example : Along cfg32 (SignedOk cfg32) (init 320) sampleSplit ∧
    Along cfg32 (Fresh cfg32) (init 320) sampleSplit ∧
    (run cfg32 (init 320) sampleSplit).atts = [(12, 13), (10, 12)] ∧
    (run cfg32 (init 320) sampleSplit).blocks = [400, 380] := by decide

/-- the race witness satisfies `SignedOk` (so only `Fresh` separates it from the partial theorem) and violates `Fresh` -/
example : Along cfg32 (SignedOk cfg32) (init 320) raceWitness ∧ ¬ Along cfg32 (Fresh cfg32) (init 320) raceWitness := by
  decide

end Ssv.Slashing
