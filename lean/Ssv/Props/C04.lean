/-
C04 — An operator never signs a slashable attestation or block, across restarts.
Property theorems only (model: Ssv/Model/Slashing.lean, invariant and lemmas: Ssv/Proofs/Slashing.lean).

All statements quantify over EVERY operation history (`List Op`, any length, any order of
add / add-with-storage-fault / remove / remove-with-storage-fault / reactivate (whole or split into its clock read,
record reads and record writes) / sign attestation / sign block / sign with failing record write / clock advance /
restart / resume), every clock start and every network parameter.

Current semantics (`step`, /repo commit 23d9c6c97): `BumpSlashingProtection` holds the wallet lock for writing, so
while a split bump is in flight only the clock can advance or the process restart; a lock-taking request issued
meanwhile is delayed and executes when the bump has finished. `C04_no_slashable_pair` is the FULL statement for that
op alphabet. The semantics before the fix (`stepOld`) is kept with its 12-op double-vote witness as a regression
lemma (`C04_old_split_bump_refuted`).

The only hypothesis (`Along cfg (SignedOk cfg) s ops`, a per-step guard): every signature RELEASED by a step has
`source < target ≤ epoch(clock at its release)` (attestation) / `slot ≤ clock` (block).
* The clock halves are the property's own quantifier ("targets and block slots not beyond the clock at signing
  time, as duties are").
* `source < target` is enforced by the attester value check of ssv-spec (`AttesterValueCheckF`: "attestation data
  source > target") before any sign request is made; the key manager itself does not check it.
* Both are necessary: `C04_without_src_lt_tgt_full_refuted` / `C04_target_next_epoch_full_refuted` give histories,
  accepted step by step by the signer, that end in a slashable pair when one of them is dropped. (The value check
  admits `target ≤ current epoch + 1`; that point is outside the property's quantifier and the signer is NOT safe
  there: a remove + re-add in the same epoch re-installs `(e-1, e)` below the signed target `e+1`.)
-/
import Ssv.Proofs.Slashing

namespace Ssv.Slashing

/-! ## ties to the regenerated facts -/

/-- the two gaps the bump adds to the current epoch / slot (the model imports them; the concrete witnesses
    below are computed with these values) -/
theorem C04_tie_constants :
    Gen.ekm_minSPAttestationEpochGap = 0 ∧ Gen.ekm_minSPProposalSlotGap = 0 := by decide

/-- the records live under the two prefixes named in the property's anchors -/
theorem C04_tie_prefixes :
    Gen.ekm_highestAttPrefix = "signer_data-highest_att-" ∧
    Gen.ekm_highestProposalPrefix = "signer_data-highest_prop-" := by decide

/-- call-site facts the model's step structure relies on:
    AddShare = wallet write lock, account lookup, UNLOCKED bump, save account; RemoveShare = wallet write lock, lookup,
    delete att record, delete proposal record, delete account; BumpSlashingProtection = wallet WRITE lock, then the
    unlocked bump = clock read, attestation update, proposal update; each update is read → (epoch) → minimal → save;
    SignBeaconObject dispatches to signBeaconObject, which takes the wallet READ lock and dispatches to the
    library signers; the constructor (= restart) touches no record. -/
theorem C04_tie_callsites :
    Gen.calls_ekm_AddShare = ["Lock", "AccountByPublicKey", "bumpSlashingProtection", "saveShare"] ∧
    Gen.calls_ekm_RemoveShare =
      ["Lock", "AccountByPublicKey", "RemoveHighestAttestation", "RemoveHighestProposal", "DeleteAccountByPublicKey"] ∧
    Gen.calls_ekm_BumpSlashingProtection = ["Lock", "bumpSlashingProtection"] ∧
    Gen.calls_ekm_bumpUnlocked = ["EstimatedCurrentSlot", "updateHighestAttestation", "updateHighestProposal"] ∧
    Gen.calls_ekm_updateHighestAttestation =
      ["RetrieveHighestAttestation", "EstimatedEpochAtSlot", "computeMinimalAttestationSP", "SaveHighestAttestation"] ∧
    Gen.calls_ekm_updateHighestProposal = ["RetrieveHighestProposal", "computeMinimalProposerSP", "SaveHighestProposal"] ∧
    Gen.calls_ekm_SignBeaconObject = ["signBeaconObject"] ∧
    Gen.calls_ekm_signBeaconObject =
      ["RLock", "SignBeaconAttestation", "SignBlindedBeaconBlock", "SignBlindedBeaconBlock", "SignBeaconBlock"] ∧
    Gen.calls_ekm_IsAttestationSlashable = ["IsSlashableAttestation"] ∧
    Gen.calls_ekm_IsBeaconBlockSlashable = ["IsSlashableProposal"] ∧
    Gen.calls_ekm_New = ["NewSignerStorage", "OpenWallet", "NewNormalProtection", "NewSimpleSigner"] := by decide

/-- pinned library: account lookup, per-account lock, far-future check(s), slashability check, record update
    and only then the signature — for attestations and for (blinded or full) blocks -/
theorem C04_tie_library_order :
    Gen.calls_lib_SignBeaconAttestation =
      ["AccountByPublicKey", "lock", "IsValidFarFutureEpoch", "IsValidFarFutureEpoch", "IsSlashableAttestation",
       "UpdateHighestAttestation", "ValidationKeySign"] ∧
    Gen.calls_lib_SignBlock =
      ["AccountByPublicKey", "lock", "IsValidFarFutureSlot", "IsSlashableProposal", "UpdateHighestProposal",
       "ValidationKeySign"] ∧
    Gen.calls_lib_SignBeaconBlock = ["SignBlock"] ∧ Gen.calls_lib_SignBlindedBeaconBlock = ["SignBlock"] := by decide

/-- who calls add / remove / reactivate -/
theorem C04_tie_event_handlers :
    Gen.calls_eh_handleShareCreation = ["AddShare"] ∧
    Gen.calls_eh_handleValidatorRemoved = ["RemoveShare"] ∧
    Gen.calls_eh_handleClusterReactivated = ["BumpSlashingProtection"] := by decide

/-- the comparison / arithmetic operators and numeric literals of the functions the model transcribes, in source
    (AST pre-order) order, string literals dropped:
    `updateHighestAttestation`: `found && high != nil`, then `hs >= minS || ht >= minT` keeps the record;
    `updateHighestProposal`: `found && hp != 0`, then `hp >= min` keeps; `computeMinimalAttestationSP`: `epoch + gap`,
    `target - 1`; `SaveHighestProposal` refuses `slot == 0`;
    library: `IsSlashableAttestation` refuses `src < hs || tgt <= ht` (after `!found`), `IsSlashableProposal` accepts
    `slot > highest` (after `slot == 0`, `!found`), `UpdateHighestAttestation` raises each component with `<`,
    `UpdateHighestProposal` saves when `!found || highest < slot`. -/
theorem C04_tie_comparisons :
    opsOnly Gen.ops_ekm_updateHighestAttestation = ["!=", "&&", "!=", "||", ">=", ">=", "!="] ∧
    opsOnly Gen.ops_ekm_updateHighestProposal = ["!=", "&&", "!=", "0", ">=", "!="] ∧
    opsOnly Gen.ops_ekm_computeMinimalAttestationSP = ["+", "-", "1", "u&", "u&", "u&"] ∧
    opsOnly Gen.ops_ekm_computeMinimalProposerSP = ["+"] ∧
    opsOnly Gen.ops_ekm_SaveHighestProposal = ["==", "==", "0"] ∧
    opsOnly Gen.ops_lib_IsSlashableAttestation = ["==", "!=", "u!", "!=", "||", "<", "<=", "u&"] ∧
    opsOnly Gen.ops_lib_IsSlashableProposal = ["==", "0", "!=", "u!", ">", "u&", "u&"] ∧
    opsOnly Gen.ops_lib_UpdateHighestAttestation = ["==", "!=", "||", "u!", "==", "!=", "<", "<", "!="] ∧
    opsOnly Gen.ops_lib_UpdateHighestProposal = ["==", "0", "!=", "||", "u!", "<", "!="] := by decide

/-- fingerprints of the four functions of the PINNED module eth2-key-manager v1.4.0 (they can only change with a
    version bump in go.mod, after which the model has to be re-read against the new source) -/
theorem C04_tie_library_sources :
    Gen.src_lib_IsSlashableAttestation = "0d3fcaf5e4b7ad7e" ∧
    Gen.src_lib_IsSlashableProposal = "401204009a0440b5" ∧
    Gen.src_lib_UpdateHighestAttestation = "53158a76bf1028e3" ∧
    Gen.src_lib_UpdateHighestProposal = "1e88491297e3c86d" := by decide

/-! ## what the ghost log must never contain -/

/-- no double vote, no surrounding / surrounded pair, no two blocks for one slot — over ALL pairs of released
    signatures of the share (pairs of positions: two releases with equal `(source, target)` count as a double vote) -/
def Safe (s : State) : Prop :=
  s.atts.Pairwise (fun a b => ¬ Slashable a b) ∧ s.blocks.Nodup

instance (s : State) : Decidable (Safe s) := by unfold Safe; infer_instance

/-! ## main theorem -/

/-- C04, FULL: every history over the whole op alphabet — add / remove share (also with storage faults in the
    middle), reactivation as one op or split into its separate steps interleaved with anything, sign requests (also
    issued while a bump is in flight: they wait for it), failing record writes, clock advances, restarts — any
    length, any order: if every released signature is within the clock at its release (and `source < target`), the
    released signatures contain no double vote, no surround pair and no two blocks for one slot. -/
theorem C04_no_slashable_pair (cfg : Cfg) (c0 : Nat) (ops : List Op)
    (hwf : Along cfg (SignedOk cfg) (init c0) ops) :
    Safe (run cfg (init c0) ops) := by
  have h := inv_run ops (inv_init cfg c0) hwf
  exact ⟨h.attSafe, h.blkSafe⟩

def cfg32 : Cfg := ⟨32, 1000000, 32000000⟩

/-! ## regression: the semantics before the fix (bump without the wallet lock) -/

/-- the old hypothesis on a step of the OLD semantics -/
def SignedOkOld (cfg : Cfg) (s : State) (op : Op) : Prop := NewOk cfg s (stepOld cfg s op).1

def AlongOld (cfg : Cfg) (s : State) : List Op → Prop
  | [] => True
  | op :: ops => SignedOkOld cfg s op ∧ AlongOld cfg (stepOld cfg s op).1 ops

instance (cfg : Cfg) (s : State) (op : Op) : Decidable (SignedOkOld cfg s op) := by
  unfold SignedOkOld; infer_instance

def decAlongOld (cfg : Cfg) : ∀ (s : State) (ops : List Op), Decidable (AlongOld cfg s ops)
  | _, [] => isTrue trivial
  | s, op :: ops =>
    match (inferInstance : Decidable (SignedOkOld cfg s op)), decAlongOld cfg (stepOld cfg s op).1 ops with
    | isTrue h1, isTrue h2 => isTrue ⟨h1, h2⟩
    | isFalse h1, _ => isFalse (fun h => h1 h.1)
    | _, isFalse h2 => isFalse (fun h => h2 h.2)

instance (cfg : Cfg) (s : State) (ops : List Op) : Decidable (AlongOld cfg s ops) := decAlongOld cfg s ops

/-- the statement for the OLD semantics … -/
def C04_old_split_bump : Prop :=
  ∀ (cfg : Cfg) (c0 : Nat) (ops : List Op), AlongOld cfg (init c0) ops → Safe (runOld cfg (init c0) ops)

/-- the race: epoch 12, a reactivation reads the clock and the old record (9,10) and decides to write (11,12);
    the clock moves to epoch 13; (12,13) is signed [record (12,13)]; the bump writes (11,12) — LOWERING the
    record; (11,13) is signed: double vote on target 13. The same bump then reads the proposal record 320, decides
    to write 384; slot 416 is signed [record 416]; the bump writes 384; slot 416 is signed again.
    (corpus/C04/ekm_race_stale_bump_write.ops is this history.) -/
def raceWitness : List Op :=
  [.addShare, .tick 64, .bumpBegin, .bumpRead, .tick 32, .signAtt 12 13, .bumpWrite, .signAtt 11 13,
   .bumpRead, .signBlock 416, .bumpWrite, .signBlock 416]

/-- … was false: a bump that is not atomic with respect to signing writes a value computed from a clock reading that
    may be stale at the time of the write (reproduced on the real code before commit 23d9c6c97) -/
theorem C04_old_split_bump_refuted : ¬ C04_old_split_bump := by
  intro h
  have := h cfg32 320 raceWitness (by decide)
  revert this
  decide

/-- what the race witness released under the old semantics … -/
example : (runOld cfg32 (init 320) raceWitness).atts = [(11, 13), (12, 13)] ∧
    (runOld cfg32 (init 320) raceWitness).blocks = [416, 416] := by decide

/-- … and what the same 12 ops (followed by collecting the delayed outcomes) do now: the first sign request waits for
    the bump, is signed when it finishes ((12,13), record (12,13)); every later conflicting request is refused -/
example :
    Along cfg32 (SignedOk cfg32) (init 320) raceWitness ∧
    (run cfg32 (init 320) raceWitness).atts = [(12, 13)] ∧
    (run cfg32 (init 320) raceWitness).blocks = [416] ∧
    (run cfg32 (init 320) raceWitness).d = ⟨some (12, 13), some 416, true⟩ := by decide

/-! ## each hypothesis of `SignedOk` is needed (the real signer was run at these excluded points, see notes/C04.md) -/

/-- `SignedOk` without `source < target` -/
def SignedOkNoSrc (cfg : Cfg) (s : State) (op : Op) : Prop :=
  (∀ a ∈ (step cfg s op).1.atts, a ∈ s.atts ∨ a.2 ≤ epochOf cfg s.clock) ∧
  (∀ b ∈ (step cfg s op).1.blocks, b ∈ s.blocks ∨ b ≤ s.clock)

instance (cfg : Cfg) (s : State) (op : Op) : Decidable (SignedOkNoSrc cfg s op) := by
  unfold SignedOkNoSrc; infer_instance

def C04_without_src_lt_tgt_full : Prop :=
  ∀ (cfg : Cfg) (c0 : Nat) (ops : List Op),
    Along cfg (SignedOkNoSrc cfg) (init c0) ops → Safe (run cfg (init c0) ops)

/-- (50,11) is signed at epoch 11 (the signer accepts source ≥ target); remove + re-add installs (10,11);
    at epoch 60 (20,60) is signed: it surrounds (50,11). -/
theorem C04_without_src_lt_tgt_full_refuted : ¬ C04_without_src_lt_tgt_full := by
  intro h
  have := h cfg32 320 [.addShare, .tick 32, .signAtt 50 11, .removeShare, .addShare, .tick 1568, .signAtt 20 60]
    (by decide)
  revert this
  decide

/-- `SignedOk` with the clock bound relaxed to what the ssv-spec value check admits (`target ≤ current epoch + 1`,
    `slot ≤ clock + 1`) -/
def SignedOkNextEpoch (cfg : Cfg) (s : State) (op : Op) : Prop :=
  (∀ a ∈ (step cfg s op).1.atts, a ∈ s.atts ∨ (a.1 < a.2 ∧ a.2 ≤ epochOf cfg s.clock + 1)) ∧
  (∀ b ∈ (step cfg s op).1.blocks, b ∈ s.blocks ∨ b ≤ s.clock + 1)

instance (cfg : Cfg) (s : State) (op : Op) : Decidable (SignedOkNextEpoch cfg s op) := by
  unfold SignedOkNextEpoch; infer_instance

def C04_target_next_epoch_full : Prop :=
  ∀ (cfg : Cfg) (c0 : Nat) (ops : List Op),
    Along cfg (SignedOkNextEpoch cfg) (init c0) ops → Safe (run cfg (init c0) ops)

/-- epoch 10: (10,11) is signed (target = next epoch); remove + re-add in the same epoch installs (9,10);
    (9,11) is signed: double vote on 11. Same with slot 321 at clock 320. -/
theorem C04_target_next_epoch_full_refuted : ¬ C04_target_next_epoch_full := by
  intro h
  have := h cfg32 320 [.addShare, .signAtt 10 11, .signBlock 321, .removeShare, .addShare, .signAtt 9 11, .signBlock 321]
    (by decide)
  revert this
  decide

/-! ## missing record ⇒ refuse; a signature is only released after check and update, never during a bump -/

/-- no attestation record (never written, deleted by a half-finished removal, …) ⇒ the request, when it executes, is
    refused, nothing is released and nothing changes — whatever else the state is -/
theorem C04_refuse_when_missing (cfg : Cfg) (s : State) (x y : Nat) (h : s.d.att = none) :
    (stepFree cfg s (.signAtt x y)).1 = s ∧ ∃ r, (stepFree cfg s (.signAtt x y)).2 = .refused r := by
  simp only [stepFree, stepSignAtt, h]
  repeat' split
  all_goals exact ⟨rfl, _, rfl⟩

/-- … with the library's own reason when the account exists and the epochs pass the far-future check -/
theorem C04_refuse_when_missing_tag (cfg : Cfg) (s : State) (x y : Nat) (h : s.d.att = none)
    (hacc : s.d.account = true) (hx : x ≤ cfg.ffEpoch) (hy : y ≤ cfg.ffEpoch) :
    stepFree cfg s (.signAtt x y) = (s, .refused .attMissing) := by
  simp only [stepFree, stepSignAtt, h, hacc]
  rw [if_neg (by simp), if_neg (by omega), if_neg (by omega)]

theorem C04_refuse_when_missing_block (cfg : Cfg) (s : State) (slot : Nat) (h : s.d.prop = none) :
    (stepFree cfg s (.signBlock slot)).1 = s ∧ ∃ r, (stepFree cfg s (.signBlock slot)).2 = .refused r := by
  simp only [stepFree, stepSignBlock, h]
  repeat' split
  all_goals exact ⟨rfl, _, rfl⟩

theorem C04_refuse_when_missing_block_tag (cfg : Cfg) (s : State) (slot : Nat) (h : s.d.prop = none)
    (hacc : s.d.account = true) (hs : slot ≤ cfg.ffSlot) (h0 : slot ≠ 0) :
    stepFree cfg s (.signBlock slot) = (s, .refused .propMissing) := by
  simp only [stepFree, stepSignBlock, h, hacc]
  rw [if_neg (by simp), if_neg (by omega), if_neg h0]

/-- the pre-sign checks `IsAttestationSlashable` / `IsBeaconBlockSlashable` report a missing record as an error -/
theorem C04_check_missing (x y slot : Nat) (h0 : slot ≠ 0) :
    checkAtt none x y = some .attMissing ∧ checkProp none slot = some .propMissing := by
  simp [checkAtt, checkProp, h0]

/-- no account (removed share, never added) ⇒ refuse -/
theorem C04_refuse_without_account (cfg : Cfg) (s : State) (x y slot : Nat) (h : s.d.account = false) :
    stepFree cfg s (.signAtt x y) = (s, .refused .noAccount) ∧
    stepFree cfg s (.signBlock slot) = (s, .refused .noAccount) := by
  simp [stepFree, stepSignAtt, stepSignBlock, h]

/-- a request issued while a bump is in flight releases nothing and touches no record: it waits (or is rejected when
    another request is already waiting) -/
theorem C04_request_during_bump_waits (cfg : Cfg) (s : State) (x y slot : Nat) (h : s.pend.isSome = true) :
    (step cfg s (.signAtt x y)).2 ≠ .signed ∧ (step cfg s (.signBlock slot)).2 ≠ .signed ∧
    (step cfg s (.signAtt x y)).1.d = s.d ∧ (step cfg s (.signAtt x y)).1.atts = s.atts ∧
    (step cfg s (.signBlock slot)).1.d = s.d ∧ (step cfg s (.signBlock slot)).1.blocks = s.blocks := by
  simp only [step, blockOrRun, h, if_true]
  by_cases hd : s.delayed.isSome = true <;> simp [hd]

/-- a state with the account present and the attestation record missing is reachable (a removal whose second
    delete fails), and there attestation requests are refused while the intact proposal record still works -/
example :
    let s := run cfg32 (init 320) [.addShare, .removeFail 1]
    s.d = ⟨none, some 320, true⟩ ∧
    step cfg32 s (.signAtt 9 10) = (s, .refused .attMissing) ∧
    (step cfg32 s (.signBlock 0)).2 = .refused .slotZero := by decide

/-- a released attestation signature implies: no bump in flight, account present, record present, request not below
    the record in source and strictly above it in target, and the record was raised to the request in the same step -/
theorem C04_signed_only_after_check_and_update (cfg : Cfg) (s : State) (x y : Nat)
    (h : (step cfg s (.signAtt x y)).2 = .signed) :
    s.pend = none ∧ s.d.account = true ∧ ∃ hs ht, s.d.att = some (hs, ht) ∧ hs ≤ x ∧ ht < y ∧
      (step cfg s (.signAtt x y)).1.d.att = some (x, y) ∧
      (step cfg s (.signAtt x y)).1.atts = (x, y) :: s.atts := by
  have hp : s.pend = none := by
    cases hs : s.pend with
    | none => rfl
    | some pc =>
      exfalso
      have := (C04_request_during_bump_waits cfg s x y 0 (by simp [hs])).1
      exact this h
  have hstep : step cfg s (.signAtt x y) = stepSignAtt cfg s x y := by
    simp [step, blockOrRun, hp, stepFree]
  rw [hstep] at h ⊢
  rcases stepSignAtt_cases cfg s x y with ⟨_, h2⟩ | ⟨hs, ht, hatt, hx, hy, hacc, _, _, heq⟩
  · exact absurd h h2
  · have hx' : hs ≤ x := by omega
    have hy' : ht < y := by omega
    have hupd : updAtt (hs, ht) x y = (x, y) := by
      refine Prod.ext ?_ ?_ <;> simp only [updAtt] <;> split <;> omega
    refine ⟨hp, hacc, hs, ht, hatt, hx', hy', ?_, ?_⟩
    · simp only [heq, hupd]
    · simp only [heq]

theorem C04_block_signed_only_after_check_and_update (cfg : Cfg) (s : State) (slot : Nat)
    (h : (step cfg s (.signBlock slot)).2 = .signed) :
    s.pend = none ∧ s.d.account = true ∧ ∃ hp, s.d.prop = some hp ∧ hp < slot ∧
      (step cfg s (.signBlock slot)).1.d.prop = some slot ∧
      (step cfg s (.signBlock slot)).1.blocks = slot :: s.blocks := by
  have hp : s.pend = none := by
    cases hs : s.pend with
    | none => rfl
    | some pc =>
      exfalso
      have := (C04_request_during_bump_waits cfg s 0 0 slot (by simp [hs])).2.1
      exact this h
  have hstep : step cfg s (.signBlock slot) = stepSignBlock cfg s slot := by
    simp [step, blockOrRun, hp, stepFree]
  rw [hstep] at h ⊢
  rcases stepSignBlock_cases cfg s slot with ⟨_, h2⟩ | ⟨hp', hprop, hc, hacc, _, heq⟩
  · exact absurd h h2
  · exact ⟨hp, hacc, hp', hprop, hc, by simp only [heq], by simp only [heq]⟩

/-- a sign request whose record write fails (storage error, or the database is closed under the request between
    its check and its write) releases NOTHING and changes nothing — for every state; when the plain request would
    have been signed the refusal is `writeFailed`, otherwise it is the plain request's own refusal.
    Together with `C04_signed_only_after_check_and_update`: released ⇒ the raised record was written. -/
theorem C04_failed_write_refuses (cfg : Cfg) (s : State) (x y slot : Nat) :
    (stepFree cfg s (.signAttFault x y)).1 = s ∧ (stepFree cfg s (.signAttFault x y)).2 ≠ .signed ∧
    (stepFree cfg s (.signBlockFault slot)).1 = s ∧ (stepFree cfg s (.signBlockFault slot)).2 ≠ .signed ∧
    ((stepFree cfg s (.signAtt x y)).2 = .signed → (stepFree cfg s (.signAttFault x y)).2 = .refused .writeFailed) ∧
    ((stepFree cfg s (.signBlock slot)).2 = .signed → (stepFree cfg s (.signBlockFault slot)).2 = .refused .writeFailed) := by
  refine ⟨(stepSignAttFault_state cfg s x y).1, (stepSignAttFault_state cfg s x y).2,
    (stepSignBlockFault_state cfg s slot).1, (stepSignBlockFault_state cfg s slot).2, ?_, ?_⟩
  · intro h
    simp only [stepFree] at h ⊢
    unfold stepSignAttFault
    split
    · rfl
    · rename_i o hne heq
      rw [heq] at h
      simp only at h
      subst h
      first | exact (hne _).elim | exact (hne _ rfl).elim | exact (hne rfl).elim
  · intro h
    simp only [stepFree] at h ⊢
    unfold stepSignBlockFault
    split
    · rfl
    · rename_i o hne heq
      rw [heq] at h
      simp only at h
      subst h
      first | exact (hne _).elim | exact (hne _ rfl).elim | exact (hne rfl).elim

/-- non-vacuity: a request that would be signed is refused with `writeFailed` when its write fails, the record
    stays (10,11) after the following restart, and the same target is then still protected -/
example :
    let s := run cfg32 (init 320) [.addShare, .tick 40, .signAtt 10 11, .tick 32]
    (step cfg32 s (.signAtt 11 12)).2 = .signed ∧
    (step cfg32 s (.signAttFault 11 12)).2 = .refused .writeFailed ∧
    (run cfg32 s [.signAttFault 11 12, .restart, .signAtt 9 11]).atts = [(10, 11)] ∧
    (run cfg32 s [.signAttFault 11 12, .restart, .signAtt 9 11]).d.att = some (10, 11) := by decide

/-! ## restart -/

/-- a restart changes nothing durable and releases nothing (no request was waiting); it only kills an in-flight bump -/
theorem C04_restart_identity (cfg : Cfg) (s : State) (hd : s.delayed = none) :
    (step cfg s .restart).1.d = s.d ∧ (step cfg s .restart).1.atts = s.atts ∧
    (step cfg s .restart).1.blocks = s.blocks ∧ (step cfg s .restart).1.clock = s.clock ∧
    (step cfg s .restart).1.pend = none ∧
    (s.pend = none → (step cfg s .restart).1 = s) := by
  simp only [step, drain, hd]
  refine ⟨trivial, trivial, trivial, trivial, trivial, ?_⟩
  intro h
  cases s
  simp_all

/-! ## non-vacuity: concrete non-trivial histories satisfy the hypothesis -/

/-- a history with signatures before and after a restart, a refused double vote, a remove + re-add, a
    reactivation, a storage fault and clock advances: it is `SignedOk`, three attestations and two blocks are
    released, and they are safe -/
def sampleHistory : List Op :=
  [.addShare, .signAtt 9 10, .signBlock 320, .tick 40, .signAtt 10 11, .signAtt 9 11, .signBlock 350, .restart,
   .signAtt 10 11, .tick 64, .signAtt 11 13, .removeShare, .signAtt 12 13, .addShare, .signAtt 12 13,
   .signBlock 424, .tick 32, .bump, .tick 32, .signAtt 14 15, .signBlock 480, .removeFail 1, .signAtt 14 16]

example :
    Along cfg32 (SignedOk cfg32) (init 320) sampleHistory ∧
    (run cfg32 (init 320) sampleHistory).atts = [(14, 15), (11, 13), (10, 11)] ∧
    (run cfg32 (init 320) sampleHistory).blocks = [480, 350] ∧
    (run cfg32 (init 320) sampleHistory).d = ⟨none, some 480, true⟩ := by decide

/-- a split reactivation with the clock advancing and a sign request arriving while it is in flight: the request
    waits, the bump writes the (by then stale) minimal record (11,12) / 384, the request (12,13) is signed when the
    bump finishes, `resume` reports it; later requests are checked against (12,13) -/
def sampleSplit : List Op :=
  [.addShare, .tick 64, .bumpBegin, .bumpRead, .tick 32, .signAtt 12 13, .tick 1, .bumpWrite, .bumpRead, .bumpWrite,
   .resume, .signAtt 11 13, .signBlock 417, .signBlock 417]

example : Along cfg32 (SignedOk cfg32) (init 320) sampleSplit ∧
    (step cfg32 (run cfg32 (init 320) (sampleSplit.take 5)) (.signAtt 12 13)).2 = .blocked ∧
    (step cfg32 (run cfg32 (init 320) (sampleSplit.take 10)) .resume).2 = .signed ∧
    (run cfg32 (init 320) sampleSplit).atts = [(12, 13)] ∧
    (run cfg32 (init 320) sampleSplit).blocks = [417] ∧
    (run cfg32 (init 320) sampleSplit).d = ⟨some (12, 13), some 417, true⟩ := by decide

end Ssv.Slashing
