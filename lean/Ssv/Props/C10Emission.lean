/-
C10 — Messages produced by correct operators are never rejected by correct peers: the EMISSION side.

`Props/C10.lean` proves "never rejected" for every message that satisfies the abstract emission predicate
`Validation.HonestConsensus`. This file DISCHARGES that predicate from the executable QBFT node model
(`Ssv/Model/Qbft`: instance + controller; multi-node system `SystemB`) for every consensus message a correct operator
broadcasts — `Instance.Broadcast` outputs (`.bcast`: proposal, prepare, commit, round change) and
`Controller.broadcastDecided` outputs (`.bcastDecided`: the aggregated commit) — and composes the two.

Translation (`toValidationMsg`, Proofs/EmissionBridge.lean): type, height (= slot), round, signers, root, full data
(absent iff empty, else the id of its hash), lengths / decodability of the two justification lists; the validation
model's abstract Boolean `justOk` ("`instance.IsProposalJustification(...) == nil`") is DEFINED, for messages of the node
model, as the node model's own `isProposalJustification` run the way the validator runs it (`C10_justification_bridge`).

HEADLINE  `C10_node_emissions_not_rejected`:
  state reachable in `SystemB` through gated deliveries, enabled (gated) step of a correct operator, timing hypothesis on
  the step, any output `.bcast x` / `.bcastDecided x`, peer with a matching share and a fresh-or-consistent state, ANY
  receive time  ⟹  the verdict on `toValidationMsg x` is not `reject` (and not a panic).
  `C10_node_instance_emissions_not_rejected` is the same for `.bcast` outputs over plain `Reachable` (no gate needed).
  `C10_node_emissions_accepted_fresh_timely`: fresh peer that knows the validator, inside the slot / round window ⟹ accept.

Hypotheses that remain (exact names):
* `TimelyAction σ a` — or, in the plain form, `InRoundAction` along the run (`ReachableC`, f ≥ 1):
  `C10_node_emissions_not_rejected_in_round`, `C10_timing_from_in_round_delivery`.
  `TimelyAction σ a` (= `RcQuorumInRound` on the delivered round-change): "a valid round-change that completes the
  round-change quorum of its round r does so while `State.Round ≥ r` (hence = r: past rounds are dropped)", i.e. a quorum
  for a FUTURE round never completes — the property's timing assumption ("messages arrive within the round") in the only
  place the node's emission code depends on it.
  NECESSARY: `C10_untimed_emissions_not_rejected_full_refuted` (all four operators correct).
* `GatedAction a` / `ReachableG σ` (decided messages only): the operator's own message validation precedes its controller, so
  stored commits carry no justification fields; `aggregateCommitMsgs` copies `msgs[0]` including those fields.
* `EnvelopeOk i w`: encoded size, role, public key, operator-signature envelope, BLS signature bytes — outside both models.
* `ShareMatches cfg sh`, `Validation.PeerConsistent X st i sh m`: the peer's view (committee/quorum; DESIGN §9 duty store; no
  different proposal data stored for this very (slot, round); duty count not exhausted).
The receive time does not enter "not rejected" at all: every time-dependent rule of the validator is ignore-class
(`C10_emitted_not_rejected` holds for every clock); it enters acceptance through `Validation.TimelyKnown`, whose
round-window field follows from the timer deadlines by `C10_timely_message_passes_round_window`.

Structural clauses discharged from the node model (each a theorem below): single signer = own id; proposal only by
`proposer height round` with root = hash(full data) and a justification accepted by `isProposalJustification` (round 1: from
`Start`; later rounds: round-change quorum); prepare / commit root = the accepted proposal's root, no full data, no
justification fields; round ≥ 1 everywhere; round change carries prepared data iff the instance is locked, with a
justification that is empty or a prepare quorum for (LastPreparedRound, LastPreparedValue); decided: commit type, ≥ quorum
distinct non-zero committee signers, SORTED (strictly increasing), root = hash(full data), no justification fields.
Message counts (`C10_message_counts`): ≤ 1 prepare, ≤ 1 commit per round and operator; ≤ 1 round change per round while no
decided message moved the operator's round. (Ignore-class rule; not part of `HonestConsensus`.)
Helper lemmas: Ssv/Proofs/EmissionBridge{,Inst,Sys,Count,Skew,SkewSys,Example}.lean.
-/
import Ssv.Proofs.EmissionBridgeExample
import Ssv.Proofs.EmissionBridgeCount
import Ssv.Props.C10

namespace Ssv.Emission
open Ssv Ssv.Qbft Ssv.Qbft.B

/-! ## the translation and the bridge -/

/-- BRIDGE HYPOTHESIS, as a definition: for a message of the node model the validation model's abstract `justOk` IS the
    node model's `isProposalJustification`, called as `validateJustifications` calls `IsProposalJustification`
    (state height := message height; state identifier := message identifier; committee / quorum of the share; value
    check always nil) -/
theorem C10_justification_bridge (cfg : Cfg) (w : Wire) (m : Msg) :
    (toValidationMsg cfg w m).justOk =
      (isProposalJustification (validatorCfg cfg m.ident) m.height m.rcJust m.prepJust m.height m.round m.fullData).isOk := rfl

/-- what the validator reads of a broadcast -/
theorem C10_translation_fields (cfg : Cfg) (w : Wire) (m : Msg) :
    (toValidationMsg cfg w m).mtype = m.type ∧ (toValidationMsg cfg w m).height = m.height ∧
    (toValidationMsg cfg w m).round = m.round ∧ (toValidationMsg cfg w m).signers = m.signers ∧
    (toValidationMsg cfg w m).root = m.root ∧
    ((toValidationMsg cfg w m).fullData = none ↔ m.fullData = 0) ∧
    (toValidationMsg cfg w m).pjLen = m.prepJust.length ∧ (toValidationMsg cfg w m).rcjLen = m.rcJust.length := by
  refine ⟨rfl, rfl, rfl, rfl, rfl, ?_, rfl, rfl⟩
  show (if m.fullData = 0 then none else some (hashData m.fullData)) = none ↔ _
  split <;> simp_all

/-- on a non-empty value and the instance's own identifier the validator's call (nil value check, `state.ID` = message
    identifier) and the node's call of the predicate agree -/
theorem C10_validator_call_agrees (cfg : Cfg) (sh : Nat) (rcs : List Lvl1) (ps : List Base) (h r fd : Nat)
    (hv : cfg.valOk fd = true) :
    isProposalJustification (validatorCfg cfg cfg.ident) sh rcs ps h r fd = isProposalJustification cfg sh rcs ps h r fd :=
  isProposalJustification_validator cfg sh rcs ps h r fd hv

/-- the node's `ProposerF` and the validator's leader computation are the same function (all heights, all rounds,
    including the Go `int` wrap-around and both panic sites) -/
theorem C10_proposer_models_agree (c : List Nat) (h r l : Nat) (hq : Qbft.roundRobinProposer c h r = some l) :
    Validation.roundRobinProposer c h r = .ok l := proposer_agree c h r l hq

/-! ## structural clauses, per output of the instance functions (any pre-state unless a hypothesis says otherwise) -/

/-- the exact list of what `Instance.ProcessMsg(m)` may hand to `Broadcast` -/
theorem C10_processMsg_emits (cfg : Cfg) (s : State) (m x : Msg) (hx : Out.bcast x ∈ (processMsg cfg s m).outs) :
    Emit cfg s m x := processMsg_emit cfg s m x ((mem_bcasts _ _).2 hx)

/-- CLAUSE prepare: single own signer; root = root of the proposal accepted in this step (which passed
    `isValidProposal`); its round, the instance's height; no full data, no justification fields -/
theorem C10_prepare_clause (cfg : Cfg) (s : State) (m x : Msg) (hx : Out.bcast x ∈ (processMsg cfg s m).outs)
    (hp : x.type = tPrepare) :
    x.signers = [cfg.own] ∧ isValidProposal cfg s m = .ok () ∧ x.root = m.root ∧ x.round = m.round ∧
    x.height = s.height ∧ x.fullData = 0 ∧ x.rcJust = [] ∧ x.prepJust = [] := by
  have he := C10_processMsg_emits cfg s m x hx
  obtain ⟨a, b, c, d, e, f, g⟩ := emit_prepare_root cfg s m x he hp
  refine ⟨?_, a, b, c, d, e, f, g⟩
  cases he with
  | prepare hv hx => subst hx; rfl
  | commit p hacc hb hx => subst hx; rfl
  | roundChange R hR hx => subst hx; exact (createRoundChange_clause cfg s R).2.2.2.1
  | proposal j v htype hbv hx hj hq hjust => subst hx; rfl

/-- CLAUSE commit: single own signer; root = the accepted proposal's root; the current round and height; no full data, no
    justification fields -/
theorem C10_commit_clause (cfg : Cfg) (s : State) (m x : Msg) (hx : Out.bcast x ∈ (processMsg cfg s m).outs)
    (hp : x.type = tCommit) :
    x.signers = [cfg.own] ∧ ∃ p, s.accepted = some p ∧ x.root = p.root ∧ x.round = s.round ∧ x.height = s.height ∧
      x.fullData = 0 ∧ x.rcJust = [] ∧ x.prepJust = [] := by
  have he := C10_processMsg_emits cfg s m x hx
  refine ⟨?_, emit_commit_root cfg s m x he hp⟩
  cases he with
  | prepare hv hx => subst hx; rfl
  | commit p hacc hb hx => subst hx; rfl
  | roundChange R hR hx => subst hx; exact (createRoundChange_clause cfg s R).2.2.2.1
  | proposal j v htype hbv hx hj hq hjust => subst hx; rfl

/-- CLAUSE round change (of `ProcessMsg`: f+1 round changes for higher rounds; of `UponRoundTimeout`: round + 1): a round
    above the current one (≥ 2), and the shape described in `createRoundChange_clause`: prepared data iff the instance is
    locked, with an empty justification or a prepare quorum for (LastPreparedRound, LastPreparedValue) -/
theorem C10_roundChange_clause (cfg : Cfg) (s : State) (x : Msg)
    (hx : (∃ m, Out.bcast x ∈ (processMsg cfg s m).outs ∧ x.type = tRoundChange) ∨
          Out.bcast x ∈ (uponRoundTimeout cfg s).outs) :
    ∃ R, s.round < R ∧ x = createRoundChange cfg s R ∧ x.round = R ∧ x.height = s.height ∧ x.signers = [cfg.own] ∧
      x.prepJust = [] ∧
      (((s.lastPreparedRound ≠ noRound ∧ s.lastPreparedValue ≠ 0) ∧ x.dataRound = s.lastPreparedRound ∧
          x.fullData = s.lastPreparedValue ∧ x.root = hashData s.lastPreparedValue ∧
          (x.rcJust = [] ∨ (cfg.hasQuorum (signersOfL x.rcJust) = true ∧ ∀ pm ∈ x.rcJust,
            validSignedPrepare cfg pm.toBase s.height s.lastPreparedRound (hashData s.lastPreparedValue) = .ok ()))) ∨
       (¬ (s.lastPreparedRound ≠ noRound ∧ s.lastPreparedValue ≠ 0) ∧ x.dataRound = noRound ∧ x.fullData = 0 ∧
          x.root = zeroRoot ∧ x.rcJust = [])) := by
  have key : ∃ R, s.round < R ∧ x = createRoundChange cfg s R := by
    rcases hx with ⟨m, hm, ht⟩ | hx
    · have he := C10_processMsg_emits cfg s m x hm
      cases he with
      | prepare hv hx => subst hx; exact absurd ht (by show tPrepare ≠ tRoundChange; decide)
      | commit p hacc hb hx => subst hx; exact absurd ht (by show tCommit ≠ tRoundChange; decide)
      | roundChange R hR hx => exact ⟨R, hR, hx⟩
      | proposal j v htype hbv hx hj hq hjust => subst hx; exact absurd ht (by show tProposal ≠ tRoundChange; decide)
    · exact ⟨s.round + 1, Nat.lt_succ_self _, uponRoundTimeout_bcast cfg s x ((mem_bcasts _ _).2 hx)⟩
  obtain ⟨R, hR, rfl⟩ := key
  obtain ⟨_, b, c, d, e, f⟩ := createRoundChange_clause cfg s R
  exact ⟨R, hR, rfl, b, c, d, e, f⟩

/-- CLAUSE round-1 proposal (`Instance.Start`): only the round-1 leader proposes; single own signer, round 1, root =
    hash(start value), no justification (and none is needed: `isProposalJustification` accepts it) -/
theorem C10_first_round_proposal_clause (cfg : Cfg) (s : State) (v h : Nat) (hv : cfg.valOk v = true) (x : Msg)
    (hx : Out.bcast x ∈ (start cfg s v h).outs) :
    x.type = tProposal ∧ x.signers = [cfg.own] ∧ x.height = h ∧ x.round = firstRound ∧ x.fullData = v ∧
    x.root = hashData v ∧ x.rcJust = [] ∧ x.prepJust = [] ∧ cfg.proposer h firstRound = some cfg.own ∧
    isProposalJustification cfg h x.rcJust x.prepJust h x.round x.fullData = .ok () := by
  have hb := (mem_bcasts _ _).2 hx
  obtain ⟨h1, h2⟩ := start_bcast cfg s v h x hb
  have hh := (honestInst_start cfg s v h hv x hb).justified (by rw [h1]; rfl)
  subst h1
  exact ⟨rfl, rfl, rfl, rfl, rfl, rfl, rfl, rfl, h2, hh⟩

/-- CLAUSE justified proposal (`uponRoundChange`), under the timing hypothesis `RcQuorumInRound`: sent by
    `proposer height round` for the current round, root = hash(full data), and the attached round-changes / prepares
    satisfy the very `isProposalJustification` the validator calls — beyond round 1, a round-change quorum -/
theorem C10_justified_proposal_clause (cfg : Cfg) (s : State) (m x : Msg) (hr : 1 ≤ s.round)
    (ht : RcQuorumInRound cfg s m) (hx : Out.bcast x ∈ (processMsg cfg s m).outs) (hp : x.type = tProposal) :
    x.signers = [cfg.own] ∧ x.height = s.height ∧ x.round = s.round ∧ x.root = hashData x.fullData ∧
    cfg.proposer s.height s.round = some cfg.own ∧
    isProposalJustification cfg s.height x.rcJust x.prepJust s.height s.round x.fullData = .ok () ∧
    (s.round ≠ firstRound → cfg.hasQuorum (signersOfL x.rcJust) = true) :=
  emit_proposal_clause cfg s m x hr ht (C10_processMsg_emits cfg s m x hx) hp

/-- CLAUSE decided aggregate: what `Instance.ProcessMsg` returns on a commit quorum (and `Controller.ProcessMsg` hands to
    `broadcastDecided`), from a pre-state satisfying the instance invariant of C02 with a plain commit container: commit
    type, ≥ quorum distinct non-zero committee signers, SORTED (strictly increasing: `sort.Slice` on distinct ids),
    root = hash(full data), current round ≥ 1, no justification fields -/
theorem C10_decided_clause (cfg : Cfg) (s : State) (m d : Msg) (b : Bool) (v : Nat)
    (hinv : InstInv cfg s) (hid : m.ident = cfg.ident) (hr : 1 ≤ s.round) (hpl : CommitsPlain s) (hg : Gated m)
    (h : (processMsg cfg s m).res = .ok b v (some d)) :
    d.type = tCommit ∧ d.signers.Pairwise (· < ·) ∧ cfg.quorum ≤ d.signers.length ∧
    (∀ g ∈ d.signers, g ∈ cfg.committee ∧ g ≠ 0) ∧ hashData d.fullData = d.root ∧ d.round = s.round ∧
    d.height = s.height ∧ d.rcJust = [] ∧ d.prepJust = [] := by
  obtain ⟨hd, h1, h2⟩ := honestDecided_of_processMsg cfg s m d b v hinv hid hr hpl hg h
  exact ⟨hd.cert.isCommit, hd.sorted, hd.cert.quorum,
    fun g hg' => ⟨hd.cert.committee g hg', fun h0 => hd.cert.nozero (h0 ▸ hg')⟩, hd.cert.hash, h1, h2, hd.noJust.1, hd.noJust.2⟩

/-- the instance functions establish the structural emission predicate for everything they broadcast -/
theorem C10_instance_outputs_honest (cfg : Cfg) (s : State) (hr : 1 ≤ s.round) (x : Msg) :
    (∀ m, RcQuorumInRound cfg s m → Out.bcast x ∈ (processMsg cfg s m).outs → HonestInst cfg x) ∧
    (Out.bcast x ∈ (uponRoundTimeout cfg s).outs → HonestInst cfg x) ∧
    (∀ v h, cfg.valOk v = true → Out.bcast x ∈ (start cfg s v h).outs → HonestInst cfg x) :=
  ⟨fun m ht hx => honestInst_of_emit cfg s m x hr ht (C10_processMsg_emits cfg s m x hx),
   fun hx => honestInst_timeout cfg s x ((mem_bcasts _ _).2 hx),
   fun v h hv hx => honestInst_start cfg s v h hv x ((mem_bcasts _ _).2 hx)⟩

/-- structural predicate ⇒ the abstract predicate of `Props/C10.lean` (instance messages / decided messages) -/
theorem C10_honest_messages_satisfy_HonestConsensus (cfg : Cfg) (hc : CfgWF cfg) (x : Msg)
    (hx : HonestInst cfg x ∨ HonestDecided cfg x) (sh : Validation.Share) (hsh : ShareMatches cfg sh)
    (i : Validation.Input) (w : Wire) (he : EnvelopeOk i w) :
    Validation.HonestConsensus i sh (toValidationMsg cfg w x) := by
  rcases hx with hx | hx
  · exact honestConsensus_of_inst cfg hc x hx sh hsh i w he
  · exact honestConsensus_of_decided cfg hc x hx sh hsh i w he

/-! ## the multi-node system: every emission of a correct operator is honest -/

/-- instance messages, any reachable state of `SystemB` -/
theorem C10_node_bcast_honest {P : Params} (hP : P.Valid) {σ : Sys P} (hr : Reachable σ) (a : Action P)
    (hen : enabled σ a = true) (ht : TimelyAction σ a) (x : Msg) (hx : Out.bcast x ∈ stepOuts σ a) :
    HonestInst (P.cfg (actor a)) x := sys_bcast_honest hP hr a hen ht x hx

/-- decided messages, states reachable through gated deliveries -/
theorem C10_node_decided_honest {P : Params} (hP : P.Valid) {σ : Sys P} (hr : ReachableG σ) (a : Action P)
    (hen : enabled σ a = true) (hg : GatedAction a) (d : Msg) (hd : Out.bcastDecided d ∈ stepOuts σ a) :
    HonestDecided (P.cfg (actor a)) d := sys_decided_honest hP hr a hen hg d hd

/-- what `step` appends to the log of broadcasts is exactly the `.bcast` outputs -/
theorem C10_log_is_bcasts {P : Params} (σ : Sys P) (a : Action P) (x : Msg) :
    x ∈ (step σ a).log ↔ x ∈ σ.log ∨ Out.bcast x ∈ stepOuts σ a := by
  rw [step_log, List.mem_append, mem_bcasts]

/-! ## composition with `C10_emitted_not_rejected` -/

/-- instance messages (`Instance.Broadcast`), plain reachability: never rejected, never a panic, at any receive time -/
theorem C10_node_instance_emissions_not_rejected {P : Params} (hP : P.Valid) {σ : Sys P} (hr : Reachable σ)
    (a : Action P) (hen : enabled σ a = true) (ht : TimelyAction σ a) (x : Msg) (hx : Out.bcast x ∈ stepOuts σ a)
    (X : Validation.Ctx) (st : Validation.State) (i : Validation.Input) (w : Wire) (sh : Validation.Share)
    (hb : i.body = .consensus (toValidationMsg (P.cfg (actor a)) w x)) (hs : i.share = some sh ∨ i.share = none)
    (hsh : ShareMatches (P.cfg (actor a)) sh) (he : EnvelopeOk i w)
    (hp : Validation.PeerConsistent X st i sh (toValidationMsg (P.cfg (actor a)) w x)) :
    (∀ t, (Validation.validate X st i).2 ≠ .reject t) ∧ (∀ s, (Validation.validate X st i).2 ≠ .panic s) :=
  Validation.C10_emitted_not_rejected X st i sh _ hb hs
    (honestConsensus_of_inst _ (cfgWF_of_params P hP _) x (sys_bcast_honest hP hr a hen ht x hx) sh hsh i w he) hp

/-- HEADLINE: every consensus message a correct operator emits in a step of `SystemB` — `Instance.Broadcast` or
    `broadcastDecided` — validated by a correct peer (matching share, fresh-or-consistent signer state) at ANY receive
    time is not classified as reject and does not crash the peer; hypotheses: gated reachability, the timing assumption
    on the step, the transport envelope -/
theorem C10_node_emissions_not_rejected {P : Params} (hP : P.Valid) {σ : Sys P} (hr : ReachableG σ)
    (a : Action P) (hen : enabled σ a = true) (hg : GatedAction a) (ht : TimelyAction σ a)
    (x : Msg) (hx : Out.bcast x ∈ stepOuts σ a ∨ Out.bcastDecided x ∈ stepOuts σ a)
    (X : Validation.Ctx) (st : Validation.State) (i : Validation.Input) (w : Wire) (sh : Validation.Share)
    (hb : i.body = .consensus (toValidationMsg (P.cfg (actor a)) w x)) (hs : i.share = some sh ∨ i.share = none)
    (hsh : ShareMatches (P.cfg (actor a)) sh) (he : EnvelopeOk i w)
    (hp : Validation.PeerConsistent X st i sh (toValidationMsg (P.cfg (actor a)) w x)) :
    (∀ t, (Validation.validate X st i).2 ≠ .reject t) ∧ (∀ s, (Validation.validate X st i).2 ≠ .panic s) := by
  have hwf := cfgWF_of_params P hP (actor a)
  refine Validation.C10_emitted_not_rejected X st i sh _ hb hs ?_ hp
  rcases hx with hx | hx
  · exact honestConsensus_of_inst _ hwf x (sys_bcast_honest hP hr.reachable a hen ht x hx) sh hsh i w he
  · exact honestConsensus_of_decided _ hwf x (sys_decided_honest hP hr a hen hg x hx) sh hsh i w he

/-- the fault-free clause: a fresh peer that knows the (active) validator and its duties accepts the emission when it
    arrives inside the slot and round windows (`TimelyKnown`; its round-window field follows from the timer deadlines by
    `C10_timely_message_passes_round_window`) -/
theorem C10_node_emissions_accepted_fresh_timely {P : Params} (hP : P.Valid) {σ : Sys P} (hr : ReachableG σ)
    (a : Action P) (hen : enabled σ a = true) (hg : GatedAction a) (ht : TimelyAction σ a)
    (x : Msg) (hx : Out.bcast x ∈ stepOuts σ a ∨ Out.bcastDecided x ∈ stepOuts σ a)
    (X : Validation.Ctx) (st : Validation.State) (i : Validation.Input) (w : Wire) (sh : Validation.Share)
    (hb : i.body = .consensus (toValidationMsg (P.cfg (actor a)) w x))
    (hsh : ShareMatches (P.cfg (actor a)) sh) (he : EnvelopeOk i w)
    (htk : Validation.TimelyKnown X i sh (toValidationMsg (P.cfg (actor a)) w x))
    (hfresh : ∀ s ∈ x.signers, st (i.vid, i.role, s) = none) :
    (Validation.validate X st i).2 = .accept := by
  have hwf := cfgWF_of_params P hP (actor a)
  refine Validation.C10_emitted_accepted_fresh_timely X st i sh _ hb ?_ htk hfresh
  rcases hx with hx | hx
  · exact honestConsensus_of_inst _ hwf x (sys_bcast_honest hP hr.reachable a hen ht x hx) sh hsh i w he
  · exact honestConsensus_of_decided _ hwf x (sys_decided_honest hP hr a hen hg x hx) sh hsh i w he

/-! ## the timing hypothesis, derived from in-round delivery

`TimelyAction` is a statement about the receiving instance's round-change container. It FOLLOWS (for f ≥ 1) from the
plain reading of "messages arrive within the round", with one round of skew allowed: along the run every delivered
round-change is for a round ≤ `State.Round + 1`, every delivered decided message is for a round ≥ `State.Round`, and no
correct operator crashes (`InRoundAction`; starts and timeouts, including stale ones, are unconstrained). Reason
(Proofs/EmissionBridgeSkew.lean): the container then never holds f+1 distinct signers for higher rounds without the
instance having jumped (`SkewInv`), and 2f+1 > f+1. -/

/-- the container invariant behind the timing hypothesis, at every correct operator -/
theorem C10_round_change_container_invariant {P : Params} (hP : P.Valid) (hf : 1 ≤ P.f) {σ : Sys P} (hr : ReachableT σ)
    (i : Op P) (s : State) (hs : instAt P.height (σ.ctrl i) = some s) :
    (∀ x ∈ s.roundChange, x.round ≤ s.round + 1) ∧
    (P.cfg i).hasPartialQuorum (signersOf (s.roundChange.filter (fun x => Nat.blt s.round x.round))) = false := by
  have h := skew_of_reachableT hP hf hr i
  rw [hs] at h
  exact ⟨h.near, h.noPQ⟩

/-- TIMING DISCHARGED: in-round deliveries satisfy `TimelyAction` -/
theorem C10_timing_from_in_round_delivery {P : Params} (hP : P.Valid) (hf : 1 ≤ P.f) {σ : Sys P} (hr : ReachableT σ)
    (a : Action P) (hin : InRoundAction σ a) : TimelyAction σ a := timely_of_inRound hP hf hr a hin

/-- HEADLINE, with the timing assumption in its plain form: in a run of `SystemB` whose deliveries are gated and in-round
    (`ReachableC`), every consensus message a correct operator emits is never rejected by a correct peer -/
theorem C10_node_emissions_not_rejected_in_round {P : Params} (hP : P.Valid) (hf : 1 ≤ P.f) {σ : Sys P}
    (hr : ReachableC σ) (a : Action P) (hen : enabled σ a = true) (hg : GatedAction a) (hin : InRoundAction σ a)
    (x : Msg) (hx : Out.bcast x ∈ stepOuts σ a ∨ Out.bcastDecided x ∈ stepOuts σ a)
    (X : Validation.Ctx) (st : Validation.State) (i : Validation.Input) (w : Wire) (sh : Validation.Share)
    (hb : i.body = .consensus (toValidationMsg (P.cfg (actor a)) w x)) (hs : i.share = some sh ∨ i.share = none)
    (hsh : ShareMatches (P.cfg (actor a)) sh) (he : EnvelopeOk i w)
    (hp : Validation.PeerConsistent X st i sh (toValidationMsg (P.cfg (actor a)) w x)) :
    (∀ t, (Validation.validate X st i).2 ≠ .reject t) ∧ (∀ s, (Validation.validate X st i).2 ≠ .panic s) :=
  C10_node_emissions_not_rejected hP hr.gated a hen hg (timely_of_inRound hP hf hr.inRound a hin) x hx X st i w sh hb hs
    hsh he hp

/-! ## FINDING: without the timing hypothesis a correct operator's proposal is rejected

`uponRoundChange` checks the justification and its own leadership for the round of the TRIGGERING round-change
(`hasReceivedProposalJustificationForLeadingRound`, which also allows `roundChange.Round > State.Round`), but builds the
proposal with `Round: state.Round` and `MessagesForRound(state.Round)`. When the quorum for a FUTURE round r completes
while the instance is still in a lower round ρ — possible after `uponChangeRoundPartialQuorum` jumped to the MINIMUM
round of the f+1 higher round-changes — the operator broadcasts a round-ρ proposal although it leads round r, justified
by whatever round-ρ round-changes it holds. Peers reject it (`SignerNotLeader`; with n = 4 and r − ρ a multiple of 4:
`InvalidJustifications`), i.e. they penalise a correct operator.

`fSys`: four CORRECT operators, height 3. Operators 1, 3, 4 time out twice; operator 2 (leader of round 3), still in
round 1, receives round-changes (op 1, round 2), (op 1, round 3), (op 3, round 3) → jumps to round 2; then (op 4, round 3)
completes the round-3 quorum → proposal with `Round = 2`. The run needs operator 1 to be two timeouts ahead of operator 2,
which the timing assumption (timers fire at their deadlines, messages arrive within the round) excludes — hence a boundary
of the property, not a violation of it. A second route to the same branch: `UponDecided` lowering `State.Round` below the
round of the round-changes already stored (a decided message arriving more than a round late). -/

/-- the headline statement for `Instance.Broadcast` outputs WITHOUT the timing hypothesis -/
def C10_untimed_emissions_not_rejected_full : Prop :=
  ∀ (P : Params) (_ : P.Valid) (σ : Sys P), ReachableG σ → ∀ (a : Action P), enabled σ a = true → GatedAction a →
    ∀ (x : Msg), Out.bcast x ∈ stepOuts σ a →
    ∀ (X : Validation.Ctx) (st : Validation.State) (i : Validation.Input) (w : Wire) (sh : Validation.Share),
      i.body = .consensus (toValidationMsg (P.cfg (actor a)) w x) → (i.share = some sh ∨ i.share = none) →
      ShareMatches (P.cfg (actor a)) sh → EnvelopeOk i w →
      Validation.PeerConsistent X st i sh (toValidationMsg (P.cfg (actor a)) w x) →
      ∀ t, (Validation.validate X st i).2 ≠ .reject t

/-- the peer's input for operator 2's proposal, received 7 s into slot 3 by a fresh peer -/
def fInput : Validation.Input :=
  Validation.inputAt (toValidationMsg (fP.cfg 1) ⟨96, false⟩ fProposal) (1616508000 + 12 * 3 + 7)

/-- the concrete verdict: reject, "signer is not leader" -/
theorem C10_future_round_proposal_rejected :
    (Validation.validate Validation.ctx0 Validation.State.empty fInput).2 = .reject .SignerNotLeader := by
  decide +kernel

theorem C10_untimed_emissions_not_rejected_full_refuted : ¬ C10_untimed_emissions_not_rejected_full := by
  intro h
  obtain ⟨hen, hg, _, _, hmem, _⟩ := f_facts
  refine h fP fP_valid fSys f_reachableG (.deliver 1 fTrigger) hen hg fProposal hmem
    Validation.ctx0 Validation.State.empty fInput ⟨96, false⟩ Validation.share4 rfl (Or.inl rfl)
    ⟨by decide, by decide⟩
    ⟨by decide, by decide, by decide, rfl, ⟨rfl, rfl⟩, Or.inl rfl⟩
    (Validation.C10_fresh_peer_is_consistent _ _ _ _ _ (fun _ _ => rfl) (by intro hrole; exact absurd hrole (by decide)))
    .SignerNotLeader C10_future_round_proposal_rejected

/-- … and the step violates exactly the timing hypothesis: the delivered round-change (round 3) completes its quorum while
    operator 2 is in round 2 -/
theorem C10_future_round_proposal_is_untimely : ¬ TimelyAction fSys (.deliver 1 fTrigger) := by
  intro h
  have hs : (instAt fP.height (fSys.ctrl 1)).isSome = true := by decide +kernel
  obtain ⟨s, hs'⟩ := Option.isSome_iff_exists.1 hs
  have hround : (instAt fP.height (fSys.ctrl 1)).map (fun s => s.round) = some 2 := by decide +kernel
  have hq : (instAt fP.height (fSys.ctrl 1)).map (fun s =>
      (fP.cfg 1).hasQuorum (signersOf (forRound (addFirst s.roundChange fTrigger).1 fTrigger.round))) = some true := by
    decide +kernel
  rw [hs'] at hround hq
  simp only [Option.map_some, Option.some.injEq] at hround hq
  have hv : (instAt fP.height (fSys.ctrl 1)).map (fun s => baseMsgValidation (fP.cfg 1) s fTrigger) = some (.ok ()) := by
    decide +kernel
  rw [hs'] at hv
  simp only [Option.map_some, Option.some.injEq] at hv
  have := h s hs' rfl hv hq
  rw [hround] at this
  exact absurd this (by decide)

/-! ## non-vacuity on the concrete run behind `exSys` -/

/-- a peer input for a message of the run (slot 3 of the test network, `since` seconds into the slot) -/
def exInput (i : Op exP) (x : Msg) (since : Int) : Validation.Input :=
  Validation.inputAt (toValidationMsg (exP.cfg i) ⟨96, false⟩ x) (1616508000 + 12 * 3 + since)

theorem exEnvelope (i : Op exP) (x : Msg) (since : Int) : EnvelopeOk (exInput i x since) ⟨96, false⟩ :=
  ⟨by show (300 : Nat) ≤ Gen.val_maxConsensusMsgSize; decide, by show Validation.validRole 0 = true; decide,
   by show ((0 : Nat) == Gen.val_BNRoleValidatorRegistration || (0 : Nat) == Gen.val_BNRoleVoluntaryExit) = false; decide,
   rfl, ⟨rfl, rfl⟩, Or.inl rfl⟩

theorem exShare (i : Op exP) : ShareMatches (exP.cfg i) Validation.share4 :=
  ⟨by show Validation.share4.committee = exP.committee; decide, by show Validation.share4.quorum = exP.quorum; decide⟩

theorem exFresh (i : Op exP) (x : Msg) (since : Int) :
    Validation.PeerConsistent Validation.ctx0 Validation.State.empty (exInput i x since) Validation.share4
      (toValidationMsg (exP.cfg i) ⟨96, false⟩ x) :=
  Validation.C10_fresh_peer_is_consistent _ _ _ _ _ (fun _ _ => rfl)
    (by intro hrole; exact absurd hrole (by show ¬ (0 : Nat) = Gen.val_BNRoleProposer; decide))

/-- (1) JUSTIFIED PROPOSAL: in `exSysA` the third round-change completes the round-2 quorum at the round-2 leader
    (operator 1), in round 2 (timely); it broadcasts a round-2 proposal carrying the three round-changes -/
theorem exA_facts :
    enabled exSysA (.deliver 0 exRc3) = true ∧ GatedAction (Action.deliver (P := exP) 0 exRc3) ∧
    (instAt exP.height (exSysA.ctrl 0)).map (fun s => s.round) = some 2 ∧
    (stepOuts exSysA (.deliver 0 exRc3)).map (fun o => match o with
      | .bcast x => (x.type, x.round, x.signers, x.rcJust.length, x.fullData) | _ => (9, 0, [], 0, 0)) = [(0, 2, [1], 3, 5)] := by
  decide +kernel

/-- the delivery is in-round, and `exSysA` was reached through gated in-round deliveries: the in-round headline applies -/
theorem exA_inRound : InRoundAction exSysA (.deliver 0 exRc3) := by decide +kernel

example : ∀ x, Out.bcast x ∈ stepOuts exSysA (.deliver 0 exRc3) →
    (∀ t, (Validation.validate Validation.ctx0 Validation.State.empty (exInput 0 x 6)).2 ≠ .reject t) :=
  fun x hx => (C10_node_emissions_not_rejected_in_round exP_valid (by decide) exA_reachableC (.deliver 0 exRc3)
    exA_facts.1 exA_facts.2.1 exA_inRound x (Or.inl hx) Validation.ctx0 Validation.State.empty (exInput 0 x 6) ⟨96, false⟩
    Validation.share4 rfl (Or.inl rfl) (exShare 0) (exEnvelope 0 x 6) (exFresh 0 x 6)).1

/-- … whereas the run behind the finding state `fSys` is NOT in-round: it delivers a round-3 round-change to an instance that
    is still in round 1 (the in-round checker stops there) -/
example : (runItemsC (Sys.init fP) fSched).isSome = false := by decide +kernel

theorem exA_timely : TimelyAction exSysA (.deliver 0 exRc3) := by
  intro s hs _ _ _
  have hround := exA_facts.2.2.1
  rw [hs] at hround
  simp only [Option.map_some, Option.some.injEq] at hround
  rw [hround]; exact Nat.le_refl 2

/-- the headline applies to that proposal (hypotheses hold), and the validation model indeed accepts it on a fresh peer
    6.5 s into the slot -/
example : ∀ x, Out.bcast x ∈ stepOuts exSysA (.deliver 0 exRc3) →
    (∀ t, (Validation.validate Validation.ctx0 Validation.State.empty (exInput 0 x 6)).2 ≠ .reject t) :=
  fun x hx => (C10_node_emissions_not_rejected exP_valid exA_reachableG (.deliver 0 exRc3) exA_facts.1 exA_facts.2.1
    exA_timely x (Or.inl hx) Validation.ctx0 Validation.State.empty (exInput 0 x 6) ⟨96, false⟩ Validation.share4 rfl
    (Or.inl rfl) (exShare 0) (exEnvelope 0 x 6) (exFresh 0 x 6)).1

example : (stepOuts exSysA (.deliver 0 exRc3)).map (fun o => match o with
    | .bcast x => (Validation.validate Validation.ctx0 Validation.State.empty (exInput 0 x 6)).2
    | _ => .ignore .EmptyData) = [.accept] := by decide +kernel

/-- (2) DECIDED AGGREGATE: in `exSysB` the third commit makes operator 2 decide; it broadcasts the aggregate with signers
    [1, 2, 3] (sorted), round 2, full data 5 -/
theorem exB_facts :
    enabled exSysB (.deliver 1 exCommit3) = true ∧ GatedAction (Action.deliver (P := exP) 1 exCommit3) ∧
    (stepOuts exSysB (.deliver 1 exCommit3)).map (fun o => match o with
      | .bcastDecided x => (x.type, x.round, x.signers, x.fullData, x.root) | _ => (9, 0, [], 0, 0)) = [(2, 2, [1, 2, 3], 5, 5)] := by
  decide +kernel

example : ∀ x, Out.bcastDecided x ∈ stepOuts exSysB (.deliver 1 exCommit3) →
    (∀ t, (Validation.validate Validation.ctx0 Validation.State.empty (exInput 1 x 7)).2 ≠ .reject t) :=
  fun x hx => (C10_node_emissions_not_rejected exP_valid exB_reachableG (.deliver 1 exCommit3) exB_facts.1 exB_facts.2.1
    (by intro s _ ht; exact absurd ht (by decide)) x (Or.inr hx) Validation.ctx0 Validation.State.empty (exInput 1 x 7)
    ⟨96, false⟩ Validation.share4 rfl (Or.inl rfl) (exShare 1) (exEnvelope 1 x 7) (exFresh 1 x 7)).1

example : (stepOuts exSysB (.deliver 1 exCommit3)).map (fun o => match o with
    | .bcastDecided x => (Validation.validate Validation.ctx0 Validation.State.empty (exInput 1 x 7)).2
    | _ => .ignore .EmptyData) = [.accept] := by decide +kernel

/-- (3) from `exSys` itself: operator 3 (index 2) — prepared on value 5 in round 2, not decided — times out and broadcasts a
    round-change for round 3 that carries the prepared value and a quorum of prepares -/
theorem ex_timeout_facts :
    enabled exSys (.timeout 2 2) = true ∧
    (stepOuts exSys (.timeout 2 2)).map (fun o => match o with
      | .bcast x => (x.type, x.round, x.signers, x.dataRound, x.fullData, x.rcJust.length) | _ => (9, 0, [], 0, 0, 0)) =
      [(3, 3, [3], 2, 5, 3), (9, 0, [], 0, 0, 0)] := by
  decide +kernel

example : ∀ x, Out.bcast x ∈ stepOuts exSys (.timeout 2 2) →
    (∀ t, (Validation.validate Validation.ctx0 Validation.State.empty (exInput 2 x 9)).2 ≠ .reject t) :=
  fun x hx => (C10_node_emissions_not_rejected exP_valid ex_reachableG (.timeout 2 2) ex_timeout_facts.1 trivial trivial
    x (Or.inl hx) Validation.ctx0 Validation.State.empty (exInput 2 x 9) ⟨96, false⟩ Validation.share4 rfl
    (Or.inl rfl) (exShare 2) (exEnvelope 2 x 9) (exFresh 2 x 9)).1

/-! ## message counts

`TooManySameTypeMessagesPerRound` is an IGNORE-class tag (`Tag.reject = false`), so the per-round limits are not part of
`HonestConsensus` and play no role in "never rejected"; they matter for acceptance by a peer that has already seen
messages of the operator. PROVED over the whole log of `SystemB`, all schedules and Byzantine behaviours: a correct
operator broadcasts at most one prepare and at most one commit per round, and at most one round-change per round as long
as `UponDecided` never moved its round (no ghost event `G`; after a decided message of a LOWER round has been adopted the
instance keeps running from that round and may repeat a round-change — the peer then answers with the ignore-class tag).
NOT proved: one proposal per round (true under the timing hypothesis on every step; without it see the finding above), and
the decided count (each `broadcastDecided` consumes a new single-signer commit of the round, so at most N ≤ N·(f+1) =
`maxDecidedCount` per operator and round; not mechanised). -/

/-- CLAUSE message counts (prepare, commit, round change): the rounds of the logged broadcasts of a correct operator, per
    type, are pairwise distinct -/
theorem C10_message_counts {P : Params} (hP : P.Valid) {σ : Sys P} (hr : Reachable σ) (i : Op P) (hi : P.honest i = true) :
    (sentRounds i tPrepare σ.log).Nodup ∧ (sentRounds i tCommit σ.log).Nodup ∧
    ((∀ rc, Ev.G i rc ∉ σ.trace) → (sentRounds i tRoundChange σ.log).Nodup) :=
  let h := countInv_of_reachable hP hr i hi
  ⟨h.prepares, h.commits, h.rcs⟩

/-- the same as the validator counts: at most 1 (= `maxMessageCounts`) prepare / commit of the operator per round -/
theorem C10_message_counts_le_one {P : Params} (hP : P.Valid) {σ : Sys P} (hr : Reachable σ) (i : Op P)
    (hi : P.honest i = true) (r : Nat) :
    (sentRounds i tPrepare σ.log).count r ≤ 1 ∧ (sentRounds i tCommit σ.log).count r ≤ 1 ∧
    ((∀ rc, Ev.G i rc ∉ σ.trace) → (sentRounds i tRoundChange σ.log).count r ≤ 1) := by
  obtain ⟨h1, h2, h3⟩ := C10_message_counts hP hr i hi
  exact ⟨List.nodup_iff_count.1 h1 r, List.nodup_iff_count.1 h2 r, fun hg => List.nodup_iff_count.1 (h3 hg) r⟩

/-- non-vacuity: in `exSys` operator 1 has sent a round-change for round 2, then a prepare and a commit for round 2 -/
example : sentRounds (P := exP) 0 tRoundChange exSys.log = [2] ∧ sentRounds (P := exP) 0 tPrepare exSys.log = [2] ∧
    sentRounds (P := exP) 0 tCommit exSys.log = [2] := by decide +kernel

end Ssv.Emission
