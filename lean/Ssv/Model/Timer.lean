/-
Engine `timer` (property C17) — executable model, core Lean only.

Part 1: the round timer of protocol/v2/qbft/roundtimer/timer.go
  * `RoundTimeout`   → `roleBase` (the role switch), `cumulative`, `perRound`, `roundDuration`, `deadline`, `roundTimeout`
  * `TimeoutForRound`→ `Op.arm`     (atomic store of the armed round; a NEW time.Timer + a NEW goroutine per call:
                                     the field `t.timer` is never assigned, so the `else` branch with Stop/drain is dead
                                     and earlier timers are never stopped — they stay pending until they expire)
  * `waitForRound`   → `Op.expire`  (the timer channel wins the select; callback iff armed round = the goroutine's round)
                       `Op.reap`    (the ctx.Done branch wins the select; only possible once the context is cancelled)
  * parent context   → `Op.cancel`
  * `OnTimeout(done)`→ `Op.register` (replaces the callback unconditionally; `nil` = no callback). `New(.., done)` is
                       `init` followed by one `register`. A callback invocation names the handler it went to.
  ASSUMPTION (Go runtime, not proved): a `time.Timer` never fires early, i.e. `expire` is enabled only when
  `now ≥ deadline`. The differential harness measures it, the theorems assume it.
  The check `t.Round() == round` and the call `done(round)` are modelled as one atomic step.

Part 2 (`Ctl`): the staleness guards of `Controller.OnTimeout` / `Instance.UponRoundTimeout`
  (protocol/v2/qbft/controller/timer.go, instance/timeout.go) over a minimal controller:
  controller height + the fixed-capacity instance container (height, round, decided, stopped).

All durations and instants are natural numbers in ONE unit (nanoseconds, as Go's time.Duration).
-/
import Ssv.Gen.Timer

namespace Ssv.Timer

/-! ## Part 1a — `RoundTimeout` -/

/-- the configuration a `RoundTimer` is built with: role, `timeoutOptions`, and the beacon network
    (`SlotDurationSec()`; `GetSlotStartTime(s) = genesis + s * slotDur`, as `beacon.Network` computes it) -/
structure Cfg where
  role : Nat
  slotDur : Nat
  quickThr : Nat
  quick : Nat
  slow : Nat
  genesis : Nat
deriving Repr, DecidableEq

/-- the options `roundtimer.New` installs (regenerated constants) -/
def prodCfg (role slotDur genesis : Nat) : Cfg :=
  { role := role, slotDur := slotDur, genesis := genesis,
    quickThr := Gen.timer_QuickTimeoutThreshold, quick := Gen.timer_QuickTimeout, slow := Gen.timer_SlowTimeout }

/-- the role switch of `RoundTimeout`: `some base` for the four slot-timed roles, `none` for the `default:` branch
    (proposer, validator registration, voluntary exit, any other value). Go: `d / 3` and `d / 3 * 2` on int64 ns. -/
def roleBase (c : Cfg) : Option Nat :=
  if c.role = Gen.timer_BNRoleAttester ∨ c.role = Gen.timer_BNRoleSyncCommittee then some (c.slotDur / 3)
  else if c.role = Gen.timer_BNRoleAggregator ∨ c.role = Gen.timer_BNRoleSyncCommitteeContribution then some (c.slotDur / 3 * 2)
  else none

/-- allowance of one round (the `default:` branch returns exactly this) -/
def perRound (c : Cfg) (r : Nat) : Nat := if r ≤ c.quickThr then c.quick else c.slow

/-- `additionalTimeout`: cumulative allowance of rounds 1..r -/
def cumulative (c : Cfg) (r : Nat) : Nat :=
  if r ≤ c.quickThr then r * c.quick else c.quickThr * c.quick + (r - c.quickThr) * c.slow

def slotStart (c : Cfg) (h : Nat) : Nat := c.genesis + h * c.slotDur

/-- the duration `RoundTimeout` adds: to the slot start (slot-timed roles) or to the current time (default branch) -/
def roundDuration (c : Cfg) (r : Nat) : Nat :=
  match roleBase c with
  | some b => b + cumulative c r
  | none => perRound c r

/-- absolute instant at which the timer armed by `TimeoutForRound(h, r)` at time `now` is due -/
def deadline (c : Cfg) (h r now : Nat) : Nat :=
  match roleBase c with
  | some b => slotStart c h + (b + cumulative c r)
  | none => now + perRound c r

/-- the value `RoundTimeout` returns (`time.Until(...)`, may be negative: the timer then fires at once) -/
def roundTimeout (c : Cfg) (h r now : Nat) : Int := (deadline c h r now : Int) - (now : Int)

/-! ## Part 1b — arming, expiry, cancellation -/

/-- one pending expiry = one `time.Timer` + its `waitForRound` goroutine; `id` is a ghost name of the arming -/
structure Pend where
  id : Nat
  round : Nat
  deadline : Nat
deriving Repr, DecidableEq

/-- one invocation of the `OnRoundTimeoutF` callback -/
structure Fire where
  id : Nat
  round : Nat
  time : Nat
  handler : Nat          -- which registered callback (`t.done` at that moment) was invoked
deriving Repr, DecidableEq

inductive Op where
  | arm (h r now : Nat)      -- TimeoutForRound(h, r) called at time now
  | expire (id now : Nat)    -- the timer of arming `id` delivers on its channel at time now and wins the select
  | cancel                   -- parent context cancelled
  | reap (id : Nat)          -- goroutine of arming `id` leaves through ctx.Done()
  | register (k : Option Nat) -- OnTimeout(done): `some k` = handler number k, `none` = nil
deriving Repr, DecidableEq

structure State where
  armed : Nat            -- RoundTimer.round (atomic), 0 initially
  pending : List Pend
  cancelled : Bool
  nextId : Nat
  log : List Pend        -- ghost: every arming so far, oldest first (never read by `step`)
  handler : Option Nat   -- RoundTimer.done
deriving Repr, DecidableEq

def init : State := { armed := 0, pending := [], cancelled := false, nextId := 0, log := [], handler := none }

def step (c : Cfg) (s : State) : Op → State × Option Fire
  | .arm h r now =>
    let p : Pend := { id := s.nextId, round := r, deadline := deadline c h r now }
    ({ s with armed := r, pending := s.pending ++ [p], nextId := s.nextId + 1, log := s.log ++ [p] }, none)
  | .expire id now =>
    match s.pending.find? (fun p => p.id == id) with
    | none => (s, none)                                   -- no such goroutine (never armed / already gone)
    | some p =>
      if now < p.deadline then (s, none)                  -- not enabled: timers do not fire early (assumption)
      else ({ s with pending := s.pending.filter (fun q => q.id != id) },
            if s.armed = p.round then
              (match s.handler with
               | some k => some { id := p.id, round := p.round, time := now, handler := k }
               | none => none)                            -- `done == nil`: the goroutine ends without a callback
            else none)
  | .cancel => ({ s with cancelled := true }, none)
  | .reap id =>
    if s.cancelled then ({ s with pending := s.pending.filter (fun q => q.id != id) }, none) else (s, none)
  | .register k => ({ s with handler := k }, none)

def run (c : Cfg) : State → List Op → State × List Fire
  | s, [] => (s, [])
  | s, op :: ops =>
    let r1 := step c s op
    let r2 := run c r1.1 ops
    (r2.1, r1.2.toList ++ r2.2)

/-! ### the punctual schedule used by the differential driver
Between two scripted operations every pending expiry whose deadline has passed fires (in deadline order);
once the context is cancelled every goroutine leaves through `ctx.Done()`. It is one particular op list of
the model above (`advance` literally runs `run` on it). -/

def pendLe (a b : Pend) : Bool := a.deadline < b.deadline || (a.deadline == b.deadline && a.id ≤ b.id)

def dueOps (s : State) (now : Nat) : List Op :=
  if s.cancelled then s.pending.map (fun p => Op.reap p.id)
  else ((s.pending.filter (fun p => p.deadline ≤ now)).mergeSort pendLe).map (fun p => Op.expire p.id now)

def advance (c : Cfg) (s : State) (now : Nat) : State × List Fire := run c s (dueOps s now)

/-! ## Part 2 — controller half: `Controller.OnTimeout` and `Instance.UponRoundTimeout` -/

namespace Ctl

structure Inst where
  height : Nat
  round : Nat
  decided : Bool
  stopped : Bool          -- forceStop
deriving Repr, DecidableEq

/-- `cap` = capacity of `StoredInstances`, `cutoff` = `instance.CutoffRound` (a Go `var`; supplied by the harness) -/
structure State where
  height : Nat            -- Controller.Height
  insts : List Inst       -- StoredInstances, in container order
  cap : Nat
  cutoff : Nat
  running : Option Nat    -- ghost: height of the most recently STARTED instance (the runner's running instance); never read by `step`
deriving Repr, DecidableEq

def init (cap cutoff : Nat) : State := { height := 0, insts := [], cap := cap, cutoff := cutoff, running := none }

inductive Op where
  | start (h : Nat)            -- StartNewInstance(h, valid value)
  | decide (h r : Nat)         -- ProcessMsg(valid decided message of height h, round r)
  | timeout (h r : Nat)        -- OnTimeout(EventMsg{Timeout, {h, r}})
  | badTimeout                 -- OnTimeout with undecodable timeout data
deriving Repr, DecidableEq

inductive Tag where
  | ok | errPastHeight | errRunning | errBadData | errNilInstance | oldRound | decided | errStopped
deriving Repr, DecidableEq

/-- what an operation does to the outside: round-change broadcasts and `TimeoutForRound` calls -/
structure Out where
  tag : Tag
  bcast : Nat
  arms : List (Nat × Nat)
deriving Repr, DecidableEq

def find (l : List Inst) (h : Nat) : Option Inst := l.find? (fun i => i.height == h)

/-- `Instance.CanProcessMessages` -/
def canProcess (s : State) (i : Inst) : Bool := !i.stopped && decide (i.round < s.cutoff)

/-- `InstanceContainer.addNewInstance`: insert before the first stored instance of lower height; a full
    container drops its last element (or the new instance itself when it would go last) -/
def insertAt (l : List Inst) (k : Nat) (x : Inst) : List Inst := l.take k ++ x :: l.drop k

def indexToInsert : List Inst → Nat → Nat
  | [], _ => 0
  | e :: rest, h => if e.height < h then 0 else indexToInsert rest h + 1

def addNew (cap : Nat) (l : List Inst) (x : Inst) : List Inst :=
  -- Go: `if cap(*i) == 0 { make(.., 0, Default) }` — the harness reports the effective capacity, so cap > 0 here
  let k := indexToInsert l x.height
  if k = l.length then (if l.length < cap then l ++ [x] else l)
  else if l.length = cap then (insertAt l k x).take cap
  else insertAt l k x

/-- update the instance `FindInstance` returns (the first of that height) -/
def setInst : List Inst → Nat → (Inst → Inst) → List Inst
  | [], _, _ => []
  | i :: rest, h, f => if i.height == h then f i :: rest else i :: setInst rest h f

def step (s : State) : Op → State × Out
  | .start h =>
    if h < s.height then (s, ⟨.errPastHeight, 0, []⟩)
    else if (find s.insts h).isSome then (s, ⟨.errRunning, 0, []⟩)
    else
      let l := addNew s.cap s.insts { height := h, round := Gen.timer_FirstRound, decided := false, stopped := false }
      -- forceStopAllInstanceExceptCurrent
      let l := l.map (fun i => if i.height != h then { i with stopped := true } else i)
      ({ s with height := h, insts := l, running := some h }, ⟨.ok, 0, [(h, Gen.timer_FirstRound)]⟩)
  | .decide h r =>
    let l := match find s.insts h with
      | none => addNew s.cap s.insts { height := h, round := r, decided := true, stopped := false }
      | some i => if i.decided then s.insts else setInst s.insts h (fun i => { i with decided := true, round := r })
    ({ s with insts := l, height := if h > s.height then h else s.height }, ⟨.ok, 0, []⟩)
  | .badTimeout => (s, ⟨.errBadData, 0, []⟩)
  | .timeout h r =>
    match find s.insts h with
    | none => (s, ⟨.errNilInstance, 0, []⟩)
    | some i =>
      if r < i.round then (s, ⟨.oldRound, 0, []⟩)
      else if i.decided then (s, ⟨.decided, 0, []⟩)
      else if !canProcess s i then (s, ⟨.errStopped, 0, []⟩)
      else
        -- UponRoundTimeout: broadcast round-change for round+1, then (deferred) bump and re-arm
        ({ s with insts := setInst s.insts h (fun i => { i with round := i.round + 1 }) },
         ⟨.ok, 1, [(h, i.round + 1)]⟩)

def run : State → List Op → State × List Out
  | s, [] => (s, [])
  | s, op :: ops =>
    let r1 := step s op
    let r2 := run r1.1 ops
    (r2.1, r1.2 :: r2.2)

end Ctl

end Ssv.Timer
