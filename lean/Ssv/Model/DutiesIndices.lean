/-
Model of the index functions the duty handlers call on the validator controller (operator/validator/controller.go
`AllActiveIndices`, `CommitteeActiveIndices`; protocol/v2/types/ssvshare.go `IsAttesting`) and of the beacon node as seen
through them — the environment layer in front of the handler model of Ssv/Model/Duties.lean.  Core Lean only.

* a share of the registry: validator index, owner (this operator or not), liquidated flag, beacon metadata status;
* `AllActiveIndices(epoch)`   = indices of ALL shares (any owner, liquidated or not) that are attesting at `epoch`;
* `CommitteeActiveIndices(epoch)` = indices of the shares that have a running validator — shares of this operator
  that are not liquidated (StartValidators / onShareStop) — and are attesting at `epoch`;
* the beacon node answers a duty request with the duties of the REQUESTED indices only;
* `resolve`: what one `fetchAndProcessDuties(arg)` sees, as a `FetchRes` of the handler model.
Both index functions are filters of the share list: no share can hide another one (`Props/C16.lean`).
-/
import Ssv.Model.Duties

namespace Ssv.Duties

inductive ShareStatus
  | noMeta                      -- BeaconMetadata == nil
  | attesting                   -- ActiveOngoing, ActiveExiting
  | pendingQueued (activation : Nat)
  | other                       -- exited, slashed, pending-initialized, unknown …
deriving Repr, DecidableEq

structure Share where
  vidx : Nat
  own : Bool
  liquidated : Bool
  st : ShareStatus
deriving Repr, DecidableEq

/-- `SSVShare.IsAttesting(epoch)`: has metadata ∧ (status.IsAttesting ∨ (PendingQueued ∧ ActivationEpoch ≤ epoch)) -/
def Share.isAttesting (s : Share) (epoch : Nat) : Bool :=
  match s.st with
  | .attesting => true
  | .pendingQueued a => decide (a ≤ epoch)
  | _ => false

/-- `controller.AllActiveIndices(epoch, _)` -/
def allActive (shares : List Share) (epoch : Nat) : List Nat :=
  (shares.filter (fun s => s.isAttesting epoch)).map (·.vidx)

/-- the share has a running validator (validators map): own and not liquidated -/
def Share.running (s : Share) : Bool := s.own && !s.liquidated

/-- `controller.CommitteeActiveIndices(epoch)` -/
def committeeActive (shares : List Share) (epoch : Nat) : List Nat :=
  (shares.filter (fun s => s.running && s.isAttesting epoch)).map (·.vidx)

/-- what the beacon node would answer at this moment: error, or the duties the chain assigns (to anybody) -/
inductive Chain
  | fail
  | ok (duties : List Duty)
deriving Repr, DecidableEq

/-- one `fetchAndProcessDuties` whose index functions are asked for epoch `arg`: the attester handler requests the
    committee indices, the other two all active indices; an empty request ends the fetch (`noIdx`); the beacon node
    answers for the requested indices only -/
def resolve (k : Kind) (shares : List Share) (arg : Nat) (c : Chain) : FetchRes :=
  let com := committeeActive shares arg
  let req := match k with
    | .att => com
    | _ => allActive shares arg
  if req.isEmpty then .noIdx
  else match c with
    | .fail => .fail
    | .ok ds => .ok com (ds.filter (fun d => req.contains d.vidx))

/-- the epoch arguments of the fetches in a list of atoms, in order -/
def fetchArgs : List Atom → List Nat
  | [] => []
  | .fetch _ arg _ :: r => arg :: fetchArgs r
  | .execs _ _ _ :: r => fetchArgs r

inductive EnvEvent
  | tick (slot clock : Nat) (c1 c2 : Chain)
  | reorg (slot : Nat) (prev cur : Bool)
  | indices (clock : Nat)
  /-- the registry changes (share added / removed / liquidated / metadata updated); the handlers are not told -/
  | shares (l : List Share)
deriving Repr, DecidableEq

/-- the handler-level event an environment event amounts to in state `rs` with registry `shares`.  The epoch arguments
    of the (at most two) fetches of a tick do not depend on the fetch outcomes, so they are read off a probe run in which
    both fetches find no indices. -/
def resolveEvent (k : Kind) (n : Net) (shares : List Share) (rs : RState) : EnvEvent → Option Event
  | .tick slot clock c1 c2 =>
    let args := fetchArgs (step k n rs (.tick slot clock .noIdx .noIdx)).2
    let r (i : Nat) (c : Chain) : FetchRes := match args[i]? with
      | some a => resolve k shares a c
      | none => .noIdx
    some (.tick slot clock (r 0 c1) (r 1 c2))
  | .reorg s p c => some (.reorg s p c)
  | .indices c => some (.indices c)
  | .shares _ => none

def sharesAfter (shares : List Share) : EnvEvent → List Share
  | .shares l => l
  | _ => shares

/-- one environment event: (registry, handler state, output) -/
def stepE (k : Kind) (n : Net) (shares : List Share) (rs : RState) (e : EnvEvent) : List Share × RState × List Atom :=
  match resolveEvent k n shares rs e with
  | some ev => (sharesAfter shares e, (step k n rs ev).1, (step k n rs ev).2)
  | none => (sharesAfter shares e, rs, [])

/-- the handler-level event list of an environment run -/
def resolveEvents (k : Kind) (n : Net) : List Share → RState → List EnvEvent → List Event
  | _, _, [] => []
  | shares, rs, e :: es =>
    match resolveEvent k n shares rs e with
    | some ev => ev :: resolveEvents k n (sharesAfter shares e) (step k n rs ev).1 es
    | none => resolveEvents k n (sharesAfter shares e) rs es

/-- the outcome of the initial fetch (`HandleInitialDuties`) -/
def resolveInit (k : Kind) (n : Net) (shares : List Share) (clock0 : Nat) (c : Chain) : FetchRes :=
  match (fetchArgs (initH k n clock0 .noIdx).2)[0]? with
  | some a => resolve k shares a c
  | none => .noIdx

/-- a whole run against a registry and a beacon node: it IS a run of the handler model -/
def runE (k : Kind) (n : Net) (shares0 : List Share) (clock0 : Nat) (c0 : Chain) (evs : List EnvEvent) : List Atom :=
  run k n clock0 (resolveInit k n shares0 clock0 c0)
    (resolveEvents k n shares0 (initH k n clock0 (resolveInit k n shares0 clock0 c0)).1 evs)

end Ssv.Duties
