/-
Model of network/commons/common.go (topic mapping + signed envelope) and
network/records/subnets.go (subnet bitmap string codec).            (property C18)

Go strings and byte slices are modelled as `List Nat` (one Nat per byte); theorems carry the
explicit well-formedness predicate `Bytes l` (every element < 256) where it matters.
Core Lean only: this file is linked into the native model driver `m_topics`.
-/
import Ssv.Gen.Topics

namespace Ssv.Topics

/-- every element is a byte -/
def Bytes (l : List Nat) : Prop := ∀ b ∈ l, b < 256

instance (l : List Nat) : Decidable (Bytes l) := by unfold Bytes; infer_instance

/-! ### encoding/hex, strconv.ParseUint(·,16,64) -/

/-- lower-case hex digit (ASCII code) of a nibble, as `encoding/hex` writes it -/
def hexDigit (n : Nat) : Nat := if n < 10 then 48 + n else 87 + n

/-- `hex.EncodeToString` -/
def hexEncode : List Nat → List Nat
  | [] => []
  | b :: bs => hexDigit (b / 16) :: hexDigit (b % 16) :: hexEncode bs

/-- value of one hex digit as `strconv.ParseUint(_,16,_)` reads it (both cases accepted) -/
def hexVal? (c : Nat) : Option Nat :=
  if 48 ≤ c ∧ c ≤ 57 then some (c - 48)
  else if 97 ≤ c ∧ c ≤ 102 then some (c - 87)
  else if 65 ≤ c ∧ c ≤ 70 then some (c - 55)
  else none

def parseUint16.go : List Nat → Nat → Option Nat
  | [], acc => some acc
  | c :: cs, acc =>
    match hexVal? c with
    | none => none
    | some v =>
      let acc' := acc * 16 + v
      if acc' ≥ 2 ^ 64 then none else parseUint16.go cs acc'

/-- `strconv.ParseUint(s, 16, 64)`; `none` = any error (empty, bad digit, out of range) -/
def parseUint16 : List Nat → Option Nat
  | [] => none
  | c :: cs => parseUint16.go (c :: cs) 0

/-- `hexToUint64`: the Go code maps every parse error to 0 -/
def hexToUint64 (s : List Nat) : Nat :=
  match parseUint16 s with
  | some v => v
  | none => 0

/-! ### topic mapping -/

/-- `ValidatorSubnet(validatorPKHex string) int` -/
def validatorSubnet (pkHex : List Nat) : Int :=
  if pkHex.length < 10 then -1
  else ((hexToUint64 (pkHex.take 10) % Gen.commons_subnetsCount : Nat) : Int)

/-- decimal rendering of a natural number, as `fmt.Sprintf("%d", n)` (ASCII codes) -/
def natDigits (n : Nat) : List Nat := (Nat.repr n).toList.map (·.toNat)

/-- `SubnetTopicID(subnet int) string` -/
def subnetTopicID (subnet : Int) : List Nat :=
  if subnet < 0 then Gen.commons_UnknownSubnet else natDigits subnet.toNat

/-- `ValidatorTopicID(pk []byte) []string` -/
def validatorTopicID (pk : List Nat) : List (List Nat) :=
  [subnetTopicID (validatorSubnet (hexEncode pk))]

/-- `topicPrefix + "."` -/
def prefixDot : List Nat := Gen.commons_topicPrefix ++ [46]

/-- `GetTopicFullName(baseName)` = `fmt.Sprintf("%s.%s", topicPrefix, baseName)` -/
def getTopicFullName (base : List Nat) : List Nat := prefixDot ++ base

/-- `strings.Replace(s, pat, "", 1)` for non-empty `pat`: delete the leftmost occurrence -/
def deleteFirst (pat : List Nat) : List Nat → List Nat
  | [] => []
  | c :: cs =>
    if pat.isPrefixOf (c :: cs) then (c :: cs).drop pat.length
    else c :: deleteFirst pat cs

/-- `GetTopicBaseName(topicName)` -/
def getTopicBaseName (topic : List Nat) : List Nat := deleteFirst prefixDot topic

/-- the names handed to pubsub by `p2pNetwork.Broadcast` for a message of validator `pk`
    (`commons.ValidatorTopicID(pk)`, each passed through `GetTopicFullName` by the topics controller) -/
def publishTopics (pk : List Nat) : List (List Nat) := (validatorTopicID pk).map getTopicFullName

/-- the names subscribed by `p2pNetwork.Subscribe(pk)` -/
def subscribeTopics (pk : List Nat) : List (List Nat) := (validatorTopicID pk).map getTopicFullName

/-- the receiving side's topic rule in `validateP2PMessage`:
    `GetTopicBaseName(pMsg.GetTopic()) ∈ ValidatorTopicID(msg.GetID().GetPubKey())` -/
def validatorAcceptsTopic (pk : List Nat) (topic : List Nat) : Bool :=
  (validatorTopicID pk).contains (getTopicBaseName topic)

/-- `Topics()` : all advertised full topic names -/
def allTopics : List (List Nat) :=
  (List.range Gen.commons_subnetsCount).map fun (i : Nat) => getTopicFullName (subnetTopicID (Int.ofNat i))

/-! ### signed envelope -/

/-- `binary.LittleEndian.PutUint64` -/
def le64 (n : Nat) : List Nat := (List.range 8).map fun i => (n / 256 ^ i) % 256

/-- `binary.LittleEndian.Uint64` of (at most 8) bytes -/
def unLe64 : List Nat → Nat
  | [] => 0
  | b :: bs => b + 256 * unLe64 bs

/-- first `n` bytes of `l`, zero-padded (what `copy` into a zeroed `make` buffer leaves) -/
def padTake (n : Nat) (l : List Nat) : List Nat := l.take n ++ List.replicate (n - l.length) 0

/-- `EncodeSignedSSVMessage(message, operatorID, signature)`.
    `copy(b[0:], signature)` may spill over the id/message area when the signature is longer
    than `signatureSize`, but `PutUint64` and `copy(b[messageOffset:], message)` then overwrite
    every byte from `operatorIDOffset` on, so the result is the padded/truncated signature,
    the id, the message. (`operatorID` is a uint64: reduced mod 2^64.) -/
def encodeSigned (msg : List Nat) (opId : Nat) (sig : List Nat) : List Nat :=
  padTake Gen.commons_signatureSize sig ++ le64 (opId % 2 ^ 64) ++ msg

/-- `DecodeSignedSSVMessage(encoded)`; `none` = the size error -/
def decodeSigned (enc : List Nat) : Option (List Nat × Nat × List Nat) :=
  if enc.length < Gen.commons_messageOffset then none
  else some (enc.drop Gen.commons_messageOffset,
             unLe64 ((enc.drop Gen.commons_operatorIDOffset).take Gen.commons_operatorIDSize),
             (enc.drop Gen.commons_signatureOffset).take Gen.commons_signatureSize)

/-! ### subnets bitmap <-> string -/

/-- value of bit `i` of the 16-byte bit vector built by `Subnets.String`: `SetBitAt(i, s[i] > 0)`
    for every index of `s`; `SetBitAt` ignores indices ≥ 128 -/
def bitOf (s : List Nat) (i : Nat) : Nat :=
  match s[i]? with
  | some v => if v > 0 then 1 else 0
  | none => 0

/-- byte `k` of the bit vector (bit `j` of byte `k` is subnet `8k+j`) -/
def vecByte (s : List Nat) (k : Nat) : Nat :=
  (List.range 8).foldr (fun j acc => bitOf s (8 * k + j) + 2 * acc) 0

/-- `Subnets.String()` -/
def subnetsToString (s : List Nat) : List Nat :=
  hexEncode ((List.range 16).map (vecByte s))

/-- value of one character as `strconv.ParseUint(string(c), 16, 8)` -/
def charMask? (c : Nat) : Option (List Nat) :=
  match hexVal? c with
  | none => none
  | some v => some [v % 2, (v / 2) % 2, (v / 4) % 2, (v / 8) % 2]

def fromStringPairs : List Nat → Option (List Nat)
  | c1 :: c2 :: rest =>
    match charMask? c1, charMask? c2 with
    | some m1, some m2 =>
      match fromStringPairs rest with
      | some d => some (m2 ++ m1 ++ d)
      | none => none
    | _, _ => none
  | _ => some []

/-- `strings.Replace(s, "0x", "", 1)` -/
def strip0x (s : List Nat) : List Nat := deleteFirst [48, 120] s

/-- `Subnets.FromString(str)`; `none` = parse error. A trailing odd character is ignored. -/
def subnetsFromString (str : List Nat) : Option (List Nat) := fromStringPairs (strip0x str)

/-! ### subnet-vector helpers used by peer selection / discovery (`SharedSubnets`, `DiffSubnets`, `Active`) -/

/-- the scan loop of `SharedSubnets`: `i` = current index, `cnt` = entries appended so far,
    `lim` = the (already defaulted) `maxLen`. The Go loop ends at the first index that `b` does not have,
    and right after the append that makes `len(shared) == maxLen` (so a negative or otherwise
    never-reached `maxLen` is modelled by any `lim` that is not hit; the driver passes `none`). -/
def sharedGo : List Nat → List Nat → Nat → Nat → Option Nat → List Nat
  | [], _, _, _, _ => []
  | _ :: _, [], _, _, _ => []
  | av :: as, bv :: bs, i, cnt, lim =>
    if av = 0 ∨ bv = 0 then sharedGo as bs (i + 1) cnt lim
    else if lim = some (cnt + 1) then [i]
    else i :: sharedGo as bs (i + 1) (cnt + 1) lim

/-- `SharedSubnets(a, b, maxLen)`. `maxLen == 0` means `len(a)`; a negative `maxLen` never stops the scan. -/
def sharedSubnets (a b : List Nat) (maxLen : Int) : List Nat :=
  let lim : Option Nat := if maxLen = 0 then some a.length else if maxLen < 0 then none else some maxLen.toNat
  if a.isEmpty || b.isEmpty then [] else sharedGo a b 0 0 lim

def diffGo : List Nat → List Nat → Nat → List (Nat × Nat)
  | _, [], _ => []
  | [], bv :: bs, i => (i, bv) :: diffGo [] bs (i + 1)
  | av :: as, bv :: bs, i => if av ≠ bv then (i, bv) :: diffGo as bs (i + 1) else diffGo as bs (i + 1)

/-- `DiffSubnets(a, b)`: the Go map, listed by increasing key -/
def diffSubnets (a b : List Nat) : List (Nat × Nat) := diffGo a b 0

/-- `Subnets.Active()` -/
def active (s : List Nat) : Nat := (s.filter (· > 0)).length

end Ssv.Topics
