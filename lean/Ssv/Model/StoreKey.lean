/-
Model of the key derivation of ibft/storage/store.go (`save` / `get` / `delete` / `CleanAllInstances`) on top of
storage/kv (Badger key = prefix ++ key).                                                    (property C15)

The heights model (`Ssv/Model/Heights.lean`) treats the store as a map (identifier, highest | height) ↦ instance;
this file models the bytes that map is realised with, so that "distinct entries never share a database key" and
"CleanAllInstances removes exactly one identifier's entries" are theorems and not assumptions.
Byte strings are `List Nat`. Core Lean only (linked into `m_storekey`).
-/
import Ssv.Gen.Heights
import Ssv.Model.Topics

namespace Ssv.StoreKey
open Ssv.Topics (le64)

def bytesOf (s : String) : List Nat := s.toList.map (·.toNat)

/-- `highestInstanceKey` / `instanceKey` of ibft/storage/store.go (regenerated constants) -/
def highestTag : List Nat := bytesOf Gen.heights_highestInstanceKey
def instanceTag : List Nat := bytesOf Gen.heights_instanceKey

/-- which entry of one identifier -/
inductive Kind
  | highest                 -- GetHighestInstance / SaveHighestInstance
  | inst (h : Nat)          -- GetInstance / SaveInstance for height h
deriving DecidableEq, Repr

/-- `ibftStorage.key(id, params...)`: the tag followed by `uInt64ToByteSlice(uint64(height))` (little endian) -/
def keyPart : Kind → List Nat
  | .highest => highestTag
  | .inst h => instanceTag ++ le64 (h % 2 ^ 64)

/-- the `(prefix, key)` pair handed to `db.Set / Get / Delete` by `save / get / delete` -/
def dbArgs (pfx id : List Nat) (k : Kind) : List Nat × List Nat := (pfx ++ id, keyPart k)

/-- the Badger key: `append(prefix, key...)` -/
def dbKey (pfx id : List Nat) (k : Kind) : List Nat := pfx ++ id ++ keyPart k

/-- the prefix `CleanAllInstances` hands to `db.DeletePrefix` -/
def cleanPrefix (pfx id : List Nat) : List Nat := pfx ++ id ++ instanceTag

/-- what `CleanAllInstances(id)` removes from a set of stored keys: everything under `cleanPrefix`, then the highest entry -/
def cleanAll (pfx id : List Nat) (keys : List (List Nat)) : List (List Nat) :=
  (keys.filter fun k => !(cleanPrefix pfx id).isPrefixOf k).filter fun k => k ≠ dbKey pfx id .highest

end Ssv.StoreKey
