/-
Node-record (ENR) entry decoders of network/records/entries.go, as reached from a discovered peer's record
(network/discovery: `checkPeer`, `subnetFilter`, `sharedSubnetsFilter`).  Core Lean only.

An entry's value is one RLP item.  The RLP layer (go-ethereum `rlp.Stream.Decode(&buf)` into a byte slice) is an abstract
input computed by the harness with the real library: either the item is a canonical byte string — then its bytes are given —
or it is not (a list, a non-canonical string): `notBytes`.
-/
namespace Ssv.Validation

inductive EnrValue where
  | bytes (b : List Nat)   -- canonical RLP byte string (integers are byte strings, too)
  | notBytes               -- list / non-canonical encoding: decoding into []byte fails
deriving Repr, DecidableEq

inductive EntryOutcome where
  | ok (v : List Nat)
  | err
  | panic                  -- Go run-time panic (slice-to-array conversion of a short slice)
deriving Repr, DecidableEq

/-- `len(spectypes.DomainType{})` -/
def domainTypeLen : Nat := 4

/-- `DomainTypeEntry.DecodeRLP` as it is now: `if len(buf) < len(dt) { return err }; *dt = DomainTypeEntry(buf)`
    (the conversion copies the first four bytes; longer values are truncated) -/
def decodeDomainType : EnrValue → EntryOutcome
  | .notBytes => .err
  | .bytes b => if b.length < domainTypeLen then .err else .ok (b.take domainTypeLen)

/-- the decoder BEFORE repair aac5f5f72: no length guard — Go's slice-to-array conversion panics when len(buf) < 4 -/
def decodeDomainTypeOld : EnrValue → EntryOutcome
  | .notBytes => .err
  | .bytes b => if b.length < domainTypeLen then .panic else .ok (b.take domainTypeLen)

/-- number of subnets = bits of `bitfield.Bitvector128` -/
def subnetBits : Nat := 128

def bitAt (b : List Nat) (i : Nat) : Nat := (b.getD (i / 8) 0 / 2 ^ (i % 8)) % 2

/-- `GetSubnetsEntry`: the value is decoded into a `Bitvector128` (a byte slice of ANY length); the result always has 128
    entries; `BitAt` answers false unless the slice is exactly 16 bytes long -/
def decodeSubnets : EnrValue → EntryOutcome
  | .notBytes => .err
  | .bytes b => .ok ((List.range subnetBits).map fun i => if b.length = 16 then bitAt b i else 0)

end Ssv.Validation
