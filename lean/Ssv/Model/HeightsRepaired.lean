/-
Engine `heights` (C15): the model of the code WITH the two candidate repairs of notes/C15.md applied.
NOT a model of the pinned tree — it exists to answer "does the repaired code satisfy the full clauses?".
Only the functions the repairs touch (and their callers up to `step`) are re-defined; everything else is shared
with Ssv/Model/Heights.lean.

Repair 1 (ibft/storage/store.go `saveInstance`): a stored record (highest / historical) is overwritten only by a record
  of a higher height or, at the same height, by a certificate with more signers (`replaces`).
Repair 2 (controller/decided.go `UponDecided`): an instance that `InstanceForHeight` reloaded from storage is put into
  `StoredInstances` (`addNewInstance`) and is always handed to `SaveInstance`.
-/
import Ssv.Model.Heights

namespace Ssv.Heights

/-- `replaces(prev, next)` of repair 1 -/
def replacesR (prev : Option Stored) (next : Stored) : Bool :=
  match prev with
  | none => true
  | some p =>
    if p.inst.height ≠ next.inst.height then decide (p.inst.height < next.inst.height)
    else decide (p.cert.signers.length < next.cert.signers.length)

def storeSaveR (st : Store) (rec : Stored) (toHistory asHighest : Bool) : Store :=
  let rec' : Stored := { rec with inst := { trim rec.inst with stopped := false } }
  { highest := if asHighest && replacesR st.highest rec' then some rec' else st.highest,
    hist := if toHistory && replacesR (histGet st.hist rec'.inst.height) rec' then histPut rec'.inst.height rec' st.hist
            else st.hist }

def saveInstanceR (c : Ctrl) (st : Store) (i : Inst) (m : Msg) : Store :=
  let isHighest := decide (c.height ≤ i.height)
  if c.full then
    if isHighest then storeSaveR st ⟨i, m⟩ true true else storeSaveR st ⟨i, m⟩ true false
  else
    if isHighest then storeSaveR st ⟨i, m⟩ false true else st

def saveFoundR (c : Ctrl) (st : Store) (h : Nat) (m : Msg) : Store :=
  match find c.insts h with
  | some i => saveInstanceR c st i m
  | none => st

/-- repair 2: (container after the branch, save?) -/
def decidedBranchR (c : Ctrl) (st : Store) (h : Nat) (m : Msg) : List Inst × Bool :=
  match instanceForHeight c st h with
  | none => (addNew c.insts ⟨h, m.round, true, false, [m]⟩, true)
  | some (i, inMem0) =>
    -- a reloaded instance is put into the container (it may not fit: then it stays a temporary object)
    let insts0 := if inMem0 then c.insts else addNew c.insts i
    let inMem := (find insts0 h).isSome
    if !i.decided then
      (if inMem then replaceInst { i with decided := true, round := m.round, commits := i.commits ++ [m] } insts0
       else insts0, true)
    else if longest i.commits m.round m.root < m.signers.length then
      (if inMem then replaceInst { i with commits := i.commits ++ [m] } insts0 else insts0, true)
    else (insts0, !inMem0)

def uponDecidedR (c : Ctrl) (st : Store) (h : Nat) (m : Msg) : Ctrl × Store × DOut :=
  let br := decidedBranchR c st h m
  let c1 : Ctrl := { c with insts := br.1 }
  let st' := if br.2 then saveFoundR c1 st h m else st
  let c2 : Ctrl := { c1 with height := if c.height < h then h else c.height }
  (c2, st', if prevDecidedOf c st h then .dup else .new)

def processMsgR (q : Nat) (c : Ctrl) (st : Store) (h : Nat) (m : Msg) (ok : Bool) : Ctrl × Store × DOut :=
  if !ok then (c, st, .err)
  else if m.signers.length < q then (c, st, .err)
  else uponDecidedR c st h m

def decidedViaRunnerR (s : State) (h : Nat) (m : Msg) (ok : Bool) : State × Out :=
  let p := processMsgR s.q s.c s.s h m ok
  let c2 := if s.q ≤ m.signers.length then compactAt p.1 h else p.1
  let r2 := syncRun s.r c2
  let saves := runnerSaves s.r h p.2.2
  ({ s with c := c2,
            s := if saves then saveFoundR c2 p.2.1 h m else p.2.1,
            r := if saves then { r2 with hds := h } else r2 },
   runnerOut s.r h p.2.2)

def decidedViaCtrlR (s : State) (h : Nat) (m : Msg) (ok : Bool) : State × Out :=
  let p := processMsgR s.q s.c s.s h m ok
  ({ s with c := p.1, s := p.2.1, r := syncRun s.r p.1 },
    match p.2.2 with | .err => .derr | .new => .dnew | .dup => .ddup)

/-- the store-failure variant: the first Save* call fails (nothing written); the runner's own save goes through repair 1 -/
def decidedViaRunnerSFR (s : State) (h : Nat) (m : Msg) (ok : Bool) : State × Out :=
  let p := processMsgR s.q s.c s.s h m ok
  let consumed := ok && decide (s.q ≤ m.signers.length) &&
    ((decidedBranchR s.c s.s h m).2 &&
      match find (decidedBranchR s.c s.s h m).1 h with
      | some i => s.c.full || decide (s.c.height ≤ i.height)
      | none => false)
  let c2 := if s.q ≤ m.signers.length then compactAt p.1 h else p.1
  let r2 := syncRun s.r c2
  let saves := runnerSaves s.r h p.2.2
  ({ s with c := c2,
            s := if saves && consumed then saveFoundR c2 s.s h m else s.s,
            r := if saves then { r2 with hds := h } else r2 },
   runnerOut s.r h p.2.2)

def decidedViaCtrlSFR (s : State) (h : Nat) (m : Msg) (ok : Bool) : State × Out :=
  let p := processMsgR s.q s.c s.s h m ok
  ({ s with c := p.1, r := syncRun s.r p.1 },
    match p.2.2 with | .err => .derr | .new => .dnew | .dup => .ddup)

def commitsStepR (s : State) (root : Nat) (valOk : Bool) : State × Out :=
  match s.r.duty, s.r.running with
  | some _, some rh =>
    match find s.c.insts rh with
    | some i =>
      if !i.decided && i.commits.isEmpty && !i.stopped && i.round == Gen.heights_FirstRound then
        let i' : Inst := { i with decided := true, commits := singles s.q root }
        let c' : Ctrl := { s.c with insts := replaceInst i' s.c.insts }
        let cert : Msg := ⟨Gen.heights_FirstRound, root, List.range' 1 s.q⟩
        ({ s with c := c', s := saveFoundR c' s.s rh cert, r := { syncRun s.r c' with hds := rh } },
          if valOk then .cok else .cerr)
      else (s, .na)
    | none => (s, .na)
  | _, _ => (s, .na)

def stepR (s : State) : Op → State × Out
  | .decided h round root signers ok viaRunner =>
    if viaRunner then decidedViaRunnerR s h ⟨round, root, signers⟩ ok
    else decidedViaCtrlR s h ⟨round, root, signers⟩ ok
  | .decidedSF h round root signers ok viaRunner =>
    if viaRunner then decidedViaRunnerSFR s h ⟨round, root, signers⟩ ok
    else decidedViaCtrlSFR s h ⟨round, root, signers⟩ ok
  | .commits root valOk => commitsStepR s root valOk
  | op => step s op

def runR (s : State) (ops : List Op) : State := ops.foldl (fun s o => (stepR s o).1) s

end Ssv.Heights
