/-
Engine `logstream` (property C13): the cursor state machine of the execution client's log stream.

Modelled line by line from /repo (after fix e592c25d6):
  eth/executionclient/logs.go              PackLogs
  eth/executionclient/execution_client.go  fetchLogsInBatches, streamLogsToChan, StreamLogs, FetchHistoricalLogs
  eth/eventsyncer/event_syncer.go          SyncHistory, SyncOngoing
  eth/eventhandler/event_handler.go        HandleBlockEventsStream / processBlockEvents (cursor logic only)
  cli/operator/node.go                     setupEventHandling (hand-over `lastProcessedBlock + 1`)

Abstractions (see notes/C13.md):
* the execution node is a total function `chain : block → logs` (no reorg below head − followDistance);
  `eth_getLogs [from,to]` answers with the logs of these blocks in block order, each block's logs in the
  order the chain lists them;
* goroutines + channels of fetchLogsInBatches/streamLogsToChan are sequentialised: every entry of every
  successfully fetched batch is forwarded before the fetch error (if any) is read — this is what the code does
  (`for block := range logStream {…}` runs until the producer closed the channel, only then `<-fetchErrors`);
* uint64 arithmetic is `Nat` (block numbers stay below 2^64);
* `logger.Fatal` (process exit) is the explicit outcome `aborted`;
* `sort.Slice` in PackLogs is modelled as a stable insertion sort (Go: insertion sort for ≤ 12 elements, pdqsort
  otherwise, which performs no move on an already ordered slice; the node's answer is ordered).
Core Lean only.
-/
import Ssv.Gen.Logstream

namespace Ssv.LogStream

/-! ## data -/

/-- a contract log as it sits in a block of the chain -/
structure RawLog where
  id : Nat
  tx : Nat          -- transaction index inside the block
  removed : Bool
deriving DecidableEq, Repr

/-- `ethtypes.Log` as the client sees it -/
structure Log where
  block : Nat
  tx : Nat
  id : Nat
  removed : Bool
deriving DecidableEq, Repr

/-- `executionclient.BlockLogs` -/
structure BlockLogs where
  block : Nat
  logs : List Log
deriving DecidableEq, Repr

/-- static configuration of a run: the scripted chain and the two client options -/
structure Cfg where
  chain : Nat → List RawLog
  batch : Nat       -- logBatchSize
  follow : Nat      -- followDistance

def defaultBatch : Nat := Gen.ls_DefaultHistoricalLogsBatchSize
def defaultFollow : Nat := Gen.ls_DefaultFollowDistance
/-- capacity of the channel between fetchLogsInBatches and its consumer (irrelevant for the delivered sequence) -/
def logBuf : Nat := Gen.ls_defaultLogBuf
/-- `if tries > 2 { logger.Fatal }` in StreamLogs (a literal in the source; pinned by the source fingerprint) -/
def maxTries : Nat := 2

def mkLog (b : Nat) (r : RawLog) : Log := ⟨b, r.tx, r.id, r.removed⟩

/-- the answer of the node to `eth_getLogs {fromBlock: lo, toBlock: lo + n - 1}` -/
def nodeLogs (chain : Nat → List RawLog) (lo n : Nat) : List Log :=
  (List.range' lo n).flatMap fun b => (chain b).map (mkLog b)

/-- what the property calls "that block's non-removed logs, in order" -/
def nonRemoved (chain : Nat → List RawLog) (b : Nat) : List Log :=
  ((chain b).map (mkLog b)).filter fun l => !l.removed

/-! ## PackLogs -/

/-- the `less` of PackLogs: by block number, then by transaction index -/
def logLess (a b : Log) : Bool :=
  if a.block = b.block then a.tx < b.tx else a.block < b.block

/-- stable insertion: `x` goes before the first element that is not smaller than it -/
def insLog (x : Log) : List Log → List Log
  | [] => [x]
  | y :: ys => if logLess y x then y :: insLog x ys else x :: y :: ys

def sortLogs : List Log → List Log
  | [] => []
  | x :: xs => insLog x (sortLogs xs)

/-- the loop of PackLogs while `all[len(all)-1]` is the entry `(curB, cur)` -/
def packFrom (curB : Nat) (cur : List Log) : List Log → List BlockLogs
  | [] => [⟨curB, cur⟩]
  | l :: rest =>
    if l.block = curB then packFrom curB (cur ++ [l]) rest
    else ⟨curB, cur⟩ :: packFrom l.block [l] rest

def packLoop : List Log → List BlockLogs
  | [] => []
  | l :: rest => packFrom l.block [l] rest

def packLogs (logs : List Log) : List BlockLogs := packLoop (sortLogs logs)

/-! ## fetchLogsInBatches -/

/-- one `FilterLogs` call as the fake node / the model sees it -/
structure Call where
  lo : Nat
  hi : Nat
  ok : Bool
deriving DecidableEq, Repr

/-- what the consumer of fetchLogsInBatches' two channels sees, in order: the entries, then `ok = false` iff an
    error was sent. `arm` is the fault countdown after the fetch. -/
structure FetchRes where
  entries : List BlockLogs
  arm : Option Nat
  ok : Bool
  calls : List Call
deriving Repr

/-- the `default:` branch after a successful FilterLogs for `[lo, hi]` -/
def batchEntries (cfg : Cfg) (lo hi : Nat) : List BlockLogs :=
  let valid := (nodeLogs cfg.chain lo (hi + 1 - lo)).filter fun l => !l.removed
  if valid.isEmpty then [⟨hi, []⟩] else packLogs valid

/-- `for fromBlock := startBlock; fromBlock <= endBlock; fromBlock += batch`.
    `arm = some k`: the (k+1)-th FilterLogs call from now fails. The fuel (number of blocks still to fetch) only
    makes the recursion structural: with batch ≥ 1 it never runs out before the loop condition is false; with
    batch = 0 (where the Go loop never ends) its exhaustion is reported as a failed fetch. -/
def fetchLoop (cfg : Cfg) : Nat → Nat → Nat → Option Nat → FetchRes
  | 0, lo, endB, arm => ⟨[], arm, decide (lo > endB), []⟩
  | fuel + 1, lo, endB, arm =>
    if lo > endB then ⟨[], arm, true, []⟩
    else
      let hi := if lo + cfg.batch - 1 > endB then endB else lo + cfg.batch - 1
      match arm with
      | some 0 => ⟨[], none, false, [⟨lo, hi, false⟩]⟩
      | _ =>
        let r := fetchLoop cfg fuel (lo + cfg.batch) endB (arm.map (· - 1))
        ⟨batchEntries cfg lo hi ++ r.entries, r.arm, r.ok, ⟨lo, hi, true⟩ :: r.calls⟩

/-- `fetchLogsInBatches(ctx, startBlock, endBlock)` -/
def fetchBatches (cfg : Cfg) (startB endB : Nat) (arm : Option Nat) : FetchRes :=
  if startB > endB then ⟨[], arm, false, []⟩       -- ErrBadInput
  else fetchLoop cfg (endB + 1 - startB) startB endB arm

/-! ## streamLogsToChan / StreamLogs -/

inductive Op where
  | head (n : Nat)       -- a header with this number arrives on the newHeads subscription
  | subErr               -- the live subscription reports an error (`<-sub.Err()`), connection intact
  | connDrop             -- the connection is dropped while the client waits for heads (`<-sub.Err()` fires too)
  | fetchErr (k : Nat)   -- arm: the (k+1)-th FilterLogs call from now fails (RPC error or dropped connection)
  | subFail              -- arm: the next `SubscribeNewHead` fails
deriving DecidableEq, Repr

structure St where
  callStart : Nat        -- StreamLogs' `fromBlock`: the argument of the running streamLogsToChan call
  cursor : Nat           -- streamLogsToChan's `fromBlock`
  tries : Nat
  armFetch : Option Nat
  armSub : Nat
  aborted : Bool         -- logger.Fatal was reached
  out : List BlockLogs   -- everything sent on the `logs` channel so far
deriving Repr

def init (start : Nat) : St := ⟨start, start, 0, none, 0, false, []⟩

/-- `for block := range logStream { logs <- block; fromBlock = block.BlockNumber + 1 }` -/
def cursorAfter (cur : Nat) (es : List BlockLogs) : Nat :=
  es.foldl (fun _ e => e.block + 1) cur

/-- StreamLogs after `streamLogsToChan` returned `(s.cursor, err)` with a non-graceful error -/
def afterError (s : St) : St :=
  let tries := s.tries + 1
  if tries > maxTries then { s with tries := tries, aborted := true }
  else { s with tries := if s.cursor > s.callStart then 0 else tries, callStart := s.cursor }

/-- the next streamLogsToChan call(s): each armed subscribe failure makes one call return `(fromBlock, err)`
    at once. -/
def resub : Nat → St → St
  | 0, s => { s with armSub := 0 }
  | k + 1, s => if s.aborted then s else resub k (afterError { s with armSub := k })

def failPath (s : St) : St :=
  let s1 := afterError s
  resub s1.armSub s1

/-- one event of the script; the second component lists the FilterLogs calls it caused -/
def step (cfg : Cfg) (s : St) : Op → St × List Call
  | .head n =>
    if s.aborted then (s, [])
    else if n < cfg.follow then (s, [])
    else
      let toB := n - cfg.follow
      if toB < s.cursor then (s, [])
      else
        let r := fetchBatches cfg s.cursor toB s.armFetch
        let s1 := { s with out := s.out ++ r.entries, cursor := cursorAfter s.cursor r.entries, armFetch := r.arm }
        if r.ok then ({ s1 with cursor := toB + 1 }, r.calls)
        else (failPath s1, r.calls)
  | .subErr => if s.aborted then (s, []) else (failPath s, [])
  | .connDrop => if s.aborted then (s, []) else (failPath s, [])
  | .fetchErr k => if s.aborted then (s, []) else ({ s with armFetch := some k }, [])
  | .subFail => if s.aborted then (s, []) else ({ s with armSub := s.armSub + 1 }, [])

def run (cfg : Cfg) (s : St) (ops : List Op) : St :=
  ops.foldl (fun s o => (step cfg s o).1) s

/-- `StreamLogs(ctx, start)` driven by a fault script -/
def streamLogs (cfg : Cfg) (start : Nat) (ops : List Op) : St := run cfg (init start) ops

/-! ## the cursor handling BEFORE e592c25d6 (regression target)

`streamLogsToChan` had the named result `lastBlock` (zero at the start of every call, set to every delivered
block number, never to `toBlock`), returned its *next-to-fetch* `fromBlock` on subscribe/subscription errors and
`lastBlock` on fetch errors; `StreamLogs` compared `lastBlock > fromBlock` and continued at `lastBlock + 1`. -/

structure StOld where
  callStart : Nat
  cursor : Nat           -- streamLogsToChan's `fromBlock` (only advanced after a complete fetch)
  lastBlock : Nat        -- named result of the running call
  tries : Nat
  armFetch : Option Nat
  armSub : Nat
  aborted : Bool
  out : List BlockLogs
deriving Repr

def initOld (start : Nat) : StOld := ⟨start, start, 0, 0, none, 0, false, []⟩

def lastAfter (last : Nat) (es : List BlockLogs) : Nat :=
  es.foldl (fun _ e => e.block) last

/-- old StreamLogs after the call returned `(ret, err)` -/
def streamOldAfterError (s : StOld) (ret : Nat) : StOld :=
  let tries := s.tries + 1
  if tries > maxTries then { s with tries := tries, aborted := true }
  else { s with tries := if ret > s.callStart then 0 else tries,
                callStart := ret + 1, cursor := ret + 1, lastBlock := 0 }

def streamOldResub : Nat → StOld → StOld
  | 0, s => { s with armSub := 0 }
  | k + 1, s => if s.aborted then s else
      streamOldResub k (streamOldAfterError { s with armSub := k } s.cursor)

def streamOldFail (s : StOld) (ret : Nat) : StOld :=
  let s1 := streamOldAfterError s ret
  streamOldResub s1.armSub s1

def streamOldStep (cfg : Cfg) (s : StOld) : Op → StOld
  | .head n =>
    if s.aborted then s
    else if n < cfg.follow then s
    else
      let toB := n - cfg.follow
      if toB < s.cursor then s
      else
        let r := fetchBatches cfg s.cursor toB s.armFetch
        let s1 := { s with out := s.out ++ r.entries, lastBlock := lastAfter s.lastBlock r.entries, armFetch := r.arm }
        if r.ok then { s1 with cursor := toB + 1 }
        else streamOldFail s1 s1.lastBlock
  | .subErr => if s.aborted then s else streamOldFail s s.cursor
  | .connDrop => if s.aborted then s else streamOldFail s s.cursor
  | .fetchErr k => if s.aborted then s else { s with armFetch := some k }
  | .subFail => if s.aborted then s else { s with armSub := s.armSub + 1 }

def streamOldLogs (cfg : Cfg) (start : Nat) (ops : List Op) : StOld :=
  ops.foldl (streamOldStep cfg) (initOld start)

/-! ## FetchHistoricalLogs, the syncer and the handler's cursor check -/

inductive HistErr where
  | blockNumber      -- eth_blockNumber failed
  | nothingToSync    -- ErrNothingToSync
  | fetch            -- an error arrived on the fetch error channel
  | lastZero         -- "lastProcessedBlock is 0"
  | replay           -- "event replay: lastProcessedBlock is lower than fromBlock"
  | inferior         -- eventhandler.ErrInferiorBlock
deriving DecidableEq, Repr

/-- `FetchHistoricalLogs(ctx, fromBlock)`; `cur = none`: BlockNumber failed -/
def fetchHistorical (cfg : Cfg) (fromB : Nat) (cur : Option Nat) (arm : Option Nat) : Except HistErr FetchRes :=
  match cur with
  | none => .error .blockNumber
  | some currentBlock =>
    if currentBlock < cfg.follow then .error .nothingToSync
    else
      let toB := currentBlock - cfg.follow
      if toB < fromB then .error .nothingToSync
      else .ok (fetchBatches cfg fromB toB arm)

/-- `HandleBlockEventsStream` reduced to its cursor logic. `db` = stored last processed block (0 when absent),
    `ret` = the named result. `none` = ErrInferiorBlock. -/
def handleStream (db ret : Nat) : List BlockLogs → Option (Nat × Nat)
  | [] => some (db, ret)
  | e :: es => if db ≥ e.block then none else handleStream e.block e.block es

/-- `EventSyncer.SyncHistory`: returns the entries handed to the handler and `lastProcessedBlock` -/
def syncHistory (cfg : Cfg) (db fromB : Nat) (cur : Option Nat) (arm : Option Nat) :
    Except HistErr (List BlockLogs × Nat) :=
  match fetchHistorical cfg fromB cur arm with
  | .error e => .error e
  | .ok r =>
    match handleStream db 0 r.entries with
    | none => .error .inferior
    | some (_, last) =>
      if last = 0 then .error .lastZero
      else if last < fromB then .error .replay
      else if !r.ok then .error .fetch
      else .ok (r.entries, last)

/-- `setupEventHandling`: historical sync, then `SyncOngoing` from `lastProcessedBlock + 1` (or from the
    unchanged `fromBlock` when there was nothing to sync). Any other error is `logger.Fatal`. -/
def nodeSync (cfg : Cfg) (db fromB : Nat) (cur : Option Nat) (arm : Option Nat) (ops : List Op) :
    Except HistErr (List BlockLogs × St) :=
  match syncHistory cfg db fromB cur arm with
  | .error .nothingToSync => .ok ([], streamLogs cfg fromB ops)
  | .error e => .error e
  | .ok (hist, last) => .ok (hist, streamLogs cfg (last + 1) ops)

end Ssv.LogStream
