/-
Model of the registry event interpreter of the operator node               (properties C11, C12)

  eth/eventhandler/event_handler.go   processBlockEvents, processEvent
  eth/eventhandler/handlers.go        handleOperatorAdded/Removed, handleValidatorAdded (+ handleShareCreation,
                                      validatorAddedEventToShare), handleValidatorRemoved/Exited,
                                      handleClusterLiquidated/Reactivated (processClusterEvent),
                                      handleFeeRecipientAddressUpdated
  eth/eventhandler/validation.go      validateOperators, verifySignature
  registry/storage/{shares,operators,recipients}.go, operator/storage/storage.go
  protocol/v2/types/ssvshare.go       BelongsToOperator, ValidCommitteeSize, ComputeClusterIDHash
  ekm/eth_key_manager_signer.go       AddShare / RemoveShare  (+ eth2-key-manager wallet: AddValidatorAccount,
                                      DeleteAccountByPublicKey), ibft/storage CleanAllInstances
  cli/operator/node.go                setupOperatorStorage (own operator looked up by public key at start-up)

Abstraction. Addresses, operator RSA keys, validator keys and share keys are interned naturals. Cryptography
appears only as FACTS carried by the event (computed by the harness with the real code):
  `signedNonce`   the nonce for which verifySignature(sig, event.Owner, event.PublicKey, ·) succeeds (none: no nonce),
  `sharesLen`     len(event.Shares),
  per member      the listed share public key, `decryptOk` (the node's RSA key decrypts the member's encrypted
                  share to a hex BLS secret), `keyMatches` (that secret's public key is the listed one).

What is modelled exactly (and matters for the properties):
  * WHERE each piece of state lives: committed database `db`, the block transaction `txn`, the process memory
    (`shares` map of sharesStorage, `self` = operatorDataStore), the key-manager wallet (account records and wallet
    index are two separate direct database writes; the index also lives in memory), the decided-history store.
  * WHO reads what: Shares().Get/List read the memory map (never the database); SaveOperatorData looks the id up
    OUTSIDE the transaction (`getOperatorData(nil, id)`), everything else reads through the transaction.
  * the ORDER of reads, guards and writes of every handler, as a list of micro-steps (`Step`); the nonce is bumped
    before any validation, so every parsed ValidatorAdded counts.
Core Lean only: linked into the native driver `m_registry`.
-/
import Ssv.Gen.Registry

namespace Ssv.Registry

/-! ## data -/

structure OperatorRec where
  id : Nat
  pk : Nat
  owner : Nat
deriving DecidableEq, Repr

/-- one committee member of a ValidatorAdded event, with the facts established by real crypto -/
structure Member where
  op : Nat
  key : Nat
  decryptOk : Bool
  keyMatches : Bool
deriving DecidableEq, Repr

structure Share where
  pk : Nat
  owner : Nat
  committee : List (Nat × Nat)   -- (operator id, share public key)
  operatorId : Nat               -- spectypes.Share.OperatorID: 0 unless the node found itself in the committee
  sharePk : Option Nat           -- spectypes.Share.SharePubKey (nil unless found)
  liquidated : Bool
  bmeta : Option Nat             -- BeaconMetadata (validator index); set by the metadata updater, not by events
deriving DecidableEq, Repr

structure Recipient where
  owner : Nat
  fee : Nat
  nonce : Option Nat             -- *Nonce (uint16), nil until the first ValidatorAdded of the owner
deriving DecidableEq, Repr

inductive Event where
  | operatorAdded (id owner pk : Nat)
  | operatorRemoved (id : Nat)
  | validatorAdded (owner pk : Nat) (signedNonce : Option Nat) (sharesLen : Nat) (members : List Member)
  | validatorRemoved (owner pk : Nat) (ops : List Nat)
  | validatorExited (owner pk : Nat) (ops : List Nat)
  | clusterLiquidated (owner : Nat) (ops : List Nat)
  | clusterReactivated (owner : Nat) (ops : List Nat)
  | feeRecipientUpdated (owner fee : Nat)
  | unparsable        -- known event id, the ABI decoder refuses the data: skipped (metric "failed")
  | unknownTopic      -- EventByID fails: skipped silently
  | noTopics          -- `event.Topics[0]` on a log without topics: index-out-of-range panic
deriving DecidableEq, Repr

inductive Task where
  | start (pk : Nat)
  | stop (pk : Nat)
  | liquidate (owner : Nat) (ops : List Nat) (pks : List Nat)
  | reactivate (owner : Nat) (ops : List Nat) (pks : List Nat)
  | updateFee (owner fee : Nat)
  | exit (pk blk idx : Nat)
deriving DecidableEq, Repr

/-- which guard classified the event as malformed (`MalformedEventError`: event skipped, block continues) -/
inductive Tag where
  | alreadyRegistered | operatorNotFound
  | tooManyOperators | noOperators | invalidCommitteeSize | duplicateOperator | operatorsMissing
  | sharesLength | signature | decrypt | keyMismatch | wrongOwner | shareNotFound | parse
deriving DecidableEq, Repr

inductive Outcome where
  | processed (task : Option Task)
  | malformed (tag : Tag)
  | ignored
  | panic
deriving DecidableEq, Repr

/-! ## state -/

/-- the registry part of the database -/
structure Reg where
  shares : List Share := []
  ops : List OperatorRec := []
  recips : List Recipient := []
  marker : Option Nat := none        -- last processed block ("syncOffset")
deriving DecidableEq, Repr

/-- registry database + block transaction + process memory -/
structure RegMem where
  db : Reg := {}                     -- committed
  txn : Reg := {}                    -- working copy of the open transaction (= db between blocks)
  shares : List Share := []          -- sharesStorage.shares (in-memory map)
  self : Nat := 0                    -- operatorDataStore: own operator id (0 = not known yet)
deriving DecidableEq, Repr

/-- key-manager wallet: account records and wallet index are separate database objects -/
structure Wal where
  recs : List (Nat × Nat) := []      -- durable account records (record id, share key)
  pidx : List (Nat × Nat) := []      -- durable wallet index (share key ↦ record id)
  midx : List (Nat × Nat) := []      -- the wallet object's index in memory
  nextId : Nat := 0                  -- stands for uuid.New()
deriving DecidableEq, Repr

/-- decided-history store (one role store): validators with stored instances / a highest instance -/
structure Hist where
  inst : List Nat := []
  high : List Nat := []
deriving DecidableEq, Repr

structure Node where
  reg : RegMem := {}
  wal : Wal := {}
  hist : Hist := {}
deriving DecidableEq, Repr

/-! ## association lists -/

def findShare (l : List Share) (pk : Nat) : Option Share := l.find? (fun s => s.pk == pk)
def findOp (l : List OperatorRec) (id : Nat) : Option OperatorRec := l.find? (fun o => o.id == id)
def findRecip (l : List Recipient) (owner : Nat) : Option Recipient := l.find? (fun r => r.owner == owner)
def hasOp (l : List OperatorRec) (id : Nat) : Bool := l.any (fun o => o.id == id)

def upsertShare (s : Share) : List Share → List Share
  | [] => [s]
  | x :: xs => if x.pk == s.pk then s :: xs else x :: upsertShare s xs
def upsertOp (o : OperatorRec) : List OperatorRec → List OperatorRec
  | [] => [o]
  | x :: xs => if x.id == o.id then o :: xs else x :: upsertOp o xs
def upsertRecip (r : Recipient) : List Recipient → List Recipient
  | [] => [r]
  | x :: xs => if x.owner == r.owner then r :: xs else x :: upsertRecip r xs
def eraseShare (pk : Nat) (l : List Share) : List Share := l.filter (fun s => s.pk != pk)

def lookup (l : List (Nat × Nat)) (k : Nat) : Option Nat := (l.find? (fun p => p.1 == k)).map (·.2)
def upsertKV (k v : Nat) : List (Nat × Nat) → List (Nat × Nat)
  | [] => [(k, v)]
  | x :: xs => if x.1 == k then (k, v) :: xs else x :: upsertKV k v xs
def eraseKey (k : Nat) (l : List (Nat × Nat)) : List (Nat × Nat) := l.filter (fun p => p.1 != k)

/-! ## nonces (registry/storage/recipients.go) -/

/-- `Nonce` is a uint16: `*data.Nonce + 1` and `*rData.Nonce++` wrap -/
def nonceMod : Nat := 65536

/-- GetNextNonce -/
def nextNonce (rs : List Recipient) (owner : Nat) : Nat :=
  match findRecip rs owner with
  | none => 0
  | some r => match r.nonce with
    | none => 0
    | some k => (k + 1) % nonceMod

/-- the record BumpNonce writes (a missing record is created with the owner as fee recipient) -/
def bumped (rs : List Recipient) (owner : Nat) : Recipient :=
  match findRecip rs owner with
  | none => { owner := owner, fee := owner, nonce := some 0 }
  | some r => match r.nonce with
    | none => { r with nonce := some 0 }
    | some k => { r with nonce := some ((k + 1) % nonceMod) }

/-! ## guards -/

/-- protocol/v2/types.ValidCommitteeSize (Go ints; for 0 the Go expression is false as well) -/
def validCommitteeSize (n : Nat) : Bool :=
  let f := (n - 1) / 3
  n ≠ 0 && (n - 1) % 3 == 0 && 1 ≤ f && f ≤ 4

def nodupB : List Nat → Bool
  | [] => true
  | x :: xs => !xs.contains x && nodupB xs

/-- validateOperators: first failing guard, in source order. (A storage error of OperatorsExist is wrapped into a
    MalformedEventError as well; reads do not fail in this model.) -/
def validateOperators (ops : List OperatorRec) (ids : List Nat) : Option Tag :=
  if ids.length > Gen.eventhandler_maxOperators then some .tooManyOperators
  else if ids.length == 0 then some .noOperators
  else if !validCommitteeSize ids.length then some .invalidCommitteeSize
  else if !nodupB ids then some .duplicateOperator
  else if !ids.all (hasOp ops) then some .operatorsMissing
  else none

/-- phase0.SignatureLength and phase0.PublicKeyLength (go-eth2-client; outside the extractor's roots) -/
def signatureLength : Nat := 96
def publicKeyLength : Nat := 48

/-- sharesExpectedLength of handleValidatorAdded -/
def expectedSharesLen (n : Nat) : Nat :=
  Gen.eventhandler_encryptedKeyLength * n + (publicKeyLength * n + signatureLength)

/-- SSVShare.BelongsToOperator -/
def belongs (self : Nat) (s : Share) : Bool := self != 0 && s.operatorId == self

/-- the member loop of validatorAddedEventToShare: members whose id equals the node's own id (even when that id
    is still 0) get their share decrypted and checked, in order; the last match provides SharePubKey -/
def scanCommittee (self : Nat) : List Member → Except Tag (Option Nat)
  | [] => .ok none
  | m :: rest =>
    if m.op != self then scanCommittee self rest
    else if !m.decryptOk then .error .decrypt
    else if !m.keyMatches then .error .keyMismatch
    else match scanCommittee self rest with
      | .error t => .error t
      | .ok (some k) => .ok (some k)
      | .ok none => .ok (some m.key)

/-! ## micro-steps -/

inductive Step where
  -- writes through the block transaction
  | putRecipient (r : Recipient)
  | putOperator (o : OperatorRec)
  | txnShare (s : Share)
  | txnDelShare (pk : Nat)
  | putMarker (n : Nat)
  | commit
  -- process memory only
  | setSelf (id : Nat)
  | memLiquidate (pks : List Nat) (b : Bool)
  | memShares (l : List Share)
  | memDelShare (pk : Nat)
  | memIdxSet (k : Nat)
  | memIdxDel (k : Nat)
  -- key-manager calls (expanded into the writes below according to the wallet's state)
  | kmAdd (k : Nat)
  | kmRemove (k : Nat)
  -- direct database writes outside the transaction
  | saveAccount (k : Nat)
  | deleteAccount (k : Nat)
  | saveWallet
  | cleanInst (pk : Nat)
  | cleanHigh (pk : Nat)
deriving DecidableEq, Repr

/-- is the step a database write (through the transaction, direct, or the commit)? — the fault points of C12 -/
def Step.isWrite : Step → Bool
  | .putRecipient _ | .putOperator _ | .txnShare _ | .txnDelShare _ | .putMarker _ | .commit => true
  | .saveAccount _ | .deleteAccount _ | .saveWallet | .cleanInst _ | .cleanHigh _ => true
  | _ => false

/-- letter of the write in the harness' recorded write trace -/
def Step.kind : Step → String
  | .putRecipient _ => "R" | .putOperator _ => "O" | .txnShare _ => "S" | .txnDelShare _ => "D"
  | .putMarker _ => "M" | .commit => "C" | .saveAccount _ => "acc" | .deleteAccount _ => "dacc"
  | .saveWallet => "wal" | .cleanInst _ => "ci" | .cleanHigh _ => "ch" | _ => ""

def setLiquidated (pks : List Nat) (b : Bool) (l : List Share) : List Share :=
  l.map (fun s => if pks.contains s.pk then { s with liquidated := b } else s)

def stepReg (r : RegMem) : Step → RegMem
  | .putRecipient x => { r with txn := { r.txn with recips := upsertRecip x r.txn.recips } }
  | .putOperator o => { r with txn := { r.txn with ops := upsertOp o r.txn.ops } }
  | .txnShare s => { r with txn := { r.txn with shares := upsertShare s r.txn.shares } }
  | .txnDelShare pk => { r with txn := { r.txn with shares := eraseShare pk r.txn.shares } }
  | .putMarker n => { r with txn := { r.txn with marker := some n } }
  | .commit => { r with db := r.txn }
  | .setSelf id => { r with self := id }
  | .memLiquidate pks b => { r with shares := setLiquidated pks b r.shares }
  | .memShares l => { r with shares := l.foldl (fun acc s => upsertShare s acc) r.shares }
  | .memDelShare pk => { r with shares := eraseShare pk r.shares }
  | _ => r

def stepWal (w : Wal) : Step → Wal
  | .memIdxSet k => { w with midx := upsertKV k w.nextId w.midx, nextId := w.nextId + 1 }
  | .saveAccount k => match lookup w.midx k with
    | some id => { w with recs := w.recs ++ [(id, k)] }
    | none => w
  | .deleteAccount k => match lookup w.midx k with
    | some id => { w with recs := w.recs.filter (fun p => p.1 != id) }
    | none => w
  | .memIdxDel k => { w with midx := eraseKey k w.midx }
  | .saveWallet => { w with pidx := w.midx }
  | _ => w

def stepHist (h : Hist) : Step → Hist
  | .cleanInst pk => { h with inst := h.inst.filter (· != pk) }
  | .cleanHigh pk => { h with high := h.high.filter (· != pk) }
  | _ => h

def applyStep (n : Node) (s : Step) : Node :=
  { reg := stepReg n.reg s, wal := stepWal n.wal s, hist := stepHist n.hist s }

def runSteps (n : Node) (l : List Step) : Node := l.foldl applyStep n

/-- `wallet.AccountByPublicKey` finds an account: the memory index has the key and its record exists -/
def present (w : Wal) (k : Nat) : Bool :=
  match lookup w.midx k with
  | none => false
  | some id => w.recs.any (fun p => p.1 == id)

/-- ekm AddShare / RemoveShare: nothing when the account is already there / not there; the slashing-protection
    records they also write are not part of the modelled state -/
def expand (w : Wal) : Step → List Step
  | .kmAdd k => if present w k then [] else [.memIdxSet k, .saveAccount k, .saveWallet]
  | .kmRemove k => if present w k then [.deleteAccount k, .memIdxDel k, .saveWallet] else []
  | s => [s]

/-! ## handlers: guards, steps and result of one event -/

/-- what a handler can read -/
structure View where
  shares : List Share          -- sharesStorage memory map
  self : Nat
  ops : List OperatorRec       -- operators through the transaction
  cops : List OperatorRec      -- operators as committed (SaveOperatorData reads outside the transaction)
  recips : List Recipient      -- recipients through the transaction

def viewOf (r : RegMem) : View :=
  { shares := r.shares, self := r.self, ops := r.txn.ops, cops := r.db.ops, recips := r.txn.recips }

def clusterShares (v : View) (owner : Nat) (ops : List Nat) : List Share :=
  v.shares.filter (fun s => s.owner == owner && (s.committee.map (·.1)).isPerm ops && belongs v.self s)

def clusterSteps (v : View) (owner : Nat) (ops : List Nat) (liq : Bool) : List Step × List Nat :=
  let own := clusterShares v owner ops
  if own.isEmpty then ([], [])
  else
    let upd := own.map (fun s => { s with liquidated := liq })
    ([Step.memLiquidate (own.map (·.pk)) liq] ++ upd.map Step.txnShare ++ [Step.memShares upd], own.map (·.pk))

/-- the share handleShareCreation builds (validatorAddedEventToShare): `own` is the result of the member loop -/
def newShare (self owner pk : Nat) (members : List Member) (own : Option Nat) : Share :=
  { pk := pk, owner := owner, committee := members.map (fun m => (m.op, m.key)),
    operatorId := if own.isSome then self else 0, sharePk := own, liquidated := false, bmeta := none }

/-- `keyManager.AddShare` is called only for a share that belongs to the node -/
def kmAddSteps (self : Nat) (sh : Share) : List Step :=
  match sh.sharePk with
  | some k => if belongs self sh then [Step.kmAdd k] else []
  | none => []

/-- `keyManager.RemoveShare(hex(share.SharePubKey))` only for a share that belongs to the node -/
def kmRemoveSteps (self : Nat) (sh : Share) : List Step :=
  match sh.sharePk with
  | some k => if belongs self sh then [Step.kmRemove k] else []
  | none => []

/-- handleShareCreation: key manager first (outside the transaction), then Shares().Save -/
def createSteps (self : Nat) (sh : Share) : List Step :=
  kmAddSteps self sh ++ [Step.txnShare sh, Step.memShares [sh]]

/-- handleValidatorRemoved after its guards: decided history, Shares().Delete, key manager -/
def removeSteps (self : Nat) (sh : Share) : List Step :=
  [Step.cleanInst sh.pk, Step.cleanHigh sh.pk, Step.txnDelShare sh.pk, Step.memDelShare sh.pk] ++ kmRemoveSteps self sh

def startTask (self : Nat) (sh : Share) : Option Task := if belongs self sh then some (.start sh.pk) else none
def stopTask (self : Nat) (sh : Share) : Option Task := if belongs self sh then some (.stop sh.pk) else none

/-- handleValidatorAdded -/
def addSteps (v : View) (owner pk : Nat) (signedNonce : Option Nat) (sharesLen : Nat) (members : List Member) :
    List Step × Outcome :=
  let bump := [Step.putRecipient (bumped v.recips owner)]
  match validateOperators v.ops (members.map (·.op)) with
  | some t => (bump, .malformed t)
  | none =>
    if sharesLen != expectedSharesLen members.length then (bump, .malformed .sharesLength)
    else if signedNonce != some (nextNonce v.recips owner) then (bump, .malformed .signature)
    else match findShare v.shares pk with
      | none =>
        match scanCommittee v.self members with
        | .error t => (bump, .malformed t)
        | .ok own =>
          (bump ++ createSteps v.self (newShare v.self owner pk members own),
           .processed (startTask v.self (newShare v.self owner pk members own)))
      | some sh =>
        if owner != sh.owner then (bump, .malformed .wrongOwner)
        else (bump, .processed (startTask v.self sh))

def regSteps (me blk : Nat) (v : View) : Event → List Step × Outcome
  | .operatorAdded id owner pk =>
    if v.self != 0 && pk == me && v.self != id then ([], .malformed .alreadyRegistered)
    else if hasOp v.cops id then ([], .processed none)
    else ([Step.putOperator ⟨id, pk, owner⟩] ++ (if pk == me then [Step.setSelf id] else []), .processed none)
  | .operatorRemoved id =>
    if hasOp v.ops id then ([], .processed none) else ([], .malformed .operatorNotFound)
  | .validatorAdded owner pk signedNonce sharesLen members => addSteps v owner pk signedNonce sharesLen members
  | .validatorRemoved owner pk _ =>
    match findShare v.shares pk with
    | none => ([], .malformed .shareNotFound)
    | some sh =>
      if owner != sh.owner then ([], .malformed .wrongOwner)
      else (removeSteps v.self sh, .processed (stopTask v.self sh))
  | .validatorExited owner pk _ =>
    match findShare v.shares pk with
    | none => ([], .malformed .shareNotFound)
    | some sh =>
      if owner != sh.owner then ([], .malformed .wrongOwner)
      else if !belongs v.self sh then ([], .processed none)
      else match sh.bmeta with
        | none => ([], .processed none)
        | some idx => ([], .processed (some (.exit sh.pk blk idx)))
  | .clusterLiquidated owner ops =>
    ((clusterSteps v owner ops true).1,
     .processed (if (clusterSteps v owner ops true).2.isEmpty then none else some (.liquidate owner ops (clusterSteps v owner ops true).2)))
  | .clusterReactivated owner ops =>
    ((clusterSteps v owner ops false).1,
     .processed (if (clusterSteps v owner ops false).2.isEmpty then none else some (.reactivate owner ops (clusterSteps v owner ops false).2)))
  | .feeRecipientUpdated owner fee =>
    match findRecip v.recips owner with
    | some r =>
      if r.fee == fee then ([], .processed none)
      else ([Step.putRecipient { r with fee := fee }], .processed (some (.updateFee owner fee)))
    | none => ([Step.putRecipient { owner := owner, fee := fee, nonce := none }], .processed (some (.updateFee owner fee)))
  | .unparsable => ([], .malformed .parse)
  | .unknownTopic => ([], .ignored)
  | .noTopics => ([], .panic)

/-- run a handler's step list: every key-manager call is expanded against the wallet as it is at that moment -/
def runMacro : Node → List Step → Node
  | n, [] => n
  | n, s :: ss => runMacro (runSteps n (expand n.wal s)) ss

/-- the micro-steps `runMacro` executes, in order -/
def macroTrace : Node → List Step → List Step
  | _, [] => []
  | n, s :: ss => expand n.wal s ++ macroTrace (runSteps n (expand n.wal s)) ss

/-- the fully expanded micro-steps of one event in node state `n` -/
def eventSteps (me blk : Nat) (n : Node) (e : Event) : List Step :=
  macroTrace n (regSteps me blk (viewOf n.reg) e).1

def eventOutcome (me blk : Nat) (n : Node) (e : Event) : Outcome := (regSteps me blk (viewOf n.reg) e).2

def applyEvent (me blk : Nat) (n : Node) (e : Event) : Node × Outcome :=
  (runMacro n (regSteps me blk (viewOf n.reg) e).1, eventOutcome me blk n e)

/-! ## blocks -/

structure Block where
  number : Nat
  events : List Event
deriving DecidableEq, Repr

inductive BlockStatus where
  | ok | refused | panicked
deriving DecidableEq, Repr

def Outcome.isPanic : Outcome → Bool
  | .panic => true
  | _ => false

/-- the events of a block in order; stops at a panic -/
def runEvents (me blk : Nat) : Node → List Event → Node × List Outcome × Bool
  | n, [] => (n, [], false)
  | n, e :: es =>
    let r := applyEvent me blk n e
    if r.2.isPanic then (r.1, [r.2], true)
    else
      let q := runEvents me blk r.1 es
      (q.1, r.2 :: q.2.1, q.2.2)

/-- `txn := eh.nodeStorage.Begin()` / `defer txn.Discard()` -/
def beginTxn (n : Node) : Node := { n with reg := { n.reg with txn := n.reg.db } }

/-- ErrInferiorBlock guard of processBlockEvents (a missing marker counts as 0) -/
def inferior (n : Node) (b : Block) : Bool := decide (n.reg.db.marker.getD 0 ≥ b.number)

/-- processBlockEvents -/
def applyBlock (me : Nat) (n : Node) (b : Block) : Node × BlockStatus × List Outcome :=
  if inferior n b then (n, .refused, [])
  else
    let r := runEvents me b.number (beginTxn n) b.events
    if r.2.2 then (beginTxn r.1, .panicked, r.2.1)
    else (runSteps r.1 [.putMarker b.number, .commit], .ok, r.2.1)

/-- HandleBlockEventsStream: blocks in order, stops at the first block that is not processed -/
def run (me : Nat) : Node → List Block → Node × Bool
  | n, [] => (n, true)
  | n, b :: bs =>
    let r := applyBlock me n b
    match r.2.1 with
    | .ok => run me r.1 bs
    | _ => (r.1, false)

def flatten (bs : List Block) : List Event := bs.flatMap (·.events)

/-! ## restart -/

/-- what survives the process -/
structure Durable where
  db : Reg
  recs : List (Nat × Nat)
  pidx : List (Nat × Nat)
  nextId : Nat
  hist : Hist
deriving DecidableEq, Repr

def persist (n : Node) : Durable :=
  { db := n.reg.db, recs := n.wal.recs, pidx := n.wal.pidx, nextId := n.wal.nextId, hist := n.hist }

/-- decimal digits (database keys of operators are "operators/<decimal id>") -/
def digits : Nat → Nat → List Nat
  | 0, _ => []
  | fuel + 1, n => if n < 10 then [n] else digits fuel (n / 10) ++ [n % 10]

def decKey (n : Nat) : List Nat := digits (n + 1) n

def lexLt : List Nat → List Nat → Bool
  | [], [] => false
  | [], _ :: _ => true
  | _ :: _, [] => false
  | a :: as, b :: bs => a < b || (a == b && lexLt as bs)

/-- GetOperatorDataByPubKey: the first operator with that key in database key order -/
def firstOwn (me : Nat) (ops : List OperatorRec) : Option OperatorRec :=
  ops.foldl (fun best o =>
    if o.pk == me then
      match best with
      | none => some o
      | some b => if lexLt (decKey o.id) (decKey b.id) then some o else some b
    else best) none

/-- setupOperatorStorage: the own operator id a starting process finds (0 if none) -/
def lookupSelf (me : Nat) (ops : List OperatorRec) : Nat :=
  match firstOwn me ops with
  | some o => o.id
  | none => 0

/-- a new process over the surviving database: NewSharesStorage loads the map, the wallet is opened from its
    stored index, the own operator is looked up by public key -/
def load (me : Nat) (d : Durable) : Node :=
  { reg := { db := d.db, txn := d.db, shares := d.db.shares, self := lookupSelf me d.db.ops },
    wal := { recs := d.recs, pidx := d.pidx, midx := d.pidx, nextId := d.nextId },
    hist := d.hist }

def restart (me : Nat) (n : Node) : Node := load me (persist n)

/-- empty database, fresh process -/
def init : Node := {}

/-! ## operations that are not contract events (used by the harness between blocks) -/

/-- sharesStorage.UpdateValidatorMetadata: memory object changed, then saved directly to the database -/
def setMeta (n : Node) (pk idx : Nat) : Node :=
  match findShare n.reg.shares pk with
  | none => n
  | some s =>
    let s' := { s with bmeta := some idx }
    let db' := { n.reg.db with shares := upsertShare s' n.reg.db.shares }
    { n with reg := { n.reg with shares := upsertShare s' n.reg.shares, db := db', txn := db' } }

/-- a decided instance of the validator is stored -/
def seedHist (n : Node) (pk : Nat) : Node :=
  { n with hist := { inst := if n.hist.inst.contains pk then n.hist.inst else n.hist.inst ++ [pk],
                     high := if n.hist.high.contains pk then n.hist.high else n.hist.high ++ [pk] } }

/-- a recipient record written directly (lets the generator start near the uint16 wrap) -/
def seedRecipient (n : Node) (r : Recipient) : Node :=
  let db' := { n.reg.db with recips := upsertRecip r n.reg.db.recips }
  { n with reg := { n.reg with db := db', txn := db' } }

end Ssv.Registry
