/-
Engine `heights` (C15): the semantics BEFORE the fixes 358626700 (store `replaces` guard) and 26e2e6b00 (reloaded
instance kept), i.e. of tree c50569811. NOT the model of the current tree. Kept for
* the regression lemmas of Props/C15.lean (the three refutation witnesses of the old code, which the current model closes),
* old-vs-new runs of the harness against a scratch worktree of 358626700~1 (`reset … old=1` selects it in the driver).
Only `storeSaveOld` and `decidedBranchOld` differ in substance; the callers up to `stepOld` are copies.
-/
import Ssv.Model.Heights

namespace Ssv.Heights

/-- `ibftStorage.saveInstanceOld(inst, toHistory, asHighest)` -/
def storeSaveOld (st : Store) (rec : Stored) (toHistory asHighest : Bool) : Store :=
  let rec' : Stored := { rec with inst := { trim rec.inst with stopped := false } }
  { highest := if asHighest then some rec' else st.highest,
    hist := if toHistory then histPut rec'.inst.height rec' st.hist else st.hist }

/-- the three branches of `UponDecided` (no instance / instance not decided / decided before):
    (container afterwards, `save`).  A mutation of an instance that was only reloaded from storage is lost
    (the temporary object is not in `StoredInstances`). -/
def decidedBranchOld (c : Ctrl) (st : Store) (h : Nat) (m : Msg) : List Inst × Bool :=
  match instanceForHeight c st h with
  | none => (addNew c.insts ⟨h, m.round, true, false, [m], none⟩, true)
  | some (i, inMem) =>
    if !i.decided then
      (if inMem then replaceInst { i with decided := true, round := m.round, commits := i.commits ++ [m] } c.insts
       else c.insts, true)
    else if longest i.commits m.round m.root < m.signers.length then
      (if inMem then replaceInst { i with commits := i.commits ++ [m] } c.insts else c.insts, true)
    else (c.insts, false)

/-- `Controller.SaveInstance(i, msg)`; `msg.Height = i.height` at both call sites -/
def saveInstanceOld (c : Ctrl) (st : Store) (i : Inst) (m : Msg) : Store :=
  let isHighest := decide (c.height ≤ i.height)
  if c.full then
    if isHighest then storeSaveOld st ⟨i, m⟩ true true else storeSaveOld st ⟨i, m⟩ true false
  else
    if isHighest then storeSaveOld st ⟨i, m⟩ false true else st

/-- the `if save { if inst := FindInstance(h); inst != nil { SaveInstance(inst, msg) } }` block -/
def saveFoundOld (c : Ctrl) (st : Store) (h : Nat) (m : Msg) : Store :=
  match find c.insts h with
  | some i => saveInstanceOld c st i m
  | none => st

/-- `Controller.UponDecided` for a valid decided message `m` of height `h` -/
def uponDecidedOld (c : Ctrl) (st : Store) (h : Nat) (m : Msg) : Ctrl × Store × DOut :=
  let br := decidedBranchOld c st h m
  let c1 : Ctrl := { c with insts := br.1 }
  -- c1.height is still the height before the bump
  let st' := if br.2 then saveFoundOld c1 st h m else st
  let c2 : Ctrl := { c1 with height := if c.height < h then h else c.height }
  (c2, st', if prevDecidedOf c st h then .dup else .new)

/-- `Controller.ProcessMsg` for a commit-type message with the given signers.
    `ok` = identifier matches and (if it is a decided message) `ValidateDecided` passes.
    A commit message below quorum goes to `isFutureMessage` / `UponExistingInstanceMsg`, which in this engine always ends in
    an error without a state change (no instance ever has an accepted proposal). -/
def processMsgOld (q : Nat) (c : Ctrl) (st : Store) (h : Nat) (m : Msg) (ok : Bool) : Ctrl × Store × DOut :=
  if !ok then (c, st, .err)
  else if m.signers.length < q then ((existingMsg q c st h m).1, st, (existingMsg q c st h m).2.1)
  else uponDecidedOld c st h m

/-- `baseConsensusMsgProcessing` for a commit-type message: ProcessMsg, compactInstanceIfNeeded, the runner's own save -/
def decidedViaRunnerOld (s : State) (h : Nat) (m : Msg) (ok : Bool) : State × Out :=
  let p := processMsgOld s.q s.c s.s h m ok
  -- compactInstanceIfNeeded(msg) runs whatever ProcessMsg returned; IsDecidedMsg looks at the signer count only
  let c2 := if s.q ≤ m.signers.length then compactAt p.1 h else p.1
  let r2 := syncRun s.r c2
  let saves := runnerSaves s.r h p.2.2
  ({ s with c := c2,
            s := if saves then saveFoundOld c2 p.2.1 h (retMsg s.q s.c s.s h m ok) else p.2.1,
            -- decoded, highestDecidedSlot set, value valid: State.DecidedValue set
            r := if saves then { r2 with hds := h, hasValue := true } else r2 },
   runnerOut s.r h p.2.2)

def decidedViaCtrlOld (s : State) (h : Nat) (m : Msg) (ok : Bool) : State × Out :=
  let p := processMsgOld s.q s.c s.s h m ok
  ({ s with c := p.1, s := p.2.1, r := syncRun s.r p.1 },
    match p.2.2 with | .err => .derr | .new => .dnew | .dup => .ddup)

/-- does the save block of `UponDecided` reach the storage (so that an armed write failure is consumed there)? -/
def firstSaveCalledOld (c : Ctrl) (st : Store) (h : Nat) (m : Msg) : Bool :=
  (decidedBranchOld c st h m).2 &&
    match find (decidedBranchOld c st h m).1 h with
    | some i => c.full || decide (c.height ≤ i.height)
    | none => false

/-- `Controller.ProcessMsg` while the store fails its next write: everything of `UponDecided` happens (instance added,
    Height bumped, decided message returned) except that nothing is written (the error is only logged) -/
def decidedViaCtrlSFOld (s : State) (h : Nat) (m : Msg) (ok : Bool) : State × Out :=
  let p := processMsgOld s.q s.c s.s h m ok
  ({ s with c := p.1, r := syncRun s.r p.1 },
    match p.2.2 with | .err => .derr | .new => .dnew | .dup => .ddup)

/-- the runner path while the store fails the first write it receives: if `UponDecided`'s save reached the store it is
    that one which failed, and the runner's own save (if it comes to it) succeeds; otherwise the runner's save fails -/
def decidedViaRunnerSFOld (s : State) (h : Nat) (m : Msg) (ok : Bool) : State × Out :=
  let p := processMsgOld s.q s.c s.s h m ok
  let consumed := ok && decide (s.q ≤ m.signers.length) && firstSaveCalledOld s.c s.s h m
  let c2 := if s.q ≤ m.signers.length then compactAt p.1 h else p.1
  let r2 := syncRun s.r c2
  let saves := runnerSaves s.r h p.2.2
  ({ s with c := c2,
            s := if saves && consumed then saveFoundOld c2 s.s h (retMsg s.q s.c s.s h m ok) else s.s,
            r := if saves then { r2 with hds := h, hasValue := true } else r2 },
   runnerOut s.r h p.2.2)

/-- `commits`: applicable to a running, fresh instance that is still in the container. The q-th commit completes the
    quorum: the instance decides, `UponExistingInstanceMsg` returns the aggregate of the q commits, and
    `baseConsensusMsgProcessing` saves the instance (`SaveInstance`) and sets `highestDecidedSlot` BEFORE it validates
    the decided value — so the value check only decides error / nil of `ProcessConsensus` and whether
    `State.DecidedValue` gets set. -/
def commitsStepOld (s : State) (root : Nat) (valOk : Bool) : State × Out :=
  match s.r.duty, s.r.running with
  | some _, some rh =>
    match find s.c.insts rh with
    | some i =>
      if !i.decided && i.commits.isEmpty && !i.stopped && i.round == Gen.heights_FirstRound && i.accepted.isNone then
        let i' : Inst := { i with decided := true, commits := singles s.q root, accepted := some root }
        let c' : Ctrl := { s.c with insts := replaceInst i' s.c.insts }
        let cert : Msg := ⟨Gen.heights_FirstRound, root, List.range' 1 s.q⟩
        if s.r.hasValue then
          -- the duty already holds a decided value: `prevDecided`, so `didDecideCorrectly` stops before the save
          ({ s with c := c', r := syncRun s.r c' }, .cok)
        else
          ({ s with c := c', s := saveFoundOld c' s.s rh cert,
                    r := { syncRun s.r c' with hds := rh, hasValue := valOk } },
            if valOk then .cok else .cerr)
      else (s, .na)
    | none => (s, .na)
  | _, _ => (s, .na)

def stepOld (s : State) : Op → State × Out
  | .decided h round root signers ok viaRunner =>
    if viaRunner then decidedViaRunnerOld s h ⟨round, root, signers⟩ ok
    else decidedViaCtrlOld s h ⟨round, root, signers⟩ ok
  | .decidedSF h round root signers ok viaRunner =>
    if viaRunner then decidedViaRunnerSFOld s h ⟨round, root, signers⟩ ok
    else decidedViaCtrlSFOld s h ⟨round, root, signers⟩ ok
  | .commits root valOk => commitsStepOld s root valOk
  | op => step s op

def runOld (s : State) (ops : List Op) : State := ops.foldl (fun s o => (stepOld s o).1) s

end Ssv.Heights
