/-
Go integer and `time.Time` arithmetic used by message validation (core Lean only).

`time.Time` values that occur in validation are wall-clock-only (built by `time.Unix`, or the receive
time): a pair (seconds since year 1 as int64, nanoseconds in [0,1e9)).  Every operation below follows
go1.23 `src/time/time.go` line by line, including int64 wrap-around (`Unix`, `Sub`) and the saturation
in `addSec`.  `beacon.Network.GetSlotStartTime` / `EstimatedSlotAtTime` follow
protocol/v2/blockchain/beacon/network.go with uint64 wrap-around.
-/
namespace Ssv.Validation

/-- 2^63 and 2^64 as literals (so that `omega` sees numerals) -/
abbrev two63 : Int := 9223372036854775808
abbrev two64 : Int := 18446744073709551616

/-- conversion to uint64 (two's complement wrap) -/
def wrapU64 (x : Int) : Int := x % two64
/-- conversion to int64 (two's complement wrap) -/
def wrapI64 (x : Int) : Int := (x + two63) % two64 - two63

/-- Go `/` and `%` on signed integers truncate towards zero -/
def goDiv (a b : Int) : Int := Int.tdiv a b
def goMod (a b : Int) : Int := Int.tmod a b

/-- wall-clock-only `time.Time`: `sec` = seconds since January 1, year 1 (int64), `0 ≤ nsec < 10^9` -/
structure GoTime where
  sec : Int
  nsec : Int
deriving DecidableEq, Repr

abbrev unixToInternal : Int := 62135596800
abbrev nsPerSec : Int := 1000000000

/-- `time.Unix(sec, 0)` -/
def GoTime.unix (sec : Int) : GoTime := ⟨wrapI64 (sec + unixToInternal), 0⟩
/-- `t.Unix()` -/
def GoTime.toUnix (t : GoTime) : Int := wrapI64 (t.sec - unixToInternal)

/-- `(*Time).addSec` for wall-only times: saturating -/
def addSec (s d : Int) : Int :=
  let sum := wrapI64 (s + d)
  if decide (sum > s) = decide (d > 0) then sum
  else if d > 0 then two63 - 1 else -(two63 - 1)

/-- `t.Add(d)` (d : Duration, int64 nanoseconds) -/
def GoTime.add (t : GoTime) (d : Int) : GoTime :=
  let dsec := goDiv d nsPerSec
  let nsec := t.nsec + goMod d nsPerSec
  if nsec ≥ nsPerSec then ⟨addSec t.sec (dsec + 1), nsec - nsPerSec⟩
  else if nsec < 0 then ⟨addSec t.sec (dsec - 1), nsec + nsPerSec⟩
  else ⟨addSec t.sec dsec, nsec⟩

def GoTime.before (t u : GoTime) : Bool := t.sec < u.sec || (t.sec == u.sec && t.nsec < u.nsec)
def GoTime.after (t u : GoTime) : Bool := t.sec > u.sec || (t.sec == u.sec && t.nsec > u.nsec)
def GoTime.equal (t u : GoTime) : Bool := t.sec == u.sec && t.nsec == u.nsec

abbrev maxDuration : Int := two63 - 1
abbrev minDuration : Int := -two63

/-- `t.Sub(u)` : Duration, saturating -/
def GoTime.sub (t u : GoTime) : Int :=
  let d := wrapI64 (wrapI64 (wrapI64 (t.sec - u.sec) * nsPerSec) + (t.nsec - u.nsec))
  if (u.add d).equal t then d
  else if t.before u then minDuration else maxDuration

/-- network constants of `beacon.Network` (compile-time configuration, not network input) -/
structure NetCfg where
  genesis : Nat              -- MinGenesisTime(), unix seconds (uint64)
  slotDur : Nat              -- uint64(SlotDurationSec().Seconds())
  slotsPerEpoch : Nat        -- SlotsPerEpoch()
  epochsPerPeriod : Nat      -- EpochsPerSyncCommitteePeriod()
  permissionlessEpoch : Nat  -- PermissionlessActivationEpoch
deriving Repr

/-- well-formed network constants: the divisors are non-zero, a slot lasts at least two seconds (every supported
    network: 12), genesis fits an int64. These are compile-time configuration of the node, not network input. -/
def NetCfg.WF (c : NetCfg) : Prop :=
  2 ≤ c.slotDur ∧ 0 < c.slotsPerEpoch ∧ 0 < c.epochsPerPeriod ∧ (c.genesis : Int) < two63

/-- `GetSlotStartTime(slot)`: `time.Unix(int64(genesis + uint64(slot)*dur), 0)`, uint64 wrap-around -/
def slotStart (c : NetCfg) (slot : Int) : GoTime :=
  GoTime.unix (wrapI64 (wrapU64 ((c.genesis : Int) + wrapU64 (slot * c.slotDur))))

/-- `GetSlotEndTime(slot) = GetSlotStartTime(slot + 1)` (uint64 addition) -/
def slotEnd (c : NetCfg) (slot : Int) : GoTime := slotStart c (wrapU64 (slot + 1))

/-- `EstimatedSlotAtTime(unix)` -/
def slotAtTime (c : NetCfg) (unix : Int) : Int :=
  if unix < (c.genesis : Int) then 0 else wrapU64 (unix - c.genesis) / (c.slotDur : Int)

/-- `EstimatedEpochAtSlot(slot)` -/
def epochAtSlot (c : NetCfg) (slot : Int) : Int := slot / (c.slotsPerEpoch : Int)

/-- `EstimatedSyncCommitteePeriodAtEpoch(epoch)` -/
def periodAtEpoch (c : NetCfg) (epoch : Int) : Int := epoch / (c.epochsPerPeriod : Int)

end Ssv.Validation
