/-
Model of the slashing-protection core behind property C04 (engine `ekm`). Core Lean only.

What is modelled, line by line, from the code that exists:
* `ekm/eth_key_manager_signer.go`: `AddShare`, `RemoveShare`, `BumpSlashingProtection`,
  `updateHighestAttestation`, `updateHighestProposal`, `computeMinimalAttestationSP/ProposerSP`,
  `IsAttestationSlashable`, `IsBeaconBlockSlashable`, `signBeaconObject` (attester / proposer dispatch);
* `ekm/signer_storage.go`: `SaveHighestProposal` refuses slot 0; records are per share public key;
* `eth2-key-manager@v1.4.0`: `signer.SignBeaconAttestation`, `signer.SignBlock` (account lookup, per-account
  lock = the sign step is atomic, far-future check, check, update, THEN sign),
  `slashing_protection.IsSlashableAttestation/Proposal`, `UpdateHighestAttestation/Proposal`
  (their exact comparisons, including the record-missing branches).

One share. Durable state = the two records and the wallet account; the volatile state is an in-flight
`BumpSlashingProtection`, whose clock read, two reads and two writes are separate steps, and a request waiting for it.
Since commit 23d9c6c97 the bump holds the wallet lock for WRITING for its whole body, and every sign request,
AddShare and RemoveShare take that lock too: while a bump is in flight only the clock can advance (and the process
can be restarted); a lock-taking request issued meanwhile is DELAYED and executes when the bump has finished
(`step`). The semantics before that commit — the bump interleaves freely with sign requests — is kept as `stepOld`.
A restart is the identity on durable state and kills the in-flight bump.
Released signatures accumulate in a ghost log. Epoch/slot numbers are `Nat` (the Go `uint64` wrap of
`highestTarget - 1` at epoch 0 is modelled explicitly; `slot + gap` is assumed not to overflow).
-/
import Ssv.Gen.Ekm

namespace Ssv.Slashing

/-- network / library parameters (supplied by the harness from the real objects) -/
structure Cfg where
  spe : Nat       -- slots per epoch (`BeaconNetwork.SlotsPerEpoch`)
  ffEpoch : Nat   -- largest epoch accepted by the library's `IsValidFarFutureEpoch` (wall-clock dependent)
  ffSlot : Nat    -- largest slot accepted by `IsValidFarFutureSlot`
  deriving Repr, DecidableEq

/-- `EstimatedEpochAtSlot` -/
def epochOf (cfg : Cfg) (slot : Nat) : Nat := slot / cfg.spe

/-- (source epoch, target epoch) -/
abbrev Att := Nat × Nat

def u64max : Nat := 18446744073709551615

structure Durable where
  att : Option Att      -- db prefix `signer_data-highest_att-`
  prop : Option Nat     -- db prefix `signer_data-highest_prop-`
  account : Bool        -- wallet account for the share key
  deriving Repr, DecidableEq

/-- program counter of an in-flight `BumpSlashingProtection`; `c` = the slot it read from the clock -/
inductive BumpPc
  | attRead (c : Nat)                 -- about to `RetrieveHighestAttestation`
  | attWrite (c : Nat) (w : Att)      -- decided to `SaveHighestAttestation w`
  | propRead (c : Nat)                -- about to `RetrieveHighestProposal`
  | propWrite (c : Nat) (w : Nat)     -- decided to `SaveHighestProposal w`
  deriving Repr, DecidableEq

inductive Refuse
  | noAccount          -- `wallet.AccountByPublicKey` fails
  | farFutureTarget | farFutureSource | farFutureSlot
  | slotZero           -- "proposal slot can not be 0"
  | attMissing         -- "highest attestation data is not found, can't determine if attestation is slashable"
  | propMissing        -- "highest proposal data is not found, …"
  | slashableAtt       -- HighestAttestationVote
  | slashableProp      -- HighestProposalVote
  | writeFailed        -- the record update (`SaveHighestAttestation/Proposal`) returned an error
  deriving Repr, DecidableEq

inductive Out
  | ok
  | signed                    -- a signature was released
  | refused (r : Refuse)
  | pending                   -- the in-flight bump advanced and is still in flight
  | errPropSlotZero           -- `SaveHighestProposal` refused slot 0 (bump / AddShare returned an error)
  | errFault                  -- an injected storage failure made the operation return an error
  | blocked                   -- the request waits for the wallet lock held by the in-flight bump
  | badOp                     -- op not applicable (no in-flight bump at that pc / one already in flight / nothing to resume)
  deriving Repr, DecidableEq

inductive Op
  | addShare
  | addFail (n : Nat)         -- AddShare with a storage fault: n=0 `SaveHighestAttestation` fails, n≥1 `SaveHighestProposal` fails
  | removeShare
  | removeFail (n : Nat)      -- RemoveShare with a storage fault: n=0 `RemoveHighestAttestation` fails, n≥1 `RemoveHighestProposal` fails
  | bump                      -- a whole `BumpSlashingProtection` with nothing interleaved (reactivation)
  | bumpBegin                 -- … or split: clock read
  | bumpRead                  --           next record read + decision
  | bumpWrite                 --           decided write
  | signAtt (s t : Nat)
  | signBlock (slot : Nat)
  | signAttFault (s t : Nat)   -- a sign request whose record write fails (storage error / database closed under it)
  | signBlockFault (slot : Nat)
  | tick (dt : Nat)
  | restart
  | resume                    -- collect the outcome of the request that was delayed behind a bump
  deriving Repr, DecidableEq

structure State where
  clock : Nat                 -- current slot (monotone)
  d : Durable
  pend : Option BumpPc
  atts : List Att             -- ghost: released attestation signatures, newest first
  blocks : List Nat           -- ghost: released block signatures (slots), newest first
  delayed : Option Op         -- a lock-taking request waiting for the in-flight bump to release the wallet lock
  delayedOut : Option Out     -- outcome of the last delayed request (reported by `resume`)
  deriving Repr, DecidableEq

def init (clock : Nat) : State :=
  { clock := clock, d := ⟨none, none, false⟩, pend := none, atts := [], blocks := [], delayed := none, delayedOut := none }

/-! ### the minimal protection written by a bump -/

/-- `computeMinimalAttestationSP` (uint64: `highestTarget - 1` wraps at 0) -/
def minimalAtt (epoch : Nat) : Att :=
  let t := epoch + Gen.ekm_minSPAttestationEpochGap
  (if t = 0 then u64max else t - 1, t)

/-- `computeMinimalProposerSP` -/
def minimalProp (slot : Nat) : Nat := slot + Gen.ekm_minSPProposalSlotGap

/-- `updateHighestAttestation`: `none` = keep the record, `some w` = save `w` -/
def attDecision (cfg : Cfg) (cur : Option Att) (c : Nat) : Option Att :=
  let m := minimalAtt (epochOf cfg c)
  match cur with
  | some (hs, ht) => if hs ≥ m.1 || ht ≥ m.2 then none else some m
  | none => some m

/-- `updateHighestProposal` -/
def propDecision (cur : Option Nat) (c : Nat) : Option Nat :=
  let m := minimalProp c
  match cur with
  | some hp => if hp ≠ 0 && hp ≥ m then none else some m
  | none => some m

/-- the whole bump on the durable state at clock value `c`, with optional injected storage faults.
    Returns the new durable state and the result. -/
def bumpAtomic (cfg : Cfg) (c : Nat) (d : Durable) (failAtt failProp : Bool) : Durable × Out :=
  match attDecision cfg d.att c with
  | some w =>
    if failAtt then (d, .errFault) else
    let d1 := { d with att := some w }
    match propDecision d1.prop c with
    | some p => if failProp then (d1, .errFault) else if p = 0 then (d1, .errPropSlotZero) else ({ d1 with prop := some p }, .ok)
    | none => (d1, .ok)
  | none =>
    match propDecision d.prop c with
    | some p => if failProp then (d, .errFault) else if p = 0 then (d, .errPropSlotZero) else ({ d with prop := some p }, .ok)
    | none => (d, .ok)

/-! ### operations -/

/-- `AddShare` (under the wallet write lock): only for an absent account: bump, then save the account -/
def stepAdd (cfg : Cfg) (s : State) (failAtt failProp : Bool) : State × Out :=
  if s.d.account then (s, .ok) else
  match bumpAtomic cfg s.clock s.d failAtt failProp with
  | (d', .ok) => ({ s with d := { d' with account := true } }, .ok)
  | (d', o) => ({ s with d := d' }, o)

/-- `RemoveShare` (under the wallet write lock): only for a present account: delete both records, then the account.
    `failAt = some 0`: the first delete fails; `some (n+1)`: the second delete fails. -/
def stepRemove (s : State) (failAt : Option Nat) : State × Out :=
  if !s.d.account then (s, .ok) else
  match failAt with
  | some 0 => (s, .errFault)
  | some (_ + 1) => ({ s with d := { s.d with att := none } }, .errFault)
  | none => ({ s with d := ⟨none, none, false⟩ }, .ok)

def stepBump (cfg : Cfg) (s : State) : State × Out :=
  let (d', o) := bumpAtomic cfg s.clock s.d false false
  ({ s with d := d' }, o)

def stepBumpBegin (s : State) : State × Out :=
  match s.pend with
  | some _ => (s, .badOp)
  | none => ({ s with pend := some (.attRead s.clock) }, .pending)

def stepBumpRead (cfg : Cfg) (s : State) : State × Out :=
  match s.pend with
  | some (.attRead c) =>
    match attDecision cfg s.d.att c with
    | some w => ({ s with pend := some (.attWrite c w) }, .pending)
    | none => ({ s with pend := some (.propRead c) }, .pending)
  | some (.propRead c) =>
    match propDecision s.d.prop c with
    | some w => ({ s with pend := some (.propWrite c w) }, .pending)
    | none => ({ s with pend := none }, .ok)
  | _ => (s, .badOp)

def stepBumpWrite (s : State) : State × Out :=
  match s.pend with
  | some (.attWrite c w) => ({ s with d := { s.d with att := some w }, pend := some (.propRead c) }, .pending)
  | some (.propWrite _ w) =>
    if w = 0 then ({ s with pend := none }, .errPropSlotZero)
    else ({ s with d := { s.d with prop := some w }, pend := none }, .ok)
  | _ => (s, .badOp)

/-- `IsSlashableAttestation` on the stored record -/
def checkAtt (cur : Option Att) (x y : Nat) : Option Refuse :=
  match cur with
  | none => some .attMissing
  | some (hs, ht) => if x < hs || y ≤ ht then some .slashableAtt else none

/-- `UpdateHighestAttestation` on a found record -/
def updAtt (cur : Att) (x y : Nat) : Att :=
  (if cur.1 < x then x else cur.1, if cur.2 < y then y else cur.2)

/-- `SignBeaconAttestation` (atomic under the per-account lock) -/
def stepSignAtt (cfg : Cfg) (s : State) (x y : Nat) : State × Out :=
  if !s.d.account then (s, .refused .noAccount) else
  if y > cfg.ffEpoch then (s, .refused .farFutureTarget) else
  if x > cfg.ffEpoch then (s, .refused .farFutureSource) else
  match s.d.att with
  | none => (s, .refused .attMissing)
  | some (hs, ht) =>
    if x < hs || y ≤ ht then (s, .refused .slashableAtt) else
    ({ s with d := { s.d with att := some (updAtt (hs, ht) x y) }, atts := (x, y) :: s.atts }, .signed)

/-- `IsSlashableProposal` on the stored record -/
def checkProp (cur : Option Nat) (slot : Nat) : Option Refuse :=
  if slot = 0 then some .slotZero else
  match cur with
  | none => some .propMissing
  | some hp => if slot > hp then none else some .slashableProp

/-- `SignBlock` (atomic under the per-account lock) -/
def stepSignBlock (cfg : Cfg) (s : State) (slot : Nat) : State × Out :=
  if !s.d.account then (s, .refused .noAccount) else
  if slot > cfg.ffSlot then (s, .refused .farFutureSlot) else
  if slot = 0 then (s, .refused .slotZero) else
  match s.d.prop with
  | none => (s, .refused .propMissing)
  | some hp =>
    if slot > hp then
      ({ s with d := { s.d with prop := some slot }, blocks := slot :: s.blocks }, .signed)
    else (s, .refused .slashableProp)

/-- a sign request whose (single) record write fails: `UpdateHighestAttestation` returns the error before
    `ValidationKeySign` is reached, so nothing is released and nothing changes; every earlier refusal is unchanged -/
def stepSignAttFault (cfg : Cfg) (s : State) (x y : Nat) : State × Out :=
  match stepSignAtt cfg s x y with
  | (_, .signed) => (s, .refused .writeFailed)
  | (_, o) => (s, o)

def stepSignBlockFault (cfg : Cfg) (s : State) (slot : Nat) : State × Out :=
  match stepSignBlock cfg s slot with
  | (_, .signed) => (s, .refused .writeFailed)
  | (_, o) => (s, o)

/-- the requests that take the wallet lock (`AddShare`, `RemoveShare`, `BumpSlashingProtection` as a whole, every sign
    request), executed with the lock available -/
def stepFree (cfg : Cfg) (s : State) : Op → State × Out
  | .addShare => stepAdd cfg s false false
  | .addFail 0 => stepAdd cfg s true false
  | .addFail (_ + 1) => stepAdd cfg s false true
  | .removeShare => stepRemove s none
  | .removeFail n => stepRemove s (some n)
  | .bump => stepBump cfg s
  | .signAtt x y => stepSignAtt cfg s x y
  | .signBlock slot => stepSignBlock cfg s slot
  | .signAttFault x y => stepSignAttFault cfg s x y
  | .signBlockFault slot => stepSignBlockFault cfg s slot
  | _ => (s, .badOp)

/-- the waiting request (if any) gets the lock and executes; its outcome is kept for `resume` -/
def drain (cfg : Cfg) (s : State) : State :=
  match s.delayed with
  | none => s
  | some op =>
    let r := stepFree cfg { s with delayed := none } op
    { r.1 with delayedOut := some r.2 }

/-- a lock-taking request: executes if no bump is in flight, otherwise waits (one waiting request at a time) -/
def blockOrRun (cfg : Cfg) (s : State) (op : Op) : State × Out :=
  if s.pend.isSome then
    if s.delayed.isSome then (s, .badOp) else ({ s with delayed := some op }, .blocked)
  else stepFree cfg s op

/-- after a step of the in-flight bump: if it has finished, the lock is released and the waiting request runs -/
def finishBump (cfg : Cfg) (r : State × Out) : State × Out :=
  if r.1.pend.isNone then (drain cfg r.1, r.2) else r

/-- CURRENT semantics (bump under the wallet write lock) -/
def step (cfg : Cfg) (s : State) : Op → State × Out
  | .tick dt => ({ s with clock := s.clock + dt }, .ok)
  | .restart => (drain cfg { s with pend := none }, .ok)   -- the bump is aborted; a waiting request still runs first
  | .resume =>
    match s.delayedOut with
    | some o => ({ s with delayedOut := none }, o)
    | none => (s, .badOp)
  | .bumpBegin => stepBumpBegin s
  | .bumpRead => finishBump cfg (stepBumpRead cfg s)
  | .bumpWrite => finishBump cfg (stepBumpWrite s)
  | op => blockOrRun cfg s op

def run (cfg : Cfg) (s : State) : List Op → State
  | [] => s
  | op :: ops => run cfg (step cfg s op).1 ops

/-- semantics BEFORE commit 23d9c6c97: `BumpSlashingProtection` took no lock, its steps interleave with everything -/
def stepOld (cfg : Cfg) (s : State) : Op → State × Out
  | .tick dt => ({ s with clock := s.clock + dt }, .ok)
  | .restart => ({ s with pend := none }, .ok)
  | .resume => (s, .badOp)
  | .bumpBegin => stepBumpBegin s
  | .bumpRead => stepBumpRead cfg s
  | .bumpWrite => stepBumpWrite s
  | op => stepFree cfg s op

def runOld (cfg : Cfg) (s : State) : List Op → State
  | [] => s
  | op :: ops => runOld cfg (stepOld cfg s op).1 ops

/-! ### what is slashable -/

/-- two attestations are slashable together: same target (double vote), or one surrounds the other -/
def Slashable (a b : Att) : Prop :=
  a.2 = b.2 ∨ (a.1 < b.1 ∧ b.2 < a.2) ∨ (b.1 < a.1 ∧ a.2 < b.2)

instance (a b : Att) : Decidable (Slashable a b) := by unfold Slashable; infer_instance

end Ssv.Slashing
