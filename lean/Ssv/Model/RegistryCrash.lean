/-
Crash / failure semantics of block processing                                         (property C12)

A block is the list of micro-steps of `Ssv.Model.Registry` (writes through the block transaction, direct
database writes of the key manager and of the decided-history store, memory updates, marker write, commit).
A FAULT at write index k means: the first k database writes of the block succeed, the (k+1)-th does not happen —
either because the process dies just before it (`crash`) or because it returns an error (`error`, `retry`).
  crash, error : the transaction is lost, the process ends (node.go: every error of the event stream is
                 `logger.Fatal`), a new process starts on the surviving database and resumes at marker + 1;
  retry        : hypothetical — the same process keeps running after the error (only `defer txn.Discard()`),
                 used to measure the memory/database divergence (DESIGN §8-7).
Core Lean only.
-/
import Ssv.Model.Registry

namespace Ssv.Registry

/-- run steps while writes are still allowed: `k` more writes may succeed; stops in front of the first write
    that exceeds the allowance (`none`), memory-only steps before that write are executed -/
def runBudget : Node → List Step → Nat → Node × Option Nat
  | n, [], k => (n, some k)
  | n, s :: ss, k =>
    if s.isWrite then
      match k with
      | 0 => (n, none)
      | k' + 1 => runBudget (applyStep n s) ss k'
    else runBudget (applyStep n s) ss k

/-- how a budgeted execution ended: all steps done (`left` more writes allowed), or cut in front of a write. A cut
    is `bad` when it falls between the two writes of `AddValidatorAccount` — the account record is stored, the
    wallet index that refers to it is not. -/
inductive Cut where
  | done (left : Nat)
  | clean
  | bad
deriving DecidableEq, Repr

def isBadCut (w : Wal) (s : Step) (k : Nat) : Bool :=
  match s with
  | .kmAdd key => !present w key && k == 1
  | _ => false

/-- a handler's step list under a write allowance (key-manager calls expanded one at a time, as in `runMacro`) -/
def runMacroBudget : Node → List Step → Nat → Node × Cut
  | n, [], k => (n, .done k)
  | n, s :: ss, k =>
    match runBudget n (expand n.wal s) k with
    | (n', none) => (n', if isBadCut n.wal s k then .bad else .clean)
    | (n', some k') => runMacroBudget n' ss k'

/-- events of a block under a write allowance; the Bool reports a panic (which ends the block as well) -/
def runEventsBudget (me blk : Nat) : Node → List Event → Nat → Node × Cut × Bool
  | n, [], k => (n, .done k, false)
  | n, e :: es, k =>
    match runMacroBudget n (regSteps me blk (viewOf n.reg) e).1 k with
    | (n', .done k') =>
      if (eventOutcome me blk n e).isPanic then (n', .done k', true)
      else runEventsBudget me blk n' es k'
    | (n', c) => (n', c, false)

inductive FaultKind where
  | crash | error | retry
deriving DecidableEq, Repr

inductive FaultStatus where
  | faulted | faultedBad | completed | refused | panicked
deriving DecidableEq, Repr

/-- what is left after the fault: the transaction is gone; crash/error: a new process on the surviving database -/
def afterFault (me : Nat) (kind : FaultKind) (n : Node) : Node :=
  match kind with
  | .retry => beginTxn n
  | _ => restart me n

/-- processBlockEvents with a fault at write index `k` (no fault if the block has at most k writes);
    `faultedBad` = the fault fell between the account record and the wallet index of an `AddShare` -/
def faultBlock (me : Nat) (n : Node) (b : Block) (kind : FaultKind) (k : Nat) : Node × FaultStatus :=
  if inferior n b then (n, .refused)
  else
    match runEventsBudget me b.number (beginTxn n) b.events k with
    | (n1, .clean, _) => (afterFault me kind n1, .faulted)
    | (n1, .bad, _) => (afterFault me kind n1, .faultedBad)
    | (n1, .done _, true) => (beginTxn n1, .panicked)
    | (n1, .done k1, false) =>
      match runBudget n1 [.putMarker b.number, .commit] k1 with
      | (n2, none) => (afterFault me kind n2, .faulted)
      | (n2, some _) => (n2, .completed)

/-- setupEventHandling: after a start the stream is requested from marker + 1 -/
def resumeList (n : Node) (bs : List Block) : List Block :=
  match n.reg.db.marker with
  | none => bs
  | some m => bs.filter (fun b => decide (m + 1 ≤ b.number))

/-- restart-and-resume after the fault, then the rest of the stream -/
def faultRun (me : Nat) (n : Node) (b : Block) (rest : List Block) (kind : FaultKind) (k : Nat) : Node × Bool :=
  let r := faultBlock me n b kind k
  run me r.1 (resumeList r.1 (b :: rest))

/-- one fault of a sequence: `skip` blocks of the stream that is still to be processed go through, the next block is
    hit at write index `k` -/
structure Fault where
  skip : Nat
  kind : FaultKind
  k : Nat
deriving DecidableEq, Repr

/-- a stream processed under a sequence of faults, each followed by restart-and-resume; the second Bool tells
    whether some fault fell between account record and wallet index -/
def faultyRun (me : Nat) : Node → List Block → List Fault → (Node × Bool) × Bool
  | n, bs, [] => (run me n bs, false)
  | n, bs, f :: fs =>
    let r := run me n (bs.take f.skip)
    if !r.2 then (r, false)
    else
      match bs.drop f.skip with
      | [] => (r, false)
      | b :: rest =>
        let x := faultBlock me r.1 b f.kind f.k
        let q := faultyRun me x.1 (resumeList x.1 (b :: rest)) fs
        (q.1, q.2 || x.2 == .faultedBad)

/-! ### the write trace of an uninterrupted block (compared with the recorded trace of the real handler) -/

def eventsTrace (me blk : Nat) : Node → List Event → List Step
  | _, [] => []
  | n, e :: es =>
    let st := eventSteps me blk n e
    if (eventOutcome me blk n e).isPanic then st
    else st ++ eventsTrace me blk (runSteps n st) es

def blockTrace (me : Nat) (n : Node) (b : Block) : List Step :=
  if inferior n b then []
  else
    let t := eventsTrace me b.number (beginTxn n) b.events
    if (runEvents me b.number (beginTxn n) b.events).2.2 then t
    else t ++ [.putMarker b.number, .commit]

def faultKind? (s : String) : Option FaultKind :=
  if s = "crash" then some .crash else if s = "error" then some .error else if s = "retry" then some .retry else none

def faultStatusS : FaultStatus → String
  | .faulted => "faulted" | .faultedBad => "faulted" | .completed => "completed" | .refused => "refused"
  | .panicked => "panic"

end Ssv.Registry
