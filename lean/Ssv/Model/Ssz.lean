/-
Byte-level SSZ decoders on the message-validation path (C08): the fastssz-GENERATED `UnmarshalSSZ` methods of the pinned
ssv-spec v0.3.7 that `commons.DecodeNetworkMsg`, `queue.DecodeSSVMessage`, `validateConsensusMessage` and
`validatePartialSignatureMessage` run on attacker-supplied bytes, together with the fastssz v0.1.3 helpers they call
(`ReadOffset`, `UnmarshallUint64`, `DecodeDynamicLength`, `UnmarshalDynamic`, `safeReadOffset`, `DivideInt2`).  Core Lean only.

  types.SSVMessage.UnmarshalSSZ                      -> `decodeSSV`
  qbft.Message.UnmarshalSSZ                          -> `decodeQMsg`
  qbft.SignedMessage.UnmarshalSSZ                    -> `decodeSigned`
  types.PartialSignatureMessage.UnmarshalSSZ         -> `decodePSig`
  types.PartialSignatureMessages.UnmarshalSSZ        -> `decodePSigs`
  types.SignedPartialSignatureMessage.UnmarshalSSZ   -> `decodeSPSig`

Go semantics kept explicit: EVERY slice expression `b[lo:hi]`, `b[lo:]` and every fixed-width little-endian read is a
partial operation whose failure is the outcome `panic` (Go: "slice bounds out of range" / index out of range), so that
"the decoder never panics" is a theorem and not a by-product of totalised list functions.  The model checks slice bounds
against `len` (Go checks against `cap` ≥ `len`): the model panics at least whenever Go does, hence `≠ panic` in the model
implies no bounds panic in Go, and since every slice is then proved to lie inside `len` the extracted bytes coincide.
Bytes are `Nat`s (the drivers feed values < 256); uint64/uint32 reads are base-256 little-endian folds.
-/
namespace Ssv.Ssz

inductive Res (α : Type) where
  | ok (a : α)
  | err                  -- the decoder returned a non-nil error
  | panic                -- Go run-time panic
deriving Repr, DecidableEq

def Res.bind {α β : Type} (r : Res α) (f : α → Res β) : Res β :=
  match r with
  | .ok a => f a
  | .err => .err
  | .panic => .panic

instance : Monad Res where
  pure := Res.ok
  bind := Res.bind

/-- `b[lo:hi]` -/
def slice (b : List Nat) (lo hi : Nat) : Res (List Nat) :=
  if lo ≤ hi ∧ hi ≤ b.length then .ok ((b.drop lo).take (hi - lo)) else .panic

/-- `b[lo:]` -/
def sliceFrom (b : List Nat) (lo : Nat) : Res (List Nat) :=
  if lo ≤ b.length then .ok (b.drop lo) else .panic

/-- little-endian value of a byte list -/
def leVal : List Nat → Nat
  | [] => 0
  | x :: r => x + 256 * leVal r

/-- `binary.LittleEndian.Uint32(b)` (= `ssz.ReadOffset`): index panic when `len(b) < 4` -/
def readOffset (b : List Nat) : Res Nat :=
  if b.length < 4 then .panic else .ok (leVal (b.take 4))

/-- `binary.LittleEndian.Uint64(b)` (= `ssz.UnmarshallUint64`): index panic when `len(b) < 8` -/
def readU64 (b : List Nat) : Res Nat :=
  if b.length < 8 then .panic else .ok (leVal (b.take 8))

/-- `ssz.DecodeDynamicLength(buf, maxSize)` -/
def decodeDynamicLength (buf : List Nat) (maxSize : Nat) : Res Nat :=
  if buf.length = 0 then .ok 0
  else if buf.length < 4 then .err
  else do
    let first ← slice buf 0 4
    let offset ← readOffset first
    if offset % 4 ≠ 0 then .err
    else if offset / 4 > maxSize then .err
    else .ok (offset / 4)

/-- the `for` loop of `ssz.UnmarshalDynamic`; `length` is the loop variable (≥ 1 on entry), `dst` the unread rest of
    the offset table -/
def dynLoop {α : Type} (src : List Nat) (f : List Nat → Res α) : Nat → Nat → List Nat → Res (List α)
  | 0, _, _ => .ok []                       -- not reachable: the loop is entered with length ≥ 1 and left at 1
  | n + 1, offset, dst =>
    let next : Res (Nat × List Nat) :=
      if n + 1 ≠ 1 then
        -- safeReadOffset(dst)
        if dst.length < 4 then .err
        else do
          let e ← readOffset dst
          let d ← sliceFrom dst 4
          .ok (e, d)
      else .ok (src.length, dst)
    next.bind fun (endOffset, dst') =>
      if offset > endOffset then .err
      else if endOffset > src.length then .err
      else (slice src offset endOffset).bind fun item =>
        (f item).bind fun a =>
          if n + 1 = 1 then .ok [a]
          else (dynLoop src f n endOffset dst').bind fun rest => .ok (a :: rest)

/-- `ssz.UnmarshalDynamic(src, length, f)` -/
def unmarshalDynamic {α : Type} (src : List Nat) (length : Nat) (f : List Nat → Res α) : Res (List α) :=
  if length = 0 then .ok []
  else do
    let offset ← readOffset src
    let dst ← sliceFrom src 4
    dynLoop src f length offset dst

/-- element decoder of the two justification lists: `if len(buf) > 65536 { return ErrBytesLength }` -/
def justItem (maxItem : Nat) (b : List Nat) : Res (List Nat) :=
  if b.length > maxItem then .err else .ok b

/-! ### limits of the generated code (pinned against the regenerated literal lists by `C08_tie_ssz_*`) -/
def ssvFixed : Nat := 68
def ssvMaxData : Nat := 6291829
def qmsgFixed : Nat := 76
def maxIdentifier : Nat := 56
def maxJustifications : Nat := 13
def maxJustificationSize : Nat := 65536
def signedFixed : Nat := 108
def maxSigners : Nat := 13
def maxFullData : Nat := 5243144
def psigSize : Nat := 136
def psigsFixed : Nat := 20
def maxPSigs : Nat := 13
def spsigFixed : Nat := 108

structure SSVMessage where
  msgType : Nat
  msgID : List Nat
  data : List Nat
deriving Repr, DecidableEq

/-- `types.SSVMessage.UnmarshalSSZ` -/
def decodeSSV (buf : List Nat) : Res SSVMessage :=
  let size := buf.length
  if size < ssvFixed then .err else do
    let b0 ← slice buf 0 8
    let msgType ← readU64 b0
    let msgID ← slice buf 8 64
    let ob ← slice buf 64 68
    let o2 ← readOffset ob
    if o2 > size then .err
    else if o2 < ssvFixed then .err
    else do
      let data ← sliceFrom buf o2
      if data.length > ssvMaxData then .err
      else .ok { msgType, msgID, data }

structure QMsg where
  msgType : Nat
  height : Nat
  round : Nat
  identifier : List Nat
  root : List Nat
  dataRound : Nat
  rcj : List (List Nat)
  pj : List (List Nat)
deriving Repr, DecidableEq

/-- `qbft.Message.UnmarshalSSZ` -/
def decodeQMsg (buf : List Nat) : Res QMsg :=
  let size := buf.length
  if size < qmsgFixed then .err else do
    let msgType ← (slice buf 0 8).bind readU64
    let height ← (slice buf 8 16).bind readU64
    let round ← (slice buf 16 24).bind readU64
    let o3 ← (slice buf 24 28).bind readOffset
    if o3 > size then .err
    else if o3 < qmsgFixed then .err
    else do
      let root ← slice buf 28 60
      let dataRound ← (slice buf 60 68).bind readU64
      let o6 ← (slice buf 68 72).bind readOffset
      if o6 > size ∨ o3 > o6 then .err else do
        let o7 ← (slice buf 72 76).bind readOffset
        if o7 > size ∨ o6 > o7 then .err else do
          let identifier ← slice buf o3 o6
          if identifier.length > maxIdentifier then .err else do
            let b6 ← slice buf o6 o7
            let n6 ← decodeDynamicLength b6 maxJustifications
            let rcj ← unmarshalDynamic b6 n6 (justItem maxJustificationSize)
            let b7 ← sliceFrom buf o7
            let n7 ← decodeDynamicLength b7 maxJustifications
            let pj ← unmarshalDynamic b7 n7 (justItem maxJustificationSize)
            .ok { msgType, height, round, identifier, root, dataRound, rcj, pj }

structure SignedMsg where
  signature : List Nat
  signers : List Nat
  message : QMsg
  fullData : List Nat
deriving Repr, DecidableEq

/-- the `for ii := 0; ii < num; ii++ { … buf[ii*8:(ii+1)*8] … }` loop, `ii = i … i+k-1` -/
def readU64s (buf : List Nat) : Nat → Nat → Res (List Nat)
  | _, 0 => .ok []
  | i, k + 1 => do
    let v ← (slice buf (i * 8) ((i + 1) * 8)).bind readU64
    let r ← readU64s buf (i + 1) k
    .ok (v :: r)

/-- `qbft.SignedMessage.UnmarshalSSZ` -/
def decodeSigned (buf : List Nat) : Res SignedMsg :=
  let size := buf.length
  if size < signedFixed then .err else do
    let signature ← slice buf 0 96
    let o1 ← (slice buf 96 100).bind readOffset
    if o1 > size then .err
    else if o1 < signedFixed then .err
    else do
      let o2 ← (slice buf 100 104).bind readOffset
      if o2 > size ∨ o1 > o2 then .err else do
        let o3 ← (slice buf 104 108).bind readOffset
        if o3 > size ∨ o2 > o3 then .err else do
          let b1 ← slice buf o1 o2
          -- ssz.DivideInt2(len(buf), 8, 13)
          if b1.length % 8 ≠ 0 then .err
          else if b1.length / 8 > maxSigners then .err
          else do
            let signers ← readU64s b1 0 (b1.length / 8)
            let b2 ← slice buf o2 o3
            let message ← decodeQMsg b2
            let fullData ← sliceFrom buf o3
            if fullData.length > maxFullData then .err
            else .ok { signature, signers, message, fullData }

structure PSig where
  partialSignature : List Nat
  signingRoot : List Nat
  signer : Nat
deriving Repr, DecidableEq

/-- `types.PartialSignatureMessage.UnmarshalSSZ` -/
def decodePSig (buf : List Nat) : Res PSig :=
  if buf.length ≠ psigSize then .err else do
    let partialSignature ← slice buf 0 96
    let signingRoot ← slice buf 96 128
    let signer ← (slice buf 128 136).bind readU64
    .ok { partialSignature, signingRoot, signer }

structure PSigs where
  type : Nat
  slot : Nat
  messages : List PSig
deriving Repr, DecidableEq

/-- the `for ii` loop over `buf[ii*136:(ii+1)*136]` -/
def readPSigs (buf : List Nat) : Nat → Nat → Res (List PSig)
  | _, 0 => .ok []
  | i, k + 1 => do
    let m ← (slice buf (i * psigSize) ((i + 1) * psigSize)).bind decodePSig
    let r ← readPSigs buf (i + 1) k
    .ok (m :: r)

/-- `types.PartialSignatureMessages.UnmarshalSSZ` -/
def decodePSigs (buf : List Nat) : Res PSigs :=
  let size := buf.length
  if size < psigsFixed then .err else do
    let type ← (slice buf 0 8).bind readU64
    let slot ← (slice buf 8 16).bind readU64
    let o2 ← (slice buf 16 20).bind readOffset
    if o2 > size then .err
    else if o2 < psigsFixed then .err
    else do
      let b ← sliceFrom buf o2
      if b.length % psigSize ≠ 0 then .err
      else if b.length / psigSize > maxPSigs then .err
      else do
        let messages ← readPSigs b 0 (b.length / psigSize)
        .ok { type, slot, messages }

structure SPSig where
  message : PSigs
  signature : List Nat
  signer : Nat
deriving Repr, DecidableEq

/-- `types.SignedPartialSignatureMessage.UnmarshalSSZ` -/
def decodeSPSig (buf : List Nat) : Res SPSig :=
  let size := buf.length
  if size < spsigFixed then .err else do
    let o0 ← (slice buf 0 4).bind readOffset
    if o0 > size then .err
    else if o0 < spsigFixed then .err
    else do
      let signature ← slice buf 4 100
      let signer ← (slice buf 100 108).bind readU64
      let b ← sliceFrom buf o0
      let message ← decodePSigs b
      .ok { message, signature, signer }

/-! ### encoders (`MarshalSSZTo`), for the round-trip statements -/

/-- `n` as `k` little-endian bytes -/
def leBytes : Nat → Nat → List Nat
  | 0, _ => []
  | k + 1, n => (n % 256) :: leBytes k (n / 256)

/-- `types.SSVMessage.MarshalSSZTo` -/
def encodeSSV (m : SSVMessage) : List Nat :=
  leBytes 8 m.msgType ++ m.msgID ++ leBytes 4 ssvFixed ++ m.data

/-- `types.PartialSignatureMessage.MarshalSSZTo` -/
def encodePSig (m : PSig) : List Nat :=
  m.partialSignature ++ m.signingRoot ++ leBytes 8 m.signer

/-- `types.PartialSignatureMessages.MarshalSSZTo` -/
def encodePSigs (m : PSigs) : List Nat :=
  leBytes 8 m.type ++ leBytes 8 m.slot ++ leBytes 4 psigsFixed ++ (m.messages.map encodePSig).flatten

/-- `types.SignedPartialSignatureMessage.MarshalSSZTo` -/
def encodeSPSig (m : SPSig) : List Nat :=
  leBytes 4 spsigFixed ++ m.signature ++ leBytes 8 m.signer ++ encodePSigs m.message

/-- the offset table written by the generated `MarshalSSZTo` for a list of byte lists: one 4-byte offset per item,
    starting at `off` -/
def offTable (off : Nat) : List (List Nat) → List Nat
  | [] => []
  | x :: r => leBytes 4 off ++ offTable (off + x.length) r

/-- encoding of a dynamic list of byte lists: offset table, then the items -/
def encodeDyn (items : List (List Nat)) : List Nat := offTable (4 * items.length) items ++ items.flatten

/-- `qbft.Message.MarshalSSZTo` -/
def encodeQMsg (m : QMsg) : List Nat :=
  let o6 := qmsgFixed + m.identifier.length
  let o7 := o6 + (encodeDyn m.rcj).length
  leBytes 8 m.msgType ++ leBytes 8 m.height ++ leBytes 8 m.round ++ leBytes 4 qmsgFixed ++ m.root ++ leBytes 8 m.dataRound ++
    leBytes 4 o6 ++ leBytes 4 o7 ++ m.identifier ++ encodeDyn m.rcj ++ encodeDyn m.pj

/-- `qbft.SignedMessage.MarshalSSZTo` -/
def encodeSigned (m : SignedMsg) : List Nat :=
  let o2 := signedFixed + 8 * m.signers.length
  let o3 := o2 + (encodeQMsg m.message).length
  m.signature ++ leBytes 4 signedFixed ++ leBytes 4 o2 ++ leBytes 4 o3 ++ (m.signers.map (leBytes 8)).flatten ++
    encodeQMsg m.message ++ m.fullData

end Ssv.Ssz
