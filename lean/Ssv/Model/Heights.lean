/-
Engine `heights` (property C15): controller height, bounded instance container, highest-instance store, duty guard, restart.
Core Lean only (linked into the native driver `m_heights`).

What is modelled, function by function (current tree, i.e. WITH the fixes 358626700 (store `replaces` guard),
26e2e6b00 (reloaded instance kept) and c50569811 (a duty that holds a decided value counts as previously decided);
the semantics before the first two fixes are kept in Ssv/Model/HeightsOld.lean for the regression lemmas):
* protocol/v2/qbft/controller/types.go        `InstanceContainer.FindInstance`, `addNewInstance`, `reset`
* protocol/v2/qbft/controller/controller.go   `NewController`, `StartNewInstance`, `forceStopAllInstanceExceptCurrent`,
                                              `ProcessMsg` (routing only), `InstanceForHeight` (incl. the full-node reload from storage)
* protocol/v2/qbft/controller/decided.go      `UponDecided` (three branches, per-(round, root) signer comparison, save, future bump, prevDecided)
* protocol/v2/qbft/controller/highest_instance.go  `SaveInstance` (`isHighest := msg.Height >= c.Height`), `LoadHighestInstance`, `getHighestInstance`
* ibft/storage/store.go                       `saveInstance` (CompactCopy, highest / historical keys), `GetHighestInstance`, `GetInstance`
* protocol/v2/qbft/instance/compact.go        the effect of `Compact` / `CompactCopy` on the commit container (rounds < State.Round dropped)
* ssv-spec qbft/message_container.go          `AddMsg`, `LongestUniqueSignersForRoundAndRoot` (the greedy disjoint-union search, literally)
* protocol/v2/ssv/runner/runner.go            `ShouldProcessDuty`, `baseStartNewDuty`, `baseSetupForNewDuty`, `decide`,
                                              `baseConsensusMsgProcessing` (ProcessMsg, compaction, `didDecideCorrectly`, second save, `highestDecidedSlot`)
* protocol/v2/ssv/runner/compact.go           `compactInstanceIfNeeded`
* protocol/v2/ssv/validator/startup.go        `Validator.Start` (LoadHighestInstance + SetHighestDecidedSlot)
* restart                                      process state (controller, runner) dropped, store kept

Abstractions: an instance is (height, State.Round, State.Decided, forceStop, commit container); the commit container is the
list of its messages in insertion order, a message is (round, root id, signer list); only decided (multi-signer commit)
messages ever enter it in this engine (single commits need an accepted proposal, which never exists here).  Everything
`ValidateDecided`/`BaseMsgValidation` checks apart from the quorum count (signature, committee membership, unique signers,
H(data) = root, identifier) is the Boolean `ok` of the operation, computed by the harness with the real validators.
The decided value of height `h` is a consensus datum whose duty slot is `h` (the harness builds it that way).
-/
import Ssv.Gen.Heights

namespace Ssv.Heights

/-- a decided message, also the unit stored in a commit container (its height is the key it is filed under) -/
structure Msg where
  round : Nat
  root : Nat
  signers : List Nat
deriving DecidableEq, Repr, Inhabited

/-- what the engine keeps of `instance.Instance` (`State.Height/Round/Decided/CommitContainer`, `forceStop`) -/
structure Inst where
  height : Nat
  round : Nat
  decided : Bool
  stopped : Bool
  commits : List Msg
  /-- root of `State.ProposalAcceptedForCurrentRound` (set when the instance ran the proposal/prepare/commit exchange) -/
  accepted : Option Nat
deriving DecidableEq, Repr, Inhabited

/-- `qbftstorage.StoredInstance`: State + DecidedMessage -/
structure Stored where
  inst : Inst
  cert : Msg
deriving DecidableEq, Repr, Inhabited

structure Store where
  highest : Option Stored
  /-- historical instances by height (ascending, one entry per height) -/
  hist : List (Nat × Stored)
deriving DecidableEq, Repr, Inhabited

structure Ctrl where
  height : Nat
  insts : List Inst
  full : Bool
deriving DecidableEq, Repr, Inhabited

structure Runner where
  /-- `State != nil`: slot of `State.StartingDuty` -/
  duty : Option Nat
  /-- height of `State.RunningInstance` -/
  running : Option Nat
  /-- `State.RunningInstance.IsDecided()`; the object is shared with the container while it is in it -/
  runDecided : Bool
  /-- `highestDecidedSlot` -/
  hds : Nat
  /-- `State.DecidedValue != nil` -/
  hasValue : Bool
deriving DecidableEq, Repr, Inhabited

structure State where
  /-- `Share.Quorum` -/
  q : Nat
  c : Ctrl
  r : Runner
  s : Store
deriving DecidableEq, Repr, Inhabited

/-! ## instance container (controller/types.go) -/

def cap : Nat := Gen.heights_InstanceContainerDefaultCapacity

def find (l : List Inst) (h : Nat) : Option Inst := l.find? (fun i => i.height == h)

/-- position of `addNewInstance`: before the first existing instance with a smaller height -/
def ins (i : Inst) : List Inst → List Inst
  | [] => [i]
  | x :: xs => if x.height < i.height then i :: x :: xs else x :: ins i xs

/-- `addNewInstance` on a container of fixed capacity `cap`: insert, the last one falls out when full
    (and an instance lower than everything in a full container is not added at all) -/
def addNew (l : List Inst) (i : Inst) : List Inst := (ins i l).take cap

/-- replace the (first) instance of that height — mutation through the shared pointer -/
def replaceInst (i' : Inst) : List Inst → List Inst
  | [] => []
  | x :: xs => if x.height == i'.height then i' :: xs else x :: replaceInst i' xs

/-! ## commit container (ssv-spec MsgContainer) -/

def common (a b : List Nat) : Bool := a.any (fun x => b.contains x)

/-- inner loop of `LongestUniqueSignersForRoundAndRoot` -/
def greedy (acc : List Nat) : List (List Nat) → List Nat
  | [] => acc
  | m :: rest => if common m acc then greedy acc rest else greedy (acc ++ m) rest

/-- length of the result of `LongestUniqueSignersForRoundAndRoot` on the messages of one (round, root) -/
def longestLen : List (List Nat) → Nat
  | [] => 0
  | m :: rest => Nat.max (greedy m rest).length (longestLen rest)

def bucket (cs : List Msg) (round root : Nat) : List (List Nat) :=
  (cs.filter (fun m => m.round == round && m.root == root)).map (·.signers)

def longest (cs : List Msg) (round root : Nat) : Nat := longestLen (bucket cs round root)

/-- `compactContainer(state.CommitContainer, state.Round, false)`: rounds below State.Round are dropped -/
def trim (i : Inst) : Inst := { i with commits := i.commits.filter (fun m => decide (i.round ≤ m.round)) }

/-! ## store (ibft/storage/store.go) -/

def histGet (l : List (Nat × Stored)) (h : Nat) : Option Stored :=
  (l.find? (fun e => e.1 == h)).map (·.2)

def histPut (h : Nat) (s : Stored) : List (Nat × Stored) → List (Nat × Stored)
  | [] => [(h, s)]
  | (k, v) :: rest =>
    if k = h then (h, s) :: rest
    else if h < k then (h, s) :: (k, v) :: rest
    else (k, v) :: histPut h s rest

/-- `replaces(prev, next)`: a stored record is only replaced by one for a higher height or, at the same height, by a
    certificate with more signers -/
def replaces (prev : Option Stored) (next : Stored) : Bool :=
  match prev with
  | none => true
  | some p =>
    if p.inst.height ≠ next.inst.height then decide (p.inst.height < next.inst.height)
    else decide (p.cert.signers.length < next.cert.signers.length)

/-- `ibftStorage.saveInstance(inst, toHistory, asHighest)`: CompactCopy, then each key is written only if `replaces` -/
def storeSave (st : Store) (rec : Stored) (toHistory asHighest : Bool) : Store :=
  let rec' : Stored := { rec with inst := { trim rec.inst with stopped := false } }
  { highest := if asHighest && replaces st.highest rec' then some rec' else st.highest,
    hist := if toHistory && replaces (histGet st.hist rec'.inst.height) rec' then histPut rec'.inst.height rec' st.hist
            else st.hist }

/-- `Controller.SaveInstance(i, msg)`; `msg.Height = i.height` at both call sites -/
def saveInstance (c : Ctrl) (st : Store) (i : Inst) (m : Msg) : Store :=
  let isHighest := decide (c.height ≤ i.height)
  if c.full then
    if isHighest then storeSave st ⟨i, m⟩ true true else storeSave st ⟨i, m⟩ true false
  else
    if isHighest then storeSave st ⟨i, m⟩ false true else st

/-! ## controller -/

inductive StartErr | pastHeight | alreadyRunning
deriving DecidableEq, Repr

def newInst (h : Nat) : Inst := ⟨h, Gen.heights_FirstRound, false, false, [], none⟩

/-- `Controller.StartNewInstance` (the value check is passed: the harness always hands in a valid value) -/
def startNewInstance (c : Ctrl) (h : Nat) : Except StartErr Ctrl :=
  if h < c.height then .error .pastHeight
  else if (find c.insts h).isSome then .error .alreadyRunning
  else
    let l := addNew c.insts (newInst h)
    -- forceStopAllInstanceExceptCurrent
    .ok { c with height := h, insts := l.map (fun i => if i.height == h then i else { i with stopped := true }) }

/-- `Controller.InstanceForHeight`: memory first, then (full node) the historical store; the Boolean says "in memory" -/
def instanceForHeight (c : Ctrl) (st : Store) (h : Nat) : Option (Inst × Bool) :=
  match find c.insts h with
  | some i => some (i, true)
  | none =>
    if c.full then
      match histGet st.hist h with
      | some s => some (s.inst, false)
      | none => none
    else none

inductive DOut | err | new | dup
deriving DecidableEq, Repr

/-- `UponDecided` up to the save block: (container afterwards, `save`).
    An instance that `InstanceForHeight` reloaded from storage (`inMem0 = false`) is first put into the container
    (`addNewInstance`; it may not fit — then it stays a temporary object and its mutation is lost) and is always saved.
    Then the three branches: no instance / instance not decided / decided before (per-(round, root) comparison). -/
def decidedBranch (c : Ctrl) (st : Store) (h : Nat) (m : Msg) : List Inst × Bool :=
  match instanceForHeight c st h with
  | none => (addNew c.insts ⟨h, m.round, true, false, [m], none⟩, true)
  | some (i, inMem0) =>
    let insts0 := if inMem0 then c.insts else addNew c.insts i
    let inMem := (find insts0 h).isSome
    if !i.decided then
      (if inMem then replaceInst { i with decided := true, round := m.round, commits := i.commits ++ [m] } insts0
       else insts0, true)
    else if longest i.commits m.round m.root < m.signers.length then
      (if inMem then replaceInst { i with commits := i.commits ++ [m] } insts0 else insts0, true)
    else (insts0, !inMem0)

def prevDecidedOf (c : Ctrl) (st : Store) (h : Nat) : Bool :=
  match instanceForHeight c st h with
  | some (i, _) => i.decided
  | none => false

/-- the `if save { if inst := FindInstance(h); inst != nil { SaveInstance(inst, msg) } }` block -/
def saveFound (c : Ctrl) (st : Store) (h : Nat) (m : Msg) : Store :=
  match find c.insts h with
  | some i => saveInstance c st i m
  | none => st

/-- `Controller.UponDecided` for a valid decided message `m` of height `h` -/
def uponDecided (c : Ctrl) (st : Store) (h : Nat) (m : Msg) : Ctrl × Store × DOut :=
  let br := decidedBranch c st h m
  let c1 : Ctrl := { c with insts := br.1 }
  -- c1.height is still the height before the bump
  let st' := if br.2 then saveFound c1 st h m else st
  let c2 : Ctrl := { c1 with height := if c.height < h then h else c.height }
  (c2, st', if prevDecidedOf c st h then .dup else .new)

/-- `SignedMessage.MatchedSigners` -/
def sameSigners (a b : List Nat) : Bool := a.length == b.length && a.all (fun x => b.contains x)

/-- the signer list `LongestUniqueSignersForRoundAndRoot` returns (the first longest greedy union) -/
def longestList : List (List Nat) → List Nat
  | [] => []
  | m :: rest => if (greedy m rest).length < (longestList rest).length then longestList rest else greedy m rest

def insertNat (x : Nat) : List Nat → List Nat
  | [] => [x]
  | y :: ys => if x ≤ y then x :: y :: ys else y :: insertNat x ys

def sortNat (l : List Nat) : List Nat := l.foldr insertNat []

/-- `Controller.UponExistingInstanceMsg` for a commit-type message BELOW quorum (not a decided message by `IsDecidedMsg`):
    (controller afterwards, outcome, aggregated decided message if the instance reaches a quorum).
    `isFutureMessage`; `InstanceForHeight` (a reloaded instance is a temporary object: its update is lost);
    `Instance.ProcessMsg`: forceStop, past round, no accepted proposal, `validateCommit` (one signer, round = State.Round,
    root = proposal root); `UponCommit`: `AddFirstMsgForSignerAndRound` (ignored if that signer set is already filed in
    the round), quorum by `LongestUniqueSignersForRoundAndRoot`, aggregate. The controller broadcasts an aggregate but
    never saves on this path. (Round cut-off not modelled.) -/
def existingMsg (q : Nat) (c : Ctrl) (st : Store) (h : Nat) (m : Msg) : Ctrl × DOut × Msg :=
  if (c.height == Gen.heights_FirstHeight && (find c.insts c.height).isNone) || decide (c.height < h) then (c, .err, m)
  else
    match instanceForHeight c st h with
    | none => (c, .err, m)
    | some (i, inMem) =>
      if inMem && i.stopped then (c, .err, m)
      else if m.round < i.round then (c, .err, m)
      else
        match i.accepted with
        | none => (c, .err, m)
        | some root =>
          if m.signers.length ≠ 1 || m.round ≠ i.round || m.root ≠ root then (c, .err, m)
          else if i.commits.any (fun x => x.round == m.round && sameSigners x.signers m.signers) then (c, .dup, m)
          else
            let cs := i.commits ++ [m]
            let reached := decide (q ≤ longest cs m.round m.root)
            let i' : Inst := { i with commits := cs, decided := i.decided || reached }
            let c' : Ctrl := if inMem then { c with insts := replaceInst i' c.insts } else c
            (c', if reached && !i.decided then .new else .dup,
              if reached then ⟨m.round, m.root, sortNat (longestList (bucket cs m.round m.root))⟩ else m)

/-- `Controller.ProcessMsg` for a commit-type message with the given signers.
    `ok` = identifier matches and `ValidateDecided` (decided message) resp. `BaseCommitValidation` (below quorum) passes.
    At or above quorum it is a decided message (`IsDecidedMsg`) → `UponDecided`; below → `UponExistingInstanceMsg`. -/
def processMsg (q : Nat) (c : Ctrl) (st : Store) (h : Nat) (m : Msg) (ok : Bool) : Ctrl × Store × DOut :=
  if !ok then (c, st, .err)
  else if m.signers.length < q then ((existingMsg q c st h m).1, st, (existingMsg q c st h m).2.1)
  else uponDecided c st h m

/-- the decided message `ProcessMsg` returns: the message itself, or the aggregate of a commit quorum -/
def retMsg (q : Nat) (c : Ctrl) (st : Store) (h : Nat) (m : Msg) (ok : Bool) : Msg :=
  if ok && decide (m.signers.length < q) then (existingMsg q c st h m).2.2 else m

/-- `instance.Compact` applied to the in-memory instance of height `h` (`compactInstanceIfNeeded`) -/
def compactAt (c : Ctrl) (h : Nat) : Ctrl :=
  match find c.insts h with
  | some i => { c with insts := replaceInst (trim i) c.insts }
  | none => c

/-- `LoadHighestInstance` -/
def loadHighest (c : Ctrl) (st : Store) : Ctrl × Option Stored :=
  match st.highest with
  | none => (c, none)
  | some s => ({ c with height := s.inst.height, insts := addNew [] (trim s.inst) }, some s)

/-! ## runner -/

def syncRun (r : Runner) (c : Ctrl) : Runner :=
  match r.running with
  | some h => match find c.insts h with
    | some i => { r with runDecided := i.decided }
    | none => r
  | none => r

/-- `ShouldProcessDuty`: `true` = refused -/
def guardRefuses (c : Ctrl) (slot : Nat) : Bool := decide (slot ≤ c.height) && c.height != 0

inductive Out
  | ok | guard | refused | noduty        -- start / begin / decide
  | derr | dnew | ddup                   -- decided via the controller
  | rerr | rok                           -- decided via the runner (ProcessConsensus error / nil)
  | cok | cerr | na                      -- commits: ProcessConsensus of the deciding commit nil / error; not applicable
  | done                                 -- compact
  | loaded | empty                       -- restart
deriving DecidableEq, Repr

/-- `BaseRunner.decide` for the duty slot `slot` -/
def decideStep (s : State) (slot : Nat) : State × Out :=
  match startNewInstance s.c slot with
  | .error _ => (s, .refused)
  | .ok c' =>
    -- InstanceForHeight(c.Height) finds the instance just created
    let r' : Runner := { s.r with running := some slot, runDecided := false }
    ({ s with c := c', r := r' }, .ok)

inductive Op
  /-- attester-style `StartNewDuty`: guard, new runner state, consensus start, all in one call -/
  | start (slot : Nat)
  /-- `StartNewDuty` of a runner with a pre-consensus phase: guard + new runner state; consensus starts later -/
  | begin (slot : Nat)
  /-- the pre-consensus quorum arrives: `decide` for `State.StartingDuty.Slot` -/
  | decide
  /-- a commit-type message with these signers for (height, round, root) is processed, by `Controller.ProcessMsg`
      (`viaRunner = false`) or by the runner's `ProcessConsensus` (`true`) -/
  | decided (h round root : Nat) (signers : List Nat) (ok viaRunner : Bool)
  /-- the same, while the store FAILS the first Save* call it receives during this op (storage fault at that moment);
      `SaveInstance` errors are only logged by `UponDecided` and by the runner -/
  | decidedSF (h round root : Nat) (signers : List Nat) (ok viaRunner : Bool)
  /-- the running instance (fresh: round 1, nothing received yet) decides through INDIVIDUAL messages delivered to the
      runner's `ProcessConsensus`: proposal of value `root`, prepares and commits of operators 1..quorum; `valOk` = verdict
      of the runner's value check on the decided value at that moment (`validateDecidedConsensusData`) -/
  | commits (root : Nat) (valOk : Bool)
  /-- `compactInstanceIfNeeded` for a message of height `h` (decided or round-change) -/
  | compact (h : Nat)
  /-- process state dropped, store kept, `Validator.Start` (`full` = node mode of the new process) -/
  | restart (full : Bool)
deriving DecidableEq, Repr

def newCtrl (full : Bool) : Ctrl := ⟨Gen.heights_FirstHeight, [], full⟩
def newRunner : Runner := ⟨none, none, false, 0, false⟩

def init (full : Bool) (q : Nat) : State := ⟨q, newCtrl full, newRunner, ⟨none, []⟩⟩

/-- `baseStartNewDuty` up to (not including) `executeDuty` -/
def beginStep (s : State) (slot : Nat) : State × Out :=
  if guardRefuses s.c slot then (s, .guard)
  else ({ s with r := { s.r with duty := some slot, running := none, runDecided := false, hasValue := false } }, .ok)

/-- `didDecideCorrectly` + the guard before it, for the outcome `o` of `ProcessMsg`: does the runner go on to its own
    `SaveInstance` and to the `highestDecidedSlot` update? -/
def runnerSaves (r : Runner) (h : Nat) (o : DOut) : Bool :=
  -- prevDecided: the running instance object is decided, or the duty already holds a decided value
  let prevDecided := r.duty.isSome && ((r.running.isSome && r.runDecided) || r.hasValue)
  o == .new && r.duty.isSome && r.running == some h && !prevDecided

/-- error / nil of `ProcessConsensus` (values are valid consensus data, so nothing after `didDecideCorrectly` fails) -/
def runnerOut (r : Runner) (h : Nat) : DOut → Out
  | .err => .rerr
  | .dup => .rok                       -- decidedMsg == nil (also when there is no running duty)
  | .new =>
    if r.duty.isNone then .rok         -- !hasRunningDuty()
    else match r.running with
      | none => .rerr                  -- "decided wrong instance"
      | some rh => if h ≠ rh then .rerr else .rok

/-- `baseConsensusMsgProcessing` for a commit-type message: ProcessMsg, compactInstanceIfNeeded, the runner's own save -/
def decidedViaRunner (s : State) (h : Nat) (m : Msg) (ok : Bool) : State × Out :=
  let p := processMsg s.q s.c s.s h m ok
  -- compactInstanceIfNeeded(msg) runs whatever ProcessMsg returned; IsDecidedMsg looks at the signer count only
  let c2 := if s.q ≤ m.signers.length then compactAt p.1 h else p.1
  let r2 := syncRun s.r c2
  let saves := runnerSaves s.r h p.2.2
  ({ s with c := c2,
            s := if saves then saveFound c2 p.2.1 h (retMsg s.q s.c s.s h m ok) else p.2.1,
            -- decoded, highestDecidedSlot set, value valid: State.DecidedValue set
            r := if saves then { r2 with hds := h, hasValue := true } else r2 },
   runnerOut s.r h p.2.2)

def decidedViaCtrl (s : State) (h : Nat) (m : Msg) (ok : Bool) : State × Out :=
  let p := processMsg s.q s.c s.s h m ok
  ({ s with c := p.1, s := p.2.1, r := syncRun s.r p.1 },
    match p.2.2 with | .err => .derr | .new => .dnew | .dup => .ddup)

/-- does the save block of `UponDecided` reach the storage (so that an armed write failure is consumed there)? -/
def firstSaveCalled (c : Ctrl) (st : Store) (h : Nat) (m : Msg) : Bool :=
  (decidedBranch c st h m).2 &&
    match find (decidedBranch c st h m).1 h with
    | some i => c.full || decide (c.height ≤ i.height)
    | none => false

/-- `Controller.ProcessMsg` while the store fails its next write: everything of `UponDecided` happens (instance added,
    Height bumped, decided message returned) except that nothing is written (the error is only logged) -/
def decidedViaCtrlSF (s : State) (h : Nat) (m : Msg) (ok : Bool) : State × Out :=
  let p := processMsg s.q s.c s.s h m ok
  ({ s with c := p.1, r := syncRun s.r p.1 },
    match p.2.2 with | .err => .derr | .new => .dnew | .dup => .ddup)

/-- the runner path while the store fails the first write it receives: if `UponDecided`'s save reached the store it is
    that one which failed, and the runner's own save (if it comes to it) succeeds; otherwise the runner's save fails -/
def decidedViaRunnerSF (s : State) (h : Nat) (m : Msg) (ok : Bool) : State × Out :=
  let p := processMsg s.q s.c s.s h m ok
  let consumed := ok && decide (s.q ≤ m.signers.length) && firstSaveCalled s.c s.s h m
  let c2 := if s.q ≤ m.signers.length then compactAt p.1 h else p.1
  let r2 := syncRun s.r c2
  let saves := runnerSaves s.r h p.2.2
  ({ s with c := c2,
            s := if saves && consumed then saveFound c2 s.s h (retMsg s.q s.c s.s h m ok) else s.s,
            r := if saves then { r2 with hds := h, hasValue := true } else r2 },
   runnerOut s.r h p.2.2)

/-- commit messages of operators 1..q for (round 1, root), as `AddFirstMsgForSignerAndRound` files them -/
def singles (q root : Nat) : List Msg := (List.range' 1 q).map (fun k => ⟨Gen.heights_FirstRound, root, [k]⟩)

/-- `commits`: applicable to a running, fresh instance that is still in the container. The q-th commit completes the
    quorum: the instance decides, `UponExistingInstanceMsg` returns the aggregate of the q commits, and
    `baseConsensusMsgProcessing` saves the instance (`SaveInstance`) and sets `highestDecidedSlot` BEFORE it validates
    the decided value — so the value check only decides error / nil of `ProcessConsensus` and whether
    `State.DecidedValue` gets set. -/
def commitsStep (s : State) (root : Nat) (valOk : Bool) : State × Out :=
  match s.r.duty, s.r.running with
  | some _, some rh =>
    match find s.c.insts rh with
    | some i =>
      if !i.decided && i.commits.isEmpty && !i.stopped && i.round == Gen.heights_FirstRound && i.accepted.isNone then
        let i' : Inst := { i with decided := true, commits := singles s.q root, accepted := some root }
        let c' : Ctrl := { s.c with insts := replaceInst i' s.c.insts }
        let cert : Msg := ⟨Gen.heights_FirstRound, root, List.range' 1 s.q⟩
        if s.r.hasValue then
          -- the duty already holds a decided value: `prevDecided`, so `didDecideCorrectly` stops before the save
          ({ s with c := c', r := syncRun s.r c' }, .cok)
        else
          ({ s with c := c', s := saveFound c' s.s rh cert,
                    r := { syncRun s.r c' with hds := rh, hasValue := valOk } },
            if valOk then .cok else .cerr)
      else (s, .na)
    | none => (s, .na)
  | _, _ => (s, .na)

def restartStep (s : State) (full : Bool) : State × Out :=
  let ld := loadHighest (newCtrl full) s.s
  match ld.2 with
  | some st => ({ s with c := ld.1, r := { newRunner with hds := st.inst.height } }, .loaded)
  | none => ({ s with c := ld.1, r := newRunner }, .empty)

def step (s : State) : Op → State × Out
  | .start slot =>
    match beginStep s slot with
    | (s1, .ok) => decideStep s1 slot
    | (s1, o) => (s1, o)
  | .begin slot => beginStep s slot
  | .decide =>
    match s.r.duty with
    | none => (s, .noduty)
    | some slot => decideStep s slot
  | .decided h round root signers ok viaRunner =>
    if viaRunner then decidedViaRunner s h ⟨round, root, signers⟩ ok
    else decidedViaCtrl s h ⟨round, root, signers⟩ ok
  | .decidedSF h round root signers ok viaRunner =>
    if viaRunner then decidedViaRunnerSF s h ⟨round, root, signers⟩ ok
    else decidedViaCtrlSF s h ⟨round, root, signers⟩ ok
  | .commits root valOk => commitsStep s root valOk
  | .compact h =>
    let c' := compactAt s.c h
    ({ s with c := c', r := syncRun s.r c' }, .done)
  | .restart full => restartStep s full

def run (s : State) (ops : List Op) : State := ops.foldl (fun s o => (step s o).1) s

end Ssv.Heights
