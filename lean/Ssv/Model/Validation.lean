/-
Executable model of message/validation (validation.go, consensus_validation.go, partial_validation.go,
signer_state.go, message_counts.go, errors.go, rsa.go) over DECODED messages with arbitrary field values.

Abstract inputs computed by the harness from the real functions on the real objects:
  * SSZ / JSON decoding outcome (`Body`), BLS public key deserialisation (`pkOk`), the operator RSA
    signature check (`EnvSig`), SHA-256 (`fullData` is the interned id of sha256(FullData), `root` the
    interned id of Message.Root: collision freedom makes id equality = byte equality),
    `instance.IsProposalJustification` (`justOk`), justification SSZ decoding (`pjMalformed`/`rcjMalformed`).
Everything else (guard order, integer/time arithmetic, enums, signer state) is modelled line by line.
Every Go panic site on the path is an explicit `Fail.panic` outcome.
-/
import Ssv.Gen.Validation
import Ssv.Gen.Kernels
import Ssv.Model.ValidationTime

namespace Ssv.Validation
open Ssv

/-! ## outcomes -/

/-- one constructor per `Err…` variable of errors.go -/
inductive Tag
  | EmptyData | WrongDomain | NoShareMetadata | UnknownValidator | ValidatorLiquidated | ValidatorNotAttesting
  | SlotAlreadyAdvanced | RoundAlreadyAdvanced | ZeroRound | RoundTooHigh | EarlyMessage | LateMessage
  | TooManySameTypeMessagesPerRound | SignatureVerification | OperatorNotFound | PubSubMessageHasNoData
  | PubSubDataTooBig | MalformedPubSubMessage | EmptyPubSubMessage | TopicNotFound | SSVDataTooBig | InvalidRole
  | UnexpectedConsensusMessage | NoSigners | WrongSignatureSize | ZeroSignature | ZeroSigner | SignerNotInCommittee
  | DuplicatedSigner | SignerNotLeader | SignersNotSorted | UnexpectedSigner | InvalidHash | EstimatedRoundTooFar
  | MalformedMessage | MalformedSignedMessage | UnknownSSVMessageType | UnknownQBFTMessageType
  | UnknownPartialMessageType | PartialSignatureTypeRoleMismatch | NonDecidedWithMultipleSigners
  | WrongSignersLength | DuplicatedProposalWithDifferentData | EventMessage | DKGMessage
  | MalformedPrepareJustifications | UnexpectedPrepareJustifications | MalformedRoundChangeJustifications
  | UnexpectedRoundChangeJustifications | InvalidJustifications | TooManyDutiesPerEpoch | NoDuty | NoDutyIgnored
  | DeserializePublicKey | NoPartialMessages | DuplicatedPartialSignatureMessage
deriving DecidableEq, Repr

/-- the `reject: true` column of errors.go (compared with the real `Error.Reject()` on every differential case) -/
def Tag.reject : Tag → Bool
  | .EmptyData | .WrongDomain | .NoShareMetadata | .UnknownValidator | .ValidatorLiquidated
  | .ValidatorNotAttesting | .SlotAlreadyAdvanced | .RoundAlreadyAdvanced | .RoundTooHigh | .EarlyMessage
  | .LateMessage | .TooManySameTypeMessagesPerRound | .EstimatedRoundTooFar | .NoDutyIgnored => false
  | _ => true

/-- every place where the Go code can panic on the validation path -/
inductive PanicSite
  | maxRoundUnknownRole        -- maxRound: default: panic("unknown role")
  | leaderModZero              -- RoundRobinProposer: % len(Committee) with an empty committee
  | leaderIndexOutOfRange      -- RoundRobinProposer: Committee[index], index < 0 or ≥ len
  | countsValidateUnknownType  -- MessageCounts.ValidateConsensusMessage default
  | countsRecordUnknownType    -- MessageCounts.RecordConsensusMessage default
  | countsRecordNoSigners      -- MessageCounts.RecordConsensusMessage: panic("expected signers")
  | partialTypeRoleUnknownRole -- partialSignatureTypeMatchesRole default
  | partialCountsUnknownType   -- MessageCounts.ValidatePartialSignatureMessage default
  | partialRecordUnknownType   -- MessageCounts.RecordPartialSignatureMessage default
  | sigArrayConversion         -- [signatureSize]byte(signature) with len < 96
deriving DecidableEq, Repr

inductive Fail
  | tag (t : Tag)
  | panic (s : PanicSite)
deriving DecidableEq, Repr

inductive Outcome
  | accept
  | ignore (t : Tag)
  | reject (t : Tag)
  | panic (s : PanicSite)
deriving DecidableEq, Repr

abbrev Chk := Except Fail Unit

deriving instance DecidableEq for Except

def ok : Chk := .ok ()
def failT (t : Tag) : Chk := .error (.tag t)
def failP (s : PanicSite) : Chk := .error (.panic s)
/-- `if cond { return Err }` -/
def rejectIf (c : Bool) (t : Tag) : Chk := if c then failT t else ok

/-- sequential composition: the first check that does not pass decides -/
def firstFail : List Chk → Chk
  | [] => ok
  | (.ok _) :: cs => firstFail cs
  | (.error e) :: _ => .error e

def Outcome.ofChk : Chk → Outcome
  | .ok _ => .accept
  | .error (.tag t) => if t.reject then .reject t else .ignore t
  | .error (.panic s) => .panic s

/-! ## inputs -/

/-- what validation reads from the stored share -/
structure Share where
  committee : List Nat      -- operator ids, in committee order
  quorum : Nat              -- Share.Quorum
  liquidated : Bool
  hasMeta : Bool            -- BeaconMetadata != nil
  statusAttesting : Bool    -- BeaconMetadata.Status.IsAttesting()
  pendingQueued : Bool      -- Status == ValidatorStatePendingQueued
  activationEpoch : Nat
  index : Nat               -- BeaconMetadata.Index
deriving Repr, DecidableEq

/-- duty store contents -/
structure Duties where
  proposer : List (Nat × Nat × Nat)  -- (epoch, slot, validator index)
  sync : List (Nat × Nat)            -- (period, validator index)
deriving Repr

structure Ctx where
  cfg : NetCfg
  duties : Duties

/-- decoded `specqbft.SignedMessage` -/
structure QMsg where
  mtype : Nat
  height : Nat
  round : Nat
  root : Nat                -- id of Message.Root
  fullData : Option Nat     -- none: len(FullData)=0; some h: h = id of sha256(FullData)
  signers : List Nat
  sigLen : Nat
  sigZero : Bool            -- all bytes zero
  pjMalformed : Bool
  pjLen : Nat
  rcjMalformed : Bool
  rcjLen : Nat
  justOk : Bool             -- instance.IsProposalJustification(...) == nil
deriving Repr, DecidableEq

structure PItem where
  signer : Nat
  root : Nat                -- id of SigningRoot
  sigLen : Nat
  sigZero : Bool
deriving Repr, DecidableEq

/-- decoded `spectypes.SignedPartialSignatureMessage` -/
structure PMsg where
  ptype : Nat
  slot : Nat
  signer : Nat
  msgs : List PItem
  sigLen : Nat
  sigZero : Bool
deriving Repr, DecidableEq

/-- result of `queue.DecodeSSVMessage` -/
inductive Body
  | unknownType
  | malformed
  | consensus (m : QMsg)
  | partialSig (m : PMsg)
  | event
deriving Repr, DecidableEq

/-- the `signatureVerifier` closure: absent before the fork, else the result of `verifySignature` -/
inductive EnvSig | none | valid | operatorNotFound | invalid
deriving Repr, DecidableEq

/-- one call of `validateSSVMessage(msg, receivedAt, signatureVerifier)` -/
structure Input where
  vid : Nat                 -- interned validator public key (MsgID.GetPubKey)
  role : Nat                -- MsgID.GetRoleType()
  dataLen : Nat             -- len(ssvMessage.Data)
  domainOk : Bool
  pkOk : Bool
  share : Option Share      -- nodeStorage.Shares().Get
  body : Body
  envSig : EnvSig
  now : GoTime              -- receivedAt
  wallEpoch : Nat           -- Beacon.EstimatedCurrentEpoch() (the wall clock, read by IsAttesting)
deriving Repr

/-! ## signer state -/

structure Counts where
  preConsensus : Nat := 0
  proposal : Nat := 0
  prepare : Nat := 0
  commit : Nat := 0
  decided : Nat := 0
  roundChange : Nat := 0
  postConsensus : Nat := 0
deriving Repr, DecidableEq

structure SignerState where
  slot : Nat := 0
  round : Nat := 0
  counts : Counts := {}
  proposalData : Option Nat := none
  epochDuties : Nat := 0
deriving Repr, DecidableEq

/-- key: (validator, role, signer) — `messageValidator.index[ConsensusID{pk, role}].Signers[signer]` -/
abbrev Key := Nat × Nat × Nat
abbrev State := Key → Option SignerState

def State.empty : State := fun _ => none
def State.set (st : State) (k : Key) (v : SignerState) : State := fun k' => if k' = k then some v else st k'

/-! ## enums -/

def validRole (r : Nat) : Bool :=
  r == Gen.val_BNRoleAttester || r == Gen.val_BNRoleAggregator || r == Gen.val_BNRoleProposer ||
  r == Gen.val_BNRoleSyncCommittee || r == Gen.val_BNRoleSyncCommitteeContribution ||
  r == Gen.val_BNRoleValidatorRegistration || r == Gen.val_BNRoleVoluntaryExit

def validQBFTMsgType (t : Nat) : Bool :=
  t == Gen.val_ProposalMsgType || t == Gen.val_PrepareMsgType || t == Gen.val_CommitMsgType || t == Gen.val_RoundChangeMsgType

def validPartialSigMsgType (t : Nat) : Bool :=
  t == Gen.val_PostConsensusPartialSig || t == Gen.val_RandaoPartialSig || t == Gen.val_SelectionProofPartialSig ||
  t == Gen.val_ContributionProofs || t == Gen.val_ValidatorRegistrationPartialSig || t == Gen.val_VoluntaryExitPartialSig

/-- `maxRound(role)`; the values 12 / 6 / 0 are literals of the function body (tied by its fingerprint and the differential run) -/
def maxRound (role : Nat) : Except Fail Nat :=
  if role == Gen.val_BNRoleAttester || role == Gen.val_BNRoleAggregator then .ok 12
  else if role == Gen.val_BNRoleProposer || role == Gen.val_BNRoleSyncCommittee || role == Gen.val_BNRoleSyncCommitteeContribution then .ok 6
  else if role == Gen.val_BNRoleValidatorRegistration || role == Gen.val_BNRoleVoluntaryExit then .ok 0
  else .error (.panic .maxRoundUnknownRole)

def partialTypeMatchesRole (t role : Nat) : Except Fail Bool :=
  if role == Gen.val_BNRoleAttester then .ok (t == Gen.val_PostConsensusPartialSig)
  else if role == Gen.val_BNRoleAggregator then .ok (t == Gen.val_PostConsensusPartialSig || t == Gen.val_SelectionProofPartialSig)
  else if role == Gen.val_BNRoleProposer then .ok (t == Gen.val_PostConsensusPartialSig || t == Gen.val_RandaoPartialSig)
  else if role == Gen.val_BNRoleSyncCommittee then .ok (t == Gen.val_PostConsensusPartialSig)
  else if role == Gen.val_BNRoleSyncCommitteeContribution then .ok (t == Gen.val_PostConsensusPartialSig || t == Gen.val_ContributionProofs)
  else if role == Gen.val_BNRoleValidatorRegistration then .ok (t == Gen.val_ValidatorRegistrationPartialSig)
  else if role == Gen.val_BNRoleVoluntaryExit then .ok (t == Gen.val_VoluntaryExitPartialSig)
  else .error (.panic .partialTypeRoleUnknownRole)

/-! ## slot and round windows -/

/-- `earlyMessage(slot, receivedAt)`: slot-domain guard first, then the time comparison -/
def earlyMessage (c : NetCfg) (slot : Nat) (now : GoTime) : Bool :=
  let cur := slotAtTime c now.toUnix
  if (slot : Int) > wrapU64 (cur + 1) then true
  else ((slotEnd c cur).add (-(Gen.val_clockErrorTolerance : Int))).before (slotStart c slot)

/-- ttl of `lateMessage`; `none` = the role returns 0 immediately; roles outside the switch keep ttl 0 -/
def lateTtl (role : Nat) : Option Nat :=
  if role == Gen.val_BNRoleProposer || role == Gen.val_BNRoleSyncCommittee || role == Gen.val_BNRoleSyncCommitteeContribution
    then some (1 + Gen.val_lateSlotAllowance)
  else if role == Gen.val_BNRoleAttester || role == Gen.val_BNRoleAggregator then some (32 + Gen.val_lateSlotAllowance)
  else if role == Gen.val_BNRoleValidatorRegistration || role == Gen.val_BNRoleVoluntaryExit then none
  else some 0

/-- `lateMessage(slot, role, receivedAt)` : Duration -/
def lateMessage (c : NetCfg) (slot role : Nat) (now : GoTime) : Int :=
  match lateTtl role with
  | none => 0
  | some ttl =>
    let deadline := ((slotStart c (wrapU64 ((slot : Int) + ttl))).add (Gen.val_lateMessageMargin : Int)).add (Gen.val_clockErrorTolerance : Int)
    (slotStart c (slotAtTime c now.toUnix)).sub deadline

def validateSlotTime (c : NetCfg) (slot role : Nat) (now : GoTime) : Chk :=
  firstFail [rejectIf (earlyMessage c slot now) .EarlyMessage,
             rejectIf (decide (lateMessage c slot role now > 0)) .LateMessage]

/-- `currentEstimatedRound(sinceSlotStart)`; Round is uint64 -/
def currentEstimatedRound (since : Int) : Int :=
  let q := wrapU64 ((Gen.val_FirstRound : Int) + wrapU64 (goDiv since (Gen.val_QuickTimeout : Int)))
  if q ≤ (Gen.val_QuickTimeoutThreshold : Int) then q
  else
    let sinceFirstSlow := wrapI64 (since - wrapI64 ((Gen.val_QuickTimeoutThreshold : Int) * (Gen.val_QuickTimeout : Int)))
    wrapU64 ((Gen.val_QuickTimeoutThreshold : Int) + (Gen.val_FirstRound : Int) + wrapU64 (goDiv sinceFirstSlow (Gen.val_SlowTimeout : Int)))

/-- highest round accepted at `now` for a message of `slot` -/
def highestAllowedRound (c : NetCfg) (slot : Nat) (now : GoTime) : Int :=
  let start := slotStart c slot
  let est := if now.after start then currentEstimatedRound (now.sub start) else (Gen.val_FirstRound : Int)
  wrapU64 (est + (Gen.val_allowedRoundsInFuture : Int))

def roundWindow (c : NetCfg) (m : QMsg) (now : GoTime) : Chk :=
  rejectIf (Nat.blt m.round Gen.val_FirstRound || decide ((m.round : Int) > highestAllowedRound c m.height now)) .EstimatedRoundTooFar

/-! ## signers, leader -/

/-- `int(x)` for a uint64 x -/
def toInt64 (x : Nat) : Int := wrapI64 x

/-- the index expression of `specqbft.RoundRobinProposer` (Go `int`, truncating `%`); n = len(Committee) ≠ 0.
    Written with the int64 wrap-around of every intermediate sum (exact for ALL uint64 heights and rounds, which the
    pre-fix regression cases need); `leaderIndex_eq_kernel` (Proofs) shows it equals the kernel TRANSLATED from the Go
    source, `Gen.k_RoundRobinProposerIndex`, wherever no intermediate sum overflows. -/
def leaderIndex (n height round : Nat) : Int :=
  let first := if height != Gen.val_FirstHeight then goMod (toInt64 height) n else 0
  goMod (wrapI64 (wrapI64 (first + toInt64 round) - (Gen.val_FirstRound : Int))) n

/-- `RoundRobinProposer(state, round)` with its two panic sites -/
def roundRobinProposer (committee : List Nat) (height round : Nat) : Except Fail Nat :=
  if committee.length = 0 then .error (.panic .leaderModZero)
  else
    let i := leaderIndex committee.length height round
    if i < 0 then .error (.panic .leaderIndexOutOfRange)
    else match committee[i.toNat]? with
      | some op => .ok op
      | none => .error (.panic .leaderIndexOutOfRange)

/-- `slices.IsSorted` (non-decreasing) -/
def isSorted : List Nat → Bool
  | [] => true
  | [_] => true
  | a :: b :: rest => a ≤ b && isSorted (b :: rest)

def commonSigner (sh : Share) (signer : Nat) : Chk :=
  firstFail [rejectIf (signer = 0) .ZeroSigner, rejectIf (!sh.committee.contains signer) .SignerNotInCommittee]

/-- the loop at the end of `validConsensusSigners` -/
def signerLoop (sh : Share) : Nat → List Nat → Chk
  | _, [] => ok
  | prev, s :: rest => firstFail [commonSigner sh s, rejectIf (s = prev) .DuplicatedSigner, signerLoop sh s rest]

def hasQuorum (sh : Share) (cnt : Nat) : Bool := decide (sh.quorum ≤ cnt)

/-- the `switch` at the top of `validConsensusSigners` -/
def signersShape (sh : Share) (m : QMsg) : Chk :=
  match m.signers with
  | [] => failT .NoSigners
  | [s] =>
    if m.mtype == Gen.val_ProposalMsgType then
      match roundRobinProposer sh.committee m.height m.round with
      | .error e => .error e
      | .ok leader => rejectIf (s ≠ leader) .SignerNotLeader
    else ok
  | _ :: _ :: _ =>
    if m.mtype != Gen.val_CommitMsgType then failT .NonDecidedWithMultipleSigners
    else rejectIf (!hasQuorum sh m.signers.length || decide (m.signers.length > sh.committee.length)) .WrongSignersLength

def validConsensusSigners (sh : Share) (m : QMsg) : Chk :=
  firstFail [signersShape sh m, rejectIf (!isSorted m.signers) .SignersNotSorted, signerLoop sh 0 m.signers]

/-- `validateSignatureFormat`: length check, then `[signatureSize]byte(signature) == [signatureSize]byte{}`
    (the slice-to-array conversion panics for a shorter slice) -/
def signatureFormat (sigLen : Nat) (sigZero : Bool) : Chk :=
  firstFail [rejectIf (sigLen != Gen.val_signatureSize) .WrongSignatureSize,
             (if Nat.blt sigLen Gen.val_signatureSize then failP .sigArrayConversion else rejectIf sigZero .ZeroSignature)]

/-! ## duties -/

def validateBeaconDuty (x : Ctx) (role slot : Nat) (sh : Share) : Chk :=
  if role == Gen.val_BNRoleProposer then
    firstFail [rejectIf (!sh.hasMeta) .NoShareMetadata,
      rejectIf (!x.duties.proposer.contains ((epochAtSlot x.cfg slot).toNat, slot, sh.index)) .NoDuty]
  else if role == Gen.val_BNRoleSyncCommittee || role == Gen.val_BNRoleSyncCommitteeContribution then
    firstFail [rejectIf (!sh.hasMeta) .NoShareMetadata,
      rejectIf (!x.duties.sync.contains ((periodAtEpoch x.cfg (epochAtSlot x.cfg slot)).toNat, sh.index)) .NoDutyIgnored]
  else ok

/-- `validateDutyCount` -/
def validateDutyCount (ss : SignerState) (role : Nat) (newDutyInSameEpoch : Bool) : Chk :=
  if role == Gen.val_BNRoleAttester || role == Gen.val_BNRoleAggregator ||
     role == Gen.val_BNRoleValidatorRegistration || role == Gen.val_BNRoleVoluntaryExit then
    let limit := if newDutyInSameEpoch then Gen.val_maxDutiesPerEpoch else Gen.val_maxDutiesPerEpoch + 1
    rejectIf (decide (ss.epochDuties ≥ limit)) .TooManyDutiesPerEpoch
  else ok

/-! ## message counts -/

/-- `maxDecidedCount(committeeSize)`: the kernel translated from the Go source (Go int arithmetic, truncating division) -/
def maxDecidedCount (n : Nat) : Int := Gen.k_maxDecidedCount n

def isDecided (m : QMsg) : Bool := m.mtype == Gen.val_CommitMsgType && decide (m.signers.length > 1)

/-- `hasFullData(signedMsg)` -/
def hasFullData (m : QMsg) : Bool :=
  (m.mtype == Gen.val_ProposalMsgType || m.mtype == Gen.val_RoundChangeMsgType || isDecided m) && m.fullData.isSome

/-- `MessageCounts.ValidateConsensusMessage(msg, maxMessageCounts(n))` -/
def countsValidate (c : Counts) (m : QMsg) (n : Nat) : Chk :=
  if m.mtype == Gen.val_ProposalMsgType then rejectIf (decide (c.proposal ≥ 1)) .TooManySameTypeMessagesPerRound
  else if m.mtype == Gen.val_PrepareMsgType then rejectIf (decide (c.prepare ≥ 1)) .TooManySameTypeMessagesPerRound
  else if m.mtype == Gen.val_CommitMsgType then
    firstFail [rejectIf (decide (m.signers.length = 1) && decide (c.commit ≥ 1)) .TooManySameTypeMessagesPerRound,
               rejectIf (decide (m.signers.length > 1) && decide ((c.decided : Int) ≥ maxDecidedCount n)) .TooManySameTypeMessagesPerRound]
  else if m.mtype == Gen.val_RoundChangeMsgType then rejectIf (decide (c.roundChange ≥ 1)) .TooManySameTypeMessagesPerRound
  else failP .countsValidateUnknownType

/-- `MessageCounts.RecordConsensusMessage(msg)` -/
def countsRecord (c : Counts) (m : QMsg) : Except Fail Counts :=
  if m.mtype == Gen.val_ProposalMsgType then .ok { c with proposal := c.proposal + 1 }
  else if m.mtype == Gen.val_PrepareMsgType then .ok { c with prepare := c.prepare + 1 }
  else if m.mtype == Gen.val_CommitMsgType then
    if m.signers.length = 1 then .ok { c with commit := c.commit + 1 }
    else if m.signers.length > 1 then .ok { c with decided := c.decided + 1 }
    else .error (.panic .countsRecordNoSigners)
  else if m.mtype == Gen.val_RoundChangeMsgType then .ok { c with roundChange := c.roundChange + 1 }
  else .error (.panic .countsRecordUnknownType)

def isPreConsensusType (t : Nat) : Bool :=
  t == Gen.val_RandaoPartialSig || t == Gen.val_SelectionProofPartialSig || t == Gen.val_ContributionProofs ||
  t == Gen.val_ValidatorRegistrationPartialSig || t == Gen.val_VoluntaryExitPartialSig

/-- `MessageCounts.ValidatePartialSignatureMessage` (note the strict `>` of the code: limit + 1 messages pass) -/
def countsValidatePartial (c : Counts) (t : Nat) : Chk :=
  if isPreConsensusType t then rejectIf (decide (c.preConsensus > 1)) .TooManySameTypeMessagesPerRound
  else if t == Gen.val_PostConsensusPartialSig then rejectIf (decide (c.postConsensus > 1)) .TooManySameTypeMessagesPerRound
  else failP .partialCountsUnknownType

def countsRecordPartial (c : Counts) (t : Nat) : Except Fail Counts :=
  if isPreConsensusType t then .ok { c with preConsensus := c.preConsensus + 1 }
  else if t == Gen.val_PostConsensusPartialSig then .ok { c with postConsensus := c.postConsensus + 1 }
  else .error (.panic .partialRecordUnknownType)

/-! ## justifications -/

def validateJustifications (m : QMsg) : Chk :=
  firstFail [
    rejectIf m.pjMalformed .MalformedPrepareJustifications,
    rejectIf (decide (m.pjLen ≠ 0) && (m.mtype != Gen.val_ProposalMsgType)) .UnexpectedPrepareJustifications,
    rejectIf m.rcjMalformed .MalformedRoundChangeJustifications,
    rejectIf (decide (m.rcjLen ≠ 0) && (m.mtype != Gen.val_ProposalMsgType) && (m.mtype != Gen.val_RoundChangeMsgType)) .UnexpectedRoundChangeJustifications,
    rejectIf (decide (m.mtype == Gen.val_ProposalMsgType) && !m.justOk) .InvalidJustifications]

/-! ## per-signer behaviour (consensus) -/

/-- `validateSignerBehaviorConsensus` for one signer whose state is `ss?` -/
def signerBehaviorConsensus (c : NetCfg) (sh : Share) (role : Nat) (m : QMsg) (ss? : Option SignerState) : Chk :=
  match ss? with
  | none => validateJustifications m
  | some ss =>
    let newDuty := decide (m.height > ss.slot) && decide (epochAtSlot c m.height = epochAtSlot c ss.slot)
    let same := decide (m.height = ss.slot) && decide (m.round = ss.round)
    firstFail [
      rejectIf (decide (m.height < ss.slot)) .SlotAlreadyAdvanced,
      rejectIf (decide (m.height = ss.slot) && decide (m.round < ss.round)) .RoundAlreadyAdvanced,
      validateDutyCount ss role newDuty,
      rejectIf (same && hasFullData m && ss.proposalData.isSome && (ss.proposalData != m.fullData)) .DuplicatedProposalWithDifferentData,
      (if same then countsValidate ss.counts m sh.committee.length else ok),
      validateJustifications m]

/-- `ResetSlot` -/
def SignerState.resetSlot (ss : SignerState) (slot round : Nat) (newEpoch : Bool) : SignerState :=
  { slot := slot, round := round, counts := {}, proposalData := none,
    epochDuties := if newEpoch then 1 else ss.epochDuties + 1 }

/-- `ResetRound` -/
def SignerState.resetRound (ss : SignerState) (round : Nat) : SignerState :=
  { ss with round := round, counts := {}, proposalData := none }

/-- the state update of one signer at the end of `validateConsensusMessage` -/
def updSignerConsensus (c : NetCfg) (m : QMsg) (ss? : Option SignerState) : Except Fail SignerState :=
  let ss := ss?.getD {}       -- CreateSignerState: zero value
  let ss := if m.height > ss.slot then
              ss.resetSlot m.height m.round (decide (epochAtSlot c m.height > epochAtSlot c ss.slot))
            else if m.height = ss.slot ∧ m.round > ss.round then ss.resetRound m.round
            else ss
  let ss := if hasFullData m && ss.proposalData.isNone then { ss with proposalData := m.fullData } else ss
  match countsRecord ss.counts m with
  | .ok cnt => .ok { ss with counts := cnt }
  | .error e => .error e

/-! ## consensus messages -/

def envSigCheck : EnvSig → Chk
  | .none | .valid => ok
  | .operatorNotFound => failT .OperatorNotFound
  | .invalid => failT .SignatureVerification

/-- the guards of `validateConsensusMessage`, in source order -/
def consensusChecks (x : Ctx) (st : State) (i : Input) (sh : Share) (m : QMsg) : List Chk :=
  [ rejectIf (i.role == Gen.val_BNRoleValidatorRegistration || i.role == Gen.val_BNRoleVoluntaryExit) .UnexpectedConsensusMessage,
    signatureFormat m.sigLen m.sigZero,
    rejectIf (!validQBFTMsgType m.mtype) .UnknownQBFTMessageType,
    rejectIf (m.round == Gen.val_NoRound) .ZeroRound,
    (match maxRound i.role with
     | .error e => .error e
     | .ok mx => rejectIf (decide (m.round > mx)) .RoundTooHigh),
    validateSlotTime x.cfg m.height i.role i.now,
    validConsensusSigners sh m,
    roundWindow x.cfg m i.now,
    rejectIf (match m.fullData with | some h => h != m.root | none => false) .InvalidHash,
    validateBeaconDuty x i.role m.height sh,
    firstFail (m.signers.map fun s => signerBehaviorConsensus x.cfg sh i.role m (st (i.vid, i.role, s))),
    envSigCheck i.envSig ]

/-- fold of the per-signer updates; a panic in `RecordConsensusMessage` aborts -/
def updConsensus (c : NetCfg) (vid role : Nat) (m : QMsg) : List Nat → State → Except Fail State
  | [], st => .ok st
  | s :: rest, st =>
    match updSignerConsensus c m (st (vid, role, s)) with
    | .error e => .error e
    | .ok ss => updConsensus c vid role m rest (st.set (vid, role, s) ss)

/-! ## partial signature messages -/

def partialItemLoop (sh : Share) (signer : Nat) : List Nat → List PItem → Chk
  | _, [] => ok
  | seen, it :: rest =>
    firstFail [
      rejectIf (seen.contains it.root) .DuplicatedPartialSignatureMessage,
      rejectIf (it.signer ≠ signer) .UnexpectedSigner,
      commonSigner sh it.signer,
      signatureFormat it.sigLen it.sigZero,
      partialItemLoop sh signer (it.root :: seen) rest]

def validatePartialMessages (sh : Share) (m : PMsg) : Chk :=
  firstFail [commonSigner sh m.signer, rejectIf m.msgs.isEmpty .NoPartialMessages, partialItemLoop sh m.signer [] m.msgs]

/-- `validateSignerBehaviorPartial` -/
def signerBehaviorPartial (c : NetCfg) (role : Nat) (m : PMsg) (ss? : Option SignerState) : Chk :=
  match ss? with
  | none => ok
  | some ss =>
    let newDuty := decide (m.slot > ss.slot) && decide (epochAtSlot c m.slot = epochAtSlot c ss.slot)
    firstFail [
      rejectIf (decide (m.slot < ss.slot)) .SlotAlreadyAdvanced,
      validateDutyCount ss role newDuty,
      (if m.slot ≤ ss.slot then countsValidatePartial ss.counts m.ptype else ok)]

def partialChecks (x : Ctx) (st : State) (i : Input) (sh : Share) (m : PMsg) : List Chk :=
  [ rejectIf (!validPartialSigMsgType m.ptype) .UnknownPartialMessageType,
    (match partialTypeMatchesRole m.ptype i.role with
     | .error e => .error e
     | .ok b => rejectIf (!b) .PartialSignatureTypeRoleMismatch),
    rejectIf (earlyMessage x.cfg m.slot i.now) .EarlyMessage,
    validatePartialMessages sh m,
    signerBehaviorPartial x.cfg i.role m (st (i.vid, i.role, m.signer)),
    signatureFormat m.sigLen m.sigZero,
    envSigCheck i.envSig ]

def updPartial (c : NetCfg) (m : PMsg) (ss? : Option SignerState) : Except Fail SignerState :=
  let ss := ss?.getD {}
  let ss := if m.slot > ss.slot then
              ss.resetSlot m.slot Gen.val_FirstRound (decide (epochAtSlot c m.slot > epochAtSlot c ss.slot))
            else ss
  match countsRecordPartial ss.counts m.ptype with
  | .ok cnt => .ok { ss with counts := cnt }
  | .error e => .error e

/-! ## validateSSVMessage -/

def isAttesting (sh : Share) (wallEpoch : Nat) : Bool :=
  sh.hasMeta && (sh.statusAttesting || (sh.pendingQueued && decide (sh.activationEpoch ≤ wallEpoch)))

/-- the guards of `validateSSVMessage` before the message is decoded -/
def preChecks (i : Input) : List Chk :=
  [ rejectIf (i.dataLen = 0) .EmptyData,
    rejectIf (Nat.blt Gen.val_maxMessageSize i.dataLen) .SSVDataTooBig,
    rejectIf (!i.domainOk) .WrongDomain,
    rejectIf (!validRole i.role) .InvalidRole,
    rejectIf (!i.pkOk) .DeserializePublicKey,
    (match i.share with
     | none => failT .UnknownValidator
     | some sh => firstFail [rejectIf sh.liquidated .ValidatorLiquidated, rejectIf (!sh.hasMeta) .NoShareMetadata,
                             rejectIf (!isAttesting sh i.wallEpoch) .ValidatorNotAttesting]) ]

/-- everything `validateSSVMessage` checks, as one verdict (no state change) -/
def check (x : Ctx) (st : State) (i : Input) : Chk :=
  match firstFail (preChecks i), i.share with
  | .error e, _ => .error e
  | .ok _, none => failT .UnknownValidator      -- unreachable: preChecks fails on `none`
  | .ok _, some sh =>
    match i.body with
    | .unknownType => failT .UnknownSSVMessageType
    | .malformed => failT .MalformedMessage
    | .event => failT .EventMessage
    | .consensus m =>
      firstFail (rejectIf (Nat.blt Gen.val_maxConsensusMsgSize i.dataLen) .SSVDataTooBig :: consensusChecks x st i sh m)
    | .partialSig m =>
      firstFail (rejectIf (Nat.blt Gen.val_maxPartialSignatureMsgSize i.dataLen) .SSVDataTooBig :: partialChecks x st i sh m)

/-- the state update performed when every guard passed -/
def update (x : Ctx) (st : State) (i : Input) : Except Fail State :=
  match i.body with
  | .consensus m => updConsensus x.cfg i.vid i.role m m.signers st
  | .partialSig m =>
    match updPartial x.cfg m (st (i.vid, i.role, m.signer)) with
    | .ok ss => .ok (st.set (i.vid, i.role, m.signer) ss)
    | .error e => .error e
  | _ => .ok st

/-- `validateSSVMessage`: verdict and next state (state changes only on accept) -/
def validate (x : Ctx) (st : State) (i : Input) : State × Outcome :=
  match check x st i with
  | .error e => (st, Outcome.ofChk (.error e))
  | .ok _ =>
    match update x st i with
    | .ok st' => (st', .accept)
    | .error e => (st, Outcome.ofChk (.error e))

/-! ## validateP2PMessage (thin wrapper: envelope, sizes, topic) -/

/-- result of `verifySignature` for the envelope (there always is a verifier once the fork is active) -/
inductive SigResult | valid | operatorNotFound | invalid
deriving Repr, DecidableEq

def SigResult.toEnv : SigResult → EnvSig
  | .valid => .valid
  | .operatorNotFound => .operatorNotFound
  | .invalid => .invalid

structure P2PInput where
  signedDecodeOk : Bool     -- commons.DecodeSignedSSVMessage succeeded (only consulted after the fork)
  sig : SigResult           -- verifySignature(payload, operatorID, signature) (only consulted after the fork)
  payloadLen : Nat          -- len(messageData) after unwrapping
  netDecodeOk : Bool        -- commons.DecodeNetworkMsg succeeded
  topicOk : Bool            -- topic rule (property C18)
  inner : Input

/-- `maxEncodedMsgSize` of validateP2PMessage (a function-local constant: 4 + 56 + 8388668, plus 10 %) -/
def maxEncodedMsgSize : Nat := (4 + 56 + 8388668) + (4 + 56 + 8388668) / 10

def forkActive (c : NetCfg) (now : GoTime) : Bool :=
  decide (epochAtSlot c (slotAtTime c now.toUnix) > (c.permissionlessEpoch : Int))

def validateP2P (x : Ctx) (st : State) (p : P2PInput) : State × Outcome :=
  let active := forkActive x.cfg p.inner.now
  match firstFail [
      rejectIf (active && !p.signedDecodeOk) .MalformedSignedMessage,
      rejectIf (p.payloadLen = 0) .PubSubMessageHasNoData,
      rejectIf (decide (p.payloadLen > maxEncodedMsgSize)) .PubSubDataTooBig,
      rejectIf (!p.netDecodeOk) .MalformedPubSubMessage,
      rejectIf (!p.topicOk) .TopicNotFound] with
  | .error e => (st, Outcome.ofChk (.error e))
  | .ok _ => validate x st { p.inner with envSig := if active then p.sig.toEnv else .none }

end Ssv.Validation
