/-
Model of the partial-signature collection path of a duty runner.                     (property C05)

Go code modelled, line by line:
* ssv-spec v0.3.7 `ssv/partial_sig_container.go`: `PartialSigContainer` (`AddSignature`, `HasSigner`,
  `GetSignature`, `Remove`, `HasQuorum`);
* protocol/v2/ssv/runner/runner.go `basePartialSigMsgProcessing` (quorum *edge* detection,
  duplicate handling), `basePostConsensusMsgProcessing`, `basePreConsensusMsgProcessing`, `hasRunningDuty`;
* runner_signatures.go `resolveDuplicateSignature`, `validatePartialSigMsgForSlot`;
* runner_validations.go `ValidatePostConsensusMsg`/`ValidatePreConsensusMsg`, `verifyExpectedRoot`,
  `FallBackAndVerifyEachSignature`;
* runner_state.go `ReconstructBeaconSig` → protocol/v2/types/crypto.go `ReconstructSignature` /
  `VerifyReconstructedSignature`;
* the quorum branch of `ProcessPostConsensus` of attester.go, proposer.go, aggregator.go, sync_committee.go
  (style `loop`), sync_committee_aggregator.go (style `loopMatch`) and of `ProcessPreConsensus` of
  voluntary_exit.go, validator_registration.go (style `first`).

Abstractions (recorded as assumptions of C05):
* a stored share is `some true` (verifies under the signer's share key over that root — what
  `verifyBeaconPartialSignature` computes) or `some false`; roots and signers are natural-number ids;
* threshold BLS: `ReconstructSignature` (Lagrange recovery over ALL stored shares of the root followed by
  `VerifyReconstructedSignature`) succeeds iff every stored share of the root is good and there are at least
  `Share.Quorum` (= key-split threshold) of them;
* the container is `root → signer → Option quality`; the Go map is keyed the same way, so "one share per signer
  per root" holds by construction; counting ranges over the committee (validation admits only committee signers);
* the beacon node accepts every submission (`Submit*` returns nil).
Core Lean only: linked into the native driver `m_partialsig`.
-/
import Ssv.Gen.Partialsig
import Ssv.Gen.Kernels

namespace Ssv.PartialSig

/-! ### quorum kernel: TRANSLATED from protocol/v2/types/ssvshare.go `ComputeQuorumAndPartialQuorum` on every run -/

/-- `Share.Quorum` for a committee of `n` operators -/
def quorumOf (n : Nat) : Nat := (Gen.k_ComputeQuorumAndPartialQuorum (n : Int)).1.toNat
/-- `Share.PartialQuorum` -/
def partialQuorumOf (n : Nat) : Nat := (Gen.k_ComputeQuorumAndPartialQuorum (n : Int)).2.toNat
/-- the number of faulty members the committee tolerates, `f = (n - 1) / 3` -/
def faultyOf (n : Nat) : Nat := (n - 1) / 3

/-! ### container (ssv-spec `PartialSigContainer`) -/

/-- `Signatures[root][signer]`; `some g`: a 96-byte share is stored, `g` = it verifies under the signer's share key.
    (A structure around the lookup function so that compiled updates are evaluated once, not per lookup.) -/
structure Container where
  get : Nat → Nat → Option Bool

def Container.empty : Container := ⟨fun _ _ => none⟩

def setSig (c : Container) (r s : Nat) (v : Option Bool) : Container :=
  ⟨fun r' s' => if r' = r ∧ s' = s then v else c.get r' s'⟩

/-- keys of `Signatures[root]` (committee members only ever get in) -/
def signersOf (cm : List Nat) (c : Container) (r : Nat) : List Nat := cm.filter fun s => (c.get r s).isSome

/-- `len(ps.Signatures[rootHex(root)])` -/
def count (cm : List Nat) (c : Container) (r : Nat) : Nat := (signersOf cm c r).length

/-- `HasQuorum`: `uint64(len(...)) >= ps.Quorum` -/
def hasQuorum (q : Nat) (cm : List Nat) (c : Container) (r : Nat) : Bool := decide (q ≤ count cm c r)

/-- `AddSignature`: stores only `if m[sigMsg.Signer] == nil` -/
def addSignature (c : Container) (r s : Nat) (g : Bool) : Container :=
  match c.get r s with
  | none => setSig c r s (some g)
  | some _ => c

/-- `resolveDuplicateSignature`: keep a correct previous share; otherwise remove it and hold the new one iff it verifies -/
def resolveDuplicate (c : Container) (r s : Nat) (g : Bool) : Container :=
  match c.get r s with
  | some true => c
  | _ => if g then setSig c r s (some true) else setSig c r s none

/-- one iteration of the loop of `basePartialSigMsgProcessing`; the Boolean is `hasQuorum && !prevQuorum` -/
def processOne (q : Nat) (cm : List Nat) (c : Container) (s : Nat) (r : Nat) (g : Bool) : Container × Bool :=
  let prev := hasQuorum q cm c r
  let c' := if (c.get r s).isSome then resolveDuplicate c r s g else addSignature c r s g
  (c', hasQuorum q cm c' r && !prev)

/-- `basePartialSigMsgProcessing`: returns the container and the roots that reached quorum for the first time, in message order -/
def processEntries (q : Nat) (cm : List Nat) (s : Nat) : Container → List (Nat × Bool) → List Nat → Container × List Nat
  | c, [], acc => (c, acc)
  | c, (r, g) :: rest, acc =>
    let (c', edge) := processOne q cm c s r g
    processEntries q cm s c' rest (if edge then acc ++ [r] else acc)

/-- every stored share of the root is good -/
def allGood (cm : List Nat) (c : Container) (r : Nat) : Bool := (signersOf cm c r).all fun s => c.get r s == some true

/-- `ReconstructSignature` + `VerifyReconstructedSignature` succeed (threshold-BLS assumption) -/
def reconstructOK (q : Nat) (cm : List Nat) (c : Container) (r : Nat) : Bool :=
  allGood cm c r && decide (q ≤ count cm c r)

/-- `FallBackAndVerifyEachSignature`: remove every share of the root that does not verify -/
def fallback (c : Container) (r : Nat) : Container :=
  ⟨fun r' s' =>
    match c.get r' s' with
    | some false => if r' = r then none else some false
    | v => v⟩

/-! ### runner -/

/-- shape of the quorum branch -/
inductive Style
  | loop       -- attester, proposer, aggregator, sync committee: `for _, root := range roots { reconstruct; submit }`
  | loopMatch  -- sync committee contribution: same loop, submits the contribution whose root matches
  | first      -- voluntary exit, validator registration (pre-consensus quorum): `root := roots[0]`
  deriving DecidableEq, Repr

/-- one `SignedPartialSignatureMessage` as the runner sees it -/
structure Msg where
  signer : Nat                       -- SignedPartialSignatureMessage.Signer
  slotOk : Bool                      -- Message.Slot equals the duty slot (decided duty slot / starting duty slot)
  entries : List (Nat × Nat × Bool)  -- per PartialSignatureMessage: (Signer, SigningRoot id, share verifies)
  deriving Repr

/-- a `BeaconNode.Submit*` call: the root the signature is over and the shares it was reconstructed from -/
structure Sub where
  root : Nat
  shares : List (Nat × Option Bool)
  deriving Repr, DecidableEq

inductive Reject
  | noRunningDuty | notDecided | signerZero | inconsistentSigners | noMessages | wrongSlot | unknownSigner
  | wrongRootCount | wrongRoot
  deriving DecidableEq, Repr

inductive Out
  | rejected (why : Reject)                    -- validation error: state untouched
  | collected                                   -- stored, no new quorum
  | reconstructFailed (subs : List Sub)         -- "got … quorum but it has invalid signatures" (after `subs` were already submitted)
  | submitted (subs : List Sub)                 -- loop finished, `Finished = true`
  | panicked                                    -- `roots[0]` on an empty slice (shown unreachable)
  deriving Repr

structure St where
  q : Nat                 -- Share.Quorum
  cm : List Nat           -- Share.Committee operator ids
  expected : List Nat     -- ids of the expected roots, in the order of `expected…RootsAndDomain`
  style : Style
  decided : Bool          -- DecidedValue set and running instance decided (post-consensus collection); always true for `first`
  c : Container
  finished : Bool

def init (n : Nat) (k : Nat) (style : Style) (decided : Bool) : St :=
  { q := quorumOf n, cm := (List.range n).map (· + 1), expected := List.range k, style := style,
    decided := decided, c := Container.empty, finished := false }

/-- the message-shape part of validation: `SignedPartialSignatureMessage.Validate`, `validatePartialSigMsgForSlot`,
    `verifyExpectedRoot` (guard order of the Go code) -/
def validateForm (cm expected : List Nat) (m : Msg) : Option Reject :=
  if m.signer = 0 then some .signerZero
  else if m.entries.any (fun e => e.1 != m.signer) then some .inconsistentSigners
  else if m.entries.isEmpty then some .noMessages
  else if !m.slotOk then some .wrongSlot
  else if !cm.contains m.signer then some .unknownSigner
  else if expected.length ≠ m.entries.length then some .wrongRootCount
  else if !(m.entries.map (·.2.1)).isPerm expected then some .wrongRoot
  else none

/-- `ValidatePostConsensusMsg` / `ValidatePreConsensusMsg`: running duty, decided value, then the message shape -/
def validate (st : St) (m : Msg) : Option Reject :=
  if st.finished then some .noRunningDuty
  else if !st.decided then some .notDecided
  else validateForm st.cm st.expected m

def sharesOf (cm : List Nat) (c : Container) (r : Nat) : List (Nat × Option Bool) :=
  (signersOf cm c r).map fun s => (s, c.get r s)

/-- the `for _, root := range roots` loop: returns container, submissions so far, and whether it ran to the end -/
def handleRoots (q : Nat) (cm : List Nat) (allRoots : List Nat) (submitIf : Nat → Bool) :
    Container → List Nat → List Sub → Container × List Sub × Bool
  | c, [], acc => (c, acc, true)
  | c, r :: rest, acc =>
    if reconstructOK q cm c r then
      handleRoots q cm allRoots submitIf c rest (if submitIf r then acc ++ [⟨r, sharesOf cm c r⟩] else acc)
    else (allRoots.foldl fallback c, acc, false)

/-- `Process{Post,Pre}Consensus` on one message -/
def step (st : St) (m : Msg) : St × Out :=
  match validate st m with
  | some why => (st, .rejected why)
  | none =>
    let (c1, roots) := processEntries st.q st.cm m.signer st.c (m.entries.map fun e => (e.2.1, e.2.2)) []
    if roots.isEmpty then ({ st with c := c1 }, .collected)
    else match st.style with
      | .first =>
        match roots with
        | [] => ({ st with c := c1 }, .panicked)
        | r :: _ =>
          if reconstructOK st.q st.cm c1 r then
            ({ st with c := c1, finished := true }, .submitted [⟨r, sharesOf st.cm c1 r⟩])
          else ({ st with c := fallback c1 r }, .reconstructFailed [])
      | sty =>
        let submitIf : Nat → Bool := fun r => sty == .loop || st.expected.contains r
        let (c2, subs, done) := handleRoots st.q st.cm roots submitIf c1 roots []
        if done then ({ st with c := c2, finished := true }, .submitted subs)
        else ({ st with c := c2 }, .reconstructFailed subs)

/-- `baseSetupForNewDuty` on the SAME runner object: a later duty gets a fresh `runner.State` (empty containers,
    `Finished = false`, no decided value); quorum, committee and runner style stay. Nothing of the previous duty survives
    in the collection state (the expected roots are those of the new duty: ids are per duty). -/
def nextDuty (st : St) (decided : Bool) : St :=
  { st with decided := decided, c := Container.empty, finished := false }

/-- the consensus instance of the duty decides (`State.DecidedValue` set) -/
def decide' (st : St) : St := { st with decided := true }

def subsOf : Out → List Sub
  | .reconstructFailed s => s
  | .submitted s => s
  | _ => []

/-- run a message sequence; returns final state and all `Submit*` calls in order -/
def run : St → List Msg → St × List Sub
  | st, [] => (st, [])
  | st, m :: ms =>
    let (st1, o) := step st m
    let (st2, rest) := run st1 ms
    (st2, subsOf o ++ rest)

/-! ### vocabulary of the property statements -/

/-- the message carries a correct share for root `r` -/
def goodFor (r : Nat) (m : Msg) : Bool := m.entries.any fun e => e.2.1 == r && e.2.2

/-- the message carries a wrong share -/
def hasBadShare (m : Msg) : Bool := m.entries.any fun e => !e.2.2

/-- member `s` delivered a correct share for root `r` in a well-formed message of `ms` -/
def SentGood (cm expected : List Nat) (r : Nat) (ms : List Msg) (s : Nat) : Prop :=
  ∃ m ∈ ms, m.signer = s ∧ validateForm cm expected m = none ∧ goodFor r m = true

/-- member `s` sent a malformed message or a wrong share somewhere in `ms` -/
def SentBad (cm expected : List Nat) (ms : List Msg) (s : Nat) : Prop :=
  ∃ m ∈ ms, m.signer = s ∧ (validateForm cm expected m ≠ none ∨ hasBadShare m = true)

end Ssv.PartialSig
