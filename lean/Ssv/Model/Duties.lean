/-
Model of the beacon-duty handlers of operator/duties (attester.go, proposer.go, sync_committee.go,
base_handler.go, dutystore/duties.go, dutystore/sync_committee.go) — property C16.  Core Lean only.

What is modelled (line by line from the Go source):
* the handler state: `fetchFirst`, `fetchCurrentEpoch/Period`, `fetchNextEpoch/Period`, `indicesChanged`,
  `lastTickEpoch/Period` + `ticked`, and the duty store (per epoch→slot→validator, or per period→validator);
* the three `HandleDuties` select branches as events `tick slot clock r1 r2`, `reorg slot prev cur`,
  `indices clock`; `clock` is the value `network.Beacon.EstimatedCurrentSlot()` returns while the event is
  handled (the handlers read it in `shouldExecute`, in the indices-change branch and — sync committee — in
  `fetchAndProcessDuties`); `r1 r2` are the outcomes of the (at most two) beacon fetches of that tick, in call order;
* `HandleInitialDuties` (proposer, sync committee) and the preamble of `HandleDuties` as `initH`;
* outputs, in order: one `fetch` atom per call of `fetchAndProcessDuties`, one `execs` atom per call of
  `processExecution` (the duties handed to the `executeDuties` callback; the Go map iteration order is
  unspecified, so the order INSIDE one `execs` atom is not meaningful and the driver sorts it).

Abstracted: duty contents other than (slot, validator index, an opaque content tag); the beacon-committee /
sync-committee subscription goroutines; contexts and deadlines; logging; the wall clock (an event argument);
`Scheduler.ExecuteDuties` goroutines and the one-third-slot wait (outside the model, see notes/C16.md).

Go integer corner cases made explicit: `slotsPerEpoch/2-2` and `epochsPerPeriod-syncCommitteePreparationEpochs`
are uint64 subtractions; the model is only claimed for networks with `Net.ok` (spe ≥ 4, epp ≥ prep), where they
do not wrap.  `ResetEpoch(currentEpoch-1)` / `Reset(period-1)` at epoch/period 0 wrap to MaxUint64 in Go, i.e.
delete a key that is never present: modelled as a no-op.
-/
import Ssv.Gen.Duties

namespace Ssv.Duties

/-- network parameters: slots per epoch, epochs per sync-committee period -/
structure Net where
  spe : Nat
  epp : Nat
deriving Repr, DecidableEq

/-- `var syncCommitteePreparationEpochs = uint64(2)` (sync_committee.go), regenerated from the source -/
def syncPrep : Nat := Gen.duties_syncCommitteePreparationEpochs

def Net.ok (n : Net) : Bool := decide (4 ≤ n.spe) && decide (syncPrep ≤ n.epp)
def Net.epoch (n : Net) (slot : Nat) : Nat := slot / n.spe
def Net.period (n : Net) (epoch : Nat) : Nat := epoch / n.epp
def Net.periodOfSlot (n : Net) (slot : Nat) : Nat := n.period (n.epoch slot)
/-- beacon.Network.LastSlotOfSyncPeriod: GetEpochFirstSlot(FirstEpochOfSyncPeriod(period+1)) - 2 -/
def Net.lastSlotOfPeriod (n : Net) (period : Nat) : Nat := (period + 1) * n.epp * n.spe - 2

/-- a duty as returned by the beacon node (sync-committee duties carry no slot: `slot` is 0 there);
    in an `execs` atom: the spec duty handed to the executor (`slot` = the slot it is executed for) -/
structure Duty where
  slot : Nat
  vidx : Nat
  tag : Nat
deriving Repr, DecidableEq

/-- one descriptor of the duty store: `ep` = epoch (attester, proposer) or period (sync committee),
    `slot` = slot key (0 for sync committee) -/
structure Entry where
  ep : Nat
  slot : Nat
  vidx : Nat
  tag : Nat
  inC : Bool
deriving Repr, DecidableEq

/-- outcome of one `fetchAndProcessDuties` call: no active validator indices (returns nil without calling the
    beacon node), beacon error, or the beacon node's answer together with the in-committee index set -/
inductive FetchRes
  | noIdx
  | fail
  | ok (committee : List Nat) (duties : List Duty)
deriving Repr, DecidableEq

inductive Atom
  /-- `fetchAndProcessDuties` for epoch/period `ep`; `arg` is the epoch handed to the beacon node -/
  | fetch (ep arg : Nat) (res : FetchRes)
  /-- `processExecution` at tick `slot` while the clock showed `clock`: duties handed to `executeDuties` -/
  | execs (slot clock : Nat) (ds : List Duty)
deriving Repr, DecidableEq

inductive Event
  | tick (slot clock : Nat) (r1 r2 : FetchRes)
  | reorg (slot : Nat) (prev cur : Bool)
  | indices (clock : Nat)
deriving Repr, DecidableEq

/-! ## duty store (dutystore.Duties / dutystore.SyncCommitteeDuties as a key-unique list) -/

abbrev Store := List Entry

def Entry.sameKey (a b : Entry) : Bool := a.ep == b.ep && a.slot == b.slot && a.vidx == b.vidx

/-- `Add`: `m[ep][slot][vidx] = descriptor` (replaces a descriptor with the same key) -/
def Store.add (s : Store) (e : Entry) : Store := s.filter (fun x => !x.sameKey e) ++ [e]
/-- `ResetEpoch` / `Reset`: `delete(m, ep)` -/
def Store.reset (s : Store) (ep : Nat) : Store := s.filter (fun x => x.ep != ep)
/-- `CommitteeSlotDuties(ep, slot)` -/
def Store.slotDuties (s : Store) (ep slot : Nat) : List Entry :=
  s.filter (fun x => x.ep == ep && x.slot == slot && x.inC)
/-- `CommitteePeriodDuties(period)` -/
def Store.periodDuties (s : Store) (p : Nat) : List Entry := s.filter (fun x => x.ep == p && x.inC)

def Store.addAll (s : Store) (mk : Duty → Entry) (ds : List Duty) : Store := ds.foldl (fun s d => s.add (mk d)) s

/-- handler state (baseHandler flags + the per-handler flags; the proposer handler does not use `fetchCur`/
    `fetchNext`, the sync-committee handler does not use `indicesChanged`) -/
structure HState where
  store : Store
  fetchFirst : Bool
  fetchCur : Bool
  fetchNext : Bool
  indicesChanged : Bool
deriving Repr, DecidableEq

/-! ## attester handler (attester.go) -/

/-- `shouldFetchNexEpoch`: `uint64(slot)%SlotsPerEpoch() > SlotsPerEpoch()/2-2` -/
def attShouldFetchNext (n : Net) (slot : Nat) : Bool := decide (slot % n.spe > n.spe / 2 - 2)

/-- `shouldExecute`: slot already began and not more than one epoch ago, or the clock is one slot behind -/
def attShouldExecute (n : Net) (clock dslot : Nat) : Bool :=
  (decide (clock ≥ dslot) && decide (clock - dslot ≤ n.spe)) || clock + 1 == dslot

def attEntry (ep : Nat) (d : Duty) : Entry := ⟨ep, d.slot, d.vidx, d.tag, true⟩

/-- `fetchAndProcessDuties(epoch)`: (state, err == nil, output).  After the successful beacon call:
    `ResetEpoch(epoch)`, then `Add` every returned duty. -/
def attFetch (st : HState) (ep : Nat) : FetchRes → HState × Bool × List Atom
  | .noIdx => (st, true, [.fetch ep ep .noIdx])
  | .fail => (st, false, [.fetch ep ep .fail])
  | .ok c ds => ({ st with store := (st.store.reset ep).addAll (attEntry ep) ds }, true, [.fetch ep ep (.ok c ds)])

/-- second half of `processFetching`: `if fetchNextEpoch && shouldFetchNexEpoch(slot) { … }` -/
def attFetchNextPart (n : Net) (st : HState) (epoch slot : Nat) (r : FetchRes) : HState × List Atom :=
  if st.fetchNext && attShouldFetchNext n slot then
    match attFetch st (epoch + 1) r with
    | (st2, true, o) => ({ st2 with fetchNext := false }, o)
    | (st2, false, o) => (st2, o)
  else (st, [])

def attProcessFetching (n : Net) (st : HState) (epoch slot : Nat) (r1 r2 : FetchRes) : HState × List Atom :=
  if st.fetchCur then
    match attFetch st epoch r1 with
    | (st1, false, o1) => (st1, o1)
    | (st1, true, o1) =>
      let (st2, o2) := attFetchNextPart n { st1 with fetchCur := false } epoch slot r2
      (st2, o1 ++ o2)
  else attFetchNextPart n st epoch slot r1

def entryDuty (e : Entry) : Duty := ⟨e.slot, e.vidx, e.tag⟩

def attProcessExecution (n : Net) (st : HState) (epoch slot clock : Nat) : List Atom :=
  [.execs slot clock (((st.store.slotDuties epoch slot).filter (fun e => attShouldExecute n clock e.slot)).map entryDuty)]

/-- end of the ticker branch: mid-epoch `fetchNextEpoch = true`; last slot of the epoch `ResetEpoch(currentEpoch)` -/
def attPost (n : Net) (st1 : HState) (slot : Nat) : HState :=
  let st2 := if slot % n.spe == n.spe / 2 - 2 then { st1 with fetchNext := true } else st1
  if slot % n.spe == n.spe - 1 then { st2 with store := st2.store.reset (n.epoch slot) } else st2

def attTick (n : Net) (st : HState) (slot clock : Nat) (r1 r2 : FetchRes) : HState × List Atom :=
  let epoch := n.epoch slot
  let (st1, out) :=
    if st.fetchFirst then
      let (s, o) := attProcessFetching n { st with fetchFirst := false, indicesChanged := false } epoch slot r1 r2
      (s, o ++ attProcessExecution n s epoch slot clock)
    else
      let o0 := attProcessExecution n st epoch slot clock
      let s0 := if st.indicesChanged then { st with store := st.store.reset epoch, indicesChanged := false } else st
      let (s, o) := attProcessFetching n s0 epoch slot r1 r2
      (s, o0 ++ o)
  (attPost n st1 slot, out)

def attReorg (n : Net) (st : HState) (slot : Nat) (prev cur : Bool) : HState :=
  let epoch := n.epoch slot
  if prev then
    let st1 := { st with store := st.store.reset epoch, fetchFirst := true, fetchCur := true }
    if attShouldFetchNext n slot then { st1 with store := st1.store.reset (epoch + 1), fetchNext := true } else st1
  else if cur then
    if attShouldFetchNext n slot then { st with store := st.store.reset (epoch + 1), fetchNext := true } else st
  else st

def attIndices (n : Net) (st : HState) (clock : Nat) : HState :=
  let epoch := n.epoch clock
  let st1 := { st with indicesChanged := true, fetchCur := true }
  if attShouldFetchNext n clock then { st1 with store := st1.store.reset (epoch + 1), fetchNext := true } else st1

/-- `NewAttesterHandler` + the preamble of `HandleDuties` (`fetchNextEpoch = true`) -/
def attInit : HState := ⟨[], true, true, true, false⟩

/-! ## proposer handler (proposer.go) -/

def propShouldExecute (clock dslot : Nat) : Bool := clock == dslot || clock + 1 == dslot

def propEntry (ep : Nat) (c : List Nat) (d : Duty) : Entry := ⟨ep, d.slot, d.vidx, d.tag, c.contains d.vidx⟩

/-- `fetchAndProcessDuties(epoch)`: on success `ResetEpoch(epoch)` then `Add` every returned duty -/
def propFetch (st : HState) (ep : Nat) : FetchRes → HState × List Atom
  | .noIdx => (st, [.fetch ep ep .noIdx])
  | .fail => (st, [.fetch ep ep .fail])
  | .ok c ds => ({ st with store := (st.store.reset ep).addAll (propEntry ep c) ds }, [.fetch ep ep (.ok c ds)])

def propProcessExecution (st : HState) (epoch slot clock : Nat) : List Atom :=
  [.execs slot clock (((st.store.slotDuties epoch slot).filter (fun e => propShouldExecute clock e.slot)).map entryDuty)]

/-- end of the ticker branch: last slot of the epoch `ResetEpoch(currentEpoch - 1)`, `fetchFirst = true` -/
def propPost (n : Net) (st1 : HState) (slot : Nat) : HState :=
  if slot % n.spe == n.spe - 1 then
    { st1 with store := if n.epoch slot = 0 then st1.store else st1.store.reset (n.epoch slot - 1), fetchFirst := true }
  else st1

/-- `processFetching` reports `false` exactly when the beacon call failed (no active indices ⇒ `nil` error ⇒ `true`) -/
def FetchRes.failed : FetchRes → Bool
  | .fail => true
  | _ => false

/-- ticker branch.  Fetch-first path: `indicesChanged = false; fetchFirst = !processFetching(…)` — `fetchFirst` stays
    set when the fetch failed, so the fetch is retried at the next slot (`propFetch` does not read or write the flags,
    so assigning `fetchFirst` before the call is the same as assigning it after). -/
def propTick (n : Net) (st : HState) (slot clock : Nat) (r1 : FetchRes) : HState × List Atom :=
  let epoch := n.epoch slot
  let (st1, out) :=
    if st.fetchFirst then
      let (s, o) := propFetch { st with fetchFirst := r1.failed, indicesChanged := false } epoch r1
      (s, o ++ propProcessExecution s epoch slot clock)
    else
      let o0 := propProcessExecution st epoch slot clock
      if st.indicesChanged then
        let (s, o) := propFetch { st with indicesChanged := false } epoch r1
        (s, o0 ++ o)
      else (st, o0)
  (propPost n st1 slot, out)

def propReorg (n : Net) (st : HState) (slot : Nat) (cur : Bool) : HState :=
  if cur then { st with store := st.store.reset (n.epoch slot), fetchFirst := true } else st

def propIndices (st : HState) : HState := { st with indicesChanged := true }

/-- `NewProposerHandler` + `HandleInitialDuties` (one fetch for the clock's epoch) -/
def propInit (n : Net) (clock : Nat) (r : FetchRes) : HState × List Atom :=
  propFetch ⟨[], true, false, false, false⟩ (n.epoch clock) r

def propStep (n : Net) (st : HState) : Event → HState × List Atom
  | .tick slot clock r1 _ => propTick n st slot clock r1
  | .reorg slot _ cur => (propReorg n st slot cur, [])
  | .indices _ => (propIndices st, [])

/-! ## sync-committee handler (sync_committee.go) -/

/-- `shouldFetchNextPeriod` -/
def syncShouldFetchNext (n : Net) (slot : Nat) : Bool :=
  decide (slot % n.spe ≥ n.spe / 2 - 1) && decide (n.epoch slot % n.epp ≥ n.epp - syncPrep)

def syncShouldExecute (clock slot : Nat) : Bool := clock == slot || clock + 1 == slot

def syncEntry (p : Nat) (c : List Nat) (d : Duty) : Entry := ⟨p, 0, d.vidx, d.tag, c.contains d.vidx⟩

/-- `fetchAndProcessDuties(period)`: the beacon node is asked for `max(firstEpoch(period), currentEpoch)`;
    on success `Reset(period)` then `Add` every returned duty.  (state, err == nil, output) -/
def syncFetch (n : Net) (st : HState) (p clock : Nat) : FetchRes → HState × Bool × List Atom
  | .noIdx => (st, true, [.fetch p (max (p * n.epp) (n.epoch clock)) .noIdx])
  | .fail => (st, false, [.fetch p (max (p * n.epp) (n.epoch clock)) .fail])
  | .ok c ds => ({ st with store := (st.store.reset p).addAll (syncEntry p c) ds }, true,
                  [.fetch p (max (p * n.epp) (n.epoch clock)) (.ok c ds)])

def syncFetchNextPart (n : Net) (st : HState) (p clock : Nat) (r : FetchRes) : HState × List Atom :=
  if st.fetchNext then
    match syncFetch n st (p + 1) clock r with
    | (st2, true, o) => ({ st2 with fetchNext := false }, o)
    | (st2, false, o) => (st2, o)
  else (st, [])

def syncProcessFetching (n : Net) (st : HState) (p clock : Nat) (r1 r2 : FetchRes) : HState × List Atom :=
  if st.fetchCur then
    match syncFetch n st p clock r1 with
    | (st1, false, o1) => (st1, o1)
    | (st1, true, o1) =>
      let (st2, o2) := syncFetchNextPart n { st1 with fetchCur := false } p clock r2
      (st2, o1 ++ o2)
  else syncFetchNextPart n st p clock r1

def syncProcessExecution (st : HState) (p slot clock : Nat) : List Atom :=
  [.execs slot clock (((st.store.periodDuties p).filter (fun _ => syncShouldExecute clock slot)).map
      (fun e => (⟨slot, e.vidx, e.tag⟩ : Duty)))]

/-- end of the ticker branch: mid-epoch flag close to the period boundary; last slot of the period `Reset(period - 1)` -/
def syncPost (n : Net) (st1 : HState) (slot : Nat) : HState :=
  let epoch := n.epoch slot
  let p := n.period epoch
  let st2 :=
    if slot % n.spe == n.spe / 2 - 2 && epoch % n.epp == n.epp - syncPrep then { st1 with fetchNext := true } else st1
  if slot == n.lastSlotOfPeriod p then
    { st2 with store := if p = 0 then st2.store else st2.store.reset (p - 1) }
  else st2

def syncTick (n : Net) (st : HState) (slot clock : Nat) (r1 r2 : FetchRes) : HState × List Atom :=
  let epoch := n.epoch slot
  let p := n.period epoch
  let (st1, out) :=
    if st.fetchFirst then
      let (s, o) := syncProcessFetching n { st with fetchFirst := false } p clock r1 r2
      (s, o ++ syncProcessExecution s p slot clock)
    else
      let o0 := syncProcessExecution st p slot clock
      let (s, o) := syncProcessFetching n st p clock r1 r2
      (s, o0 ++ o)
  (syncPost n st1 slot, out)

def syncReorg (n : Net) (st : HState) (slot : Nat) (cur : Bool) : HState :=
  if cur && syncShouldFetchNext n slot then
    { st with store := st.store.reset (n.periodOfSlot slot + 1), fetchNext := true }
  else st

def syncIndices (n : Net) (st : HState) (clock : Nat) : HState :=
  let st1 := { st with fetchCur := true }
  if syncShouldFetchNext n clock then { st1 with fetchNext := true } else st1

/-- `NewSyncCommitteeHandler` + `HandleInitialDuties` (fetch of the clock's period with
    `fetchCurrentPeriod = true`, `fetchNextPeriod = false`; then both flags are forced to true) + the preamble
    of `HandleDuties` (which can only set `fetchNextPeriod`, already true) -/
def syncInit (n : Net) (clock : Nat) (r : FetchRes) : HState × List Atom :=
  let (st, _, o) := syncFetch n ⟨[], true, true, false, false⟩ (n.periodOfSlot clock) clock r
  ({ st with fetchCur := true, fetchNext := true }, o)

/-- ticker / reorg / indices branches without the first-tick and late-notice blocks (= the code before the fix) -/
def syncStep (n : Net) (st : HState) : Event → HState × List Atom
  | .tick slot clock r1 r2 => syncTick n st slot clock r1 r2
  | .reorg slot _ cur => (syncReorg n st slot cur, [])
  | .indices clock => (syncIndices n st clock, [])

/-! ## the three handlers behind one interface -/

inductive Kind | att | prop | sync
deriving Repr, DecidableEq

/-- handler state + the epoch (attester) / period (sync committee) of the last tick handled
    (`lastTickEpoch`/`lastTickPeriod` with `ticked`; `none` = no tick yet; unused by the proposer handler) -/
structure RState where
  st : HState
  le : Option Nat
deriving Repr, DecidableEq

/-- top of the ticker branch (attester, sync committee): first tick of a new epoch (period) while the duties of this
    epoch (period) still wait to be (re-)fetched as "next" duties ⇒ fetch them as current duties before executing -/
def repairPre (st : HState) (le : Option Nat) (K : Nat) : HState :=
  if (le != some K && st.fetchNext) = true then { st with fetchCur := true, fetchFirst := true } else st

/-- reorg(current) / indices branch after `ResetEpoch(currentEpoch+1)` (`Reset(period+1)`): late notice — the epoch
    (period) `K` that was just reset is already being ticked ⇒ fetch it before the next execution -/
def lateFix (st : HState) (le : Option Nat) (K : Nat) : HState :=
  if (le == some K) = true then { st with fetchCur := true, fetchFirst := true } else st

def attReorgN (n : Net) (st : HState) (le : Option Nat) (slot : Nat) (prev cur : Bool) : HState :=
  if (!prev && cur && attShouldFetchNext n slot) = true then
    lateFix (attReorg n st slot prev cur) le (n.epoch slot + 1)
  else attReorg n st slot prev cur

def attIndicesN (n : Net) (st : HState) (le : Option Nat) (clock : Nat) : HState :=
  if attShouldFetchNext n clock = true then lateFix (attIndices n st clock) le (n.epoch clock + 1)
  else attIndices n st clock

def syncReorgN (n : Net) (st : HState) (le : Option Nat) (slot : Nat) (cur : Bool) : HState :=
  if (cur && syncShouldFetchNext n slot) = true then lateFix (syncReorg n st slot cur) le (n.periodOfSlot slot + 1)
  else syncReorg n st slot cur

def initH (k : Kind) (n : Net) (clock : Nat) (r : FetchRes) : RState × List Atom :=
  match k with
  | .att => (⟨attInit, none⟩, [])
  | .prop => (⟨(propInit n clock r).1, none⟩, (propInit n clock r).2)
  | .sync => (⟨(syncInit n clock r).1, none⟩, (syncInit n clock r).2)

/-- one event, handler `k` (the code as it is) -/
def step (k : Kind) (n : Net) (rs : RState) (e : Event) : RState × List Atom :=
  match k, e with
  | .att, .tick slot clock r1 r2 =>
    (⟨(attTick n (repairPre rs.st rs.le (n.epoch slot)) slot clock r1 r2).1, some (n.epoch slot)⟩,
     (attTick n (repairPre rs.st rs.le (n.epoch slot)) slot clock r1 r2).2)
  | .att, .reorg slot prev cur => (⟨attReorgN n rs.st rs.le slot prev cur, rs.le⟩, [])
  | .att, .indices clock => (⟨attIndicesN n rs.st rs.le clock, rs.le⟩, [])
  | .prop, e => (⟨(propStep n rs.st e).1, rs.le⟩, (propStep n rs.st e).2)
  | .sync, .tick slot clock r1 r2 =>
    (⟨(syncTick n (repairPre rs.st rs.le (n.periodOfSlot slot)) slot clock r1 r2).1, some (n.periodOfSlot slot)⟩,
     (syncTick n (repairPre rs.st rs.le (n.periodOfSlot slot)) slot clock r1 r2).2)
  | .sync, .reorg slot _ cur => (⟨syncReorgN n rs.st rs.le slot cur, rs.le⟩, [])
  | .sync, .indices clock => (⟨syncIndices n rs.st clock, rs.le⟩, [])

/-- all outputs of a run, in order -/
def runFrom (k : Kind) (n : Net) : RState → List Event → List Atom
  | _, [] => []
  | rs, e :: es => (step k n rs e).2 ++ runFrom k n (step k n rs e).1 es

/-- final state of a run -/
def stateAfter (k : Kind) (n : Net) : RState → List Event → RState
  | rs, [] => rs
  | rs, e :: es => stateAfter k n (step k n rs e).1 es

/-- a whole run: initial duties at `clock0` (outcome `r0`), then the events -/
def run (k : Kind) (n : Net) (clock0 : Nat) (r0 : FetchRes) (evs : List Event) : List Atom :=
  (initH k n clock0 r0).2 ++ runFrom k n (initH k n clock0 r0).1 evs

/-! ## the handlers BEFORE the fix (kept for the regression lemmas of Props/C16.lean)

Before the fix the attester fetch did not reset the epoch before adding, the ticker branches had no
first-tick-of-a-new-epoch/period block and the notice branches no late-notice block. -/

def attFetchOld (st : HState) (ep : Nat) : FetchRes → HState × Bool × List Atom
  | .noIdx => (st, true, [.fetch ep ep .noIdx])
  | .fail => (st, false, [.fetch ep ep .fail])
  | .ok c ds => ({ st with store := st.store.addAll (attEntry ep) ds }, true, [.fetch ep ep (.ok c ds)])

def attFetchNextPartOld (n : Net) (st : HState) (epoch slot : Nat) (r : FetchRes) : HState × List Atom :=
  if st.fetchNext && attShouldFetchNext n slot then
    match attFetchOld st (epoch + 1) r with
    | (st2, true, o) => ({ st2 with fetchNext := false }, o)
    | (st2, false, o) => (st2, o)
  else (st, [])

def attProcessFetchingOld (n : Net) (st : HState) (epoch slot : Nat) (r1 r2 : FetchRes) : HState × List Atom :=
  if st.fetchCur then
    match attFetchOld st epoch r1 with
    | (st1, false, o1) => (st1, o1)
    | (st1, true, o1) =>
      let (st2, o2) := attFetchNextPartOld n { st1 with fetchCur := false } epoch slot r2
      (st2, o1 ++ o2)
  else attFetchNextPartOld n st epoch slot r1

def attTickOld (n : Net) (st : HState) (slot clock : Nat) (r1 r2 : FetchRes) : HState × List Atom :=
  let epoch := n.epoch slot
  let (st1, out) :=
    if st.fetchFirst then
      let (s, o) := attProcessFetchingOld n { st with fetchFirst := false, indicesChanged := false } epoch slot r1 r2
      (s, o ++ attProcessExecution n s epoch slot clock)
    else
      let o0 := attProcessExecution n st epoch slot clock
      let s0 := if st.indicesChanged then { st with store := st.store.reset epoch, indicesChanged := false } else st
      let (s, o) := attProcessFetchingOld n s0 epoch slot r1 r2
      (s, o0 ++ o)
  (attPost n st1 slot, out)

/-- proposer ticker branch before fix f167f5eb9: `fetchFirst = false` BEFORE `processFetching`, whose failure was only
    logged — a failed first fetch was not retried until the next epoch / reorg / indices change -/
def propTickOld (n : Net) (st : HState) (slot clock : Nat) (r1 : FetchRes) : HState × List Atom :=
  let epoch := n.epoch slot
  let (st1, out) :=
    if st.fetchFirst then
      let (s, o) := propFetch { st with fetchFirst := false, indicesChanged := false } epoch r1
      (s, o ++ propProcessExecution s epoch slot clock)
    else
      let o0 := propProcessExecution st epoch slot clock
      if st.indicesChanged then
        let (s, o) := propFetch { st with indicesChanged := false } epoch r1
        (s, o0 ++ o)
      else (st, o0)
  (propPost n st1 slot, out)

def propStepOld (n : Net) (st : HState) : Event → HState × List Atom
  | .tick slot clock r1 _ => propTickOld n st slot clock r1
  | .reorg slot _ cur => (propReorg n st slot cur, [])
  | .indices _ => (propIndices st, [])

def stepOld (k : Kind) (n : Net) (st : HState) (e : Event) : HState × List Atom :=
  match k, e with
  | .att, .tick slot clock r1 r2 => attTickOld n st slot clock r1 r2
  | .att, .reorg slot prev cur => (attReorg n st slot prev cur, [])
  | .att, .indices clock => (attIndices n st clock, [])
  | .prop, e => propStepOld n st e
  | .sync, e => syncStep n st e

def runFromOld (k : Kind) (n : Net) : HState → List Event → List Atom
  | _, [] => []
  | st, e :: es => (stepOld k n st e).2 ++ runFromOld k n (stepOld k n st e).1 es

/-- a whole run of the handlers before the fix -/
def runOld (k : Kind) (n : Net) (clock0 : Nat) (r0 : FetchRes) (evs : List Event) : List Atom :=
  (initH k n clock0 r0).2 ++ runFromOld k n (initH k n clock0 r0).1.st evs

end Ssv.Duties
