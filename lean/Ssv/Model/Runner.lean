/-
Model of one duty runner of a validator (protocol/v2/ssv/runner) with its QBFT controller.        (property C03)

Go code modelled, line by line:
* runner.go: `baseStartNewDuty`, `baseStartNewNonBeaconDuty`, `baseSetupForNewDuty`, `ShouldProcessDuty`,
  `ShouldProcessNonBeaconDuty`, `baseConsensusMsgProcessing`, `didDecideCorrectly`, `decide`, `hasRunningDuty`,
  `basePreConsensusMsgProcessing`, `basePostConsensusMsgProcessing` (collection itself: Ssv/Model/PartialSig.lean);
* runner_validations.go: `ValidatePreConsensusMsg`, `ValidatePostConsensusMsg`, `validateDecidedConsensusData`;
* runner_signatures.go `signBeaconObject` (output event `sign root epoch domain`);
* attester.go, proposer.go, aggregator.go, sync_committee.go, sync_committee_aggregator.go, validator_registration.go,
  voluntary_exit.go: `executeDuty`, `ProcessPreConsensus`, `ProcessConsensus`, `ProcessPostConsensus`;
* protocol/v2/qbft/controller: `ProcessMsg`, `UponDecided`, `UponExistingInstanceMsg`, `StartNewInstance`,
  `isFutureMessage`, `InstanceForHeight` (non-full node), `InstanceContainer.addNewInstance` (fixed capacity);
* protocol/v2/ssv/validator/validator.go `ProcessMessage`/`validateMessage` as the routing front.

ORACLE INPUTS (facts the harness computes with the real functions and writes into the op line):
* about a consensus value (`Val`): `ConsensusData.Decode` succeeds, the role's `ProposedValueCheckF` accepts it, the
  `Duty.Slot` it carries, the ids of the signing roots of the duty objects it contains, the role's getter succeeds;
* about a consensus message: identifier matches, height, `IsDecidedMsg`, `ValidateDecided = nil`; for messages that go
  into a running QBFT instance: whether `instance.ProcessMsg` reports a decision (and for which value) or an error —
  the instance's internal protocol is property C01/C02's subject and is not modelled here;
* about the beacon node: the data it returns yields a valid consensus input.
Instances are heap objects (`Inst`, by id): `State.RunningInstance` and the controller's container hold references.
Core Lean only: linked into the native driver `m_runner`.
-/
import Ssv.Gen.Runner
import Ssv.Model.PartialSig

namespace Ssv.Runner
open Ssv.PartialSig (Container Msg Sub)

inductive Role
  | attester | proposer | aggregator | syncCommittee | contribution | registration | exit
  deriving DecidableEq, Repr

/-- the duty goes through QBFT -/
def Role.hasConsensus : Role → Bool
  | .registration | .exit => false
  | _ => true

/-- `executeDuty` signs pre-consensus objects (RANDAO, selection proof, contribution proofs, exit, registration) -/
def Role.signsAtStart : Role → Bool
  | .attester | .syncCommittee => false
  | _ => true

/-- signature domains (`spectypes.Domain*`) -/
inductive Dom
  | randao | selectionProof | syncSelectionProof | voluntaryExit | applicationBuilder
  | attester | proposer | aggregateAndProof | syncCommittee | contributionAndProof
  deriving DecidableEq, Repr

def Role.preDomain : Role → Dom
  | .proposer => .randao
  | .aggregator => .selectionProof
  | .contribution => .syncSelectionProof
  | .exit => .voluntaryExit
  | .registration => .applicationBuilder
  | .attester => .attester       -- unused: no pre-consensus signature
  | .syncCommittee => .syncCommittee

def Role.postDomain : Role → Dom
  | .attester => .attester
  | .proposer => .proposer
  | .aggregator => .aggregateAndProof
  | .syncCommittee => .syncCommittee
  | .contribution => .contributionAndProof
  | .registration => .applicationBuilder   -- unused: no post-consensus phase
  | .exit => .voluntaryExit

/-- `BeaconNetwork.EstimatedEpochAtSlot` -/
def epochOf (slot : Nat) : Nat := slot / 32

/-- oracle facts about a consensus value -/
structure Val where
  id : Nat
  decodeOk : Bool
  vcOk : Bool
  slot : Nat
  objs : List Nat
  getOk : Bool
  deriving DecidableEq, Repr

/-- a QBFT instance object -/
structure Inst where
  height : Nat
  decided : Bool
  value : Option Val      -- State.DecidedValue
  deriving Repr

/-- phase of a validator-key signature -/
inductive SignTag
  | atStart (slot : Nat)          -- inside `executeDuty` of a duty for this slot
  | decided (height : Nat)        -- inside `ProcessConsensus`, for the decision of this height
  deriving DecidableEq, Repr

inductive Ev
  | sign (tag : SignTag) (root : Nat) (epoch : Nat) (dom : Dom)   -- KeyManager.SignBeaconObject
  | bcast (roots : List Nat)                                        -- Network.Broadcast of this operator's partial-signature message
  | submit (root : Nat)                                             -- BeaconNode.Submit*
  deriving DecidableEq, Repr

/-- `runner.State` -/
structure DutySt where
  slot : Nat                   -- StartingDuty.Slot
  preObjs : List Nat           -- ids of the expected pre-consensus roots
  running : Option Nat         -- RunningInstance (instance object id)
  decidedValue : Option Val    -- State.DecidedValue
  finished : Bool
  pre : Container
  post : Container

structure RSt where
  role : Role
  q : Nat
  cm : List Nat
  ctrlHeight : Nat             -- QBFTController.Height
  stored : List Nat            -- QBFTController.StoredInstances (ids, highest height first)
  heap : List Inst             -- all instance objects, id = position
  duty : Option DutySt         -- BaseRunner.State
  highestDecidedSlot : Nat

def init (role : Role) (n : Nat) : RSt :=
  { role := role, q := PartialSig.quorumOf n, cm := (List.range n).map (· + 1), ctrlHeight := 0, stored := [],
    heap := [], duty := none, highestDecidedSlot := 0 }

/-! ### controller -/

def instOf (st : RSt) (id : Nat) : Option Inst := st.heap[id]?

def heightOf (st : RSt) (id : Nat) : Nat := match st.heap[id]? with | some i => i.height | none => 0

/-- `StoredInstances.FindInstance` -/
def findInst (st : RSt) (h : Nat) : Option Nat := st.stored.find? fun id => heightOf st id == h

/-- `InstanceContainer.addNewInstance`: sorted by height (highest first), fixed capacity; a new lowest instance is
    dropped when the container is full, otherwise the last one is ejected -/
def insertIdx (st : RSt) (h : Nat) : Nat :=
  match st.stored.findIdx? (fun e => heightOf st e < h) with
  | some i => i
  | none => st.stored.length

def addNewInstance (st : RSt) (id : Nat) (h : Nat) : List Nat :=
  let cap := Gen.ctrl_InstanceContainerDefaultCapacity
  let idx := insertIdx st h          -- first stored instance with a lower height, else the end
  if idx = st.stored.length then
    if st.stored.length < cap then st.stored ++ [id] else st.stored
  else if st.stored.length = cap then
    (st.stored.take idx ++ [id] ++ st.stored.drop idx).dropLast
  else st.stored.take idx ++ [id] ++ st.stored.drop idx

/-- allocate a new instance object and put it into the container -/
def newInst (st : RSt) (i : Inst) : RSt × Nat :=
  let id := st.heap.length
  let st1 := { st with heap := st.heap ++ [i] }
  ({ st1 with stored := addNewInstance st1 id i.height }, id)

def setInst (st : RSt) (id : Nat) (i : Inst) : RSt := { st with heap := st.heap.set id i }

/-- a consensus message as the runner and its controller see it -/
structure ConsIn where
  idOk : Bool          -- `BaseMsgValidation`: Identifier equals the controller's (validator key, role)
  height : Nat
  isDecided : Bool     -- `IsDecidedMsg`: commit message with a quorum of signers
  valid : Bool         -- `ValidateDecided` = nil (meaningful when `isDecided`)
  value : Val          -- facts about FullData (decided message) / about the value the instance decides
  instDecides : Bool   -- oracle: `instance.ProcessMsg` returns `decided = true` with a decided message
  instErr : Bool       -- oracle: `instance.ProcessMsg` returns an error
  deriving Repr

inductive CtlOut
  | err
  | nothing
  | decidedMsg (height : Nat) (v : Val)
  deriving Repr

/-- `Controller.UponDecided` -/
def uponDecided (st : RSt) (c : ConsIn) : RSt × CtlOut :=
  if !c.valid then (st, .err) else
  let isFuture := decide (c.height > st.ctrlHeight)
  match findInst st c.height with
  | none =>
    let (st1, _) := newInst st { height := c.height, decided := true, value := some c.value }
    let st2 := if isFuture then { st1 with ctrlHeight := c.height } else st1
    (st2, .decidedMsg c.height c.value)
  | some id =>
    match instOf st id with
    | none => (st, .err)   -- unreachable: stored ids are allocated
    | some i =>
      if !i.decided then
        let st1 := setInst st id { i with decided := true, value := some c.value }
        let st2 := if isFuture then { st1 with ctrlHeight := c.height } else st1
        (st2, .decidedMsg c.height c.value)
      else
        let st2 := if isFuture then { st with ctrlHeight := c.height } else st
        (st2, .nothing)

/-- `Controller.isFutureMessage` -/
def isFutureMessage (st : RSt) (h : Nat) : Bool :=
  (st.ctrlHeight == 0 && (findInst st 0).isNone) || decide (h > st.ctrlHeight)

/-- `Controller.UponExistingInstanceMsg` with the instance's protocol as an oracle -/
def uponExisting (st : RSt) (c : ConsIn) : RSt × CtlOut :=
  match findInst st c.height with
  | none => (st, .err)
  | some id =>
    match instOf st id with
    | none => (st, .err)
    | some i =>
      if c.instErr then (st, .err)
      else if !c.instDecides then (st, .nothing)
      else if i.decided then (st, .nothing)
      else (setInst st id { i with decided := true, value := some c.value }, .decidedMsg c.height c.value)

/-- `Controller.ProcessMsg` -/
def ctlProcess (st : RSt) (c : ConsIn) : RSt × CtlOut :=
  if !c.idOk then (st, .err)
  else if c.isDecided then uponDecided st c
  else if isFutureMessage st c.height then (st, .err)
  else uponExisting st c

/-- `Controller.StartNewInstance` followed by `InstanceForHeight(Controller.Height)` as used by `BaseRunner.decide`;
    `none` = one of the two returned an error -/
def startNewInstance (st : RSt) (height : Nat) (inputOk : Bool) : RSt × Option Nat :=
  if !inputOk then (st, none)                               -- "value invalid"
  else if height < st.ctrlHeight then (st, none)            -- "attempting to start an instance with a past height"
  else if (findInst st height).isSome then (st, none)       -- "instance already running"
  else
    let st1 := { st with ctrlHeight := height }
    let (st2, id) := newInst st1 { height := height, decided := false, value := none }
    match findInst st2 height with
    | none => (st2, none)                                   -- "could not find newly created QBFT instance"
    | some found => (st2, some found)

/-! ### runner -/

/-- `hasRunningDuty` -/
def hasRunningDuty (st : RSt) : Bool := match st.duty with | some d => !d.finished | none => false

/-- `BaseRunner.decide` applied to the running duty; on error the duty stays without running instance -/
def decideDuty (st : RSt) (d : DutySt) (inputOk : Bool) : RSt × Bool :=
  match startNewInstance st d.slot inputOk with
  | (st1, none) => ({ st1 with duty := some d }, false)
  | (st1, some id) => ({ st1 with duty := some { d with running := some id } }, true)

inductive In
  | start (slot : Nat) (preObjs : List Nat) (inputOk : Bool)   -- Validator.StartDuty; `inputOk`: beacon data yields a valid input
  | pre (m : Msg) (slot : Nat) (inputOk : Bool)                  -- pre-consensus partial-signature message (carrying `slot`)
  | cons (c : ConsIn)
  | post (m : Msg) (slot : Nat)
  | foreign                                                       -- message for another validator key or another role
  deriving Repr

def signAll (tag : SignTag) (objs : List Nat) (slot : Nat) (dom : Dom) : List Ev :=
  objs.map fun o => .sign tag o (epochOf slot) dom

/-- `ShouldProcessDuty` (duties with consensus) / `ShouldProcessNonBeaconDuty` (registration, exit) say "already passed" -/
def refuseDuty (st : RSt) (slot : Nat) : Bool :=
  if st.role.hasConsensus then decide (st.ctrlHeight ≥ slot) && st.ctrlHeight != 0
  else match st.duty with | some d => decide (d.slot ≥ slot) | none => false

/-- `baseSetupForNewDuty`: a fresh `runner.State` -/
def freshDuty (slot : Nat) (preObjs : List Nat) : DutySt :=
  { slot := slot, preObjs := preObjs, running := none, decidedValue := none, finished := false,
    pre := Container.empty, post := Container.empty }

/-- `StartNewDuty` → `executeDuty` -/
def startDuty (st : RSt) (slot : Nat) (preObjs : List Nat) (inputOk : Bool) : RSt × Bool × List Ev :=
  if refuseDuty st slot then (st, false, [])
  else if st.role.signsAtStart then
    -- proposer, aggregator, contribution, exit, registration: sign the pre-consensus objects and broadcast them
    ({ st with duty := some (freshDuty slot preObjs) }, true,
      signAll (.atStart slot) preObjs slot st.role.preDomain ++ [.bcast preObjs])
  else
    -- attester, sync committee: fetch the duty data and `decide`
    let r := decideDuty st (freshDuty slot preObjs) inputOk
    (r.1, r.2, [])

/-- the collection state handed to the partial-signature model -/
def psState (st : RSt) (c : Container) (expected : List Nat) (style : PartialSig.Style) (ready finished : Bool) : PartialSig.St :=
  { q := st.q, cm := st.cm, expected := expected, style := style, decided := ready, c := c, finished := finished }

/-- `BeaconNode.Submit*` calls of a collection step -/
def submitEvents : PartialSig.Out → List Ev
  | .submitted subs => subs.map fun s => .submit s.root
  | .reconstructFailed subs => subs.map fun s => .submit s.root
  | _ => []

/-- the collection step returned nil -/
def outOk : PartialSig.Out → Bool
  | .submitted _ => true
  | .collected => true
  | _ => false

/-- shape of the quorum branch of `ProcessPreConsensus`: `roots[0]` everywhere but in the contribution runner -/
def preStyle (role : Role) : PartialSig.Style := if role == .contribution then .loop else .first

/-- `ProcessPreConsensus` -/
def processPre (st : RSt) (m : Msg) (slot : Nat) (inputOk : Bool) : RSt × Bool × List Ev :=
  match st.duty with
  | none => (st, false, [])                                   -- "no running duty"
  | some d =>
    if st.role == .attester || st.role == .syncCommittee then (st, false, [])   -- "no pre consensus sigs required"
    else
      let m' : Msg := { m with slotOk := decide (slot = d.slot) }
      let r := PartialSig.step (psState st d.pre d.preObjs (preStyle st.role) true d.finished) m'
      if st.role == .registration || st.role == .exit then
        -- quorum: reconstruct, submit, Finished
        ({ st with duty := some { d with pre := r.1.c, finished := r.1.finished } }, outOk r.2, submitEvents r.2)
      else
        -- proposer / aggregator / contribution: a successful quorum fetches duty data and starts consensus (`decide`)
        match r.2 with
        | .submitted _ =>
          let r2 := decideDuty st { d with pre := r.1.c } inputOk
          (r2.1, r2.2, [])
        | _ => ({ st with duty := some { d with pre := r.1.c } }, outOk r.2, [])

/-- `prevDecided` of `baseConsensusMsgProcessing`: a duty is running and its `RunningInstance` object is decided -/
def runningDecided (st : RSt) : Bool :=
  match st.duty with
  | some d => if d.finished then false else
      match d.running with
      | some id => match instOf st id with | some i => i.decided | none => false
      | none => false
  | none => false

/-- the running duty already took a decided value (`State.DecidedValue != nil`) -/
def dutyDecided (st : RSt) : Bool :=
  match st.duty with
  | some d => !d.finished && d.decidedValue.isSome
  | none => false

/-- `prevDecided` of `baseConsensusMsgProcessing` since fix c50569811: the running instance object is decided OR the duty
    already holds a decided value (the controller may have dropped the instance and report a first decision again) -/
def prevDecided (st : RSt) : Bool := runningDecided st || dutyDecided st

/-- `baseConsensusMsgProcessing` followed by the role's `ProcessConsensus`, for a given value `pd` of `prevDecided` -/
def processConsG (pd : Bool) (st : RSt) (c : ConsIn) : RSt × Bool × List Ev :=
  if !st.role.hasConsensus then (st, false, [])                -- "no consensus phase for …"
  else
    let prevDecided := pd
    let (st1, out) := ctlProcess st c
    match out with
    | .err => (st1, false, [])
    | .nothing => (st1, true, [])
    | .decidedMsg h v =>
      match st1.duty with
      | none => (st1, true, [])                                -- no running duty
      | some d =>
        if d.finished then (st1, true, [])
        else match d.running with
          | none => (st1, false, [])                           -- "decided wrong instance"
          | some id =>
            if h ≠ heightOf st1 id then (st1, false, [])       -- "decided wrong instance"
            else if prevDecided then (st1, true, [])
            else if !v.decodeOk then (st1, false, [])
            else
              let st2 := { st1 with highestDecidedSlot := v.slot }
              if !v.vcOk then (st2, false, [])                 -- "decided ConsensusData invalid"
              else
                let st3 := { st2 with duty := some { d with decidedValue := some v } }
                if !v.getOk then (st3, false, [])
                else (st3, true, signAll (.decided h) v.objs v.slot st.role.postDomain ++ [.bcast v.objs])

/-- consensus message, current code -/
def processCons (st : RSt) (c : ConsIn) : RSt × Bool × List Ev := processConsG (prevDecided st) st c

/-- consensus message BEFORE fix c50569811 (`prevDecided` looked at the runner's own instance object only); kept for the
    regression lemma `C03_at_most_once_old_refuted` -/
def processConsOld (st : RSt) (c : ConsIn) : RSt × Bool × List Ev := processConsG (runningDecided st) st c

/-- `RunningInstance.IsDecided()` as `ValidatePostConsensusMsg` reads it: the decided value of the running instance OBJECT -/
def runningInstValue (st : RSt) (d : DutySt) : Option Val :=
  match d.running with
  | some id => match instOf st id with
    | some i => if i.decided then i.value else none
    | none => none
  | none => none

def postStyle (role : Role) : PartialSig.Style := if role == .contribution then .loopMatch else .loop

/-- `ProcessPostConsensus` -/
def processPost (st : RSt) (m : Msg) (slot : Nat) : RSt × Bool × List Ev :=
  if !st.role.hasConsensus then (st, false, [])                -- "no post consensus phase for …"
  else match st.duty with
  | none => (st, false, [])
  | some d =>
    -- ValidatePostConsensusMsg: running duty, DecidedValue, RunningInstance, instance decided, then slot of the instance's value
    match d.decidedValue, runningInstValue st d with
    | some dv, some iv =>
      if !iv.decodeOk then (st, false, [])
      else
        let m' : Msg := { m with slotOk := decide (slot = iv.slot) }
        let r := PartialSig.step (psState st d.post dv.objs (postStyle st.role) true d.finished) m'
        ({ st with duty := some { d with post := r.1.c, finished := r.1.finished } }, outOk r.2, submitEvents r.2)
    | _, _ => (st, false, [])

/-- one input; the Boolean is "the call returned nil" -/
def step (st : RSt) : In → RSt × Bool × List Ev
  | .start slot preObjs inputOk => startDuty st slot preObjs inputOk
  | .pre m slot inputOk => processPre st m slot inputOk
  | .cons c => processCons st c
  | .post m slot => processPost st m slot
  | .foreign => (st, false, [])

/-- one input, code before fix c50569811 -/
def stepOld (st : RSt) : In → RSt × Bool × List Ev
  | .cons c => processConsOld st c
  | i => step st i

def runOld : RSt → List In → List (In × List Ev)
  | _, [] => []
  | st, i :: is => (i, (stepOld st i).2.2) :: runOld (stepOld st i).1 is

def run : RSt → List In → List (In × List Ev)
  | _, [] => []
  | st, i :: is => (i, (step st i).2.2) :: run (step st i).1 is

def finalState : RSt → List In → RSt
  | st, [] => st
  | st, i :: is => finalState (step st i).1 is

def Ev.isSign : Ev → Bool
  | .sign .. => true
  | _ => false

def In.isStart : In → Bool
  | .start .. => true
  | _ => false

/-- inputs that are not a duty start and cannot start a consensus instance: consensus, post-consensus and foreign messages,
    and pre-consensus messages for the roles whose `ProcessPreConsensus` only returns an error -/
def In.quiet (role : Role) : In → Bool
  | .cons _ | .post .. | .foreign => true
  | .pre .. => role == .attester || role == .syncCommittee
  | .start .. => false

/-- the post-consensus signatures among the outputs of one input, as (height of the decision, signed root) -/
def evSigns (evs : List Ev) : List (Nat × Nat) :=
  evs.filterMap fun e => match e with
    | .sign (.decided h) root _ _ => some (h, root)
    | _ => none

/-- the post-consensus signatures of a trace -/
def decidedSigns (tr : List (In × List Ev)) : List (Nat × Nat) := tr.flatMap fun p => evSigns p.2

end Ssv.Runner
