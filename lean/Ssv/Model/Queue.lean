/-
Model of protocol/v2/ssv/queue (queue.go, message_prioritizer.go, messages.go) and of the three
consumer filters of protocol/v2/ssv/validator/msgqueue_consumer.go.              (property C14)

The queue is an inbox (Go buffered channel: bounded FIFO; a send/receive is one atomic step) plus a
singly linked list (`head` first). Every public operation of the real queue is a sequence of the
atomic steps below, so any interleaving of concurrent producers with the single consumer is a
sequence of `Step`s.  Core Lean only (linked into the native driver `m_queue`).
-/
namespace Ssv.Queue

/-! ### generic queue -/

structure Q (α : Type) where
  inbox : List α      -- oldest first
  cap   : Nat
  list  : List α      -- head first
deriving Repr

/-- `TryPush`: non-blocking channel send -/
def Q.tryPush {α} (q : Q α) (m : α) : Q α × Bool :=
  if q.inbox.length < q.cap then ({ q with inbox := q.inbox ++ [m] }, true) else (q, false)

/-- one channel receive followed by the prepend done in `readInbox` and in `Pop`'s wait loop -/
def Q.recvOne {α} (q : Q α) : Q α :=
  match q.inbox with
  | [] => q
  | m :: rest => { q with inbox := rest, list := m :: q.list }

/-- `readInbox`: receive until the channel is empty (every message is prepended in arrival order) -/
def Q.readInbox {α} (q : Q α) : Q α := { q with inbox := [], list := q.inbox.reverse ++ q.list }

/-- the scan of `priorityQueue.pop`: walk the list once; among the items admitted by the filter keep
    the one that is `Prior` to the best so far (`best` carries its index) -/
def selectFrom {α} (prior : α → α → Bool) (adm : α → Bool) : List α → Nat → Option (Nat × α) → Option (Nat × α)
  | [], _, best => best
  | x :: xs, i, best =>
    let best' :=
      if adm x then
        match best with
        | none => some (i, x)
        | some (j, h) => if prior x h then some (i, x) else some (j, h)
      else best
    selectFrom prior adm xs (i + 1) best'

/-- `priorityQueue.pop`: unlink and return the selected item; leave the list untouched when nothing is admitted -/
def popList {α} (prior : α → α → Bool) (adm : α → Bool) (l : List α) : List α × Option α :=
  match selectFrom prior adm l 0 none with
  | none => (l, none)
  | some (i, x) => (l.eraseIdx i, some x)

def Q.popMem {α} (q : Q α) (prior : α → α → Bool) (adm : α → Bool) : Q α × Option α :=
  let (l', r) := popList prior adm q.list
  ({ q with list := l' }, r)

/-- `TryPop` = readInbox; if head ≠ nil then pop -/
def Q.tryPop {α} (q : Q α) (prior : α → α → Bool) (adm : α → Bool) : Q α × Option α :=
  q.readInbox.popMem prior adm

/-- the wait loop of the blocking `Pop` against the messages currently in the channel: receive (and
    prepend) one at a time until a received message is admitted by the filter; if the channel runs
    empty first the real code blocks — the model stops there, which is the behaviour when the
    context is then cancelled -/
def waitLoop {α} (adm : α → Bool) : List α → List α → List α × List α
  | [], list => ([], list)
  | m :: rest, list => if adm m then (rest, m :: list) else waitLoop adm rest (m :: list)

/-- blocking `Pop` with a context that is cancelled once nothing more arrives.
    `readFirst` is the outcome of `time.Since(lastRead) > inboxReadFrequency`. -/
def Q.popBlocking {α} (q : Q α) (readFirst : Bool) (prior : α → α → Bool) (adm : α → Bool) : Q α × Option α :=
  let q1 := if readFirst then q.readInbox else q
  match q1.popMem prior adm with
  | (q2, some m) => (q2, some m)
  | (q2, none) =>
    let (inb, l) := waitLoop adm q2.inbox q2.list
    let q3 : Q α := { q2 with inbox := inb, list := l }
    q3.readInbox.popMem prior adm

def Q.len {α} (q : Q α) : Nat := q.inbox.length + q.list.length

/-! ### messages, prioritizer state, standard prioritizer -/

/-- what the prioritizer and the consumer's filters read from a `DecodedSSVMessage` -/
inductive Body
  | event (ty : Nat)                                  -- EventMsg.Type: 0 = Timeout, 1 = ExecuteDuty
  | consensus (height round mtype nsigners : Nat)     -- mtype: 0 proposal, 1 prepare, 2 commit, 3 round-change
  | partialSig (slot : Nat) (post : Bool)             -- post = (Type == PostConsensusPartialSig)
deriving DecidableEq, Repr

structure Msg where
  id : Nat
  body : Body
deriving DecidableEq, Repr

structure PState where
  hasRunningInstance : Bool
  height : Nat
  round : Nat
  slot : Nat
  quorum : Nat
deriving Repr

def scoreMessageType (m : Msg) : Nat :=
  match m.body with
  | .event 1 => 3
  | .event 0 => 2
  | _ => 0

/-- `compareHeightOrSlot`, shifted by one: 0 = lower (−1), 1 = equal (0), 2 = higher (1) -/
def compareHeightOrSlot (s : PState) (m : Msg) : Nat :=
  match m.body with
  | .consensus h _ _ _ => if h = s.height then 1 else if h > s.height then 2 else 0
  | .partialSig sl _ => if sl = s.slot then 1 else if sl > s.slot then 2 else 0
  | .event _ => 0

/-- `scoreHeight` on the shifted value -/
def scoreHeight (rel : Nat) : Nat :=
  match rel with
  | 1 => 2
  | 2 => 1
  | _ => 0

def isDecided (s : PState) (m : Msg) : Bool :=
  match m.body with
  | .consensus _ _ mt ns => mt == 2 && decide (ns > s.quorum)
  | _ => false

def isConsensus (m : Msg) : Bool := match m.body with | .consensus .. => true | _ => false
def isPre (m : Msg) : Bool := match m.body with | .partialSig _ post => !post | _ => false
def isPost (m : Msg) : Bool := match m.body with | .partialSig _ post => post | _ => false
def isCommit (m : Msg) : Bool := match m.body with | .consensus _ _ mt _ => mt == 2 | _ => false

def scoreMessageSubtype (s : PState) (m : Msg) (rel : Nat) : Nat :=
  if rel = 1 then
    if s.hasRunningInstance then
      if isConsensus m then 3 else if isPre m then 2 else if isPost m then 1 else 0
    else
      if isPre m then 3 else if isPost m then 2 else if isConsensus m then 1 else 0
  else if rel = 2 then
    if isDecided s m then 4 else if isPre m then 3 else if isConsensus m then 2 else if isPost m then 1 else 0
  else
    if isDecided s m then 2 else if isCommit m then 1 else 0

/-- `scoreRound`, shifted by one (−1 ↦ 0, 0 ↦ 1, 1 ↦ 2, 2 ↦ 3) -/
def scoreRound (s : PState) (m : Msg) : Nat :=
  match m.body with
  | .consensus _ r _ _ => if r = s.round then 3 else if r > s.round then 2 else 0
  | _ => 1

def scoreConsensusType (m : Msg) : Nat :=
  match m.body with
  | .consensus _ _ 0 _ => 4
  | .consensus _ _ 1 _ => 3
  | .consensus _ _ 2 _ => 2
  | .consensus _ _ 3 _ => 1
  | _ => 0

/-- `standardPrioritizer.Prior`, the `if` chain as written -/
def prior (s : PState) (a b : Msg) : Bool :=
  let ta := scoreMessageType a; let tb := scoreMessageType b
  if ta ≠ tb then decide (ta > tb) else
  let ra := compareHeightOrSlot s a; let rb := compareHeightOrSlot s b
  if ra ≠ rb then decide (scoreHeight ra > scoreHeight rb) else
  let sa := scoreMessageSubtype s a ra; let sb := scoreMessageSubtype s b rb
  if sa ≠ sb then decide (sa > sb) else
  let oa := scoreRound s a; let ob := scoreRound s b
  if oa ≠ ob then decide (oa > ob) else
  let ca := scoreConsensusType a; let cb := scoreConsensusType b
  if ca ≠ cb then decide (ca > cb) else
  true

/-! ### the consumer's filters (`Validator.ConsumeQueue`) -/

/-- no duty is running: only ExecuteDuty events -/
def filterIdle (m : Msg) : Bool := match m.body with | .event 1 => true | _ => false

/-- running instance without an accepted proposal: hold prepares/commits of the current height and round -/
def filterNoProposal (s : PState) (m : Msg) : Bool :=
  match m.body with
  | .consensus h r mt _ => if h ≠ s.height ∨ r ≠ s.round then true else (mt != 1 && mt != 2)
  | _ => true

def filterAny (_ : Msg) : Bool := true

end Ssv.Queue
