/-
A small multi-node system over the controller model: the correct operators of one committee, the list of everything they
broadcast (every broadcast reaches every correct operator's pending list, the sender's included — pubsub loopback), explicit
injection of messages crafted by Byzantine members, selective / delayed delivery, timeouts. Used to evaluate concrete
multi-node witnesses inside Lean (C07 wedge, fault-free round 1); the Go harness runs the same scenarios on real controllers.
Core Lean only; all recursion is structural (fuel where needed).
-/
import Ssv.Model.Qbft.Run

namespace Ssv.Qbft

structure SNode where
  cfg : Cfg
  ctrl : Ctrl
  /-- indices into `Sys.wire` not yet offered to this node, in send order -/
  pending : List Nat

structure Sys where
  nodes : List SNode
  wire : List Msg
  height : Nat

/-- messages an operator put on the network during a step (instance broadcasts and decided broadcasts) -/
def broadcastsOf : List Out → List Msg
  | [] => []
  | .bcast m :: rest => m :: broadcastsOf rest
  | .bcastDecided m :: rest => m :: broadcastsOf rest
  | _ :: rest => broadcastsOf rest

/-- give the new wire messages fresh `mid`s (index + 1) and offer them to every node -/
def Sys.push (σ : Sys) : List Msg → Sys
  | [] => σ
  | m :: rest =>
    let idx := σ.wire.length
    let σ1 : Sys := { σ with wire := σ.wire ++ [{ m with mid := idx + 1 }],
                             nodes := σ.nodes.map (fun nd => { nd with pending := nd.pending ++ [idx] }) }
    σ1.push rest

def updateNode (l : List SNode) (own : Nat) (f : SNode → SNode) : List SNode :=
  l.map (fun nd => if nd.cfg.own == own then f nd else nd)

def findNode (l : List SNode) (own : Nat) : Option SNode := l.find? (fun nd => nd.cfg.own == own)

/-- apply a controller op on operator `own`, put its broadcasts on the wire -/
def Sys.apply (σ : Sys) (own : Nat) (op : COp) : Sys :=
  match findNode σ.nodes own with
  | none => σ
  | some nd =>
    let (c1, o) := stepC nd.cfg nd.ctrl op
    let σ1 : Sys := { σ with nodes := updateNode σ.nodes own (fun x => { x with ctrl := c1 }) }
    match o with
    | some obs => σ1.push (broadcastsOf obs.outs)
    | none => σ1

/-- hand a (Byzantine-crafted) message directly to the listed operators -/
def Sys.inject (σ : Sys) (m : Msg) : List Nat → Sys
  | [] => σ
  | own :: rest => (σ.apply own (.deliver m)).inject m rest

/-- deliver, in send order, the pending messages of `own` that satisfy `p` (one pass over the current pending list);
    the others stay pending -/
def Sys.deliverWhereAux (own : Nat) (p : Msg → Bool) : List Nat → Sys → Sys
  | [], σ => σ
  | idx :: rest, σ =>
    match σ.wire[idx]? with
    | none => Sys.deliverWhereAux own p rest σ
    | some m =>
      if p m then
        let σ1 : Sys := { σ with nodes := updateNode σ.nodes own (fun x => { x with pending := x.pending.filter (· != idx) }) }
        Sys.deliverWhereAux own p rest (σ1.apply own (.deliver m))
      else Sys.deliverWhereAux own p rest σ

def Sys.deliverWhere (σ : Sys) (own : Nat) (p : Msg → Bool) : Sys :=
  match findNode σ.nodes own with
  | none => σ
  | some nd => Sys.deliverWhereAux own p nd.pending σ

/-- one sweep: every node receives everything that is pending for it right now -/
def Sys.sweep (σ : Sys) : List Nat → Sys
  | [] => σ
  | own :: rest => (σ.deliverWhere own (fun _ => true)).sweep rest

def Sys.owns (σ : Sys) : List Nat := σ.nodes.map (·.cfg.own)

def Sys.quiet (σ : Sys) : Bool := σ.nodes.all (·.pending.isEmpty)

/-- timely delivery of everything among the correct operators until quiescence (at most `fuel` sweeps) -/
def Sys.flush : Nat → Sys → Sys
  | 0, σ => σ
  | fuel + 1, σ => if σ.quiet then σ else Sys.flush fuel (σ.sweep σ.owns)

def instOf (nd : SNode) (h : Nat) : Option State := findInstance nd.ctrl.insts h

/-- fire the round timer of every undecided correct operator (for its current round) -/
def Sys.timeoutAllAux : List Nat → Sys → Sys
  | [], σ => σ
  | own :: rest, σ =>
    match (findNode σ.nodes own).bind (fun nd => instOf nd σ.height) with
    | some i => if i.decided then Sys.timeoutAllAux rest σ else Sys.timeoutAllAux rest (σ.apply own (.timeout σ.height i.round))
    | none => Sys.timeoutAllAux rest σ

def Sys.timeoutAll (σ : Sys) : Sys := Sys.timeoutAllAux σ.owns σ

/-- the constructed continuation: `rounds` times (deliver everything; all undecided operators time out), then deliver everything -/
def Sys.continuation : Nat → Nat → Sys → Sys
  | 0, fuel, σ => Sys.flush fuel σ
  | rounds + 1, fuel, σ => Sys.continuation rounds fuel (Sys.flush fuel σ).timeoutAll

/-- (operator, round, decided, decided value, lock round, lock value) of every correct operator -/
def Sys.summary (σ : Sys) : List (Nat × Nat × Bool × Nat × Nat × Nat) :=
  σ.nodes.filterMap (fun nd => (instOf nd σ.height).map (fun i =>
    (nd.cfg.own, i.round, i.decided, i.decidedValue, i.lastPreparedRound, i.lastPreparedValue)))

def Sys.allDecided (σ : Sys) (v : Nat) : Bool :=
  σ.nodes.all (fun nd => match instOf nd σ.height with | some i => i.decided && i.decidedValue == v | none => false)

/-- committee 1..n with the round-robin leader, value check accepting everything but the empty value -/
def stdCfg (n q pq own : Nat) : Cfg :=
  let committee := (List.range n).map (· + 1)
  { committee := committee, quorum := q, partialQuorum := pq, own := own, ident := 1, cutoff := 15,
    capacity := Gen.qbft_InstanceContainerDefaultCapacity, valCheck := fun _ => true,
    proposer := fun h r => roundRobinProposer committee h r }

/-- the correct operators `owns` of a committee of n, every one started at `height` with its value -/
def Sys.init (n q pq height : Nat) (owns : List (Nat × Nat)) : Sys :=
  let σ0 : Sys := { nodes := owns.map (fun ov => { cfg := stdCfg n q pq ov.1, ctrl := newController, pending := [] }),
                    wire := [], height := height }
  owns.foldl (fun σ ov => σ.apply ov.1 (.start height ov.2)) σ0

end Ssv.Qbft
