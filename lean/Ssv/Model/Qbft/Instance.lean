/-
The node's QBFT instance: protocol/v2/qbft/instance/{instance,proposal,prepare,commit,round_change,timeout,compact}.go
(pinned tree), line by line. `State` is `specqbft.State` + the `Instance` fields `StartValue`, `startOnce`, `forceStop`.
-/
import Ssv.Model.Qbft.Validate

namespace Ssv.Qbft

structure State where
  round : Nat
  height : Nat
  lastPreparedRound : Nat
  /-- 0 = nil -/
  lastPreparedValue : Nat
  accepted : Option Msg
  decided : Bool
  decidedValue : Nat
  propose : Container
  prepare : Container
  commit : Container
  roundChange : Container
  startValue : Nat
  started : Bool
  forceStop : Bool
  deriving DecidableEq, Repr, Inhabited

/-- observable effects, in call order -/
inductive Out
  | bcast (m : Msg)              -- Instance.Broadcast → config.GetNetwork().Broadcast
  | timer (h r : Nat)            -- config.GetTimer().TimeoutForRound(h, r)
  | bcastDecided (m : Msg)       -- Controller.broadcastDecided
  | save (m : Msg)               -- Controller.SaveInstance reaching storage (light node: SaveHighestInstance)
  | notify (m : Msg)             -- Controller.NewDecidedHandler
  deriving DecidableEq, Repr, Inhabited

/-- what `Instance.ProcessMsg` / `UponRoundTimeout` / `Start` returned -/
inductive Outcome
  | ok (decided : Bool) (value : Nat) (agg : Option Msg)
  | err (t : Tag)
  | panic
  deriving DecidableEq, Repr, Inhabited

structure Step where
  st : State
  outs : List Out
  res : Outcome
  deriving DecidableEq, Repr, Inhabited

/-- `NewInstance(config, share, identifier, height)` -/
def newInstance (height : Nat) : State :=
  { round := firstRound, height := height, lastPreparedRound := noRound, lastPreparedValue := 0,
    accepted := none, decided := false, decidedValue := 0,
    propose := [], prepare := [], commit := [], roundChange := [],
    startValue := 0, started := false, forceStop := false }

/-- `CanProcessMessages`: `!forceStop && int(State.Round) < CutoffRound` -/
def canProcess (cfg : Cfg) (s : State) : Bool := !s.forceStop && decide (toInt64 s.round < (cfg.cutoff : Int))

/-- a message signed by the node itself -/
def ownMsg (cfg : Cfg) (type height round root dataRound : Nat) (rcJust : List Lvl1) (prepJust : List Base) (fullData : Nat) : Msg :=
  { type := type, height := height, round := round, ident := cfg.ident, root := root, dataRound := dataRound,
    signers := [cfg.own], sigOk := true, malformed := false, mid := 0,
    rcJust := rcJust, prepJust := prepJust, fullData := fullData }

/-- `Instance.Broadcast`: refused when the instance cannot process messages -/
def broadcast (cfg : Cfg) (s : State) (m : Msg) : V (List Out) :=
  if canProcess cfg s then pure [.bcast m] else fail .stopped

def okStep (s : State) (outs : List Out) : Step := ⟨s, outs, .ok s.decided s.decidedValue none⟩

def failStep (s : State) (outs : List Out) : Fail → Step
  | .tag t => ⟨s, outs, .err t⟩
  | .panic => ⟨s, outs, .panic⟩

/-- broadcast `m` from state `s` after the effects `pre`; a refused broadcast is an error wrapped in `a` -/
def sendOr (cfg : Cfg) (s : State) (a : Atom) (m : Msg) (pre : List Out) : Step :=
  match wrap a (broadcast cfg s m) with
  | .ok o => okStep s (pre ++ o)
  | .error f => failStep s pre f

/-! ### creation of own messages -/

def createPrepare (cfg : Cfg) (s : State) (newRound root : Nat) : Msg :=
  ownMsg cfg tPrepare s.height newRound root noRound [] [] 0

def createCommit (cfg : Cfg) (s : State) (root : Nat) : Msg :=
  ownMsg cfg tCommit s.height s.round root noRound [] [] 0

/-- `CreateProposal(state, config, fullData, roundChanges, prepares)`; justifications are marshalled without full data -/
def createProposal (cfg : Cfg) (s : State) (fullData : Nat) (roundChanges : List Msg) (prepares : List Lvl1) : Msg :=
  ownMsg cfg tProposal s.height s.round (hashData fullData) noRound
    (roundChanges.map Msg.toLvl1) (prepares.map (·.toBase)) fullData

/-- `getRoundChangeJustification`: the stored prepares of `LastPreparedRound` that are (still) valid for the prepared
    value, or nothing when they are no quorum -/
def getRoundChangeJustification (cfg : Cfg) (s : State) : List Msg :=
  if s.lastPreparedValue == 0 then [] else
  let r := hashData s.lastPreparedValue
  let ret := (forRound s.prepare s.lastPreparedRound).filter
    (fun m => (validSignedPrepare cfg m.toBase s.height s.lastPreparedRound r).isOk)
  if !cfg.hasQuorum (signersOf ret) then [] else ret

/-- `CreateRoundChange(state, config, newRound, instanceStartValue)` (with `getRoundChangeData` inlined) -/
def createRoundChange (cfg : Cfg) (s : State) (newRound : Nat) : Msg :=
  if s.lastPreparedRound != noRound && s.lastPreparedValue != 0 then
    ownMsg cfg tRoundChange s.height newRound (hashData s.lastPreparedValue) s.lastPreparedRound
      ((getRoundChangeJustification cfg s).map Msg.toLvl1) [] s.lastPreparedValue
  else
    ownMsg cfg tRoundChange s.height newRound zeroRoot noRound [] [] 0

/-! ### base validation -/

/-- `isValidProposal(state, config, signedProposal, valCheck, operators)` -/
def isValidProposal (cfg : Cfg) (s : State) (m : Msg) : V Unit := do
  rejectIf (m.type != tProposal) .notProposal
  rejectIf (m.height != s.height) .wrongHeight
  rejectIf (m.signers.length != 1) .oneSigner
  rejectIf (!cfg.verifySig m.toBase) .sigInvalid
  match cfg.proposer s.height m.round with
  | none => .error .panic
  | some leader =>
    rejectIf (!matchedSigners m.signers [leader]) .leaderInvalid
    wrap .proposalInvalid (signedValidate m.toBase)
    rejectIf (hashData m.fullData != m.root) .hashMismatch
    wrap .notJustified (isProposalJustification cfg s.height m.rcJust m.prepJust s.height m.round m.fullData)
    if (s.accepted.isNone && m.round == s.round) || decide (m.round > s.round) then pure ()
    else fail .notValidWithState

/-- `BaseCommitValidation(config, signedCommit, height, operators)` -/
def baseCommitValidation (cfg : Cfg) (m : Base) (height : Nat) : V Unit := do
  rejectIf (m.type != tCommit) .notCommit
  rejectIf (m.height != height) .wrongHeight
  wrap .commitInvalid (signedValidate m)
  rejectIf (!cfg.verifySig m) .sigInvalid

/-- `validateCommit(config, signedCommit, height, round, proposedMsg, operators)` -/
def validateCommit (cfg : Cfg) (m : Base) (height round : Nat) (proposed : Msg) : V Unit := do
  baseCommitValidation cfg m height
  rejectIf (m.signers.length != 1) .oneSigner
  rejectIf (m.round != round) .wrongRound
  rejectIf (proposed.root != m.root) .dataMismatch

/-- `Instance.BaseMsgValidation(msg)` -/
def baseMsgValidation (cfg : Cfg) (s : State) (m : Msg) : V Unit := do
  wrap .invalidSigned (signedValidate m.toBase)
  rejectIf (decide (m.round < s.round)) .pastRound
  if m.type == tProposal then isValidProposal cfg s m
  else if m.type == tPrepare then
    match s.accepted with
    | none => fail .noProposal
    | some p => validSignedPrepare cfg m.toBase s.height s.round p.root
  else if m.type == tCommit then
    match s.accepted with
    | none => fail .noProposal
    | some p => validateCommit cfg m.toBase s.height s.round p
  else if m.type == tRoundChange then
    validRoundChangeForData cfg s.height m.toLvl1 s.height m.round m.fullData
  else fail .typeNotSupported

/-! ### upon… -/

/-- `uponProposal` (the proposal is valid) -/
def uponProposal (cfg : Cfg) (s : State) (m : Msg) : Step :=
  let (pc, added) := addFirst s.propose m
  if !added then okStep s [] else
  let outs1 : List Out := if m.round > s.round then [.timer m.height m.round] else []
  let s1 := { s with propose := pc, accepted := some m, round := m.round }
  sendOr cfg s1 .bcastPrepareFailed (createPrepare cfg s1 m.round (hashData m.fullData)) outs1

/-- `uponPrepare` (the prepare is valid; a nil accepted proposal would be a nil dereference) -/
def uponPrepare (cfg : Cfg) (s : State) (m : Msg) : Step :=
  let before := cfg.hasQuorum (signersOf (forRound s.prepare s.round))
  let (pc, added) := addFirst s.prepare m
  if !added then okStep s [] else
  let s1 := { s with prepare := pc }
  if before then okStep s1 [] else
  if !cfg.hasQuorum (signersOf (forRound pc s.round)) then okStep s1 [] else
  match s.accepted with
  | none => ⟨s1, [], .panic⟩
  | some p =>
    let s2 := { s1 with lastPreparedValue := p.fullData, lastPreparedRound := s.round }
    sendOr cfg s2 .bcastCommitFailed (createCommit cfg s2 p.root) []

/-- insertion sort (`sort.Slice(ret.Signers, <)` in `aggregateCommitMsgs`) -/
def insertSorted (a : Nat) : List Nat → List Nat
  | [] => [a]
  | b :: l => if a ≤ b then a :: b :: l else b :: insertSorted a l

def sortNat : List Nat → List Nat
  | [] => []
  | a :: l => insertSorted a (sortNat l)

/-- the loop of `aggregateCommitMsgs`: `ret.Aggregate(m)` for every further message -/
def aggregateLoop (ret : Msg) : List Msg → V Msg
  | [] => pure ret
  | m :: rest =>
    if commonSigners ret.signers m.signers then wrap .aggregateOne (fail .duplicateSigners)
    else if !ret.sameSignedMessage m then wrap .aggregateOne (fail .rootsNotEqual)
    else aggregateLoop { ret with signers := ret.signers ++ m.signers, sigOk := ret.sigOk && m.sigOk, mid := 0 } rest

/-- `aggregateCommitMsgs(msgs, fullData)` -/
def aggregateCommitMsgs (msgs : List Msg) (fullData : Nat) : V Msg :=
  match msgs with
  | [] => fail .aggregateZero
  | m :: rest => do
    let ret ← aggregateLoop { m with mid := 0 } rest
    pure { ret with fullData := fullData, signers := sortNat ret.signers }

/-- `UponCommit` + the `Decided`/`DecidedValue` assignment of `ProcessMsg` -/
def uponCommit (cfg : Cfg) (s : State) (m : Msg) : Step :=
  let (cc, added) := addFirst s.commit m
  if !added then okStep s [] else
  let s1 := { s with commit := cc }
  let (signers, msgs) := longestUniqueSigners cc m.round m.root
  if !decide (cfg.quorum ≤ signers.length) then okStep s1 [] else
  match s.accepted with
  | none => ⟨s1, [], .panic⟩
  | some p =>
    match wrap .aggregateFailed (aggregateCommitMsgs msgs p.fullData) with
    | .error f => failStep s1 [] f
    | .ok agg =>
      let s2 := { s1 with decided := true, decidedValue := p.fullData }
      ⟨s2, [], .ok true p.fullData (some agg)⟩

/-- `minRound` -/
def minRound : List Msg → Nat
  | [] => noRound
  | m :: rest =>
    let r := minRound rest
    if r == noRound || m.round < r then m.round else r

/-- `isProposalJustificationForLeadingRound` -/
def isProposalJustificationForLeadingRound (cfg : Cfg) (s : State) (rcMsg : Msg) (roundChanges : List Msg)
    (value newRound : Nat) : V Unit := do
  wrap .notJustified (isProposalJustification cfg s.height (roundChanges.map Msg.toLvl1)
    (rcMsg.rcJust.map (·.toBase)) s.height rcMsg.round value)
  match cfg.proposer s.height rcMsg.round with
  | none => .error .panic
  | some leader =>
    rejectIf (leader != cfg.own) .notProposer
    let current := s.accepted.isNone && s.round == newRound
    let future := decide (newRound > s.round)
    rejectIf (!current && !future) .roundMismatch

/-- the loop of `hasReceivedProposalJustificationForLeadingRound` over the round's round-changes -/
def findJustified (cfg : Cfg) (s : State) (trigger : Msg) (roundChanges : List Msg) : List Msg → V (Option (Msg × Nat))
  | [] => pure none
  | m :: rest =>
    let value := if m.toBase.rcPrepared then trigger.fullData else s.startValue
    match isProposalJustificationForLeadingRound cfg s m roundChanges value trigger.round with
    | .ok _ => pure (some (m, value))
    | .error .panic => .error .panic
    | .error (.tag _) => findJustified cfg s trigger roundChanges rest

/-- `hasReceivedProposalJustificationForLeadingRound` -/
def hasReceivedProposalJustification (cfg : Cfg) (s : State) (trigger : Msg) : V (Option (Msg × Nat)) :=
  let roundChanges := forRound s.roundChange trigger.round
  if !cfg.hasQuorum (signersOf roundChanges) then pure none
  else findJustified cfg s trigger roundChanges roundChanges

/-- `uponChangeRoundPartialQuorum` -/
def uponChangeRoundPartialQuorum (cfg : Cfg) (s : State) (newRound : Nat) : Step :=
  let s1 := { s with round := newRound, accepted := none }
  sendOr cfg s1 .bcastRoundChangeFailed (createRoundChange cfg s1 newRound) [.timer s1.height s1.round]

/-- `uponRoundChange` (the round-change is valid) -/
def uponRoundChange (cfg : Cfg) (s : State) (m : Msg) : Step :=
  let before := cfg.hasQuorum (signersOf (forRound s.roundChange m.round))
  let (rc, added) := addFirst s.roundChange m
  if !added then okStep s [] else
  let s1 := { s with roundChange := rc }
  if before then okStep s1 [] else
  match hasReceivedProposalJustification cfg s1 m with
  | .error f => failStep s1 [] f
  | .ok (some (justified, value)) =>
    sendOr cfg s1 .bcastProposalFailed (createProposal cfg s1 value (forRound rc s1.round) justified.rcJust) []
  | .ok none =>
    let higher := rc.filter (fun x => Nat.blt s1.round x.round)
    if cfg.hasPartialQuorum (signersOf higher) then
      let newRound := minRound higher
      if newRound ≤ s1.round then okStep s1 [] else uponChangeRoundPartialQuorum cfg s1 newRound
    else okStep s1 []

/-! ### entry points -/

/-- `Instance.ProcessMsg(msg)` -/
def processMsg (cfg : Cfg) (s : State) (m : Msg) : Step :=
  if !canProcess cfg s then ⟨s, [], .err [.stopped]⟩ else
  match wrap .invalidSigned (baseMsgValidation cfg s m) with
  | .error f => failStep s [] f
  | .ok _ =>
    if m.type == tProposal then uponProposal cfg s m
    else if m.type == tPrepare then uponPrepare cfg s m
    else if m.type == tCommit then uponCommit cfg s m
    else if m.type == tRoundChange then uponRoundChange cfg s m
    else ⟨s, [], .err [.typeNotSupported]⟩

/-- `Instance.UponRoundTimeout()`: the round-change is created and broadcast in the OLD round, then (deferred) the round
    is bumped, the accepted proposal cleared and the timer re-armed -/
def uponRoundTimeout (cfg : Cfg) (s : State) : Step :=
  if !canProcess cfg s then ⟨s, [], .err [.stoppedTimeouts]⟩ else
  let newRound := s.round + 1
  let rc := createRoundChange cfg s newRound
  let s1 := { s with round := newRound, accepted := none }
  match wrap .bcastRoundChangeFailed (broadcast cfg s rc) with
  | .ok o => okStep s1 (o ++ [.timer s1.height s1.round])
  | .error f => failStep s1 [.timer s1.height s1.round] f

/-- `Instance.Start(value, height)` (`startOnce`: later calls do nothing). The leader check may panic inside the
    `Once`, which still marks it done. -/
def start (cfg : Cfg) (s : State) (value height : Nat) : Step :=
  if s.started then okStep s [] else
  let s1 := { s with started := true, startValue := value, round := firstRound, height := height }
  let outs1 : List Out := [.timer height firstRound]
  match cfg.proposer s1.height firstRound with
  | none => ⟨s1, outs1, .panic⟩
  | some leader =>
    if leader == cfg.own then
      let proposal := createProposal cfg s1 value [] []
      match broadcast cfg s1 proposal with
      | .ok o => okStep s1 (outs1 ++ o)
      | .error _ => okStep s1 outs1      -- only logged
    else okStep s1 outs1

/-- `Instance.ForceStop()` -/
def forceStop (s : State) : State := { s with forceStop := true }

/-! ### compaction (protocol/v2/qbft/instance/compact.go) -/

/-- `compactContainerEdit(container, currentRound, clear)` -/
def compactContainerEdit (c : Container) (currentRound : Nat) (clear : Bool) : Container :=
  if c.isEmpty then c
  else if clear then []
  else c.filter (fun m => !decide (m.round < currentRound))

/-- `compactContainerCopy(container, currentRound, clear)` -/
def compactContainerCopy (c : Container) (currentRound : Nat) (clear : Bool) : Container :=
  if c.isEmpty then c
  else if clear then []
  else c.filter (fun m => decide (m.round ≥ currentRound))

/-- `compact(state, decidedMessage, compactContainer)` -/
def compactWith (cc : Container → Nat → Bool → Container) (s : State) : State :=
  { s with
    propose := cc s.propose s.round s.decided,
    prepare := cc s.prepare s.lastPreparedRound s.decided,
    roundChange := cc s.roundChange s.round s.decided,
    commit := cc s.commit s.round false }

/-- `instance.Compact(state, decidedMessage)` -/
def compact (s : State) : State := compactWith compactContainerEdit s

/-- `instance.CompactCopy(state, decidedMessage)` -/
def compactCopy (s : State) : State := compactWith compactContainerCopy s

end Ssv.Qbft
