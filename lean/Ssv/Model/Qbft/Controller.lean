/-
The controller slice that matters for decisions: protocol/v2/qbft/controller/{controller,decided,timer,types}.go
of a LIGHT node (`fullNode = false`: `InstanceForHeight` searches memory only; `SaveInstance` stores only the highest
instance). `StoredInstances` is the capacity-bounded list sorted by descending height, index 0 first.
-/
import Ssv.Model.Qbft.Instance

namespace Ssv.Qbft

structure Ctrl where
  height : Nat
  insts : List State
  deriving DecidableEq, Repr, Inhabited

/-- `NewController(identifier, share, config, fullNode)` -/
def newController : Ctrl := { height := firstHeight, insts := [] }

/-- what a controller entry point returned -/
inductive COutcome
  | ok (decidedMsg : Option Msg)
  | err (t : Tag)
  | panic
  deriving DecidableEq, Repr, Inhabited

structure CStep where
  ct : Ctrl
  outs : List Out
  res : COutcome
  deriving DecidableEq, Repr, Inhabited

/-- `InstanceContainer.FindInstance(height)` -/
def findInstance (l : List State) (height : Nat) : Option State := l.find? (·.height == height)

/-- insert before the first stored instance with a smaller height (else at the end) -/
def insertByHeight (i : State) : List State → List State
  | [] => [i]
  | e :: rest => if e.height < i.height then i :: e :: rest else e :: insertByHeight i rest

/-- `InstanceContainer.addNewInstance(instance)` with capacity `cap`: an instance that would land behind a full
    container is not stored, otherwise the last one is ejected -/
def addNewInstance (cap : Nat) (l : List State) (i : State) : List State := (insertByHeight i l).take cap

/-- replace the (first) stored instance of that height — the Go code mutates the object behind the stored pointer -/
def updateInstance (l : List State) (i : State) : List State :=
  match l with
  | [] => []
  | e :: rest => if e.height == i.height then i :: rest else e :: updateInstance rest i

/-- `IsDecidedMsg(share, msg)`: counts the listed signers (duplicates included) -/
def isDecidedMsg (cfg : Cfg) (m : Msg) : Bool := decide (cfg.quorum ≤ m.signers.length) && m.type == tCommit

/-- `ValidateDecided(config, signedDecided, share)` -/
def validateDecided (cfg : Cfg) (m : Msg) : V Unit := do
  rejectIf (!isDecidedMsg cfg m) .notDecided
  wrap .invalidDecided (signedValidate m.toBase)
  wrap .invalidDecided (baseCommitValidation cfg m.toBase m.height)
  wrap .invalidDecided2 (signedValidate m.toBase)
  rejectIf (hashData m.fullData != m.root) .hashMismatch

/-- `Controller.SaveInstance(inst, msg)` of a light node: reaches storage only for the highest height -/
def saveOuts (c : Ctrl) (m : Msg) : List Out := if m.height ≥ c.height then [.save m] else []

/-- the instance-container part of `UponDecided`: (new container, `save`) -/
def decidedUpdate (cfg : Cfg) (c : Ctrl) (m : Msg) : List State × Bool :=
  match findInstance c.insts m.height with
  | none =>
    let i := { newInstance m.height with round := m.round, decided := true, decidedValue := m.fullData,
                                          commit := addMsg [] m }
    (addNewInstance cfg.capacity c.insts i, true)
  | some i =>
    if !i.decided then
      (updateInstance c.insts { i with decided := true, round := m.round, decidedValue := m.fullData,
                                       commit := addMsg i.commit m }, true)
    else
      let signers := (longestUniqueSigners i.commit m.round m.root).1
      if m.signers.length > signers.length then
        (updateInstance c.insts { i with commit := addMsg i.commit m }, true)
      else (c.insts, false)

/-- the storage part of `UponDecided`: saved only if `save` and the instance is (still) in the container -/
def decidedSaveOuts (c1 : Ctrl) (save : Bool) (m : Msg) : List Out :=
  if save && (findInstance c1.insts m.height).isSome then saveOuts c1 m else []

/-- `Controller.UponDecided(msg)` -/
def uponDecided (cfg : Cfg) (c : Ctrl) (m : Msg) : CStep :=
  match wrap .invalidDecided (validateDecided cfg m) with
  | .error (.tag t) => ⟨c, [], .err t⟩
  | .error .panic => ⟨c, [], .panic⟩
  | .ok _ =>
    let prevDecided := match findInstance c.insts m.height with | some i => i.decided | none => false
    let isFuture := decide (m.height > c.height)
    let upd := decidedUpdate cfg c m
    let c1 : Ctrl := { c with insts := upd.1 }
    let c2 : Ctrl := if isFuture then { c1 with height := m.height } else c1
    ⟨c2, decidedSaveOuts c1 upd.2 m ++ [.notify m], .ok (if prevDecided then none else some m)⟩

/-- `Controller.isFutureMessage(msg)` -/
def isFutureMessage (c : Ctrl) (m : Msg) : Bool :=
  (c.height == firstHeight && (findInstance c.insts c.height).isNone) || decide (m.height > c.height)

/-- `Controller.UponExistingInstanceMsg(msg)` -/
def uponExistingInstanceMsg (cfg : Cfg) (c : Ctrl) (m : Msg) : CStep :=
  match findInstance c.insts m.height with
  | none => ⟨c, [], .err [.instanceNotFound]⟩
  | some inst =>
    let prevDecided := inst.decided
    let st := processMsg cfg inst m
    let c1 : Ctrl := { c with insts := updateInstance c.insts st.st }
    match st.res with
    | .panic => ⟨c1, st.outs, .panic⟩
    | .err t => ⟨c1, st.outs, .err (.couldNotProcess :: t)⟩
    | .ok decided _ agg =>
      if !decided then ⟨c1, st.outs, .ok none⟩ else
      match agg with
      | none => ⟨c1, st.outs, .ok none⟩
      | some d =>
        let outs := st.outs ++ [.bcastDecided d]
        if prevDecided then ⟨c1, outs, .ok none⟩ else ⟨c1, outs, .ok (some d)⟩

/-- `Controller.ProcessMsg(msg)` -/
def Ctrl.processMsg (cfg : Cfg) (c : Ctrl) (m : Msg) : CStep :=
  if m.ident != cfg.ident then ⟨c, [], .err [.invalidMsg, .wrongIdentifier]⟩
  else if isDecidedMsg cfg m then uponDecided cfg c m
  else if isFutureMessage c m then ⟨c, [], .err [.futureMsg]⟩
  else uponExistingInstanceMsg cfg c m

/-- `forceStopAllInstanceExceptCurrent` -/
def forceStopOthers (c : Ctrl) : Ctrl :=
  { c with insts := c.insts.map (fun i => if i.height != c.height then forceStop i else i) }

/-- `Controller.StartNewInstance(height, value)`. The new instance is started whether or not the container kept it. -/
def Ctrl.startNewInstance (cfg : Cfg) (c : Ctrl) (height value : Nat) : CStep :=
  if !cfg.valOk value then ⟨c, [], .err [.startValueInvalid]⟩
  else if height < c.height then ⟨c, [], .err [.pastHeight]⟩
  else if (findInstance c.insts height).isSome then ⟨c, [], .err [.alreadyRunning]⟩
  else
    let st := start cfg (newInstance height) value height
    let c1 : Ctrl := { height := height, insts := addNewInstance cfg.capacity c.insts st.st }
    match st.res with
    | .panic => ⟨c1, st.outs, .panic⟩
    | _ => ⟨forceStopOthers c1, st.outs, .ok none⟩

/-- `Controller.OnTimeout(msg)` with `TimeoutData{Height, Round}` -/
def Ctrl.onTimeout (cfg : Cfg) (c : Ctrl) (height round : Nat) : CStep :=
  match findInstance c.insts height with
  | none => ⟨c, [], .err [.instanceNil]⟩
  | some inst =>
    if round < inst.round then ⟨c, [], .ok none⟩
    else if inst.decided then ⟨c, [], .ok none⟩
    else
      let st := uponRoundTimeout cfg inst
      let c1 : Ctrl := { c with insts := updateInstance c.insts st.st }
      match st.res with
      | .panic => ⟨c1, st.outs, .panic⟩
      | .err t => ⟨c1, st.outs, .err t⟩
      | .ok _ _ _ => ⟨c1, st.outs, .ok none⟩

/-- runner-style / explicit compaction of the stored instance of a height (`instance.Compact(inst.State, msg)`) -/
def Ctrl.compactAt (c : Ctrl) (height : Nat) : Ctrl :=
  match findInstance c.insts height with
  | none => c
  | some inst => { c with insts := updateInstance c.insts (compact inst) }

/-- `BaseRunner.compactInstanceIfNeeded(msg)`: after `ProcessMsg`, compact the stored instance of the message's height
    when the message is a decided message or a round-change -/
def Ctrl.compactIfNeeded (cfg : Cfg) (c : Ctrl) (m : Msg) : Ctrl :=
  if isDecidedMsg cfg m || m.type == tRoundChange then c.compactAt m.height else c

end Ssv.Qbft
