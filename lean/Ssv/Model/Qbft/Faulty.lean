/-
Network faults of the operator's OWN network layer (`config.GetNetwork().Broadcast` returns an error), as a wrapper around
the unchanged entry points: every instance / controller op performs at most ONE network broadcast, and (on the pinned tree)
every state change of an op precedes that broadcast. A fault `after` = the message left the node, then Broadcast returned an
error; `before` = Broadcast returned an error without sending.
  * Instance.ProcessMsg / UponRoundTimeout: the error is returned wrapped in the site's context
    ("failed to broadcast … message"; the network's own error text is not part of the tag); the state is what it is without
    the fault (for a timeout the deferred bump / timer still run).
  * Instance.Start and Controller.broadcastDecided only log the error.
New file: nothing in Instance.lean / Controller.lean changes.
-/
import Ssv.Model.Qbft.Run

namespace Ssv.Qbft

inductive NetFault
  | none
  | after
  | before
  deriving DecidableEq, Repr, Inhabited

def firstBcast : List Out → Option Msg
  | [] => none
  | .bcast m :: _ => some m
  | _ :: rest => firstBcast rest

def dropBcast : List Out → List Out
  | [] => []
  | .bcast _ :: rest => rest
  | o :: rest => o :: dropBcast rest

def dropBcastDecided : List Out → List Out
  | [] => []
  | .bcastDecided _ :: rest => rest
  | o :: rest => o :: dropBcastDecided rest

/-- the `errors.Wrap` context of the broadcast site of a message the instance created -/
def bcastSiteAtom (m : Msg) : Atom :=
  if m.type == tProposal then .bcastProposalFailed
  else if m.type == tPrepare then .bcastPrepareFailed
  else if m.type == tCommit then .bcastCommitFailed
  else .bcastRoundChangeFailed

def faultOuts (nf : NetFault) (outs : List Out) : List Out :=
  match nf with
  | .before => dropBcast outs
  | _ => outs

/-- `ProcessMsg` / `UponRoundTimeout` under a network fault -/
def faultStep (nf : NetFault) (st : Step) : Step :=
  match nf, firstBcast st.outs with
  | .none, _ => st
  | _, none => st
  | _, some m => ⟨st.st, faultOuts nf st.outs, .err [bcastSiteAtom m]⟩

/-- `Start` under a network fault (the error is only logged) -/
def faultStart (nf : NetFault) (st : Step) : Step :=
  match nf with
  | .none => st
  | _ => ⟨st.st, faultOuts nf st.outs, st.res⟩

def processMsgF (nf : NetFault) (cfg : Cfg) (s : State) (m : Msg) : Step := faultStep nf (processMsg cfg s m)
def uponRoundTimeoutF (nf : NetFault) (cfg : Cfg) (s : State) : Step := faultStep nf (uponRoundTimeout cfg s)
def startF (nf : NetFault) (cfg : Cfg) (s : State) (v h : Nat) : Step := faultStart nf (start cfg s v h)

/-- `Controller.ProcessMsg` under a network fault: an instance broadcast error surfaces as "could not process msg: …";
    an error of `broadcastDecided` is only logged -/
def Ctrl.processMsgF (nf : NetFault) (cfg : Cfg) (c : Ctrl) (m : Msg) : CStep :=
  let st := c.processMsg cfg m
  match nf, firstBcast st.outs with
  | .none, _ => st
  | .before, none => ⟨st.ct, dropBcastDecided st.outs, st.res⟩
  | _, none => st
  | _, some x => ⟨st.ct, faultOuts nf st.outs, .err [.couldNotProcess, bcastSiteAtom x]⟩

def Ctrl.onTimeoutF (nf : NetFault) (cfg : Cfg) (c : Ctrl) (h r : Nat) : CStep :=
  let st := c.onTimeout cfg h r
  match nf, firstBcast st.outs with
  | .none, _ => st
  | _, none => st
  | _, some x => ⟨st.ct, faultOuts nf st.outs, .err [bcastSiteAtom x]⟩

def Ctrl.startNewInstanceF (nf : NetFault) (cfg : Cfg) (c : Ctrl) (h v : Nat) : CStep :=
  let st := c.startNewInstance cfg h v
  match nf with
  | .none => st
  | _ => ⟨st.ct, faultOuts nf st.outs, st.res⟩

end Ssv.Qbft
