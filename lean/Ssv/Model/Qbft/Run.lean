/-
Op sequences over the instance / controller model: the `init + step` form used by the property theorems
(the native driver dispatches the same functions line by line).
-/
import Ssv.Model.Qbft.Controller

namespace Ssv.Qbft

/-! ### instance level -/

inductive IOp
  | start (value height : Nat)
  | deliver (m : Msg)
  | timeout
  /-- `instance.Compact` as the node calls it -/
  | compact
  /-- compaction restricted to undecided instances (the policy that IS transparent, see C06) -/
  | compactUndecided
  | stop
  deriving DecidableEq, Repr, Inhabited

def IOp.isCompaction : IOp → Bool
  | .compact => true
  | .compactUndecided => true
  | _ => false

/-- what an observer sees of one non-compaction op: everything the instance emitted and returned -/
structure IObs where
  outs : List Out
  res : Outcome
  deriving DecidableEq, Repr, Inhabited

def stepI (cfg : Cfg) (s : State) : IOp → State × Option IObs
  | .start v h => let st := start cfg s v h; (st.st, some ⟨st.outs, st.res⟩)
  | .deliver m => let st := processMsg cfg s m; (st.st, some ⟨st.outs, st.res⟩)
  | .timeout => let st := uponRoundTimeout cfg s; (st.st, some ⟨st.outs, st.res⟩)
  | .compact => (compact s, none)
  | .compactUndecided => (if s.decided then s else compact s, none)
  | .stop => (forceStop s, some ⟨[], .ok s.decided s.decidedValue none⟩)

def runI (cfg : Cfg) (s : State) : List IOp → State × List IObs
  | [] => (s, [])
  | op :: rest =>
    let (s1, o) := stepI cfg s op
    let (s2, os) := runI cfg s1 rest
    (s2, match o with | some x => x :: os | none => os)

/-! ### controller level -/

inductive COp
  | start (height value : Nat)
  | deliver (m : Msg)
  | timeout (height round : Nat)
  /-- `instance.Compact` on the stored instance of a height -/
  | compactAt (height : Nat)
  /-- the runner's `compactInstanceIfNeeded(msg)` (called right after `ProcessMsg(msg)`) -/
  | runnerCompact (m : Msg)
  deriving DecidableEq, Repr, Inhabited

def COp.isCompaction : COp → Bool
  | .compactAt _ => true
  | .runnerCompact _ => true
  | _ => false

structure CObs where
  outs : List Out
  res : COutcome
  deriving DecidableEq, Repr, Inhabited

def stepC (cfg : Cfg) (c : Ctrl) : COp → Ctrl × Option CObs
  | .start h v => let st := c.startNewInstance cfg h v; (st.ct, some ⟨st.outs, st.res⟩)
  | .deliver m => let st := c.processMsg cfg m; (st.ct, some ⟨st.outs, st.res⟩)
  | .timeout h r => let st := c.onTimeout cfg h r; (st.ct, some ⟨st.outs, st.res⟩)
  | .compactAt h => (c.compactAt h, none)
  | .runnerCompact m => (c.compactIfNeeded cfg m, none)

def runC (cfg : Cfg) (c : Ctrl) : List COp → Ctrl × List CObs
  | [] => (c, [])
  | op :: rest =>
    let (c1, o) := stepC cfg c op
    let (c2, os) := runC cfg c1 rest
    (c2, match o with | some x => x :: os | none => os)

/-- the node's message path: `Controller.ProcessMsg(msg)` followed by the runner's `compactInstanceIfNeeded(msg)` -/
def runnerDeliver (m : Msg) : List COp := [.deliver m, .runnerCompact m]

end Ssv.Qbft
