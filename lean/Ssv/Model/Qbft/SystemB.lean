/-
C01 Layer B — the formal multi-node system over the executable controller + instance model (core Lean only).

One committee `1..n`, `n = 3f+1` (operator `i : Fin n` has operator id `i+1`), one (identifier, height), a list `byz` of
Byzantine members. State = for every operator its controller (only the controllers of correct operators ever step) +
the monotone log of every message a correct operator handed to `Instance.Broadcast` + a ghost trace of abstract events.

Steps (`Action`): `start i v` (`Controller.StartNewInstance(height, v)`), `deliver i m` (`Controller.ProcessMsg(m)`) for ANY
message `m` subject only to unforgeability (`authentic`), `timeout i r` (`Controller.OnTimeout` with `TimeoutData{height, r}`;
every `r`, so stale timers are included).  Light node, no runner compaction (that is C06's clause).

Unforgeability (`authentic`): for every signed part `b` of the delivered message (the message itself, every round-change
justification, every prepare justification inside those or inside the message) with `sigOk = true` AND the instance's own
identifier (`ownIdent`), every CORRECT operator listed in `b.signers` has previously broadcast a message with the same
(identifier, type, height, round, root, dataRound). For an aggregated commit / decided message this says: every correct listed
signer broadcast a commit for that (height, round, root).
Signed parts with a FOREIGN identifier are adversary-controlled: correct operators run the instances of the validator's other
duty roles with the same keys and sign the same (height, round) there, so the adversary may hold any correctly signed message
of a foreign identifier (this is how the identifier-confusion defect, fixed in /repo e1612ceed, broke agreement).
Nothing else is assumed about delivered messages: the adversary drops, duplicates, reorders, delivers selectively,
equivocates and fabricates any content.

Ghost events (proof devices; the statement of agreement only uses `D`):
* `P i r v`  — operator i ACCEPTED a proposal (round r, root v): the point where `uponProposal` stores it and creates the
               prepare it hands to `Broadcast` (a superset of the prepares that actually reach the network: `Broadcast`
               refuses when the new round is beyond `CutoffRound`; see the note in Props/C01LayerB.lean);
* `K i r v`  — commit (r, root v) broadcast; `RC i r pr pv` — round-change for round r broadcast (pr = prepared round, 0 = none);
* `G i rc`   — `UponDecided` adopted a decided message of round rc on a not-yet-decided (or not yet existing) instance;
* `D i r v`  — a decision is reported: the decided message returned by `Controller.ProcessMsg` / broadcast by
               `broadcastDecided`, i.e. every point where `State.Decided/DecidedValue` is set.
-/
import Ssv.Model.Qbft.Run
import Ssv.Gen.Kernels

namespace Ssv.Qbft.B

/-- abstract events of correct operators (same shape as `QAbs.Ev`) -/
inductive Ev (N : Type) where
  | P  (i : N) (r v : Nat)
  | K  (i : N) (r v : Nat)
  | RC (i : N) (r pr pv : Nat)
  | G  (i : N) (rc : Nat)
  | D  (i : N) (r v : Nat)
  deriving DecidableEq, Repr

structure Params where
  f : Nat
  height : Nat
  cutoff : Nat
  valCheck : Nat → Bool
  /-- Byzantine members (0-based indices) -/
  byz : List (Fin (3 * f + 1))

def Params.n (P : Params) : Nat := 3 * P.f + 1

abbrev Op (P : Params) := Fin (3 * P.f + 1)

/-- operator id of member `i` -/
def opId {P : Params} (i : Op P) : Nat := i.val + 1

def Params.committee (P : Params) : List Nat := (List.range P.n).map (· + 1)

def Params.honest (P : Params) (i : Op P) : Bool := !P.byz.contains i

/-- `s` is the operator id of a correct member -/
def Params.honestId (P : Params) (s : Nat) : Bool :=
  decide (1 ≤ s) && decide (s ≤ P.n) && !P.byz.any (fun b => b.val + 1 == s)

/-- quorum and partial quorum from the kernel translated from `ComputeQuorumAndPartialQuorum` -/
def Params.quorum (P : Params) : Nat := (Gen.k_ComputeQuorumAndPartialQuorum (P.n : Int)).1.toNat
def Params.partialQuorum (P : Params) : Nat := (Gen.k_ComputeQuorumAndPartialQuorum (P.n : Int)).2.toNat

/-- the identifier (validator, duty role) of the instance under study; every other non-zero identifier is foreign -/
def ownIdent : Nat := 1

/-- configuration of member `i`: the model's round-robin proposer, the node's container capacity, identifier `ownIdent` -/
def Params.cfg (P : Params) (i : Op P) : Cfg :=
  { committee := P.committee, quorum := P.quorum, partialQuorum := P.partialQuorum, own := opId i, ident := ownIdent,
    cutoff := P.cutoff, capacity := Gen.qbft_InstanceContainerDefaultCapacity, valCheck := P.valCheck,
    proposer := fun h r => roundRobinProposer P.committee h r }

structure Sys (P : Params) where
  ctrl : Op P → Ctrl
  log : List Msg
  trace : List (Ev (Op P))

def Sys.init (P : Params) : Sys P := { ctrl := fun _ => newController, log := [], trace := [] }

inductive Action (P : Params) where
  | start (i : Op P) (v : Nat)
  | deliver (i : Op P) (m : Msg)
  | timeout (i : Op P) (r : Nat)

/-! ### unforgeability -/

/-- `m'` is a broadcast of operator `s` with the signed content of `b` -/
def sameSigned (m' : Msg) (s : Nat) (b : Base) : Bool :=
  m'.signers == [s] && m'.type == b.type && m'.height == b.height && m'.round == b.round &&
  m'.root == b.root && m'.dataRound == b.dataRound && m'.ident == b.ident

/-- a signed part is unconstrained if its signature does not verify or if it carries a foreign identifier -/
def backed (P : Params) (log : List Msg) (b : Base) : Bool :=
  !b.sigOk || b.ident != ownIdent || b.signers.all (fun s => !P.honestId s || log.any (fun m' => sameSigned m' s b))

def authentic (P : Params) (log : List Msg) (m : Msg) : Bool :=
  backed P log m.toBase &&
  m.rcJust.all (fun rc => backed P log rc.toBase && rc.just.all (backed P log)) &&
  m.prepJust.all (backed P log)

/-! ### ghost events -/

/-- messages handed to `Instance.Broadcast` during a step -/
def bcasts : List Out → List Msg
  | [] => []
  | .bcast m :: rest => m :: bcasts rest
  | _ :: rest => bcasts rest

def msgEvents {N : Type} (i : N) (m : Msg) : List (Ev N) :=
  if m.type == tCommit then [.K i m.round m.root]
  else if m.type == tRoundChange then [.RC i m.round m.dataRound m.root]
  else []

def outEvents {N : Type} (i : N) : List Out → List (Ev N)
  | [] => []
  | .bcast m :: rest => msgEvents i m ++ outEvents i rest
  | .bcastDecided d :: rest => .D i d.round d.fullData :: outEvents i rest
  | _ :: rest => outEvents i rest

def instAt (h : Nat) (c : Ctrl) : Option State := findInstance c.insts h

def proposeLen (h : Nat) (c : Ctrl) : Nat :=
  match instAt h c with
  | some s => s.propose.length
  | none => 0

/-- events of `Controller.ProcessMsg(m)` -/
def deliverEvents {N : Type} (cfg : Cfg) (h : Nat) (i : N) (c : Ctrl) (st : CStep) (m : Msg) : List (Ev N) :=
  (if proposeLen h c < proposeLen h st.ct then [.P i m.round m.root] else []) ++
  outEvents i st.outs ++
  (if isDecidedMsg cfg m then
     match st.res with
     | .ok (some d) => [.G i d.round, .D i d.round d.fullData]
     | _ => []
   else [])

/-! ### steps -/

def Sys.update {P : Params} (σ : Sys P) (i : Op P) (c : Ctrl) (outs : List Out) (evs : List (Ev (Op P))) : Sys P :=
  { ctrl := fun j => if j = i then c else σ.ctrl j, log := σ.log ++ bcasts outs, trace := σ.trace ++ evs }

def step {P : Params} (σ : Sys P) : Action P → Sys P
  | .start i v =>
    let st := (σ.ctrl i).startNewInstance (P.cfg i) P.height v
    σ.update i st.ct st.outs (outEvents i st.outs)
  | .deliver i m =>
    let st := (σ.ctrl i).processMsg (P.cfg i) m
    σ.update i st.ct st.outs (deliverEvents (P.cfg i) P.height i (σ.ctrl i) st m)
  | .timeout i r =>
    let st := (σ.ctrl i).onTimeout (P.cfg i) P.height r
    σ.update i st.ct st.outs (outEvents i st.outs)

/-- only correct operators run the node; deliveries are authentic -/
def enabled {P : Params} (σ : Sys P) : Action P → Bool
  | .start i _ => P.honest i
  | .deliver i m => P.honest i && authentic P σ.log m
  | .timeout i _ => P.honest i

inductive Reachable {P : Params} : Sys P → Prop
  | init : Reachable (Sys.init P)
  | step {σ : Sys P} (a : Action P) : Reachable σ → enabled σ a = true → Reachable (step σ a)

/-- run a schedule, checking enabledness -/
def run {P : Params} (σ : Sys P) : List (Action P) → Option (Sys P)
  | [] => some σ
  | a :: rest => if enabled σ a then run (step σ a) rest else none

theorem reachable_run {P : Params} {σ σ' : Sys P} (acts : List (Action P)) (h : Reachable σ) (hr : run σ acts = some σ') :
    Reachable σ' := by
  induction acts generalizing σ with
  | nil => simp only [run, Option.some.injEq] at hr; exact hr ▸ h
  | cons a rest ih =>
    simp only [run] at hr
    cases he : enabled σ a with
    | false => simp [he] at hr
    | true => rw [he] at hr; exact ih (Reachable.step a h he) hr

/-! ### observations -/

/-- operator i reported a decision for value v -/
def reported {P : Params} (σ : Sys P) (i : Op P) (v : Nat) : Prop := ∃ r, Ev.D i r v ∈ σ.trace

/-- the instance of operator i for the height is decided on v (`State.Decided`, `State.DecidedValue`) -/
def decidedState {P : Params} (σ : Sys P) (i : Op P) (v : Nat) : Prop :=
  ∃ s, instAt P.height (σ.ctrl i) = some s ∧ s.decided = true ∧ s.decidedValue = v

end Ssv.Qbft.B
