/-
`specqbft.RoundRobinProposer` with Go integer semantics (the node's `ProposerF` calls exactly this function).

    firstRoundIndex := 0
    if state.Height != FirstHeight { firstRoundIndex += int(state.Height) % len(committee) }
    index := (firstRoundIndex + int(round) - int(FirstRound)) % len(committee)
    return committee[index].OperatorID

`int(uint64)` is a two's-complement reinterpretation, `+`/`-` wrap at 64 bits, `%` truncates toward zero, and a
negative index panics (`none`).
-/
import Ssv.Model.Qbft.Types

namespace Ssv.Qbft

def two64 : Nat := 18446744073709551616
def two63 : Nat := 9223372036854775808

/-- `int(x)` for `x : uint64` -/
def toInt64 (x : Nat) : Int :=
  let y := x % two64
  if y < two63 then (y : Int) else (y : Int) - (two64 : Int)

/-- wrap an exact integer result into the int64 range -/
def wrap64 (i : Int) : Int := toInt64 (i % (two64 : Int)).toNat

/-- index expression of `RoundRobinProposer` for a committee of `n > 0` members -/
def proposerIndex (n : Nat) (height round : Nat) : Int :=
  let first : Int := if height != firstHeight then (toInt64 height).tmod (n : Int) else 0
  (wrap64 (wrap64 (first + toInt64 round) - (toInt64 firstRound))).tmod (n : Int)

/-- `none` = Go panics (empty committee: integer divide by zero; negative index: index out of range) -/
def roundRobinProposer (committee : List Nat) (height round : Nat) : Option Nat :=
  if committee.isEmpty then none else
  let idx := proposerIndex committee.length height round
  if idx < 0 then none else committee[idx.toNat]?

end Ssv.Qbft
