/-
Line protocol of engine `qbft` (parsing of op lines, canonical printing of observations). Core Lean only.
Shared by the native driver `m_qbft`; the Go harness prints the same format from the REAL objects.

Message on an op line (top level, k=v):
  t=<type> h=<height> r=<round> id=<ident> root=<id> dr=<dataRound> s=<signers> sig=<0|1> mal=<0|1> mid=<id> full=<id> rcj=<L1LIST> pj=<BLIST>
  signers : `1+3+4` or `-`
  BASE    : type,height,round,ident,root,dr,sig,mal,mid,signers
  BLIST   : BASE;BASE;…  or `-`
  LVL1    : BASE|BLIST
  L1LIST  : LVL1/LVL1/…  or `-`
-/
import Ssv.Common.Wire
import Ssv.Model.Qbft.Controller

namespace Ssv.Qbft.Wire
open Ssv.Wire

def splitNonEmpty (s : String) (sep : String) : List String :=
  if s == "-" || s == "" then [] else s.splitOn sep

def parseNatList (s : String) (sep : String) : Option (List Nat) :=
  (splitNonEmpty s sep).mapM (·.toNat?)

def parseBool (s : String) : Option Bool :=
  if s == "1" then some true else if s == "0" then some false else none

def parseBase (s : String) : Option Base :=
  match s.splitOn "," with
  | [t, h, r, i, root, dr, sg, mal, mid, signers] => do
    pure { type := ← t.toNat?, height := ← h.toNat?, round := ← r.toNat?, ident := ← i.toNat?, root := ← root.toNat?,
           dataRound := ← dr.toNat?, sigOk := ← parseBool sg, malformed := ← parseBool mal, mid := ← mid.toNat?,
           signers := ← parseNatList signers "+" }
  | _ => none

def parseBList (s : String) : Option (List Base) := (splitNonEmpty s ";").mapM parseBase

def parseLvl1 (s : String) : Option Lvl1 :=
  match s.splitOn "|" with
  | [b, l] => do pure { toBase := ← parseBase b, just := ← parseBList l }
  | _ => none

def parseL1List (s : String) : Option (List Lvl1) := (splitNonEmpty s "/").mapM parseLvl1

def kvNat (ws : List String) (k : String) : Option Nat := (kv ws k).bind (·.toNat?)

def parseMsg (ws : List String) : Option Msg := do
  let b : Base := { type := ← kvNat ws "t", height := ← kvNat ws "h", round := ← kvNat ws "r", ident := ← kvNat ws "id",
                    root := ← kvNat ws "root", dataRound := ← kvNat ws "dr",
                    signers := ← parseNatList (← kv ws "s") "+", sigOk := ← parseBool (← kv ws "sig"),
                    malformed := ← parseBool (← kv ws "mal"), mid := ← kvNat ws "mid" }
  pure { toBase := b, rcJust := ← parseL1List (← kv ws "rcj"), prepJust := ← parseBList (← kv ws "pj"),
         fullData := ← kvNat ws "full" }

/-! ### printing -/

def joinOr (l : List String) (sep : String) : String := if l.isEmpty then "-" else sep.intercalate l

def fmtNats (l : List Nat) (sep : String) : String := joinOr (l.map toString) sep

def fmtMids (l : List Nat) : String := joinOr (l.map fun m => s!"m{m}") "."

/-- full content of a message created by the node (or an aggregate): justifications by `mid` -/
def fmtMsg (m : Msg) : String :=
  s!"{m.type}:{m.height}:{m.round}:{m.ident}:{m.root}:{m.dataRound}:{m.fullData}:{fmtNats m.signers "+"}:" ++
  s!"{fmtMids (m.rcJust.map (·.mid))}:{fmtMids (m.prepJust.map (·.mid))}"

def fmtOut : Out → String
  | .bcast m => "b=" ++ fmtMsg m
  | .timer h r => s!"t={h}:{r}"
  | .bcastDecided m => "B=" ++ fmtMsg m
  | .save m => s!"s=m{m.mid}"
  | .notify m => s!"n=m{m.mid}"

def fmtOuts (l : List Out) : String := "[" ++ ",".intercalate (l.map fmtOut) ++ "]"

def atomName (a : Atom) : String :=
  let s := (repr a).pretty
  match (s.splitOn ".").getLast? with
  | some x => x
  | none => s

def fmtTag (t : Tag) : String := "/".intercalate (t.map atomName)

def fmtContainer (c : Container) : String :=
  let rounds := sortNat (uniq (c.map (·.round)))
  "[" ++ ";".intercalate (rounds.map fun r =>
    s!"{r}:" ++ ".".intercalate ((forRound c r).map fun m => s!"m{m.mid}/{fmtNats m.signers "+"}")) ++ "]"

def b01 (b : Bool) : String := if b then "1" else "0"

def fmtState (cfg : Cfg) (s : State) : String :=
  let acc := match s.accepted with | some p => s!"m{p.mid}" | none => "-"
  s!"i(h{s.height},r{s.round},a{acc},lp{s.lastPreparedRound}:{s.lastPreparedValue},d{b01 s.decided}:{s.decidedValue}," ++
  s!"sv{s.startValue},cp{b01 (canProcess cfg s)},P{fmtContainer s.propose},Pr{fmtContainer s.prepare}," ++
  s!"C{fmtContainer s.commit},RC{fmtContainer s.roundChange})"

def fmtStep (cfg : Cfg) (st : Step) : String :=
  let (res, dec) := match st.res with
    | .ok d v agg => ("ok", s!"d={b01 d}:{v} agg={match agg with | some a => fmtMsg a | none => "-"}")
    | .err t => (fmtTag t, "d=0:0 agg=-")
    | .panic => ("panic", "d=0:0 agg=-")
  s!"{res} o={fmtOuts st.outs} {dec} | {fmtState cfg st.st}"

def fmtCtrl (cfg : Cfg) (c : Ctrl) : String :=
  s!"H={c.height} [" ++ ";".intercalate (c.insts.map (fmtState cfg)) ++ "]"

def fmtCStep (cfg : Cfg) (st : CStep) : String :=
  let (res, ret) := match st.res with
    | .ok (some m) => ("ok", fmtMsg m)
    | .ok none => ("ok", "-")
    | .err t => (fmtTag t, "-")
    | .panic => ("panic", "-")
  s!"{res} o={fmtOuts st.outs} ret={ret} | {fmtCtrl cfg st.ct}"

end Ssv.Qbft.Wire
