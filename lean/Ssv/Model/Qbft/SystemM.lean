/-
C01, all heights — the formal multi-node, MULTI-HEIGHT system over the executable controller + instance model (core Lean only).

Same committee, adversary and unforgeability as `SystemB.lean`, but one controller per operator runs through MANY heights:
* `start i h v`   — `Controller.StartNewInstance(h, v)` for ANY height (the model decides: refused below the controller
                    height or for an existing height; `forceStopOthers`; the sorted 2-slot container ejects the lowest);
* `deliver i m`   — `Controller.ProcessMsg(m)` for a message of ANY height (decided messages for past / current / future
                    heights — future ones create a decided instance and bump `Height` —, `UponExistingInstanceMsg` routes by
                    height), subject only to `authentic` (per signed content, which includes the height and the
                    identifier; signed parts with a FOREIGN identifier are adversary-controlled, as in SystemB);
* `timeout i h r` — `Controller.OnTimeout` with `TimeoutData{h, r}`.
The ghost events carry the height. Light node, no runner compaction.
-/
import Ssv.Model.Qbft.SystemB

namespace Ssv.Qbft.M
open Ssv.Qbft

structure Params where
  f : Nat
  cutoff : Nat
  valCheck : Nat → Bool
  /-- Byzantine members (0-based indices) -/
  byz : List (Fin (3 * f + 1))

abbrev Op (P : Params) := Fin (3 * P.f + 1)

/-- the single-height parameter set of height `h` (the configuration does not depend on the height) -/
def Params.at (P : Params) (h : Nat) : B.Params :=
  { f := P.f, height := h, cutoff := P.cutoff, valCheck := P.valCheck, byz := P.byz }

def Params.cfg (P : Params) (i : Op P) : Cfg := (P.at 0).cfg i

def Params.honest (P : Params) (i : Op P) : Bool := !P.byz.contains i

/-- unforgeability, exactly as in `SystemB` (the signed content includes the height) -/
def authentic (P : Params) (log : List Msg) (m : Msg) : Bool := B.authentic (P.at 0) log m

structure Sys (P : Params) where
  ctrl : Op P → Ctrl
  log : List Msg
  /-- (height, event) -/
  trace : List (Nat × B.Ev (Op P))

def Sys.init (P : Params) : Sys P := { ctrl := fun _ => newController, log := [], trace := [] }

inductive Action (P : Params) where
  | start (i : Op P) (h v : Nat)
  | deliver (i : Op P) (m : Msg)
  | timeout (i : Op P) (h r : Nat)

def Sys.update {P : Params} (σ : Sys P) (i : Op P) (c : Ctrl) (outs : List Out) (h : Nat) (evs : List (B.Ev (Op P))) : Sys P :=
  { ctrl := fun j => if j = i then c else σ.ctrl j, log := σ.log ++ B.bcasts outs,
    trace := σ.trace ++ evs.map (fun e => (h, e)) }

def step {P : Params} (σ : Sys P) : Action P → Sys P
  | .start i h v =>
    let st := (σ.ctrl i).startNewInstance (P.cfg i) h v
    σ.update i st.ct st.outs h (B.outEvents i st.outs)
  | .deliver i m =>
    let st := (σ.ctrl i).processMsg (P.cfg i) m
    σ.update i st.ct st.outs m.height (B.deliverEvents (P.cfg i) m.height i (σ.ctrl i) st m)
  | .timeout i h r =>
    let st := (σ.ctrl i).onTimeout (P.cfg i) h r
    σ.update i st.ct st.outs h (B.outEvents i st.outs)

def enabled {P : Params} (σ : Sys P) : Action P → Bool
  | .start i _ _ => P.honest i
  | .deliver i m => P.honest i && authentic P σ.log m
  | .timeout i _ _ => P.honest i

inductive Reachable {P : Params} : Sys P → Prop
  | init : Reachable (Sys.init P)
  | step {σ : Sys P} (a : Action P) : Reachable σ → enabled σ a = true → Reachable (step σ a)

/-- the ghost trace of one height -/
def proj {N : Type} (h : Nat) (T : List (Nat × B.Ev N)) : List (B.Ev N) :=
  (T.filter (fun x => x.1 == h)).map (·.2)

/-- operator i reported a decision for value v at height h -/
def reportedAt {P : Params} (σ : Sys P) (h : Nat) (i : Op P) (v : Nat) : Prop := ∃ r, (h, B.Ev.D i r v) ∈ σ.trace

/-- the stored instance of operator i for height h is decided on v -/
def decidedStateAt {P : Params} (σ : Sys P) (h : Nat) (i : Op P) (v : Nat) : Prop :=
  ∃ s, B.instAt h (σ.ctrl i) = some s ∧ s.decided = true ∧ s.decidedValue = v

end Ssv.Qbft.M
