/-
Message validation of the node's QBFT instance (protocol/v2/qbft/instance/{instance,proposal,prepare,commit,round_change}.go
and ssv-spec v0.3.7 qbft/messages.go). Every guard returns its own atom; `errors.Wrap` contexts are consed on.
-/
import Ssv.Model.Qbft.Proposer

namespace Ssv.Qbft

/-- why a call did not return normally: an error chain, or a Go panic -/
inductive Fail
  | tag (t : Tag)
  | panic
  deriving DecidableEq, Repr, Inhabited

abbrev V := Except Fail

def fail {α : Type} (a : Atom) : V α := .error (.tag [a])

/-- `errors.Wrap(err, …)` -/
def wrap {α : Type} (a : Atom) : V α → V α
  | .error (.tag t) => .error (.tag (a :: t))
  | x => x

/-- `if c { return errors.New(a) }` -/
def rejectIf (c : Bool) (a : Atom) : V Unit := if c then fail a else pure ()

def V.isOk {α : Type} : V α → Bool
  | .ok _ => true
  | .error _ => false

/-- ids reserved by the harness' interning: `sha256("")` and the all-zero root -/
def emptyValue : Nat := 0
def zeroRoot : Nat := 1

/-- `HashDataRoot` on ids -/
def hashData (v : Nat) : Nat := v

/-! ### `SignedMessage.Validate` / `Message.Validate` -/

/-- the signer loop: `if signed[s] → non unique; if s == 0 → zero` per element, in order -/
def validateSignersLoop (seen : List Nat) : List Nat → V Unit
  | [] => pure ()
  | s :: rest =>
    if seen.contains s then fail .nonUniqueSigner
    else if s == 0 then fail .signerZero
    else validateSignersLoop (s :: seen) rest

/-- `Message.Validate()` -/
def messageValidate (b : Base) : V Unit := do
  rejectIf (b.ident == 0) .identEmpty
  rejectIf b.malformed .unmarshal
  rejectIf (decide (b.type > tRoundChange)) .typeInvalid

/-- `SignedMessage.Validate()` -/
def signedValidate (b : Base) : V Unit := do
  rejectIf b.signers.isEmpty .signersEmpty
  validateSignersLoop [] b.signers
  messageValidate b

/-- `types.VerifyByOperators(sig, msg, domain, QBFTSignatureType, share.Committee) == nil`:
    every signer is a committee member ("unknown signer" otherwise) and the aggregate verifies -/
def Cfg.verifySig (cfg : Cfg) (b : Base) : Bool :=
  b.signers.all (fun s => cfg.committee.contains s) && b.sigOk

/-! ### prepares -/

/-- `validSignedPrepareForHeightRoundAndRoot` -/
def validSignedPrepare (cfg : Cfg) (pm : Base) (height round root : Nat) : V Unit := do
  rejectIf (pm.type != tPrepare) .notPrepare
  rejectIf (pm.height != height) .wrongHeight
  rejectIf (pm.round != round) .wrongRound
  wrap .prepareInvalid (signedValidate pm)
  rejectIf (pm.root != root) .dataMismatch
  rejectIf (pm.signers.length != 1) .oneSigner
  rejectIf (!cfg.verifySig pm) .sigInvalid

/-- first failing element of a list of checks (Go `for … { if err != nil { return } }`) -/
def firstFail {α : Type} (f : α → V Unit) : List α → V Unit
  | [] => pure ()
  | a :: rest => do f a; firstFail f rest

/-! ### round changes -/

/-- `validRoundChangeForData(state, config, signedMsg, height, round, fullData)`;
    `stateHeight` is the `state.Height` used for the embedded prepares -/
def validRoundChangeForData (cfg : Cfg) (stateHeight : Nat) (rc : Lvl1) (height round fullData : Nat) : V Unit := do
  rejectIf (rc.type != tRoundChange) .notRoundChange
  rejectIf (rc.height != height) .wrongHeight
  rejectIf (rc.round != round) .wrongRound
  rejectIf (rc.ident != cfg.ident) .wrongMsgIdentifier
  rejectIf (rc.signers.length != 1) .oneSigner
  rejectIf (!cfg.verifySig rc.toBase) .sigInvalid
  wrap .roundChangeInvalid (messageValidate rc.toBase)
  if rc.toBase.rcPrepared then
    wrap .rcJustInvalid (firstFail (fun pm => do
      rejectIf (pm.ident != cfg.ident) .wrongMsgIdentifier
      validSignedPrepare cfg pm stateHeight rc.dataRound rc.root) rc.just)
    rejectIf (hashData fullData != rc.root) .hashMismatch
    rejectIf (!cfg.hasQuorum (signersOfB rc.just)) .noJustQuorum
    rejectIf (decide (rc.dataRound > round)) .preparedGtRound
  else pure ()

/-- `highestPrepared`: first prepared round-change with the maximal prepared round -/
def highestPreparedAux (ret : Option Lvl1) : List Lvl1 → Option Lvl1
  | [] => ret
  | rc :: rest =>
    if !rc.toBase.rcPrepared then highestPreparedAux ret rest
    else match ret with
      | none => highestPreparedAux (some rc) rest
      | some r => if r.dataRound < rc.dataRound then highestPreparedAux (some rc) rest else highestPreparedAux ret rest

def highestPrepared (rcs : List Lvl1) : Option Lvl1 := highestPreparedAux none rcs

/-! ### proposals -/

/-- `isProposalJustification(state, config, roundChangeMsgs, prepareMsgs, height, round, fullData, valCheck)` -/
def isProposalJustification (cfg : Cfg) (stateHeight : Nat) (rcs : List Lvl1) (prepares : List Base)
    (height round fullData : Nat) : V Unit := do
  rejectIf (!cfg.valOk fullData) .valueInvalid
  if round == firstRound then pure ()
  else
    wrap .rcNotValid (firstFail (fun rc => validRoundChangeForData cfg stateHeight rc height round fullData) rcs)
    rejectIf (!cfg.hasQuorum (signersOfL rcs)) .rcNoQuorum
    if !rcs.any (·.toBase.rcPrepared) then pure ()
    else
      rejectIf (!cfg.hasQuorum (signersOfB prepares)) .prepNoQuorum
      match highestPrepared rcs with
      | none => fail .noHighestPrepared
      | some rcm =>
        rejectIf (hashData fullData != rcm.root) .notHighestPrepared
        match firstFail (fun pm => do
            rejectIf (pm.ident != cfg.ident) .wrongMsgIdentifier
            validSignedPrepare cfg pm height rcm.dataRound rcm.root) prepares with
        | .ok _ => pure ()
        | .error .panic => .error .panic
        | .error (.tag _) => fail .prepareNotValid

end Ssv.Qbft
