/-
Engine `qbft` — abstract message / container types of the node's QBFT instance + controller.

Core Lean only (linked into the native driver `m_qbft`).

Abstraction (DESIGN §6):
* values and roots are natural-number ids, `hash` is the identity on ids; id `0` is the empty/nil value
  (`sha256("")` is interned as root id 0 by the harness), so "H(fullData) ≠ root" is `fullData ≠ root`;
* messages are three *stratified* structures, because the code never inspects more than
  proposal → round-change justifications → their prepare justifications:
  `Base` (a justification's justification), `Lvl1 = Base + List Base`, `Msg = Base + List Lvl1 + List Base + fullData`;
* `sigOk` is the result of the REAL `types.VerifyByOperators(sig, msg, domain, QBFTSignatureType, committee)`
  on the real message, computed by the harness (never by construction);
* `malformed` = the real `Message.Validate()` fails while unmarshalling one of the two justification lists;
* `ident`: 0 = empty identifier, 1 = the identifier of the instance/controller under test, ≥ 2 = foreign;
* `mid` is an interned id of the whole signed message without full data (signature, signers, message): it is only
  ever compared for equality / printed (identity of a received message inside containers and justifications);
  messages created by the node itself carry `mid = 0`.
-/
import Ssv.Gen.Qbft

namespace Ssv.Qbft

/-- message types as the Go `MessageType uint64` (values ≥ 4 are "message type is invalid") -/
abbrev tProposal : Nat := Gen.qbft_ProposalMsgType
abbrev tPrepare : Nat := Gen.qbft_PrepareMsgType
abbrev tCommit : Nat := Gen.qbft_CommitMsgType
abbrev tRoundChange : Nat := Gen.qbft_RoundChangeMsgType
abbrev noRound : Nat := Gen.qbft_NoRound
abbrev firstRound : Nat := Gen.qbft_FirstRound
abbrev firstHeight : Nat := Gen.qbft_FirstHeight

/-- what the code reads of a signed message that sits two levels deep (a prepare inside a round-change inside a proposal) -/
structure Base where
  type : Nat
  height : Nat
  round : Nat
  ident : Nat
  root : Nat
  dataRound : Nat
  signers : List Nat
  sigOk : Bool
  malformed : Bool
  mid : Nat
  deriving DecidableEq, Repr, Inhabited

/-- a signed message one level deep (round-change inside a proposal, or prepare inside a round-change / proposal);
    `just` = its decoded `RoundChangeJustification` -/
structure Lvl1 extends Base where
  just : List Base
  deriving DecidableEq, Repr, Inhabited

/-- a delivered signed message: `rcJust` = decoded `RoundChangeJustification`, `prepJust` = decoded `PrepareJustification`,
    `fullData` = value id of `FullData` (0 = empty) -/
structure Msg extends Base where
  rcJust : List Lvl1
  prepJust : List Base
  fullData : Nat
  deriving DecidableEq, Repr, Inhabited

def Msg.toLvl1 (m : Msg) : Lvl1 := { m.toBase with just := m.rcJust.map (·.toBase) }

/-- `Message.RoundChangePrepared()` -/
def Base.rcPrepared (b : Base) : Bool := b.type == tRoundChange && b.dataRound != noRound

/-- the fields that make up the signed `Message` (its hash-tree-root): two commits aggregate only if these agree.
    Justification lists are compared through the `mid`s of their members. -/
def Msg.sameSignedMessage (a b : Msg) : Bool :=
  a.type == b.type && a.height == b.height && a.round == b.round && a.ident == b.ident &&
  a.root == b.root && a.dataRound == b.dataRound &&
  a.rcJust.map (·.mid) == b.rcJust.map (·.mid) && a.prepJust.map (·.mid) == b.prepJust.map (·.mid)

/-- one guard = one atom; a tag is the chain of `errors.Wrap` contexts, outermost first -/
inductive Atom
  | stopped              -- "instance stopped processing messages"
  | stoppedTimeouts      -- "instance stopped processing timeouts"
  | invalidSigned        -- wrap "invalid signed message"
  | signersEmpty         -- "message signers is empty"
  | nonUniqueSigner      -- "non unique signer"
  | signerZero           -- "signer ID 0 not allowed"
  | identEmpty           -- "message identifier is invalid"
  | unmarshal            -- justification list does not unmarshal
  | typeInvalid          -- "message type is invalid"
  | pastRound            -- "past round"
  | typeNotSupported     -- "signed message type not supported"
  | notProposal          -- "msg type is not proposal"
  | wrongHeight          -- "wrong msg height"
  | oneSigner            -- "msg allows 1 signer"
  | sigInvalid           -- wrap "msg signature invalid" (inner detail dropped)
  | leaderInvalid        -- "proposal leader invalid"
  | proposalInvalid      -- wrap "proposal invalid"
  | hashMismatch         -- "H(data) != root"
  | notJustified         -- wrap "proposal not justified"
  | valueInvalid         -- wrap "proposal fullData invalid" (inner detail dropped)
  | rcNotValid           -- wrap "change round msg not valid"
  | rcNoQuorum           -- "change round has no quorum"
  | prepNoQuorum         -- "prepares has no quorum"
  | noHighestPrepared    -- "no highest prepared"
  | notHighestPrepared   -- "proposed data doesn't match highest prepared"
  | prepareNotValid      -- "signed prepare not valid"
  | notValidWithState    -- "proposal is not valid with current state"
  | noProposal           -- "did not receive proposal for this round"
  | notPrepare           -- "prepare msg type is wrong"
  | wrongRound           -- "wrong msg round"
  | wrongMsgIdentifier   -- "wrong msg identifier" (embedded justification for another instance; fix e1612ceed)
  | prepareInvalid       -- wrap "prepareData invalid"
  | dataMismatch         -- "proposed data mistmatch"
  | notCommit            -- "commit msg type is wrong"
  | commitInvalid        -- wrap "signed commit invalid"
  | notRoundChange       -- "round change msg type is wrong"
  | roundChangeInvalid   -- wrap "roundChange invalid"
  | rcJustInvalid        -- wrap "round change justification invalid"
  | noJustQuorum         -- "no justifications quorum"
  | preparedGtRound      -- "prepared round > round"
  | bcastPrepareFailed   -- wrap "failed to broadcast prepare message"
  | bcastCommitFailed    -- wrap "failed to broadcast commit message"
  | bcastProposalFailed  -- wrap "failed to broadcast proposal message"
  | bcastRoundChangeFailed -- wrap "failed to broadcast round change message"
  | aggregateFailed      -- wrap "could not aggregate commit msgs"
  | aggregateOne         -- wrap "could not aggregate commit msg"
  | aggregateZero        -- "can't aggregate zero commit msgs"
  | notProposer          -- "not proposer" (never surfaces: only nil-ness is inspected)
  | roundMismatch        -- "proposal round mismatch" (never surfaces)
  | rootsNotEqual        -- "can't aggregate, roots not equal"
  | duplicateSigners     -- "duplicate signers"
  -- controller
  | invalidMsg           -- wrap "invalid msg"
  | wrongIdentifier      -- "message doesn't belong to Identifier"
  | futureMsg            -- "future msg from height, could not process"
  | instanceNotFound     -- "instance not found"
  | couldNotProcess      -- wrap "could not process msg"
  | invalidDecided       -- wrap "invalid decided msg"
  | notDecided           -- "not a decided msg"
  | invalidDecided2      -- wrap "invalid decided" (second Validate call)
  | startValueInvalid    -- wrap "value invalid" (inner detail dropped)
  | pastHeight           -- "attempting to start an instance with a past height"
  | alreadyRunning       -- "instance already running"
  | instanceNil          -- "instance is nil"
  deriving DecidableEq, Repr, Inhabited

abbrev Tag := List Atom

/-- committee / share / configuration of the instance under test. `valCheck` and `proposer` are parameters
    (`proposer h r = none` ⇔ the Go proposer function panics). -/
structure Cfg where
  committee : List Nat
  quorum : Nat
  partialQuorum : Nat
  own : Nat
  ident : Nat
  cutoff : Nat
  capacity : Nat
  valCheck : Nat → Bool
  proposer : Nat → Nat → Option Nat

/-- the value check as the node applies it. Modelling assumption: the configured check never accepts the empty
    value (true of every role's value check, which decodes a `ConsensusData`). -/
def Cfg.valOk (cfg : Cfg) (v : Nat) : Bool := v != 0 && cfg.valCheck v

/-! ### unique-signer counting (`HasQuorum`, `HasPartialQuorum`) -/

/-- distinct elements (same as Mathlib's `List.dedup`: keeps last occurrences) -/
def uniq : List Nat → List Nat
  | [] => []
  | a :: l => if a ∈ l then uniq l else a :: uniq l

def uniqueCount (l : List Nat) : Nat := (uniq l).length

/-- `specqbft.HasQuorum(share, msgs)` on the concatenated signer lists of `msgs` -/
def Cfg.hasQuorum (cfg : Cfg) (signers : List Nat) : Bool := cfg.quorum ≤ uniqueCount signers
def Cfg.hasPartialQuorum (cfg : Cfg) (signers : List Nat) : Bool := cfg.partialQuorum ≤ uniqueCount signers

def signersOf (ms : List Msg) : List Nat := ms.flatMap (·.signers)
def signersOfB (ms : List Base) : List Nat := ms.flatMap (·.signers)
def signersOfL (ms : List Lvl1) : List Nat := ms.flatMap (·.signers)

/-! ### message containers

`specqbft.MsgContainer` is `map[Round][]*SignedMessage`; every message is stored under its own round, so the model
keeps one list in arrival order and `forRound` filters. (`AllMessaged` iterates the Go map in random order; both its
users, `HasPartialQuorum` and `minRound`, are order-independent.) -/

abbrev Container := List Msg

def forRound (c : Container) (r : Nat) : List Msg := c.filter (·.round == r)

/-- `SignedMessage.MatchedSigners(ids)` of receiver `signers`: same length and every own signer occurs in `ids` -/
def matchedSigners (signers ids : List Nat) : Bool :=
  signers.length == ids.length && signers.all (fun s => ids.contains s)

/-- `SignedMessage.CommonSigners(ids)` -/
def commonSigners (signers ids : List Nat) : Bool := signers.any (fun s => ids.contains s)

/-- `AddFirstMsgForSignerAndRound`: (container, added?) -/
def addFirst (c : Container) (m : Msg) : Container × Bool :=
  if (forRound c m.round).any (fun e => matchedSigners e.signers m.signers) then (c, false) else (c ++ [m], true)

/-- `AddMsg` -/
def addMsg (c : Container) (m : Msg) : Container := c ++ [m]

/-- inner loop of `LongestUniqueSignersForRoundAndRoot`: greedily extend (msgs, signers) with signer-disjoint messages -/
def greedyDisjoint (acc : List Msg) (sg : List Nat) : List Msg → List Msg × List Nat
  | [] => (acc, sg)
  | m :: rest =>
    if commonSigners m.signers sg then greedyDisjoint acc sg rest
    else greedyDisjoint (acc ++ [m]) (sg ++ m.signers) rest

/-- outer loop on the messages of the round that carry the root: the earliest start index with the longest signer list wins -/
def longestFrom : List Msg → List Nat × List Msg
  | [] => ([], [])
  | m :: rest =>
    let cur := greedyDisjoint [m] m.signers rest
    let later := longestFrom rest
    if cur.2.length < later.1.length then later else (cur.2, cur.1)

/-- `LongestUniqueSignersForRoundAndRoot(round, root)` = (signers, msgs) -/
def longestUniqueSigners (c : Container) (round root : Nat) : List Nat × List Msg :=
  longestFrom ((forRound c round).filter (·.root == root))

end Ssv.Qbft
