/- Line-protocol helpers shared by the native model drivers (core Lean only). -/
namespace Ssv.Wire

def hexNib (c : Char) : Option Nat :=
  if '0' ≤ c ∧ c ≤ '9' then some (c.toNat - 48)
  else if 'a' ≤ c ∧ c ≤ 'f' then some (c.toNat - 87)
  else none

/-- "-" is the empty byte string; otherwise lower-case hex, two chars per byte -/
def unhex (s : String) : Option (List Nat) :=
  if s = "-" then some [] else
  let rec go : List Char → Option (List Nat)
    | [] => some []
    | [_] => none
    | a :: b :: rest => do
      let x ← hexNib a; let y ← hexNib b; let r ← go rest
      pure ((x * 16 + y) :: r)
  go s.toList

def nibChar (n : Nat) : Char := if n < 10 then Char.ofNat (48 + n) else Char.ofNat (87 + n)

def hex (l : List Nat) : String :=
  if l.isEmpty then "-" else String.ofList (l.flatMap fun b => [nibChar (b / 16 % 16), nibChar (b % 16)])

def words (line : String) : List String :=
  (line.splitOn " ").filter (· ≠ "") |>.map fun w => (w.trimAscii).toString

/-- read stdin line by line, print `f line` for each -/
partial def loopLines (h : IO.FS.Stream) (out : IO.FS.Stream) (f : String → String) : IO Unit := do
  let line ← h.getLine
  if line.isEmpty then return ()
  out.putStrLn (f (line.trimAscii).toString)
  loopLines h out f

/-- stateful variant -/
partial def loopState {σ : Type} (h : IO.FS.Stream) (out : IO.FS.Stream) (s : σ) (f : σ → String → σ × String) : IO Unit := do
  let line ← h.getLine
  if line.isEmpty then return ()
  let (s', o) := f s (line.trimAscii).toString
  out.putStrLn o
  loopState h out s' f

def kv (ws : List String) (k : String) : Option String :=
  ws.findSome? fun w => if w.startsWith (k ++ "=") then some ((w.drop (k.length + 1)).toString) else none

end Ssv.Wire
