/- Go integer conversions used by the generated arithmetic kernels (core Lean only). -/
namespace Ssv.Gen

/-- Go `int(x)` / `int64(x)` for an unsigned 64-bit `x`: two's-complement reinterpretation -/
def toInt64 (x : Int) : Int := if x < 9223372036854775808 then x else x - 18446744073709551616

/-- Go `uint64(x)` for a signed `x`: reduction modulo 2^64 -/
def toUint64 (x : Int) : Int := x % 18446744073709551616

theorem toInt64_of_lt (x : Int) (h0 : 0 ≤ x) (h : x < 9223372036854775808) : toInt64 x = x := by
  simp [toInt64, h]

theorem toUint64_of_range (x : Int) (h0 : 0 ≤ x) (h : x < 18446744073709551616) : toUint64 x = x := by
  unfold toUint64; omega

end Ssv.Gen
