import Ssv.Proofs.QbftCert
set_option linter.unusedSimpArgs false
namespace Ssv.Qbft

theorem type_cases (m : Msg) (h : m.type ≤ tRoundChange) :
    m.type = tProposal ∨ m.type = tPrepare ∨ m.type = tCommit ∨ m.type = tRoundChange := by
  have : m.type ≤ 3 := h
  have e0 : tProposal = 0 := rfl
  have e1 : tPrepare = 1 := rfl
  have e2 : tCommit = 2 := rfl
  have e3 : tRoundChange = 3 := rfl
  omega

/-- `ProcessMsg` keeps the instance invariant, and an aggregate it returns is a valid certificate for the accepted proposal -/
theorem processMsg_inv (cfg : Cfg) (s : State) (m : Msg) (hinv : InstInv cfg s) (hid : m.ident = cfg.ident) :
    InstInv cfg (processMsg cfg s m).st ∧ (processMsg cfg s m).st.height = s.height ∧
    ∀ d v agg, (processMsg cfg s m).res = .ok d v (some agg) → LocalDecision cfg s agg := by
  unfold processMsg
  split
  · exact ⟨hinv, rfl, by intro d v a h; simp at h⟩
  · cases hval : wrap Atom.invalidSigned (baseMsgValidation cfg s m) with
    | error f =>
      simp only
      exact ⟨by rw [failStep_st]; exact hinv, by rw [failStep_st], fun d v a h => absurd h (failStep_noAgg _ _ _ d v a)⟩
    | ok u =>
      have hbv : baseMsgValidation cfg s m = .ok u := by simpa using hval
      simp only
      by_cases h0 : m.type = tProposal
      · have e0 : (m.type == tProposal) = true := by rw [h0]; decide
        simp only [e0, if_true]
        have hgp := isValidProposal_ok cfg s m () (baseMsgValidation_proposal cfg s m u h0 hbv)
        obtain ⟨f1, f2, f3, f4, f5⟩ := uponProposal_frame cfg s m
        refine ⟨⟨?_, ?_⟩, f3, fun d v a h => absurd h (f4 d v a)⟩
        · rw [f1, f3]; exact hinv.commits
        · intro q hq
          rw [f3, f2]
          rcases f5 with ⟨fa, fr⟩ | ⟨fa, fr⟩
          · rw [fa] at hq; rw [fr]; exact hinv.accepted q hq
          · rw [fa] at hq; simp at hq; subst hq
            exact ⟨hgp, fun _ => fr.symm⟩
      · have e0 : (m.type == tProposal) = false := by simpa using h0
        simp only [e0, Bool.false_eq_true, if_false]
        by_cases h1 : m.type = tPrepare
        · have e1 : (m.type == tPrepare) = true := by rw [h1]; decide
          simp only [e1, if_true]
          obtain ⟨f1, f2, f3, f4, f5, f6⟩ := uponPrepare_frame cfg s m
          refine ⟨⟨?_, ?_⟩, f4, fun d v a h => absurd h (f6 d v a)⟩
          · rw [f1, f4]; exact hinv.commits
          · intro q hq; rw [f2] at hq; rw [f4, f3, f5]; exact hinv.accepted q hq
        · have e1 : (m.type == tPrepare) = false := by simpa using h1
          simp only [e1, Bool.false_eq_true, if_false]
          by_cases h2 : m.type = tCommit
          · have e2 : (m.type == tCommit) = true := by rw [h2]; decide
            simp only [e2, if_true]
            obtain ⟨p, hacc, hvc⟩ := baseMsgValidation_commit cfg s m u h2 hbv
            exact uponCommit_inv cfg s m p hinv hacc hvc hid
          · have e2 : (m.type == tCommit) = false := by simpa using h2
            simp only [e2, Bool.false_eq_true, if_false]
            split
            · obtain ⟨f1, f2, f3, f4, f5⟩ := uponRoundChange_frame cfg s m
              refine ⟨⟨?_, ?_⟩, f3, fun d v a h => absurd h (f4 d v a)⟩
              · rw [f1, f3]; exact hinv.commits
              · intro q hq
                rcases f5 with ⟨fa, fr⟩ | fa
                · rw [fa] at hq; rw [f3, f2, fr]; exact hinv.accepted q hq
                · rw [fa] at hq; simp at hq
            · exact ⟨hinv, rfl, by intro d v a h; simp at h⟩

/-- a timeout keeps the invariant (it only clears the accepted proposal and bumps the round) -/
theorem uponRoundTimeout_inv (cfg : Cfg) (s : State) (hinv : InstInv cfg s) :
    InstInv cfg (uponRoundTimeout cfg s).st ∧ (uponRoundTimeout cfg s).st.height = s.height := by
  unfold uponRoundTimeout
  split
  · exact ⟨hinv, rfl⟩
  · simp only
    have hS : InstInv cfg { s with round := s.round + 1, accepted := none } := ⟨hinv.commits, by intro q hq; simp at hq⟩
    split
    · exact ⟨hS, rfl⟩
    · rw [failStep_st]; exact ⟨hS, rfl⟩

/-- compaction keeps the invariant (it only removes messages) -/
theorem compact_inv (cfg : Cfg) (s : State) (hinv : InstInv cfg s) : InstInv cfg (compact s) ∧ (compact s).height = s.height := by
  refine ⟨⟨?_, hinv.accepted⟩, rfl⟩
  intro m hm
  have : m ∈ s.commit := by
    simp only [compact, compactWith, compactContainerEdit] at hm
    split at hm
    · exact hm
    · simp at hm; exact hm.1
  exact hinv.commits m this
end Ssv.Qbft
