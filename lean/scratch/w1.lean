import Ssv.Model.Qbft.Run
open Ssv.Qbft

def wcfg : Cfg :=
  { committee := [1,2,3,4], quorum := 3, partialQuorum := 2, own := 2, ident := 1, cutoff := 15, capacity := Ssv.Gen.qbft_InstanceContainerDefaultCapacity,
    valCheck := fun _ => true, proposer := fun h r => roundRobinProposer [1,2,3,4] h r }

def mk (t r root : Nat) (signers : List Nat) (mid full : Nat) : Msg :=
  { type := t, height := 0, round := r, ident := 1, root := root, dataRound := 0, signers := signers, sigOk := true,
    malformed := false, mid := mid, rcJust := [], prepJust := [], fullData := full }

def V := 2
def V' := 3
def witness : List COp :=
  [ .start 0 V,
    .deliver (mk tProposal 1 V [1] 10 V),
    .deliver (mk tPrepare 1 V [1] 11 0), .deliver (mk tPrepare 1 V [3] 12 0), .deliver (mk tPrepare 1 V [4] 13 0),
    .timeout 0 1 ] ++
  runnerDeliver (mk tCommit 1 V [1,3,4] 14 V) ++
  [ .deliver (mk tProposal 1 V' [1] 20 V') ]

#eval (runC wcfg newController witness).2.map (fun o => (repr o.res, o.outs.length))
#eval (runC wcfg newController (witness.filter (!·.isCompaction))).2.map (fun o => (repr o.res, o.outs.length))
set_option maxRecDepth 100000 in
example : (runC wcfg newController witness).2 ≠ (runC wcfg newController (witness.filter (!·.isCompaction))).2 := by decide +kernel
