import Ssv.Proofs.QbftFaultFree
set_option linter.unusedSimpArgs false
namespace Ssv.Qbft

theorem uniq_of_nodup (l : List Nat) (h : l.Nodup) : uniq l = l := by
  induction l with
  | nil => rfl
  | cons a l ih =>
    have ⟨ha, hl⟩ := List.nodup_cons.1 h
    simp [uniq, ha, ih hl]

theorem uniqueCount_of_nodup (l : List Nat) (h : l.Nodup) : uniqueCount l = l.length := by
  unfold uniqueCount; rw [uniq_of_nodup l h]

theorem signersOf_map_single (f : Nat → Msg) (hf : ∀ j, (f j).signers = [j]) (l : List Nat) : signersOf (l.map f) = l := by
  induction l with
  | nil => rfl
  | cons a l ih =>
    simp only [signersOf, List.map_cons, List.flatMap_cons, hf] at ih ⊢
    simp [ih]

theorem forRound_map_all (f : Nat → Msg) (r : Nat) (hf : ∀ j, (f j).round = r) (l : List Nat) : forRound (l.map f) r = l.map f := by
  unfold forRound
  apply List.filter_eq_self.2
  intro m hm
  obtain ⟨j, _, rfl⟩ := List.mem_map.1 hm
  simp [hf]

theorem addFirst_map_single (f : Nat → Msg) (r : Nat) (hf : ∀ j, (f j).signers = [j]) (hr : ∀ j, (f j).round = r)
    (l : List Nat) (j : Nat) (hj : j ∉ l) : addFirst (l.map f) (f j) = (l.map f ++ [f j], true) := by
  unfold addFirst
  rw [hr j, forRound_map_all f r hr l]
  have : (l.map f).any (fun e => matchedSigners e.signers (f j).signers) = false := by
    rw [List.any_eq_false]
    intro m hm
    obtain ⟨x, hx, rfl⟩ := List.mem_map.1 hm
    simp only [hf, matchedSigners, List.length_singleton, beq_self_eq_true, List.all_cons, List.all_nil, Bool.and_true, Bool.true_and]
    intro hc
    simp at hc
    exact hj (hc ▸ hx)
  simp [this]

/-- the state of an operator that has received the prepares of the operators `done` (in that order) -/
def ffPrepared (cfg : Cfg) (h L v vi : Nat) (done : List Nat) : State :=
  { ffProposed cfg h L v vi with
    prepare := done.map (ffPrepare cfg h v),
    lastPreparedRound := if cfg.quorum ≤ done.length then firstRound else noRound,
    lastPreparedValue := if cfg.quorum ≤ done.length then v else 0 }

/-- step 2: the k-th prepare of a new committee member is recorded; exactly the one that completes the quorum makes the
    operator lock (1, v) and broadcast its commit -/
theorem ff_prepare_step (cfg : Cfg) (h L v vi : Nat) (ff : FF cfg h L v) (done : List Nat) (j : Nat)
    (hnd : (done ++ [j]).Nodup) (hin : ∀ x ∈ done ++ [j], x ∈ cfg.committee) :
    processMsg cfg (ffPrepared cfg h L v vi done) (ffPrepare cfg h v j) =
      ⟨ffPrepared cfg h L v vi (done ++ [j]),
       if done.length + 1 = cfg.quorum then [.bcast (ffCommit cfg h v cfg.own)] else [], .ok false 0 none⟩ := by
  have hjin : j ∈ cfg.committee := hin j (by simp)
  have hj0 : j ≠ 0 := ff_ne_zero ff hjin
  have hjnot : j ∉ done := by
    have := List.nodup_append.1 hnd
    intro hmem
    exact this.2.2 j hmem j (by simp) rfl
  have hdnd : done.Nodup := (List.nodup_append.1 hnd).1
  have hcp : canProcess cfg (ffPrepared cfg h L v vi done) = true := canProcess_round1 cfg _ ff.cutoff rfl rfl
  have hsv : signedValidate (ffPrepare cfg h v j).toBase = .ok () :=
    signedValidate_single _ j rfl hj0 ff.identNZ rfl (by show tPrepare ≤ tRoundChange; decide)
  have hvs : cfg.verifySig (ffPrepare cfg h v j).toBase = true := verifySig_single cfg _ j rfl hjin rfl
  have hvp : validSignedPrepare cfg (ffPrepare cfg h v j).toBase h firstRound (hashData v) = .ok () := by
    unfold validSignedPrepare
    have e1 : (ffPrepare cfg h v j).type = tPrepare := rfl
    have e2 : (ffPrepare cfg h v j).height = h := rfl
    have e3 : (ffPrepare cfg h v j).round = firstRound := rfl
    have e4 : (ffPrepare cfg h v j).root = hashData v := rfl
    have e5 : (ffPrepare cfg h v j).signers = [j] := rfl
    simp only [e1, e2, e3, e4, e5, hsv, hvs, rejectIf, wrap, bne_self_eq_false, Bool.not_true, Bool.false_eq_true, if_false,
      List.length_singleton, bind, Except.bind, pure, Except.pure]
  have hbv : baseMsgValidation cfg (ffPrepared cfg h L v vi done) (ffPrepare cfg h v j) = .ok () := by
    unfold baseMsgValidation
    have e0 : ((ffPrepare cfg h v j).type == tProposal) = false := by show (tPrepare == tProposal) = false; decide
    have e1 : ((ffPrepare cfg h v j).type == tPrepare) = true := rfl
    have e2 : decide ((ffPrepare cfg h v j).round < firstRound) = false := by
      show decide (firstRound < firstRound) = false; decide
    have e3 : (ffPrepared cfg h L v vi done).accepted = some (ffProposal cfg h L v) := rfl
    have e4 : (ffPrepared cfg h L v vi done).height = h := rfl
    have e5 : (ffPrepared cfg h L v vi done).round = firstRound := rfl
    have e6 : (ffProposal cfg h L v).root = hashData v := rfl
    simp only [hsv, wrap, e0, e1, e2, e3, e4, e5, e6, hvp, rejectIf, bind, Except.bind, pure, Except.pure, if_true, Bool.false_eq_true, if_false]
  unfold processMsg
  have e0 : ((ffPrepare cfg h v j).type == tProposal) = false := by show (tPrepare == tProposal) = false; decide
  have e1 : ((ffPrepare cfg h v j).type == tPrepare) = true := rfl
  simp only [hcp, Bool.not_true, Bool.false_eq_true, if_false, hbv, wrap, e0, e1, if_true]
  unfold uponPrepare
  have hsig : ∀ x, (ffPrepare cfg h v x).signers = [x] := fun _ => rfl
  have hrnd : ∀ x, (ffPrepare cfg h v x).round = firstRound := fun _ => rfl
  have hadd : addFirst (ffPrepared cfg h L v vi done).prepare (ffPrepare cfg h v j) =
      (done.map (ffPrepare cfg h v) ++ [ffPrepare cfg h v j], true) := addFirst_map_single _ firstRound hsig hrnd done j hjnot
  have hfr0 : forRound (ffPrepared cfg h L v vi done).prepare (ffPrepared cfg h L v vi done).round = done.map (ffPrepare cfg h v) :=
    forRound_map_all _ firstRound hrnd done
  have hfr1 : forRound (done.map (ffPrepare cfg h v) ++ [ffPrepare cfg h v j]) (ffPrepared cfg h L v vi done).round =
      (done ++ [j]).map (ffPrepare cfg h v) := by
    have := forRound_map_all (ffPrepare cfg h v) firstRound hrnd (done ++ [j])
    simp only [List.map_append, List.map_cons, List.map_nil] at this ⊢
    exact this
  have hq0 : cfg.hasQuorum (signersOf (done.map (ffPrepare cfg h v))) = decide (cfg.quorum ≤ done.length) := by
    unfold Cfg.hasQuorum; rw [signersOf_map_single _ hsig, uniqueCount_of_nodup _ hdnd]
  have hq1 : cfg.hasQuorum (signersOf ((done ++ [j]).map (ffPrepare cfg h v))) = decide (cfg.quorum ≤ done.length + 1) := by
    unfold Cfg.hasQuorum; rw [signersOf_map_single _ hsig, uniqueCount_of_nodup _ hnd]; simp
  simp only [hadd, hfr0, hfr1, hq0, hq1, Bool.not_true, Bool.false_eq_true, if_false]
  have hlen : (done ++ [j]).length = done.length + 1 := by simp
  rcases Nat.lt_trichotomy (done.length + 1) cfg.quorum with hlt | heq | hgt
  · -- no quorum yet
    have a1 : ¬ cfg.quorum ≤ done.length := by omega
    have a2 : ¬ cfg.quorum ≤ done.length + 1 := by omega
    have a3 : ¬ done.length + 1 = cfg.quorum := by omega
    simp only [a1, a2, a3, decide_false, Bool.false_eq_true, if_false, Bool.not_false, if_true]
    simp only [okStep, ffPrepared, hlen, a1, a2, if_false, List.map_append, List.map_cons, List.map_nil]
    rfl
  · -- this prepare completes the quorum
    have a1 : ¬ cfg.quorum ≤ done.length := by omega
    have a2 : cfg.quorum ≤ done.length + 1 := by omega
    have a3 : done.length + 1 = cfg.quorum := heq
    simp only [a1, a2, a3, decide_false, decide_true, Bool.false_eq_true, if_false, Bool.not_true, if_true, Nat.le_refl]
    have hacc : (ffPrepared cfg h L v vi done).accepted = some (ffProposal cfg h L v) := rfl
    simp only [hacc]
    unfold sendOr
    have hcp2 : ∀ s : State, s.round = firstRound → s.forceStop = false → canProcess cfg s = true :=
      fun s hr hf => canProcess_round1 cfg s ff.cutoff hr hf
    simp only [broadcast]
    rw [hcp2 _ rfl rfl]
    simp only [if_true, wrap, okStep, List.nil_append]
    simp only [ffPrepared, hlen, a1, a2, if_false, if_true, List.map_append, List.map_cons, List.map_nil]
    rfl
  · -- the quorum was reached earlier
    have a1 : cfg.quorum ≤ done.length := by omega
    have a2 : cfg.quorum ≤ done.length + 1 := by omega
    have a3 : ¬ done.length + 1 = cfg.quorum := by omega
    simp only [a1, a3, decide_true, if_true, if_false]
    simp only [okStep, ffPrepared, hlen, a1, a2, if_true, List.map_append, List.map_cons, List.map_nil]
    rfl
end Ssv.Qbft
