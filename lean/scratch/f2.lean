import Ssv.Proofs.QbftFaultFree
set_option linter.unusedSimpArgs false
namespace Ssv.Qbft

/-- the state after the leader's proposal was accepted -/
def ffProposed (cfg : Cfg) (h L v vi : Nat) : State :=
  { ffStarted h vi with propose := [ffProposal cfg h L v], accepted := some (ffProposal cfg h L v) }

theorem ff_ne_zero {cfg : Cfg} {h L v j : Nat} (ff : FF cfg h L v) (hj : j ∈ cfg.committee) : j ≠ 0 := by
  intro e; subst e; exact ff.nozero hj

/-- step 1: a started operator accepts the leader's proposal and answers with its prepare -/
theorem ff_accept_proposal (cfg : Cfg) (h L v vi : Nat) (ff : FF cfg h L v) :
    processMsg cfg (ffStarted h vi) (ffProposal cfg h L v) =
      ⟨ffProposed cfg h L v vi, [.bcast (ffPrepare cfg h v cfg.own)], .ok false 0 none⟩ := by
  have hcp : canProcess cfg (ffStarted h vi) = true := canProcess_round1 cfg _ ff.cutoff rfl rfl
  have hL0 : L ≠ 0 := ff_ne_zero ff ff.leaderIn
  have hsv : signedValidate (ffProposal cfg h L v).toBase = .ok () :=
    signedValidate_single _ L rfl hL0 ff.identNZ rfl (by show tProposal ≤ tRoundChange; decide)
  have hvs : cfg.verifySig (ffProposal cfg h L v).toBase = true := verifySig_single cfg _ L rfl ff.leaderIn rfl
  have hms : matchedSigners [L] [L] = true := by simp [matchedSigners]
  have hval : isValidProposal cfg (ffStarted h vi) (ffProposal cfg h L v) = .ok () := by
    unfold isValidProposal
    have e1 : (ffProposal cfg h L v).type = tProposal := rfl
    have e2 : (ffProposal cfg h L v).height = (ffStarted h vi).height := rfl
    have e3 : (ffProposal cfg h L v).signers = [L] := rfl
    have e4 : (ffProposal cfg h L v).round = firstRound := rfl
    have e5 : (ffStarted h vi).height = h := rfl
    have e6 : (ffProposal cfg h L v).fullData = v := rfl
    have e7 : (ffProposal cfg h L v).root = hashData v := rfl
    have hj : isProposalJustification cfg h (ffProposal cfg h L v).rcJust (ffProposal cfg h L v).prepJust h firstRound v = .ok () := by
      unfold isProposalJustification
      simp [rejectIf, ff.value]
    simp only [e1, e2, e3, e4, e5, e6, e7, hvs, ff.leader, hms, hsv, hj, rejectIf, wrap, bne_self_eq_false, Bool.not_true,
      Bool.false_eq_true, if_false, List.length_singleton, bind, Except.bind, pure, Except.pure]
    simp [ffStarted, newInstance]
  have hbv : baseMsgValidation cfg (ffStarted h vi) (ffProposal cfg h L v) = .ok () := by
    unfold baseMsgValidation
    have e1 : ((ffProposal cfg h L v).type == tProposal) = true := rfl
    have e2 : decide ((ffProposal cfg h L v).round < (ffStarted h vi).round) = false := by show decide (firstRound < firstRound) = false; decide
    simp only [hsv, wrap, e1, e2, hval, rejectIf, bind, Except.bind, pure, Except.pure, if_true, Bool.false_eq_true, if_false]
  unfold processMsg
  have e1 : ((ffProposal cfg h L v).type == tProposal) = true := rfl
  simp only [hcp, Bool.not_true, Bool.false_eq_true, if_false, hbv, wrap, e1, if_true]
  unfold uponProposal
  have hadd : addFirst (ffStarted h vi).propose (ffProposal cfg h L v) = ([ffProposal cfg h L v], true) := by
    simp [addFirst, ffStarted, newInstance, forRound]
  simp only [hadd, Bool.not_true, Bool.false_eq_true, if_false]
  have hr : ¬ ((ffProposal cfg h L v).round > (ffStarted h vi).round) := by show ¬ (firstRound > firstRound); decide
  simp only [hr, if_false]
  unfold sendOr
  have hcp2 : canProcess cfg { ffStarted h vi with propose := [ffProposal cfg h L v], accepted := some (ffProposal cfg h L v), round := (ffProposal cfg h L v).round } = true :=
    canProcess_round1 cfg _ ff.cutoff rfl rfl
  simp only [broadcast, hcp2, if_true, wrap]
  rfl
end Ssv.Qbft
