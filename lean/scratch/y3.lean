import Ssv.Model.Qbft.System
open Ssv.Qbft

/-- operators 1..n, operator i starts with value 100+i -/
def ffInit (n q pq h : Nat) : Sys := Sys.init n q pq h ((List.range n).map (fun i => (i + 1, 101 + i)))

/-- the round-1 leader's value -/
def ffLeaderValue (n h : Nat) : Nat := 101 + h % n

def ffOk (n q pq h : Nat) : Bool := ((ffInit n q pq h).flush 12).allDecided (ffLeaderValue n h) &&
  ((ffInit n q pq h).flush 12).nodes.all (fun nd => match instOf nd h with | some i => i.round == 1 | none => false)

set_option maxRecDepth 100000 in
example : (List.range 4).all (fun h => ffOk 4 3 2 h) = true := by decide +kernel
set_option maxRecDepth 100000 in
example : (List.range 7).all (fun h => ffOk 7 5 3 h) = true := by decide +kernel
set_option maxRecDepth 100000 in
example : (List.range 10).all (fun h => ffOk 10 7 4 h) = true := by decide +kernel
set_option maxRecDepth 100000 in
example : (List.range 13).all (fun h => ffOk 13 9 5 h) = true := by decide +kernel
