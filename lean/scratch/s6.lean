import Ssv.Proofs.QbftCompact
namespace Ssv.Qbft

theorem baseMsgValidation_withC (cfg : Cfg) (s : State) (P Pr C RC : Container) (m : Msg) :
    baseMsgValidation cfg (withC s P Pr C RC) m = baseMsgValidation cfg s m := rfl

/-- an accepted message is never for a past round -/
theorem baseMsgValidation_round (cfg : Cfg) (s : State) (m : Msg) (u : Unit)
    (h : wrap Atom.invalidSigned (baseMsgValidation cfg s m) = .ok u) : s.round ≤ m.round := by
  apply Decidable.byContradiction
  intro hlt
  have hd : decide (m.round < s.round) = true := by simp; omega
  unfold baseMsgValidation at h
  cases hv : wrap Atom.invalidSigned (signedValidate m.toBase) with
  | error e =>
    simp only [hv, bind, Except.bind] at h
    cases e <;> simp [wrap] at h
  | ok v =>
    simp only [hv, bind, Except.bind, hd, rejectIf, fail, if_true] at h
    simp [wrap] at h

theorem processMsg_sim (cfg : Cfg) {s s' : State} (m : Msg) (h : Sim s s') (hwf : WF s) :
    StepSim (processMsg cfg s m) (processMsg cfg s' m) := by
  have hcp : canProcess cfg s' = canProcess cfg s := by
    obtain ⟨P, Pr, C, RC, rfl, _⟩ := h; rfl
  have hv : baseMsgValidation cfg s' m = baseMsgValidation cfg s m := by
    obtain ⟨P, Pr, C, RC, rfl, _⟩ := h; rfl
  unfold processMsg
  rw [hcp, hv]
  split
  · exact ⟨rfl, rfl, h, hwf⟩
  · cases hval : wrap Atom.invalidSigned (baseMsgValidation cfg s m) with
    | error f => exact failStep_sim h hwf [] f
    | ok u =>
      have hm := baseMsgValidation_round cfg s m u hval
      simp only
      split
      · exact uponProposal_sim cfg m h hm hwf
      · split
        · exact uponPrepare_sim cfg m h hm hwf
        · split
          · exact uponCommit_sim cfg m h hm hwf
          · split
            · exact uponRoundChange_sim cfg m h hm hwf
            · exact ⟨rfl, rfl, h, hwf⟩
end Ssv.Qbft
