import Ssv.Model.Qbft.Run
namespace Ssv.Qbft

/-! ### the validation monad -/

@[simp] theorem wrap_eq_ok {α : Type} (a : Atom) (x : V α) (u : α) : wrap a x = .ok u ↔ x = .ok u := by
  cases x with
  | ok v => simp [wrap]
  | error e => cases e <;> simp [wrap]

@[simp] theorem rejectIf_eq_ok (c : Bool) (a : Atom) (u : Unit) : rejectIf c a = .ok u ↔ c = false := by
  cases c <;> simp [rejectIf, fail, pure, Except.pure]

@[simp] theorem bind_eq_ok {α β : Type} (x : V α) (f : α → V β) (u : β) :
    (x >>= f) = .ok u ↔ ∃ v, x = .ok v ∧ f v = .ok u := by
  cases x with
  | ok v => simp [bind, Except.bind]
  | error e => simp [bind, Except.bind]

@[simp] theorem pure_eq_ok {α : Type} (a u : α) : (pure a : V α) = .ok u ↔ a = u := by
  simp [pure, Except.pure]

@[simp] theorem fail_ne_ok {α : Type} (a : Atom) (u : α) : (fail a : V α) ≠ .ok u := by
  simp [fail]

theorem validateSignersLoop_ok (seen l : List Nat) (u : Unit) (h : validateSignersLoop seen l = .ok u) :
    l.Nodup ∧ 0 ∉ l ∧ ∀ x ∈ l, x ∉ seen := by
  induction l generalizing seen with
  | nil => simp
  | cons s rest ih =>
    unfold validateSignersLoop at h
    split at h
    · simp at h
    · split at h
      · simp at h
      · rename_i h1 h2
        obtain ⟨hn, h0, hs⟩ := ih (s :: seen) h
        simp at h1 h2
        refine ⟨?_, ?_, ?_⟩
        · refine List.nodup_cons.2 ⟨?_, hn⟩
          intro hmem
          exact (hs s hmem) (List.mem_cons_self)
        · simp only [List.mem_cons, not_or]
          exact ⟨fun e => h2 e.symm, h0⟩
        · intro x hx
          rcases List.mem_cons.1 hx with rfl | hx
          · exact h1
          · intro hxs
            exact hs x hx (List.mem_cons_of_mem _ hxs)

theorem signedValidate_ok (b : Base) (u : Unit) (h : signedValidate b = .ok u) :
    b.signers ≠ [] ∧ b.signers.Nodup ∧ 0 ∉ b.signers ∧ b.ident ≠ 0 ∧ b.malformed = false ∧ b.type ≤ tRoundChange := by
  unfold signedValidate messageValidate at h
  simp at h
  obtain ⟨h1, ⟨x, h2⟩, h3, h4, h5⟩ := h
  obtain ⟨hn, h0, _⟩ := validateSignersLoop_ok [] b.signers x h2
  refine ⟨?_, hn, h0, h3, h4, by omega⟩
  intro e; simp [e] at h1

theorem verifySig_true (cfg : Cfg) (b : Base) (h : cfg.verifySig b = true) :
    b.sigOk = true ∧ ∀ s ∈ b.signers, s ∈ cfg.committee := by
  unfold Cfg.verifySig at h
  simp at h
  exact ⟨h.2, h.1⟩

/-- what `ValidateDecided` establishes -/
theorem validateDecided_ok (cfg : Cfg) (m : Msg) (u : Unit) (h : validateDecided cfg m = .ok u) :
    m.type = tCommit ∧ cfg.quorum ≤ m.signers.length ∧ m.signers.Nodup ∧ 0 ∉ m.signers ∧ m.sigOk = true ∧
    (∀ s ∈ m.signers, s ∈ cfg.committee) ∧ hashData m.fullData = m.root := by
  unfold validateDecided baseCommitValidation isDecidedMsg at h
  simp at h
  obtain ⟨⟨hq, ht⟩, ⟨x, hv⟩, ⟨_, _, hs⟩, _, hh⟩ := h
  obtain ⟨_, hn, h0, _⟩ := signedValidate_ok m.toBase x hv
  obtain ⟨hso, hc⟩ := verifySig_true cfg m.toBase hs
  exact ⟨ht, hq, hn, h0, hso, hc, hh⟩
end Ssv.Qbft
