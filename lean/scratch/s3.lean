import Ssv.Proofs.QbftCompact
namespace Ssv.Qbft

def withC (s : State) (P Pr C RC : Container) : State :=
  { s with propose := P, prepare := Pr, commit := C, roundChange := RC }

def Sim (s s' : State) : Prop :=
  ∃ P Pr C RC, s' = withC s P Pr C RC ∧ AgreeFrom s.round s.propose P ∧ AgreeFrom s.lastPreparedRound s.prepare Pr ∧
    AgreeFrom s.round s.commit C ∧ AgreeFrom s.round s.roundChange RC

def WF (s : State) : Prop := s.lastPreparedRound ≤ s.round

def StepSim (st st' : Step) : Prop := st'.outs = st.outs ∧ st'.res = st.res ∧ Sim st.st st'.st ∧ WF st.st

theorem okStep_sim {s s' : State} (h : Sim s s') (hw : WF s) (o : List Out) : StepSim (okStep s o) (okStep s' o) := by
  obtain ⟨P, Pr, C, RC, rfl, h⟩ := h
  exact ⟨rfl, rfl, ⟨P, Pr, C, RC, rfl, h⟩, hw⟩

theorem failStep_sim {s s' : State} (h : Sim s s') (hw : WF s) (o : List Out) (f : Fail) : StepSim (failStep s o f) (failStep s' o f) := by
  cases f <;> exact ⟨rfl, rfl, h, hw⟩

theorem sendOr_sim (cfg : Cfg) {s s' : State} (h : Sim s s') (hw : WF s) (a : Atom) (m : Msg) (pre : List Out) :
    StepSim (sendOr cfg s a m pre) (sendOr cfg s' a m pre) := by
  have e : broadcast cfg s' m = broadcast cfg s m := by
    obtain ⟨P, Pr, C, RC, rfl, _⟩ := h; rfl
  unfold sendOr
  rw [e]
  cases wrap a (broadcast cfg s m) with
  | ok o => exact okStep_sim h hw _
  | error f => exact failStep_sim h hw _ f

theorem uponPrepare_sim (cfg : Cfg) {s s' : State} (m : Msg) (h : Sim s s') (hm : s.round ≤ m.round) (hwf : WF s) :
    StepSim (uponPrepare cfg s m) (uponPrepare cfg s' m) := by
  obtain ⟨P, Pr, C, RC, rfl, hP, hPr, hC, hRC⟩ := h
  have hle : s.lastPreparedRound ≤ m.round := Nat.le_trans hwf hm
  have ha := agree_addFirst hPr m hle
  have hfr : forRound Pr s.round = forRound s.prepare s.round := agree_forRound hPr hwf
  unfold uponPrepare
  rcases hx : addFirst (withC s P Pr C RC).prepare m with ⟨P1, b⟩
  rcases hy : addFirst s.prepare m with ⟨P0, b0⟩
  have hx' : addFirst Pr m = (P1, b) := hx
  rw [hx', hy] at ha
  obtain ⟨hb, hag⟩ := ha
  simp only at hb hag
  subst hb
  have hfr1 : forRound P1 s.round = forRound P0 s.round := agree_forRound hag hwf
  simp only [withC, hfr, hfr1]
  cases b
  · simp only [Bool.not_false, if_true]
    exact okStep_sim ⟨P, Pr, C, RC, rfl, hP, hPr, hC, hRC⟩ hwf []
  · simp only [Bool.not_true, Bool.false_eq_true, if_false]
    have hS1 : Sim { s with prepare := P0 } { withC s P Pr C RC with prepare := P1 } := ⟨P, P1, C, RC, rfl, hP, hag, hC, hRC⟩
    split
    · exact okStep_sim hS1 hwf []
    · split
      · exact okStep_sim hS1 hwf []
      · cases hacc : s.accepted with
        | none => exact ⟨rfl, rfl, ⟨P, P1, C, RC, rfl, hP, hag, hC, hRC⟩, hwf⟩
        | some p =>
          simp only
          have hS2 : Sim { s with prepare := P0, lastPreparedValue := p.fullData, lastPreparedRound := s.round, accepted := some p }
              { withC s P Pr C RC with prepare := P1, lastPreparedValue := p.fullData, lastPreparedRound := s.round, accepted := some p } :=
            ⟨P, P1, C, RC, rfl, hP, hag.mono hwf, hC, hRC⟩
          exact sendOr_sim cfg hS2 (Nat.le_refl _) .bcastCommitFailed _ []
end Ssv.Qbft
