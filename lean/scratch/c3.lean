import Ssv.Proofs.QbftCert
namespace Ssv.Qbft

/-- a verifiable quorum certificate for the controller's identifier -/
structure ValidCert (cfg : Cfg) (m : Msg) : Prop where
  isCommit : m.type = tCommit
  sigOk : m.sigOk = true
  nodup : m.signers.Nodup
  nozero : 0 ∉ m.signers
  committee : ∀ s ∈ m.signers, s ∈ cfg.committee
  quorum : cfg.quorum ≤ m.signers.length
  hash : hashData m.fullData = m.root
  ident : m.ident = cfg.ident

theorem validCert_of_validateDecided (cfg : Cfg) (m : Msg) (h : validateDecided cfg m = .ok ()) (hi : m.ident = cfg.ident) :
    ValidCert cfg m := by
  obtain ⟨h1, h2, h3, h4, h5, h6, h7⟩ := validateDecided_ok cfg m () h
  exact ⟨h1, h5, h3, h4, h6, h2, h7, hi⟩

/-- a rejected decided message changes nothing and emits nothing -/
theorem uponDecided_rejected (cfg : Cfg) (c : Ctrl) (m : Msg) (h : validateDecided cfg m ≠ .ok ()) :
    (uponDecided cfg c m).ct = c ∧ (uponDecided cfg c m).outs = [] ∧ ∀ d, (uponDecided cfg c m).res ≠ .ok d := by
  unfold uponDecided
  cases hv : validateDecided cfg m with
  | ok u => exact absurd hv h
  | error e => cases e <;> simp [wrap]

theorem decidedSaveOuts_mem (c1 : Ctrl) (save : Bool) (m : Msg) (o : Out) (h : o ∈ decidedSaveOuts c1 save m) : o = .save m := by
  unfold decidedSaveOuts saveOuts at h
  split at h
  · split at h <;> simp at h
    exact h
  · simp at h

/-- an accepted decided message: every output and the returned message are the (validated) message itself -/
theorem uponDecided_accepted (cfg : Cfg) (c : Ctrl) (m : Msg) (h : validateDecided cfg m = .ok ()) :
    (∀ d, (uponDecided cfg c m).res = .ok (some d) → d = m) ∧
    (∀ o ∈ (uponDecided cfg c m).outs, o = .save m ∨ o = .notify m) := by
  unfold uponDecided
  simp only [h, wrap]
  constructor
  · intro d hd
    split at hd <;> simp at hd
    · exact hd.2.symm
    · exact hd.symm
  · intro o ho
    rcases List.mem_append.1 ho with ho | ho
    · left; exact decidedSaveOuts_mem _ _ _ _ ho
    · right; simpa using ho
end Ssv.Qbft
