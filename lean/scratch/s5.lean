import Ssv.Proofs.QbftCompact
namespace Ssv.Qbft

theorem isPJFLR_withC (cfg : Cfg) (s : State) (P Pr C RC : Container) (rcMsg : Msg) (rcs : List Msg) (v r : Nat) :
    isProposalJustificationForLeadingRound cfg (withC s P Pr C RC) rcMsg rcs v r =
      isProposalJustificationForLeadingRound cfg s rcMsg rcs v r := rfl

theorem findJustified_withC (cfg : Cfg) (s : State) (P Pr C RC : Container) (t : Msg) (rcs : List Msg) (l : List Msg) :
    findJustified cfg (withC s P Pr C RC) t rcs l = findJustified cfg s t rcs l := by
  induction l with
  | nil => rfl
  | cons m rest ih =>
    unfold findJustified
    have e : (withC s P Pr C RC).startValue = s.startValue := rfl
    simp only [isPJFLR_withC, ih, e]

theorem hasReceivedProposalJustification_sim (cfg : Cfg) {s s' : State} (h : Sim s s') (t : Msg) (ht : s.round ≤ t.round) :
    hasReceivedProposalJustification cfg s' t = hasReceivedProposalJustification cfg s t := by
  obtain ⟨P, Pr, C, RC, rfl, hP, hPr, hC, hRC⟩ := h
  have hfr : forRound RC t.round = forRound s.roundChange t.round := agree_forRound hRC ht
  unfold hasReceivedProposalJustification
  have := findJustified_withC cfg s P Pr C RC t (forRound s.roundChange t.round) (forRound s.roundChange t.round)
  simp only [withC] at hfr this ⊢
  simp only [hfr, this]

theorem uponChangeRoundPartialQuorum_sim (cfg : Cfg) {s s' : State} (h : Sim s s') (hwf : WF s) (newRound : Nat) (hn : s.round ≤ newRound) :
    StepSim (uponChangeRoundPartialQuorum cfg s newRound) (uponChangeRoundPartialQuorum cfg s' newRound) := by
  obtain ⟨P, Pr, C, RC, rfl, hP, hPr, hC, hRC⟩ := h
  have hS : Sim { s with round := newRound, accepted := none } { withC s P Pr C RC with round := newRound, accepted := none } :=
    ⟨P, Pr, C, RC, rfl, hP.mono hn, hPr, hC.mono hn, hRC.mono hn⟩
  have hw : WF { s with round := newRound, accepted := none } := Nat.le_trans hwf hn
  have hrc := createRoundChange_sim cfg hS newRound
  unfold uponChangeRoundPartialQuorum
  simp only [withC] at hrc ⊢
  rw [hrc]
  exact sendOr_sim cfg hS hw _ _ _

theorem uponRoundChange_sim (cfg : Cfg) {s s' : State} (m : Msg) (h : Sim s s') (hm : s.round ≤ m.round) (hwf : WF s) :
    StepSim (uponRoundChange cfg s m) (uponRoundChange cfg s' m) := by
  obtain ⟨P, Pr, C, RC, rfl, hP, hPr, hC, hRC⟩ := h
  have ha := agree_addFirst hRC m hm
  have hfr : forRound RC m.round = forRound s.roundChange m.round := agree_forRound hRC hm
  unfold uponRoundChange
  rcases hx : addFirst (withC s P Pr C RC).roundChange m with ⟨R1, b⟩
  rcases hy : addFirst s.roundChange m with ⟨R0, b0⟩
  have hx' : addFirst RC m = (R1, b) := hx
  rw [hx', hy] at ha
  obtain ⟨hb, hag⟩ := ha
  simp only at hb hag
  subst hb
  have hS1 : Sim { s with roundChange := R0 } { withC s P Pr C RC with roundChange := R1 } := ⟨P, Pr, C, R1, rfl, hP, hPr, hC, hag⟩
  have hw1 : WF { s with roundChange := R0 } := hwf
  have hj := hasReceivedProposalJustification_sim cfg hS1 m hm
  have hfr1 : forRound R1 s.round = forRound R0 s.round := agree_forRound hag (Nat.le_refl _)
  have hab : R1.filter (fun x => Nat.blt s.round x.round) = R0.filter (fun x => Nat.blt s.round x.round) :=
    agree_above hag (Nat.le_succ _)
  simp only [withC] at hj hfr ⊢
  simp only [hfr]
  cases b
  · simp only [Bool.not_false, if_true]
    exact okStep_sim ⟨P, Pr, C, RC, rfl, hP, hPr, hC, hRC⟩ hwf []
  · simp only [Bool.not_true, Bool.false_eq_true, if_false]
    split
    · exact okStep_sim hS1 hw1 []
    · simp only [hj, hfr1, hab]
      cases hasReceivedProposalJustification cfg { s with roundChange := R0 } m with
      | error f => exact failStep_sim hS1 hw1 [] f
      | ok r =>
        cases r with
        | some jv =>
          rcases jv with ⟨justified, value⟩
          simp only
          have hcp : createProposal cfg { withC s P Pr C RC with roundChange := R1 } value (forRound R0 s.round) justified.rcJust =
              createProposal cfg { s with roundChange := R0 } value (forRound R0 s.round) justified.rcJust := rfl
          simp only [withC] at hcp
          rw [hcp]
          exact sendOr_sim cfg hS1 hw1 _ _ _
        | none =>
          simp only [hab]
          split
          · split
            · exact okStep_sim hS1 hw1 []
            · rename_i hlt
              exact uponChangeRoundPartialQuorum_sim cfg hS1 hw1 _ (by simp only at hlt ⊢; omega)
          · exact okStep_sim hS1 hw1 []
end Ssv.Qbft
