import Ssv.Proofs.QbftFaultFree
set_option linter.unusedSimpArgs false
namespace Ssv.Qbft

theorem commonSigners_single_false (sg : List Nat) (x : Nat) (h : x ∉ sg) : commonSigners [x] sg = false := by
  simp [commonSigners, h]

theorem greedyDisjoint_all (f : Nat → Msg) (hf : ∀ j, (f j).signers = [j]) (acc : List Msg) (sg : List Nat) (l : List Nat)
    (hd : ∀ x ∈ l, x ∉ sg) (hn : l.Nodup) :
    greedyDisjoint acc sg (l.map f) = (acc ++ l.map f, sg ++ l) := by
  induction l generalizing acc sg with
  | nil => simp [greedyDisjoint]
  | cons a l ih =>
    have ⟨ha, hl⟩ := List.nodup_cons.1 hn
    simp only [List.map_cons, greedyDisjoint, hf]
    rw [commonSigners_single_false sg a (hd a (by simp))]
    simp only [Bool.false_eq_true, if_false]
    rw [ih (acc ++ [f a]) (sg ++ [a]) _ hl]
    · simp
    · intro x hx hxs
      rcases List.mem_append.1 hxs with h | h
      · exact hd x (List.mem_cons_of_mem _ hx) h
      · simp at h; subst h; exact ha hx

theorem longestFrom_all (f : Nat → Msg) (hf : ∀ j, (f j).signers = [j]) (l : List Nat) (hn : l.Nodup) :
    longestFrom (l.map f) = (l, l.map f) := by
  induction l with
  | nil => rfl
  | cons a l ih =>
    have ⟨ha, hl⟩ := List.nodup_cons.1 hn
    simp only [List.map_cons, longestFrom, hf]
    rw [greedyDisjoint_all f hf [f a] [a] l (by intro x hx hxa; simp at hxa; subst hxa; exact ha hx) hl, ih hl]
    simp

theorem aggregateLoop_all (cfg : Cfg) (h v : Nat) (ret : Msg) (l : List Nat)
    (hret : ∀ x, ret.sameSignedMessage (ffCommit cfg h v x) = true) (hd : ∀ x ∈ l, x ∉ ret.signers) (hn : l.Nodup) :
    aggregateLoop ret (l.map (ffCommit cfg h v)) =
      .ok { ret with signers := ret.signers ++ l, sigOk := ret.sigOk, mid := if l.isEmpty then ret.mid else 0 } := by
  induction l generalizing ret with
  | nil => simp [aggregateLoop, pure, Except.pure]
  | cons a l ih =>
    have ⟨ha, hl⟩ := List.nodup_cons.1 hn
    simp only [List.map_cons, aggregateLoop]
    have hc : commonSigners ret.signers (ffCommit cfg h v a).signers = false := by
      simp only [commonSigners, ffCommit, hMsg]
      rw [List.any_eq_false]
      intro s hs
      simp
      intro e; subst e; exact hd s (by simp) hs
    simp only [hc, Bool.false_eq_true, if_false, hret a, Bool.not_true]
    rw [ih]
    · simp [ffCommit, hMsg]
    · intro x; exact hret x
    · intro x hx hxs
      simp only [ffCommit, hMsg] at hxs
      rcases List.mem_append.1 hxs with h' | h'
      · exact hd x (List.mem_cons_of_mem _ hx) h'
      · simp at h'; subst h'; exact ha hx
    · exact hl
end Ssv.Qbft
