import Ssv.Model.Qbft.System
open Ssv.Qbft

def bMsg (own t r root dr full : Nat) (rcj : List Lvl1) : Msg :=
  { type := t, height := 0, round := r, ident := 1, root := root, dataRound := dr, signers := [own], sigOk := true,
    malformed := false, mid := 1000 + own * 10 + t, rcJust := rcj, prepJust := [], fullData := full }

def isT (t r : Nat) (m : Msg) : Bool := m.type == t && m.round == r && m.signers.length == 1

/-- A=1 (start V=5, leader of round 1), B=2, C=3 (start W=6); operator 4 Byzantine -/
def wedgePrefix : Sys :=
  let σ := Sys.init 4 3 2 0 [(1, 5), (2, 6), (3, 6)]
  -- round 1: everybody gets A's proposal; only A gets the prepares
  let σ := ((σ.deliverWhere 1 (isT tProposal 1)).deliverWhere 2 (isT tProposal 1)).deliverWhere 3 (isT tProposal 1)
  let σ := σ.deliverWhere 1 (isT tPrepare 1)
  -- B, C time out; with the Byzantine round-change they form a round-2 quorum without A
  let σ := (σ.apply 2 (.timeout 0 1)).apply 3 (.timeout 0 1)
  let σ := σ.inject (bMsg 4 tRoundChange 2 zeroRoot 0 0 []) [2, 3]
  let notA := fun (m : Msg) => isT tRoundChange 2 m && m.signers != [1]
  let σ := (σ.deliverWhere 2 notA).deliverWhere 3 notA
  -- B (leader of round 2) proposes W; B, C and the Byzantine prepare; B and C are prepared on (2,W)
  let σ := (σ.deliverWhere 2 (isT tProposal 2)).deliverWhere 3 (isT tProposal 2)
  let σ := σ.inject (bMsg 4 tPrepare 2 6 0 0 []) [2, 3]
  let σ := (σ.deliverWhere 2 (isT tPrepare 2)).deliverWhere 3 (isT tPrepare 2)
  let σ := (σ.deliverWhere 2 (isT tCommit 2)).deliverWhere 3 (isT tCommit 2)
  -- A's timer fires twice before any of this reaches it; B and C time out to round 3; operator 4 is silent from now on
  let σ := (σ.apply 1 (.timeout 0 1)).apply 1 (.timeout 0 2)
  (σ.apply 2 (.timeout 0 2)).apply 3 (.timeout 0 2)


set_option maxRecDepth 100000 in
example : (wedgePrefix.continuation 4 30).summary = [(1, 7, false, 0, 1, 5), (2, 7, false, 0, 2, 6), (3, 7, false, 0, 2, 6)] := by decide +kernel
