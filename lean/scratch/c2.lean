import Ssv.Proofs.QbftCert
namespace Ssv.Qbft

/-! ### sorting keeps the signer set -/

theorem insertSorted_perm (a : Nat) (l : List Nat) : (insertSorted a l).Perm (a :: l) := by
  induction l with
  | nil => exact List.Perm.refl _
  | cons b l ih =>
    unfold insertSorted
    split
    · exact List.Perm.refl _
    · exact (List.Perm.cons b ih).trans (List.Perm.swap a b l)

theorem sortNat_perm (l : List Nat) : (sortNat l).Perm l := by
  induction l with
  | nil => exact List.Perm.refl _
  | cons a l ih =>
    unfold sortNat
    exact (insertSorted_perm a (sortNat l)).trans (List.Perm.cons a ih)

/-! ### `LongestUniqueSignersForRoundAndRoot` -/

theorem commonSigners_false {a b : List Nat} (h : commonSigners a b = false) : ∀ x ∈ a, x ∉ b := by
  unfold commonSigners at h
  simp at h
  intro x hx hb
  exact h x hx hb

/-- invariant of the greedy extension: the signer list is the concatenation of the chosen messages' signers, stays
    duplicate-free, and every chosen message comes from the input -/
theorem greedyDisjoint_spec (P : Msg → Prop) (acc : List Msg) (sg : List Nat) (l : List Msg)
    (hsg : sg = signersOf acc) (hnd : sg.Nodup) (hacc : ∀ m ∈ acc, P m) (hl : ∀ m ∈ l, P m ∧ m.signers.Nodup) :
    let r := greedyDisjoint acc sg l
    r.2 = signersOf r.1 ∧ r.2.Nodup ∧ ∀ m ∈ r.1, P m := by
  induction l generalizing acc sg with
  | nil => exact ⟨hsg, hnd, hacc⟩
  | cons m rest ih =>
    unfold greedyDisjoint
    have hrest : ∀ x ∈ rest, P x ∧ x.signers.Nodup := fun x hx => hl x (List.mem_cons_of_mem _ hx)
    split
    · exact ih acc sg hsg hnd hacc hrest
    · rename_i hc
      have hc' : commonSigners m.signers sg = false := by simpa using hc
      have hm := hl m (List.mem_cons_self)
      apply ih (acc ++ [m]) (sg ++ m.signers)
      · simp [signersOf, hsg]
      · refine List.nodup_append.2 ⟨hnd, hm.2, ?_⟩
        intro a ha b hb hab
        subst hab
        exact commonSigners_false hc' a hb ha
      · intro x hx
        rcases List.mem_append.1 hx with hx | hx
        · exact hacc x hx
        · simp at hx; subst hx; exact hm.1
      · exact hrest

theorem longestFrom_spec (P : Msg → Prop) (l : List Msg) (hl : ∀ m ∈ l, P m ∧ m.signers.Nodup) :
    let r := longestFrom l
    r.1 = signersOf r.2 ∧ r.1.Nodup ∧ ∀ m ∈ r.2, P m := by
  induction l with
  | nil => simp [longestFrom, signersOf]
  | cons m rest ih =>
    have hrest : ∀ x ∈ rest, P x ∧ x.signers.Nodup := fun x hx => hl x (List.mem_cons_of_mem _ hx)
    have hm := hl m (List.mem_cons_self)
    unfold longestFrom
    simp only
    split
    · exact ih hrest
    · have := greedyDisjoint_spec P [m] m.signers rest (by simp [signersOf]) hm.2
        (by intro x hx; simp at hx; subst hx; exact hm.1) hrest
      exact this

theorem longestUniqueSigners_spec (P : Msg → Prop) (c : Container) (round root : Nat) (hc : ∀ m ∈ c, P m ∧ m.signers.Nodup) :
    let r := longestUniqueSigners c round root
    r.1 = signersOf r.2 ∧ r.1.Nodup ∧ ∀ m ∈ r.2, P m ∧ m.round = round ∧ m.root = root := by
  unfold longestUniqueSigners
  apply longestFrom_spec (fun m => P m ∧ m.round = round ∧ m.root = root)
  intro m hm
  have hm1 := List.mem_filter.1 hm
  have hm2 := List.mem_filter.1 hm1.1
  have hr : m.round = round := by simpa using hm2.2
  have hroot : m.root = root := by simpa using hm1.2
  exact ⟨⟨(hc m hm2.1).1, hr, hroot⟩, (hc m hm2.1).2⟩

/-! ### `aggregateCommitMsgs` -/

theorem aggregateLoop_spec (ret : Msg) (rest : List Msg) (r : Msg) (h : aggregateLoop ret rest = .ok r) :
    r.signers = ret.signers ++ signersOf rest ∧ r.type = ret.type ∧ r.height = ret.height ∧ r.round = ret.round ∧
    r.root = ret.root ∧ r.ident = ret.ident ∧ (r.sigOk = true ↔ ret.sigOk = true ∧ ∀ m ∈ rest, m.sigOk = true) := by
  induction rest generalizing ret with
  | nil =>
    simp [aggregateLoop] at h
    subst h
    simp [signersOf]
  | cons m rest ih =>
    unfold aggregateLoop at h
    split at h
    · simp [fail] at h
    · split at h
      · simp [fail] at h
      · have := ih _ h
        simp only at this
        obtain ⟨h1, h2, h3, h4, h5, h6, h7⟩ := this
        refine ⟨?_, h2, h3, h4, h5, h6, ?_⟩
        · simp [h1, signersOf]
        · rw [h7]
          simp
          constructor
          · rintro ⟨⟨a, b⟩, c⟩; exact ⟨a, b, c⟩
          · rintro ⟨a, b, c⟩; exact ⟨⟨a, b⟩, c⟩

theorem aggregateCommitMsgs_spec (msgs : List Msg) (fd : Nat) (agg : Msg) (h : aggregateCommitMsgs msgs fd = .ok agg) :
    ∃ m rest, msgs = m :: rest ∧ agg.signers = sortNat (signersOf msgs) ∧ agg.type = m.type ∧ agg.height = m.height ∧
      agg.round = m.round ∧ agg.root = m.root ∧ agg.ident = m.ident ∧ agg.fullData = fd ∧
      (agg.sigOk = true ↔ ∀ x ∈ msgs, x.sigOk = true) := by
  cases msgs with
  | nil => simp [aggregateCommitMsgs] at h
  | cons m rest =>
    refine ⟨m, rest, rfl, ?_⟩
    unfold aggregateCommitMsgs at h
    simp only [bind_eq_ok, pure_eq_ok] at h
    obtain ⟨r, hr, hagg⟩ := h
    obtain ⟨h1, h2, h3, h4, h5, h6, h7⟩ := aggregateLoop_spec _ rest r hr
    subst hagg
    simp only at h1 h2 h3 h4 h5 h6 h7 ⊢
    refine ⟨?_, h2, h3, h4, h5, h6, trivial, ?_⟩
    · rw [h1]; simp [signersOf]
    · rw [h7]; simp
end Ssv.Qbft
