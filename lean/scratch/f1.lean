import Ssv.Proofs.QbftCert
set_option linter.unusedSimpArgs false
namespace Ssv.Qbft

/-! ### the fault-free synchronous first round -/

/-- what the correct operators share in a fault-free run of height `h`: committee, quorum, identifier, cut-off, the
    round-1 leader `L` and its (valid) start value `v` -/
structure FF (cfg : Cfg) (h L v : Nat) : Prop where
  nodup : cfg.committee.Nodup
  nozero : 0 ∉ cfg.committee
  own : cfg.own ∈ cfg.committee
  identNZ : cfg.ident ≠ 0
  q1 : 1 ≤ cfg.quorum
  qn : cfg.quorum ≤ cfg.committee.length
  cutoff : 1 < cfg.cutoff
  leader : cfg.proposer h firstRound = some L
  leaderIn : L ∈ cfg.committee
  value : cfg.valOk v = true

/-- the message an honest operator `j` signs -/
def hMsg (cfg : Cfg) (j type h root full : Nat) : Msg :=
  { type := type, height := h, round := firstRound, ident := cfg.ident, root := root, dataRound := noRound,
    signers := [j], sigOk := true, malformed := false, mid := 0, rcJust := [], prepJust := [], fullData := full }

def ffProposal (cfg : Cfg) (h L v : Nat) : Msg := hMsg cfg L tProposal h (hashData v) v
def ffPrepare (cfg : Cfg) (h v j : Nat) : Msg := hMsg cfg j tPrepare h (hashData v) 0
def ffCommit (cfg : Cfg) (h v j : Nat) : Msg := hMsg cfg j tCommit h (hashData v) 0

/-- these are exactly the messages the model's operators create -/
theorem ffProposal_is_own (cfg : Cfg) (h v : Nat) (s : State) (hs : s.height = h) (hr : s.round = firstRound) :
    createProposal cfg s v [] [] = ffProposal cfg h cfg.own v := by
  simp [createProposal, ownMsg, ffProposal, hMsg, hs, hr]

theorem ffPrepare_is_own (cfg : Cfg) (h v : Nat) (s : State) (hs : s.height = h) :
    createPrepare cfg s firstRound (hashData v) = ffPrepare cfg h v cfg.own := by
  simp [createPrepare, ownMsg, ffPrepare, hMsg, hs]

theorem ffCommit_is_own (cfg : Cfg) (h v : Nat) (s : State) (hs : s.height = h) (hr : s.round = firstRound) :
    createCommit cfg s (hashData v) = ffCommit cfg h v cfg.own := by
  simp [createCommit, ownMsg, ffCommit, hMsg, hs, hr]

/-- the state of an operator right after `Start` -/
def ffStarted (h vi : Nat) : State :=
  { newInstance h with started := true, startValue := vi, round := firstRound, height := h }

theorem canProcess_round1 (cfg : Cfg) (s : State) (hc : 1 < cfg.cutoff) (hr : s.round = firstRound) (hf : s.forceStop = false) :
    canProcess cfg s = true := by
  unfold canProcess
  rw [hr, hf]
  have : toInt64 firstRound = 1 := by decide
  rw [this]
  simp
  try omega

theorem signedValidate_single (b : Base) (j : Nat) (hs : b.signers = [j]) (hj : j ≠ 0) (hi : b.ident ≠ 0) (hm : b.malformed = false)
    (ht : b.type ≤ tRoundChange) : signedValidate b = .ok () := by
  unfold signedValidate messageValidate
  have h1 : (j == 0) = false := by simpa using hj
  have h2 : (b.ident == 0) = false := by simpa using hi
  have h3 : decide (b.type > tRoundChange) = false := by simp; exact ht
  simp [hs, validateSignersLoop, rejectIf, h1, h2, hm, h3]

theorem verifySig_single (cfg : Cfg) (b : Base) (j : Nat) (hs : b.signers = [j]) (hj : j ∈ cfg.committee) (ho : b.sigOk = true) :
    cfg.verifySig b = true := by
  unfold Cfg.verifySig
  simp [hs, ho, hj]
end Ssv.Qbft
