import Ssv.Model.Qbft.System
open Ssv.Qbft
def ffInit (n q pq h : Nat) : Sys := Sys.init n q pq h ((List.range n).map (fun i => (i + 1, 101 + i)))
set_option maxRecDepth 100000 in
example : ((ffInit 4 3 2 0).flush 12).allDecided 101 = true := by decide +kernel
