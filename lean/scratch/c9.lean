import Ssv.Proofs.QbftCert
set_option linter.unusedSimpArgs false
namespace Ssv.Qbft

theorem uponExistingInstanceMsg_inv (cfg : Cfg) (c : Ctrl) (m : Msg) (hc : CtrlInv cfg c) (hid : m.ident = cfg.ident) :
    CtrlInv cfg (uponExistingInstanceMsg cfg c m).ct ∧ StepCerts cfg (uponExistingInstanceMsg cfg c m) := by
  unfold uponExistingInstanceMsg
  split
  · exact ⟨hc, by intro d h; simp at h, by intro o ho; simp at ho⟩
  · rename_i inst hf
    obtain ⟨hmem, _⟩ := findInstance_some hf
    obtain ⟨hinv, _, hdec⟩ := processMsg_inv cfg inst m (hc inst hmem) hid
    have hc1 := ctrlInv_update cfg c (processMsg cfg inst m).st hc hinv
    -- outputs of the instance never are controller-level decision outputs
    have houts : ∀ o ∈ (processMsg cfg inst m).outs, ∀ d, ¬ (o = .bcastDecided d ∨ o = .save d ∨ o = .notify d) := by
      intro o ho d hd
      sorry
    simp only
    split
    · exact ⟨hc1, by intro d h; simp at h, fun o ho d hd => absurd hd (houts o ho d)⟩
    · exact ⟨hc1, by intro d h; simp at h, fun o ho d hd => absurd hd (houts o ho d)⟩
    · rename_i decided v agg hres
      split
      · exact ⟨hc1, by intro d h; simp at h, fun o ho d hd => absurd hd (houts o ho d)⟩
      · split
        · exact ⟨hc1, by intro d h; simp at h, fun o ho d hd => absurd hd (houts o ho d)⟩
        · rename_i d0
          have hcert := (hdec decided v d0 hres).cert
          have ho : ∀ o ∈ (processMsg cfg inst m).outs ++ [Out.bcastDecided d0], ∀ d,
              (o = .bcastDecided d ∨ o = .save d ∨ o = .notify d) → ValidCert cfg d := by
            intro o ho d hd
            rcases List.mem_append.1 ho with ho | ho
            · exact absurd hd (houts o ho d)
            · simp at ho; subst ho
              rcases hd with hd | hd | hd <;> simp at hd
              exact hd ▸ hcert
          split
          · exact ⟨hc1, by intro d h; simp at h, ho⟩
          · exact ⟨hc1, by intro d h; simp at h; exact h ▸ hcert, ho⟩
end Ssv.Qbft
