import Ssv.Proofs.QbftFaultFree
set_option linter.unusedSimpArgs false
namespace Ssv.Qbft

/-- the state of an operator that has received all prepares and the commits of the operators `done` (in that order) -/
def ffCommitted (cfg : Cfg) (h L v vi : Nat) (done : List Nat) : State :=
  { ffPrepared cfg h L v vi cfg.committee with
    commit := done.map (ffCommit cfg h v),
    decided := decide (cfg.quorum ≤ done.length),
    decidedValue := if cfg.quorum ≤ done.length then v else 0 }

/-- the certificate aggregated from the commits of `l` -/
def ffAggregate (cfg : Cfg) (h v : Nat) (l : List Nat) : Msg :=
  { ffCommit cfg h v 0 with signers := sortNat l, fullData := v }

theorem aggregate_ff (cfg : Cfg) (h v : Nat) (a : Nat) (l : List Nat) (hn : (a :: l).Nodup) :
    aggregateCommitMsgs ((a :: l).map (ffCommit cfg h v)) v = .ok (ffAggregate cfg h v (a :: l)) := by
  have ⟨ha, hl⟩ := List.nodup_cons.1 hn
  simp only [List.map_cons, aggregateCommitMsgs]
  rw [aggregateLoop_all cfg h v _ l (by intro x; simp [Msg.sameSignedMessage, ffCommit, hMsg]) (by intro x hx hxs; simp [ffCommit, hMsg] at hxs; subst hxs; exact ha hx) hl]
  simp [bind, Except.bind, pure, Except.pure, ffAggregate, ffCommit, hMsg]

/-- step 3: the k-th commit of a new committee member is recorded; from the one that completes the quorum on, `ProcessMsg`
    reports the decision with the aggregated certificate -/
theorem ff_commit_step (cfg : Cfg) (h L v vi : Nat) (ff : FF cfg h L v) (done : List Nat) (j : Nat)
    (hnd : (done ++ [j]).Nodup) (hin : ∀ x ∈ done ++ [j], x ∈ cfg.committee) :
    processMsg cfg (ffCommitted cfg h L v vi done) (ffCommit cfg h v j) =
      ⟨ffCommitted cfg h L v vi (done ++ [j]), [],
       if cfg.quorum ≤ done.length + 1 then .ok true v (some (ffAggregate cfg h v (done ++ [j])))
       else .ok false 0 none⟩ := by
  have hjin : j ∈ cfg.committee := hin j (by simp)
  have hj0 : j ≠ 0 := ff_ne_zero ff hjin
  have hjnot : j ∉ done := by
    have := List.nodup_append.1 hnd
    intro hmem
    exact this.2.2 j hmem j (by simp) rfl
  have hcp : canProcess cfg (ffCommitted cfg h L v vi done) = true := canProcess_round1 cfg _ ff.cutoff rfl rfl
  have hsv : signedValidate (ffCommit cfg h v j).toBase = .ok () :=
    signedValidate_single _ j rfl hj0 ff.identNZ rfl (by show tCommit ≤ tRoundChange; decide)
  have hvs : cfg.verifySig (ffCommit cfg h v j).toBase = true := verifySig_single cfg _ j rfl hjin rfl
  have hvc : validateCommit cfg (ffCommit cfg h v j).toBase h firstRound (ffProposal cfg h L v) = .ok () := by
    unfold validateCommit baseCommitValidation
    have e1 : (ffCommit cfg h v j).type = tCommit := rfl
    have e2 : (ffCommit cfg h v j).height = h := rfl
    have e3 : (ffCommit cfg h v j).round = firstRound := rfl
    have e4 : (ffCommit cfg h v j).root = hashData v := rfl
    have e5 : (ffCommit cfg h v j).signers = [j] := rfl
    have e6 : (ffProposal cfg h L v).root = hashData v := rfl
    simp only [e1, e2, e3, e4, e5, e6, hsv, hvs, rejectIf, wrap, bne_self_eq_false, Bool.not_true, Bool.false_eq_true, if_false,
      List.length_singleton, bind, Except.bind, pure, Except.pure]
  have hbv : baseMsgValidation cfg (ffCommitted cfg h L v vi done) (ffCommit cfg h v j) = .ok () := by
    unfold baseMsgValidation
    have e0 : ((ffCommit cfg h v j).type == tProposal) = false := by show (tCommit == tProposal) = false; decide
    have e1 : ((ffCommit cfg h v j).type == tPrepare) = false := by show (tCommit == tPrepare) = false; decide
    have e1' : ((ffCommit cfg h v j).type == tCommit) = true := rfl
    have e2 : decide ((ffCommit cfg h v j).round < firstRound) = false := by
      show decide (firstRound < firstRound) = false; decide
    have e3 : (ffCommitted cfg h L v vi done).accepted = some (ffProposal cfg h L v) := rfl
    have e4 : (ffCommitted cfg h L v vi done).height = h := rfl
    have e5 : (ffCommitted cfg h L v vi done).round = firstRound := rfl
    simp only [hsv, wrap, e0, e1, e1', e2, e3, e4, e5, hvc, rejectIf, bind, Except.bind, pure, Except.pure, if_true, Bool.false_eq_true, if_false]
  unfold processMsg
  have e0 : ((ffCommit cfg h v j).type == tProposal) = false := by show (tCommit == tProposal) = false; decide
  have e1 : ((ffCommit cfg h v j).type == tPrepare) = false := by show (tCommit == tPrepare) = false; decide
  have e1' : ((ffCommit cfg h v j).type == tCommit) = true := rfl
  simp only [hcp, Bool.not_true, Bool.false_eq_true, if_false, hbv, wrap, e0, e1, e1', if_true]
  unfold uponCommit
  have hsig : ∀ x, (ffCommit cfg h v x).signers = [x] := fun _ => rfl
  have hrnd : ∀ x, (ffCommit cfg h v x).round = firstRound := fun _ => rfl
  have hadd : addFirst (ffCommitted cfg h L v vi done).commit (ffCommit cfg h v j) =
      (done.map (ffCommit cfg h v) ++ [ffCommit cfg h v j], true) := addFirst_map_single _ firstRound hsig hrnd done j hjnot
  have hlong : longestUniqueSigners (done.map (ffCommit cfg h v) ++ [ffCommit cfg h v j]) (ffCommit cfg h v j).round (ffCommit cfg h v j).root =
      (done ++ [j], (done ++ [j]).map (ffCommit cfg h v)) := by
    unfold longestUniqueSigners
    have e : done.map (ffCommit cfg h v) ++ [ffCommit cfg h v j] = (done ++ [j]).map (ffCommit cfg h v) := by simp
    rw [e, hrnd j, forRound_map_all _ firstRound hrnd]
    have hfil : ((done ++ [j]).map (ffCommit cfg h v)).filter (fun m => m.root == (ffCommit cfg h v j).root) = (done ++ [j]).map (ffCommit cfg h v) := by
      apply List.filter_eq_self.2
      intro m hm
      obtain ⟨x, _, rfl⟩ := List.mem_map.1 hm
      simp [ffCommit, hMsg]
    rw [hfil, longestFrom_all _ hsig _ hnd]
  have hacc : (ffCommitted cfg h L v vi done).accepted = some (ffProposal cfg h L v) := rfl
  have hlen : (done ++ [j]).length = done.length + 1 := by simp
  simp only [hadd, hlong, hacc, Bool.not_true, Bool.false_eq_true, if_false, hlen]
  by_cases hq : cfg.quorum ≤ done.length + 1
  · have hfd : (ffProposal cfg h L v).fullData = v := rfl
    have hne : ∃ a l, done ++ [j] = a :: l := by
      cases done with
      | nil => exact ⟨j, [], rfl⟩
      | cons a l => exact ⟨a, l ++ [j], rfl⟩
    obtain ⟨a, l, hal⟩ := hne
    have hagg : aggregateCommitMsgs ((done ++ [j]).map (ffCommit cfg h v)) v = .ok (ffAggregate cfg h v (done ++ [j])) := by
      rw [hal]; exact aggregate_ff cfg h v a l (hal ▸ hnd)
    simp only [hq, decide_true, Bool.not_true, Bool.false_eq_true, if_false, hfd, hagg, wrap, if_true]
    simp only [ffCommitted, hlen, hq, decide_true, if_true, List.map_append, List.map_cons, List.map_nil]
    rfl
  · simp only [hq, decide_false, Bool.not_false, if_true, if_false]
    have hq' : ¬ cfg.quorum ≤ done.length := by omega
    simp only [okStep, ffCommitted, hlen, hq, hq', decide_false, if_false, List.map_append, List.map_cons, List.map_nil]
    rfl
end Ssv.Qbft
