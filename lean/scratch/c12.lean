import Ssv.Proofs.QbftCert
set_option linter.unusedSimpArgs false
namespace Ssv.Qbft

/-- the stored pointer semantics: writing back the instance that was found changes nothing -/
theorem updateInstance_self {l : List State} {h : Nat} {i : State} (hf : findInstance l h = some i) : updateInstance l i = l := by
  induction l with
  | nil => simp [findInstance] at hf
  | cons e rest ih =>
    unfold findInstance at hf
    simp only [List.find?] at hf
    by_cases he : (e.height == h) = true
    · simp only [he] at hf
      simp at hf
      subst hf
      unfold updateInstance
      simp
    · simp only [he] at hf
      have hi : i.height = h := (findInstance_some (l := rest) hf).2
      unfold updateInstance
      have : (e.height == i.height) = false := by rw [hi]; simpa using he
      simp only [this, Bool.false_eq_true, if_false]
      rw [ih hf]

/-- a message that fails the instance's validation leaves the instance untouched and produces nothing -/
theorem processMsg_rejected (cfg : Cfg) (s : State) (m : Msg) (h : ∀ u, baseMsgValidation cfg s m ≠ .ok u) :
    (processMsg cfg s m).st = s ∧ (processMsg cfg s m).outs = [] ∧ ∀ d v a, (processMsg cfg s m).res ≠ .ok d v a := by
  unfold processMsg
  split
  · exact ⟨rfl, rfl, by intro d v a; simp⟩
  · cases hv : wrap Atom.invalidSigned (baseMsgValidation cfg s m) with
    | ok u => exact absurd (by simpa using hv) (h u)
    | error f => cases f <;> exact ⟨rfl, rfl, by intro d v a; simp [failStep]⟩

/-- a commit that lists several signers but fewer than a quorum is rejected by every instance -/
theorem multiSigner_commit_invalid (cfg : Cfg) (s : State) (m : Msg) (ht : m.type = tCommit) (hl : m.signers.length ≠ 1) :
    ∀ u, baseMsgValidation cfg s m ≠ .ok u := by
  intro u hu
  obtain ⟨p, _, hv⟩ := baseMsgValidation_commit cfg s m u ht hu
  have := (validateCommit_ok cfg m.toBase s.height s.round p () hv).2.2.2.2.2.2.2.2
  exact hl this

/-- a controller step that neither changes the controller, nor emits anything, nor reports a decision -/
def Ignored (c : Ctrl) (st : CStep) : Prop := st.ct = c ∧ st.outs = [] ∧ ∀ d, st.res ≠ .ok d

theorem uponExisting_rejected (cfg : Cfg) (c : Ctrl) (m : Msg) (h : ∀ s u, baseMsgValidation cfg s m ≠ .ok u) :
    Ignored c (uponExistingInstanceMsg cfg c m) := by
  unfold uponExistingInstanceMsg
  split
  · exact ⟨rfl, rfl, by intro d; simp⟩
  · rename_i inst hf
    obtain ⟨h1, h2, h3⟩ := processMsg_rejected cfg inst m (h inst)
    have hu : updateInstance c.insts (processMsg cfg inst m).st = c.insts := by rw [h1]; exact updateInstance_self hf
    simp only [h2, hu]
    split
    · exact ⟨rfl, rfl, by intro d; simp⟩
    · exact ⟨rfl, rfl, by intro d; simp⟩
    · rename_i d v a hres
      exact absurd hres (h3 d v a)

theorem ctrl_subquorum_commit_ignored (cfg : Cfg) (c : Ctrl) (m : Msg) (ht : m.type = tCommit)
    (h2 : 2 ≤ m.signers.length) (hq : m.signers.length < cfg.quorum) : Ignored c (c.processMsg cfg m) := by
  unfold Ctrl.processMsg
  have hnd : isDecidedMsg cfg m = false := by
    unfold isDecidedMsg
    have : ¬ cfg.quorum ≤ m.signers.length := by omega
    simp [this]
  split
  · exact ⟨rfl, rfl, by intro d; simp⟩
  · simp only [hnd, Bool.false_eq_true, if_false]
    split
    · exact ⟨rfl, rfl, by intro d; simp⟩
    · exact uponExisting_rejected cfg c m (fun s => multiSigner_commit_invalid cfg s m ht (by omega))

/-- a decided-looking message (commit type, at least quorum listed signers, right identifier) that fails `ValidateDecided` -/
theorem ctrl_invalid_decided_ignored (cfg : Cfg) (c : Ctrl) (m : Msg) (hd : isDecidedMsg cfg m = true)
    (hv : validateDecided cfg m ≠ .ok ()) : Ignored c (c.processMsg cfg m) := by
  unfold Ctrl.processMsg
  split
  · exact ⟨rfl, rfl, by intro d; simp⟩
  · exact uponDecided_rejected cfg c m hv

theorem ctrl_wrong_ident_ignored (cfg : Cfg) (c : Ctrl) (m : Msg) (hi : m.ident ≠ cfg.ident) : Ignored c (c.processMsg cfg m) := by
  unfold Ctrl.processMsg
  have : (m.ident != cfg.ident) = true := by simpa using hi
  simp only [this, if_true]
  exact ⟨rfl, rfl, by intro d; simp⟩

/-- first local report: the aggregate is a certificate for the proposal the instance had accepted from the round leader -/
theorem uponExisting_local (cfg : Cfg) (c : Ctrl) (m : Msg) (hc : CtrlInv cfg c) (hid : m.ident = cfg.ident) (d : Msg)
    (h : (uponExistingInstanceMsg cfg c m).res = .ok (some d)) :
    ∃ inst, findInstance c.insts m.height = some inst ∧ inst.decided = false ∧ LocalDecision cfg inst d := by
  unfold uponExistingInstanceMsg at h
  split at h
  · simp at h
  · rename_i inst hf
    obtain ⟨hmem, _⟩ := findInstance_some hf
    obtain ⟨_, _, hdec⟩ := processMsg_inv cfg inst m (hc inst hmem) hid
    simp only at h
    split at h
    · simp at h
    · simp at h
    · rename_i decided v agg hres
      split at h
      · simp at h
      · split at h
        · simp at h
        · rename_i d0
          split at h
          · simp at h
          · rename_i hprev
            simp at h
            subst h
            exact ⟨inst, hf, by simpa using hprev, hdec decided v d0 hres⟩
end Ssv.Qbft
