import Ssv.Proofs.QbftCompact
namespace Ssv.Qbft

theorem uponCommit_sim (cfg : Cfg) {s s' : State} (m : Msg) (h : Sim s s') (hm : s.round ≤ m.round) (hwf : WF s) :
    StepSim (uponCommit cfg s m) (uponCommit cfg s' m) := by
  obtain ⟨P, Pr, C, RC, rfl, hP, hPr, hC, hRC⟩ := h
  have ha := agree_addFirst hC m hm
  unfold uponCommit
  rcases hx : addFirst (withC s P Pr C RC).commit m with ⟨C1, b⟩
  rcases hy : addFirst s.commit m with ⟨C0, b0⟩
  have hx' : addFirst C m = (C1, b) := hx
  rw [hx', hy] at ha
  obtain ⟨hb, hag⟩ := ha
  simp only at hb hag
  subst hb
  have hl : longestUniqueSigners C1 m.round m.root = longestUniqueSigners C0 m.round m.root := agree_longest hag hm _
  simp only [withC, hl]
  cases b
  · simp only [Bool.not_false, if_true]
    exact okStep_sim ⟨P, Pr, C, RC, rfl, hP, hPr, hC, hRC⟩ hwf []
  · simp only [Bool.not_true, Bool.false_eq_true, if_false]
    rcases longestUniqueSigners C0 m.round m.root with ⟨signers, msgs⟩
    simp only
    have hS0 : Sim { s with commit := C0 } { withC s P Pr C RC with commit := C1 } := ⟨P, Pr, C1, RC, rfl, hP, hPr, hag, hRC⟩
    split
    · exact okStep_sim hS0 hwf []
    · cases hacc : s.accepted with
      | none =>
        have hS : Sim { s with commit := C0, accepted := none } { withC s P Pr C RC with commit := C1, accepted := none } :=
          ⟨P, Pr, C1, RC, rfl, hP, hPr, hag, hRC⟩
        exact ⟨rfl, rfl, hS, hwf⟩
      | some p =>
        simp only
        cases wrap Atom.aggregateFailed (aggregateCommitMsgs msgs p.fullData) with
        | error f =>
          have hS : Sim { s with commit := C0, accepted := some p } { withC s P Pr C RC with commit := C1, accepted := some p } :=
            ⟨P, Pr, C1, RC, rfl, hP, hPr, hag, hRC⟩
          exact failStep_sim hS hwf [] f
        | ok agg =>
          have hS : Sim { s with commit := C0, accepted := some p, decided := true, decidedValue := p.fullData }
              { withC s P Pr C RC with commit := C1, accepted := some p, decided := true, decidedValue := p.fullData } :=
            ⟨P, Pr, C1, RC, rfl, hP, hPr, hag, hRC⟩
          exact ⟨rfl, rfl, hS, hwf⟩

theorem createRoundChange_sim (cfg : Cfg) {s s' : State} (h : Sim s s') (r : Nat) :
    createRoundChange cfg s' r = createRoundChange cfg s r := by
  obtain ⟨P, Pr, C, RC, rfl, hP, hPr, hC, hRC⟩ := h
  have hfr : forRound Pr s.lastPreparedRound = forRound s.prepare s.lastPreparedRound := agree_forRound hPr (Nat.le_refl _)
  unfold createRoundChange getRoundChangeJustification
  simp only [withC, hfr]

theorem uponRoundTimeout_sim (cfg : Cfg) {s s' : State} (h : Sim s s') (hwf : WF s) :
    StepSim (uponRoundTimeout cfg s) (uponRoundTimeout cfg s') := by
  have hrc := createRoundChange_sim cfg h (s.round + 1)
  obtain ⟨P, Pr, C, RC, rfl, hP, hPr, hC, hRC⟩ := h
  unfold uponRoundTimeout
  have hcp : canProcess cfg (withC s P Pr C RC) = canProcess cfg s := rfl
  have hb : ∀ m, broadcast cfg (withC s P Pr C RC) m = broadcast cfg s m := fun _ => rfl
  rw [hcp]
  split
  · exact ⟨rfl, rfl, ⟨P, Pr, C, RC, rfl, hP, hPr, hC, hRC⟩, hwf⟩
  · simp only [withC] at hrc ⊢
    rw [hrc]
    have hS : Sim { s with round := s.round + 1, accepted := none } { withC s P Pr C RC with round := s.round + 1, accepted := none } :=
      ⟨P, Pr, C, RC, rfl, hP.mono (Nat.le_succ _), hPr, hC.mono (Nat.le_succ _), hRC.mono (Nat.le_succ _)⟩
    have hw : WF { s with round := s.round + 1, accepted := none } := Nat.le_trans hwf (Nat.le_succ _)
    have hb' := hb (createRoundChange cfg s (s.round + 1))
    simp only [withC] at hb'
    rw [hb']
    cases wrap Atom.bcastRoundChangeFailed (broadcast cfg s (createRoundChange cfg s (s.round + 1))) with
    | ok o => exact okStep_sim hS hw _
    | error f => exact failStep_sim hS hw _ f
end Ssv.Qbft
