import Ssv.Proofs.QbftCompact
namespace Ssv.Qbft

def withC (s : State) (P Pr C RC : Container) : State :=
  { s with propose := P, prepare := Pr, commit := C, roundChange := RC }

def Sim (s s' : State) : Prop :=
  ∃ P Pr C RC, s' = withC s P Pr C RC ∧ AgreeFrom s.round s.propose P ∧ AgreeFrom s.lastPreparedRound s.prepare Pr ∧
    AgreeFrom s.round s.commit C ∧ AgreeFrom s.round s.roundChange RC

def StepSim (st st' : Step) : Prop := st'.outs = st.outs ∧ st'.res = st.res ∧ Sim st.st st'.st

theorem Sim.refl (s : State) : Sim s s := ⟨s.propose, s.prepare, s.commit, s.roundChange, rfl, rfl, rfl, rfl, rfl⟩

theorem okStep_sim {s s' : State} (h : Sim s s') (o : List Out) : StepSim (okStep s o) (okStep s' o) := by
  obtain ⟨P, Pr, C, RC, rfl, h⟩ := h
  exact ⟨rfl, rfl, P, Pr, C, RC, rfl, h⟩

theorem failStep_sim {s s' : State} (h : Sim s s') (o : List Out) (f : Fail) : StepSim (failStep s o f) (failStep s' o f) := by
  cases f <;> exact ⟨rfl, rfl, h⟩

theorem sendOr_sim (cfg : Cfg) {s s' : State} (h : Sim s s') (a : Atom) (m : Msg) (pre : List Out) :
    StepSim (sendOr cfg s a m pre) (sendOr cfg s' a m pre) := by
  have e : broadcast cfg s' m = broadcast cfg s m := by
    obtain ⟨P, Pr, C, RC, rfl, _⟩ := h; rfl
  unfold sendOr
  rw [e]
  cases wrap a (broadcast cfg s m) with
  | ok o => exact okStep_sim h _
  | error f => exact failStep_sim h _ f

theorem uponProposal_sim (cfg : Cfg) {s s' : State} (m : Msg) (h : Sim s s') (hm : s.round ≤ m.round)
    (hwf : s.lastPreparedRound ≤ s.round) :
    StepSim (uponProposal cfg s m) (uponProposal cfg s' m) := by
  obtain ⟨P, Pr, C, RC, rfl, hP, hPr, hC, hRC⟩ := h
  have ha := agree_addFirst hP m hm
  unfold uponProposal
  rcases hx : addFirst (withC s P Pr C RC).propose m with ⟨P1, b⟩
  rcases hy : addFirst s.propose m with ⟨P0, b0⟩
  have hx' : addFirst P m = (P1, b) := hx
  rw [hx', hy] at ha
  obtain ⟨hb, hag⟩ := ha
  simp only at hb hag
  subst hb
  simp only
  cases b
  · simp only [Bool.not_false, if_true]
    exact okStep_sim ⟨P, Pr, C, RC, rfl, hP, hPr, hC, hRC⟩ []
  · simp only [Bool.not_true, Bool.false_eq_true, if_false]
    have hS : Sim { s with propose := P0, accepted := some m, round := m.round }
        { withC s P Pr C RC with propose := P1, accepted := some m, round := m.round } :=
      ⟨P1, Pr, C, RC, rfl, hag.mono hm, hPr, hC.mono hm, hRC.mono hm⟩
    have := sendOr_sim cfg hS .bcastPrepareFailed (createPrepare cfg { s with propose := P0, accepted := some m, round := m.round } m.round (hashData m.fullData))
      (if m.round > s.round then [Out.timer m.height m.round] else [])
    exact this
end Ssv.Qbft
