import Ssv.Proofs.QbftCert
set_option linter.unusedSimpArgs false
namespace Ssv.Qbft

theorem addFirst_mem (c : Container) (m x : Msg) (h : x ∈ (addFirst c m).1) : x ∈ c ∨ x = m := by
  unfold addFirst at h
  split at h
  · exact Or.inl h
  · simp at h; exact h

/-- what a local decision (aggregate returned by `ProcessMsg`) carries -/
structure LocalDecision (cfg : Cfg) (s : State) (agg : Msg) : Prop where
  cert : ValidCert cfg agg
  height : agg.height = s.height
  proposal : ∃ p, s.accepted = some p ∧ agg.fullData = p.fullData ∧ agg.root = p.root ∧ GoodProposal cfg s.height p ∧
    (s.decided = false → p.round = agg.round)

theorem uponCommit_inv (cfg : Cfg) (s : State) (m : Msg) (p : Msg) (hinv : InstInv cfg s) (hacc : s.accepted = some p)
    (hv : validateCommit cfg m.toBase s.height s.round p = .ok ()) (hid : m.ident = cfg.ident) :
    InstInv cfg (uponCommit cfg s m).st ∧ (uponCommit cfg s m).st.height = s.height ∧
    ∀ d v agg, (uponCommit cfg s m).res = .ok d v (some agg) → LocalDecision cfg s agg := by
  obtain ⟨ht, hso, hc, hn, h0, hr, hroot, hh⟩ := validateCommit_ok cfg m.toBase s.height s.round p () hv
  have hgm : GoodCommit cfg m := ⟨ht, hso, hc, hn, h0, hid⟩
  have hcont : ∀ x ∈ (addFirst s.commit m).1, GoodCommit cfg x ∧ x.height = s.height := by
    intro x hx
    rcases addFirst_mem _ _ _ hx with hx | hx
    · exact hinv.commits x hx
    · subst hx; exact ⟨hgm, hh⟩
  unfold uponCommit
  simp only [hacc]
  split
  · exact ⟨hinv, rfl, by intro d v agg h; simp [okStep] at h⟩
  · have hS1 : InstInv cfg { s with commit := (addFirst s.commit m).1, accepted := some p } :=
      ⟨hcont, by intro q hq; simp at hq; subst hq; exact hinv.accepted p hacc⟩
    have hspec := longestUniqueSigners_spec (fun x => GoodCommit cfg x ∧ x.height = s.height) (addFirst s.commit m).1 m.round m.root
      (fun x hx => ⟨hcont x hx, (hcont x hx).1.nodup⟩)
    rcases hl : longestUniqueSigners (addFirst s.commit m).1 m.round m.root with ⟨signers, msgs⟩
    rw [hl] at hspec
    simp only at hspec ⊢
    obtain ⟨hsg, hnd, hms⟩ := hspec
    split
    · exact ⟨hS1, rfl, by intro d v agg h; simp [okStep] at h⟩
    · rename_i hq
      cases hagg : wrap Atom.aggregateFailed (aggregateCommitMsgs msgs p.fullData) with
      | error f =>
        simp only
        refine ⟨by rw [failStep_st]; exact hS1, by rw [failStep_st], ?_⟩
        intro d v agg h
        exact absurd h (failStep_noAgg _ _ _ d v agg)
      | ok agg =>
        simp only
        refine ⟨⟨hcont, ?_⟩, trivial, ?_⟩
        · intro q hq'
          simp at hq'
          subst hq'
          exact ⟨(hinv.accepted p hacc).1, by intro hd; simp at hd⟩
        · intro d v a h
          simp at h
          obtain ⟨_, _, rfl⟩ := h
          have hagg' : aggregateCommitMsgs msgs p.fullData = .ok agg := by simpa using hagg
          obtain ⟨m0, rest, hmsgs, hs, hty, hhe, hro, hroo, hidn, hfd, hsig⟩ := aggregateCommitMsgs_spec msgs p.fullData agg hagg'
          have hm0 : m0 ∈ msgs := by rw [hmsgs]; exact List.mem_cons_self
          have hperm : agg.signers.Perm signers := by rw [hs, ← hsg]; exact sortNat_perm _
          have hgp := (hinv.accepted p hacc)
          refine ⟨⟨?_, ?_, ?_, ?_, ?_, ?_, ?_, ?_⟩, ?_, p, hacc, hfd, ?_, hgp.1, ?_⟩
          · rw [hty]; exact (hms m0 hm0).1.1.isCommit
          · exact hsig.2 (fun x hx => (hms x hx).1.1.sigOk)
          · exact hperm.nodup_iff.2 hnd
          · intro h0'
            have : 0 ∈ signers := hperm.mem_iff.1 h0'
            rw [hsg] at this
            simp [signersOf] at this
            obtain ⟨x, hx, hx0⟩ := this
            exact (hms x hx).1.1.nozero hx0
          · intro x hx
            have : x ∈ signers := hperm.mem_iff.1 hx
            rw [hsg] at this
            simp [signersOf] at this
            obtain ⟨y, hy, hxy⟩ := this
            exact (hms y hy).1.1.committee x hxy
          · rw [hperm.length_eq]; simpa using hq
          · rw [hfd, hroo, (hms m0 hm0).2.2, ← hroot]; exact hgp.1.hash
          · rw [hidn]; exact (hms m0 hm0).1.1.ident
          · rw [hhe]; exact (hms m0 hm0).1.2
          · rw [hroo, (hms m0 hm0).2.2, hroot]
          · intro hd
            rw [hro, (hms m0 hm0).2.1, hr]
            exact hgp.2 hd
end Ssv.Qbft
