import Ssv.Proofs.QbftCert
set_option linter.unusedSimpArgs false
namespace Ssv.Qbft

theorem ctrl_processMsg_inv (cfg : Cfg) (c : Ctrl) (m : Msg) (hc : CtrlInv cfg c) :
    CtrlInv cfg (c.processMsg cfg m).ct ∧ StepCerts cfg (c.processMsg cfg m) := by
  unfold Ctrl.processMsg
  split
  · exact ⟨hc, by intro d h; simp at h, by intro o ho; simp at ho⟩
  · rename_i hid
    have hid' : m.ident = cfg.ident := by simpa using hid
    split
    · exact uponDecided_inv cfg c m hc hid'
    · split
      · exact ⟨hc, by intro d h; simp at h, by intro o ho; simp at ho⟩
      · exact uponExistingInstanceMsg_inv cfg c m hc hid'

theorem instInv_start (cfg : Cfg) (v h : Nat) : InstInv cfg (start cfg (newInstance h) v h).st := by
  have hnew : InstInv cfg (newInstance h) := ⟨by intro m hm; simp [newInstance] at hm, by intro p hp; simp [newInstance] at hp⟩
  unfold start
  simp only [newInstance, Bool.false_eq_true, if_false]
  have hS : InstInv cfg { newInstance h with started := true, startValue := v, round := firstRound, height := h } :=
    ⟨by intro m hm; simp [newInstance] at hm, by intro p hp; simp [newInstance] at hp⟩
  repeat' split
  all_goals exact hS

theorem ctrl_start_inv (cfg : Cfg) (c : Ctrl) (h v : Nat) (hc : CtrlInv cfg c) :
    CtrlInv cfg (c.startNewInstance cfg h v).ct ∧ StepCerts cfg (c.startNewInstance cfg h v) := by
  have houts : ∀ o ∈ (start cfg (newInstance h) v h).outs, ∀ d, (o = .bcastDecided d ∨ o = .save d ∨ o = .notify d) → ValidCert cfg d :=
    fun o ho d hd => absurd hd (instOut_not_decision o (outsInst_start cfg _ v h o ho) d)
  have hadd : CtrlInv cfg { height := h, insts := addNewInstance cfg.capacity c.insts (start cfg (newInstance h) v h).st } := by
    intro x hx
    rcases addNewInstance_mem _ _ _ _ hx with hx | hx
    · exact hc x hx
    · subst hx; exact instInv_start cfg v h
  have hforce : CtrlInv cfg (forceStopOthers { height := h, insts := addNewInstance cfg.capacity c.insts (start cfg (newInstance h) v h).st }) := by
    intro x hx
    simp only [forceStopOthers, List.mem_map] at hx
    obtain ⟨y, hy, hxy⟩ := hx
    have hyi := hadd y hy
    split at hxy <;> subst hxy
    · exact ⟨hyi.commits, hyi.accepted⟩
    · exact hyi
  unfold Ctrl.startNewInstance
  split
  · exact ⟨hc, by intro d hd; simp at hd, by intro o ho; simp at ho⟩
  · split
    · exact ⟨hc, by intro d hd; simp at hd, by intro o ho; simp at ho⟩
    · split
      · exact ⟨hc, by intro d hd; simp at hd, by intro o ho; simp at ho⟩
      · simp only
        split
        · exact ⟨hadd, by intro d hd; simp at hd, houts⟩
        · exact ⟨hforce, by intro d hd; simp at hd, houts⟩

theorem ctrl_onTimeout_inv (cfg : Cfg) (c : Ctrl) (h r : Nat) (hc : CtrlInv cfg c) :
    CtrlInv cfg (c.onTimeout cfg h r).ct ∧ StepCerts cfg (c.onTimeout cfg h r) := by
  unfold Ctrl.onTimeout
  split
  · exact ⟨hc, by intro d hd; simp at hd, by intro o ho; simp at ho⟩
  · rename_i inst hf
    obtain ⟨hmem, _⟩ := findInstance_some hf
    have hi := (uponRoundTimeout_inv cfg inst (hc inst hmem)).1
    have hc1 := ctrlInv_update cfg c (uponRoundTimeout cfg inst).st hc hi
    have houts : ∀ o ∈ (uponRoundTimeout cfg inst).outs, ∀ d, (o = .bcastDecided d ∨ o = .save d ∨ o = .notify d) → ValidCert cfg d :=
      fun o ho d hd => absurd hd (instOut_not_decision o (outsInst_uponRoundTimeout cfg inst o ho) d)
    split
    · exact ⟨hc, by intro d hd; simp at hd, by intro o ho; simp at ho⟩
    · split
      · exact ⟨hc, by intro d hd; simp at hd, by intro o ho; simp at ho⟩
      · simp only
        split
        · exact ⟨hc1, by intro d hd; simp at hd, houts⟩
        · exact ⟨hc1, by intro d hd; simp at hd, houts⟩
        · exact ⟨hc1, by intro d hd; simp at hd, houts⟩

theorem ctrl_compactAt_inv (cfg : Cfg) (c : Ctrl) (h : Nat) (hc : CtrlInv cfg c) : CtrlInv cfg (c.compactAt h) := by
  unfold Ctrl.compactAt
  split
  · exact hc
  · rename_i inst hf
    obtain ⟨hmem, _⟩ := findInstance_some hf
    exact ctrlInv_update cfg c (compact inst) hc (compact_inv cfg inst (hc inst hmem)).1

/-- every controller op keeps the invariant and only ever reports valid certificates -/
theorem stepC_inv (cfg : Cfg) (c : Ctrl) (op : COp) (hc : CtrlInv cfg c) :
    CtrlInv cfg (stepC cfg c op).1 ∧
    ∀ o, (stepC cfg c op).2 = some o → StepCerts cfg ⟨(stepC cfg c op).1, o.outs, o.res⟩ := by
  cases op with
  | start h v =>
    obtain ⟨h1, h2⟩ := ctrl_start_inv cfg c h v hc
    exact ⟨h1, by intro o ho; simp [stepC] at ho; subst ho; exact h2⟩
  | deliver m =>
    obtain ⟨h1, h2⟩ := ctrl_processMsg_inv cfg c m hc
    exact ⟨h1, by intro o ho; simp [stepC] at ho; subst ho; exact h2⟩
  | timeout h r =>
    obtain ⟨h1, h2⟩ := ctrl_onTimeout_inv cfg c h r hc
    exact ⟨h1, by intro o ho; simp [stepC] at ho; subst ho; exact h2⟩
  | compactAt h => exact ⟨ctrl_compactAt_inv cfg c h hc, by intro o ho; simp [stepC] at ho⟩
  | runnerCompact m =>
    refine ⟨?_, by intro o ho; simp [stepC] at ho⟩
    simp only [stepC, Ctrl.compactIfNeeded]
    split
    · exact ctrl_compactAt_inv cfg c _ hc
    · exact hc

theorem runC_inv (cfg : Cfg) (ops : List COp) : ∀ c, CtrlInv cfg c →
    CtrlInv cfg (runC cfg c ops).1 ∧ ∀ o ∈ (runC cfg c ops).2, StepCerts cfg ⟨c, o.outs, o.res⟩ := by
  induction ops with
  | nil => intro c hc; exact ⟨hc, by intro o ho; simp [runC] at ho⟩
  | cons op rest ih =>
    intro c hc
    obtain ⟨h1, h2⟩ := stepC_inv cfg c op hc
    obtain ⟨h3, h4⟩ := ih _ h1
    refine ⟨by simpa [runC] using h3, ?_⟩
    intro o ho
    simp only [runC] at ho
    cases hs : (stepC cfg c op).2 with
    | none =>
      rw [hs] at ho
      exact h4 o ho
    | some x =>
      rw [hs] at ho
      rcases List.mem_cons.1 ho with ho | ho
      · subst ho; exact h2 _ hs
      · exact h4 o ho
end Ssv.Qbft
