import Ssv.Proofs.QbftCert
set_option linter.unusedSimpArgs false

namespace Ssv.Qbft

/-- the step reports no aggregate (only a commit quorum does) -/
def NoAgg (st : Step) : Prop := ∀ d v a, st.res ≠ .ok d v (some a)

theorem okStep_noAgg (s : State) (o : List Out) : NoAgg (okStep s o) := by intro d v a; simp [okStep]
theorem failStep_noAgg (s : State) (o : List Out) (f : Fail) : NoAgg (failStep s o f) := by
  intro d v a; cases f <;> simp [failStep]
theorem sendOr_st (cfg : Cfg) (s : State) (a : Atom) (m : Msg) (pre : List Out) : (sendOr cfg s a m pre).st = s := by
  unfold sendOr; split <;> (try rfl)
  rename_i f _; cases f <;> rfl
theorem sendOr_noAgg (cfg : Cfg) (s : State) (a : Atom) (m : Msg) (pre : List Out) : NoAgg (sendOr cfg s a m pre) := by
  unfold sendOr; split
  · exact okStep_noAgg _ _
  · exact failStep_noAgg _ _ _
theorem okStep_st (s : State) (o : List Out) : (okStep s o).st = s := rfl
theorem failStep_st (s : State) (o : List Out) (f : Fail) : (failStep s o f).st = s := by cases f <;> rfl

theorem uponPrepare_frame (cfg : Cfg) (s : State) (m : Msg) :
    (uponPrepare cfg s m).st.commit = s.commit ∧ (uponPrepare cfg s m).st.accepted = s.accepted ∧
    (uponPrepare cfg s m).st.decided = s.decided ∧ (uponPrepare cfg s m).st.height = s.height ∧
    (uponPrepare cfg s m).st.round = s.round ∧ NoAgg (uponPrepare cfg s m) := by
  unfold uponPrepare
  simp only
  split
  · exact ⟨rfl, rfl, rfl, rfl, rfl, okStep_noAgg _ _⟩
  · split
    · exact ⟨rfl, rfl, rfl, rfl, rfl, okStep_noAgg _ _⟩
    · split
      · exact ⟨rfl, rfl, rfl, rfl, rfl, okStep_noAgg _ _⟩
      · split
        · refine ⟨rfl, rfl, rfl, rfl, rfl, ?_⟩
          intro d v a; simp
        · simp [sendOr_st, failStep_st, okStep_st, sendOr_noAgg, failStep_noAgg, okStep_noAgg]

theorem uponProposal_frame (cfg : Cfg) (s : State) (m : Msg) :
    (uponProposal cfg s m).st.commit = s.commit ∧ (uponProposal cfg s m).st.decided = s.decided ∧
    (uponProposal cfg s m).st.height = s.height ∧ NoAgg (uponProposal cfg s m) ∧
    (((uponProposal cfg s m).st.accepted = s.accepted ∧ (uponProposal cfg s m).st.round = s.round) ∨
     ((uponProposal cfg s m).st.accepted = some m ∧ (uponProposal cfg s m).st.round = m.round)) := by
  unfold uponProposal
  simp only
  split
  · exact ⟨rfl, rfl, rfl, okStep_noAgg _ _, Or.inl ⟨rfl, rfl⟩⟩
  · simp [sendOr_st, failStep_st, okStep_st, sendOr_noAgg, failStep_noAgg, okStep_noAgg]

theorem uponChangeRoundPartialQuorum_frame (cfg : Cfg) (s : State) (r : Nat) :
    (uponChangeRoundPartialQuorum cfg s r).st.commit = s.commit ∧ (uponChangeRoundPartialQuorum cfg s r).st.decided = s.decided ∧
    (uponChangeRoundPartialQuorum cfg s r).st.height = s.height ∧ NoAgg (uponChangeRoundPartialQuorum cfg s r) ∧
    (uponChangeRoundPartialQuorum cfg s r).st.accepted = none := by
  unfold uponChangeRoundPartialQuorum
  simp [sendOr_st, failStep_st, okStep_st, sendOr_noAgg, failStep_noAgg, okStep_noAgg]

theorem uponRoundChange_frame (cfg : Cfg) (s : State) (m : Msg) :
    (uponRoundChange cfg s m).st.commit = s.commit ∧ (uponRoundChange cfg s m).st.decided = s.decided ∧
    (uponRoundChange cfg s m).st.height = s.height ∧ NoAgg (uponRoundChange cfg s m) ∧
    (((uponRoundChange cfg s m).st.accepted = s.accepted ∧ (uponRoundChange cfg s m).st.round = s.round) ∨
     (uponRoundChange cfg s m).st.accepted = none) := by
  unfold uponRoundChange
  simp only
  split
  · exact ⟨rfl, rfl, rfl, okStep_noAgg _ _, Or.inl ⟨rfl, rfl⟩⟩
  · split
    · exact ⟨rfl, rfl, rfl, okStep_noAgg _ _, Or.inl ⟨rfl, rfl⟩⟩
    · split
      · simp [sendOr_st, failStep_st, okStep_st, sendOr_noAgg, failStep_noAgg, okStep_noAgg]
      · simp [sendOr_st, failStep_st, okStep_st, sendOr_noAgg, failStep_noAgg, okStep_noAgg]
      · split
        · split
          · exact ⟨rfl, rfl, rfl, okStep_noAgg _ _, Or.inl ⟨rfl, rfl⟩⟩
          · obtain ⟨h1, h2, h3, h4, h5⟩ := uponChangeRoundPartialQuorum_frame cfg { s with roundChange := (addFirst s.roundChange m).1 } (minRound (List.filter (fun x => Nat.blt s.round x.round) (addFirst s.roundChange m).1))
            exact ⟨h1, h2, h3, h4, Or.inr h5⟩
        · exact ⟨rfl, rfl, rfl, okStep_noAgg _ _, Or.inl ⟨rfl, rfl⟩⟩
end Ssv.Qbft
