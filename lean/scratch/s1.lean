import Ssv.Proofs.QbftCompact
namespace Ssv.Qbft

def withC (s : State) (P Pr C RC : Container) : State :=
  { s with propose := P, prepare := Pr, commit := C, roundChange := RC }

def Sim (s s' : State) : Prop :=
  ∃ P Pr C RC, s' = withC s P Pr C RC ∧ AgreeFrom s.round s.propose P ∧ AgreeFrom s.lastPreparedRound s.prepare Pr ∧
    AgreeFrom s.round s.commit C ∧ AgreeFrom s.round s.roundChange RC

def StepSim (st st' : Step) : Prop := st'.outs = st.outs ∧ st'.res = st.res ∧ Sim st.st st'.st

theorem broadcast_withC (cfg : Cfg) (s : State) (P Pr C RC : Container) (m : Msg) :
    broadcast cfg (withC s P Pr C RC) m = broadcast cfg s m := rfl

theorem okStep_sim {s s' : State} (h : Sim s s') (o : List Out) : StepSim (okStep s o) (okStep s' o) := by
  obtain ⟨P, Pr, C, RC, rfl, h⟩ := h
  exact ⟨rfl, rfl, P, Pr, C, RC, rfl, h⟩

theorem failStep_sim {s s' : State} (h : Sim s s') (o : List Out) (f : Fail) : StepSim (failStep s o f) (failStep s' o f) := by
  cases f <;> exact ⟨rfl, rfl, h⟩

theorem uponProposal_sim (cfg : Cfg) {s s' : State} (m : Msg) (h : Sim s s') (hm : s.round ≤ m.round)
    (hwf : s.lastPreparedRound ≤ s.round) :
    StepSim (uponProposal cfg s m) (uponProposal cfg s' m) := by
  obtain ⟨P, Pr, C, RC, rfl, hP, hPr, hC, hRC⟩ := h
  have ha := agree_addFirst hP m hm
  unfold uponProposal
  rcases hx : addFirst (withC s P Pr C RC).propose m with ⟨P1, b⟩
  rcases hy : addFirst s.propose m with ⟨P0, b0⟩
  have hx' : addFirst P m = (P1, b) := hx
  rw [hx', hy] at ha
  obtain ⟨hb, hag⟩ := ha
  simp only at hb hag
  subst hb
  simp only
  cases b
  · simp only [Bool.not_false, if_true]
    exact okStep_sim ⟨P, Pr, C, RC, rfl, hP, hPr, hC, hRC⟩ []
  · simp only [Bool.not_true, Bool.false_eq_true, if_false]
    trace_state
    sorry
end Ssv.Qbft
