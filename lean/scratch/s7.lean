import Ssv.Proofs.QbftCompact
namespace Ssv.Qbft

theorem Sim.refl (s : State) : Sim s s := ⟨s.propose, s.prepare, s.commit, s.roundChange, rfl, rfl, rfl, rfl, rfl⟩

/-- compacting the right-hand state of an undecided pair keeps the relation -/
theorem compact_sim {s s' : State} (h : Sim s s') (hd : s.decided = false) : Sim s (compact s') := by
  obtain ⟨P, Pr, C, RC, rfl, hP, hPr, hC, hRC⟩ := h
  refine ⟨compactContainerEdit P s.round false, compactContainerEdit Pr s.lastPreparedRound false,
    compactContainerEdit C s.round false, compactContainerEdit RC s.round false, ?_, ?_, ?_, ?_, ?_⟩
  · simp only [compact, compactWith, withC, hd]
  · exact hP.trans (agreeFrom_compactContainerEdit P s.round)
  · exact hPr.trans (agreeFrom_compactContainerEdit Pr s.lastPreparedRound)
  · exact hC.trans (agreeFrom_compactContainerEdit C s.round)
  · exact hRC.trans (agreeFrom_compactContainerEdit RC s.round)

theorem Sim.decided {s s' : State} (h : Sim s s') : s'.decided = s.decided := by
  obtain ⟨P, Pr, C, RC, rfl, _⟩ := h; rfl

/-- ops of an instance run in which compaction is only ever applied to undecided instances, and `Start` has happened before -/
def IOp.allowed : IOp → Bool
  | .deliver _ => true
  | .timeout => true
  | .stop => true
  | .compactUndecided => true
  | .compact => false
  | .start _ _ => false

theorem runI_sim (cfg : Cfg) (ops : List IOp) (hops : ∀ op ∈ ops, op.allowed = true) :
    ∀ s s' : State, Sim s s' → WF s → (runI cfg s' ops).2 = (runI cfg s (ops.filter (fun op => !op.isCompaction))).2 := by
  induction ops with
  | nil => intro s s' _ _; rfl
  | cons op rest ih =>
    intro s s' h hwf
    have hrest : ∀ op ∈ rest, op.allowed = true := fun o ho => hops o (List.mem_cons_of_mem _ ho)
    have hop := hops op (List.mem_cons_self)
    cases op with
    | start v hh => simp [IOp.allowed] at hop
    | compact => simp [IOp.allowed] at hop
    | compactUndecided =>
      have hs'' : Sim s (if s'.decided then s' else compact s') := by
        by_cases hd : s'.decided = true
        · simp [hd]; exact h
        · have hd' : s'.decided = false := by simpa using hd
          simp only [hd', Bool.false_eq_true, if_false]
          exact compact_sim h (by rw [← h.decided]; exact hd')
      have := ih hrest s _ hs'' hwf
      simp only [runI, stepI, IOp.isCompaction, List.filter, Bool.not_true]
      exact this
    | deliver m =>
      obtain ⟨ho, hr, hS, hw⟩ := processMsg_sim cfg m h hwf
      have := ih hrest _ _ hS hw
      simp only [runI, stepI, IOp.isCompaction, List.filter, Bool.not_false, ho, hr, this]
    | timeout =>
      obtain ⟨ho, hr, hS, hw⟩ := uponRoundTimeout_sim cfg h hwf
      have := ih hrest _ _ hS hw
      simp only [runI, stepI, IOp.isCompaction, List.filter, Bool.not_false, ho, hr, this]
    | stop =>
      obtain ⟨P, Pr, C, RC, rfl, hP, hPr, hC, hRC⟩ := h
      have hS : Sim (forceStop s) (forceStop (withC s P Pr C RC)) := ⟨P, Pr, C, RC, rfl, hP, hPr, hC, hRC⟩
      have := ih hrest _ _ hS hwf
      simp only [runI, stepI, IOp.isCompaction, List.filter, Bool.not_false, this]
      rfl
end Ssv.Qbft
