import Ssv.Proofs.QbftCert
set_option linter.unusedSimpArgs false
namespace Ssv.Qbft

theorem firstFail_ok {α : Type} (f : α → V Unit) (l : List α) (u : Unit) (h : firstFail f l = .ok u) : ∀ a ∈ l, f a = .ok () := by
  induction l with
  | nil => intro a ha; simp at ha
  | cons x rest ih =>
    unfold firstFail at h
    simp only [bind_eq_ok] at h
    obtain ⟨v, h1, h2⟩ := h
    intro a ha
    rcases List.mem_cons.1 ha with rfl | ha
    · exact h1
    · exact ih h2 a ha

/-- a prepared round-change is valid for a proposed value only if the value hashes to its root -/
theorem validRoundChangeForData_prepared_root (cfg : Cfg) (sh : Nat) (rc : Lvl1) (h r fd : Nat) (u : Unit)
    (hv : validRoundChangeForData cfg sh rc h r fd = .ok u) (hp : rc.toBase.rcPrepared = true) : hashData fd = rc.root := by
  unfold validRoundChangeForData at hv
  simp only [bind_eq_ok, rejectIf_eq_ok, wrap_eq_ok, hp, if_true] at hv
  obtain ⟨_, _, _, _, _, _, _, _, _, _, _, _, _, _, _, h8, _⟩ := hv
  simpa using h8

/-- the timeout step -/
theorem uponRoundTimeout_progress (cfg : Cfg) (s : State) (hcp : canProcess cfg s = true) :
    uponRoundTimeout cfg s =
      ⟨{ s with round := s.round + 1, accepted := none },
       [.bcast (createRoundChange cfg s (s.round + 1)), .timer s.height (s.round + 1)],
       .ok s.decided s.decidedValue none⟩ := by
  unfold uponRoundTimeout
  simp only [hcp, Bool.not_true, Bool.false_eq_true, if_false, broadcast, if_true, wrap, okStep]
  rfl

end Ssv.Qbft
