import Ssv.Proofs.QbftFaultFree
set_option linter.unusedSimpArgs false
namespace Ssv.Qbft

/-- `Start`: the timer is armed for round 1 and the leader (only) broadcasts its proposal -/
theorem ff_start (cfg : Cfg) (h L v vi : Nat) (ff : FF cfg h L v) :
    start cfg (newInstance h) vi h =
      ⟨ffStarted h vi, [.timer h firstRound] ++ (if L = cfg.own then [.bcast (ffProposal cfg h cfg.own vi)] else []), .ok false 0 none⟩ := by
  unfold start
  have hcp : canProcess cfg (ffStarted h vi) = true := canProcess_round1 cfg _ ff.cutoff rfl rfl
  have e : ({ newInstance h with started := true, startValue := vi, round := firstRound, height := h } : State) = ffStarted h vi := rfl
  simp only [newInstance, Bool.false_eq_true, if_false]
  have hl : cfg.proposer h firstRound = some L := ff.leader
  simp only [hl]
  by_cases hown : L = cfg.own
  · have : (L == cfg.own) = true := by simpa using hown
    simp only [this, if_true, hown, broadcast]
    have hcp' := hcp
    simp only [ffStarted, newInstance] at hcp'
    simp only [hcp', if_true, beq_self_eq_true, pure, Except.pure, okStep]
    rfl
  · have : (L == cfg.own) = false := by simpa using hown
    simp only [this, Bool.false_eq_true, if_false, hown]
    rfl

/-- observations of delivering the prepares of `l` one after the other, starting after those of `done` -/
def ffPrepareObs (cfg : Cfg) (h v : Nat) : Nat → List Nat → List IObs
  | _, [] => []
  | k, _ :: rest =>
    ⟨if k + 1 = cfg.quorum then [.bcast (ffCommit cfg h v cfg.own)] else [], .ok false 0 none⟩ :: ffPrepareObs cfg h v (k + 1) rest

theorem ff_prepares_run (cfg : Cfg) (h L v vi : Nat) (ff : FF cfg h L v) (l : List Nat) :
    ∀ done : List Nat, (done ++ l).Nodup → (∀ x ∈ done ++ l, x ∈ cfg.committee) →
      runI cfg (ffPrepared cfg h L v vi done) (l.map (fun j => IOp.deliver (ffPrepare cfg h v j))) =
        (ffPrepared cfg h L v vi (done ++ l), ffPrepareObs cfg h v done.length l) := by
  induction l with
  | nil => intro done _ _; simp [runI, ffPrepareObs]
  | cons j rest ih =>
    intro done hnd hin
    have hnd1 : (done ++ [j]).Nodup := by
      have : (done ++ [j] ++ rest).Nodup := by simpa using hnd
      exact (List.nodup_append.1 this).1
    have hin1 : ∀ x ∈ done ++ [j], x ∈ cfg.committee := by
      intro x hx; apply hin; simp at hx ⊢; rcases hx with hx | hx
      · exact Or.inl hx
      · exact Or.inr (Or.inl hx)
    have hstep := ff_prepare_step cfg h L v vi ff done j hnd1 hin1
    have hrest := ih (done ++ [j]) (by simpa using hnd) (by intro x hx; apply hin; simpa using hx)
    simp only [List.map_cons, runI, stepI, hstep, hrest]
    simp [ffPrepareObs]

def ffCommitObs (cfg : Cfg) (h v : Nat) : List Nat → List Nat → List IObs
  | _, [] => []
  | done, j :: rest =>
    ⟨[], if cfg.quorum ≤ done.length + 1 then .ok true v (some (ffAggregate cfg h v (done ++ [j]))) else .ok false 0 none⟩ ::
      ffCommitObs cfg h v (done ++ [j]) rest

theorem ff_commits_run (cfg : Cfg) (h L v vi : Nat) (ff : FF cfg h L v) (l : List Nat) :
    ∀ done : List Nat, (done ++ l).Nodup → (∀ x ∈ done ++ l, x ∈ cfg.committee) →
      runI cfg (ffCommitted cfg h L v vi done) (l.map (fun j => IOp.deliver (ffCommit cfg h v j))) =
        (ffCommitted cfg h L v vi (done ++ l), ffCommitObs cfg h v done l) := by
  induction l with
  | nil => intro done _ _; simp [runI, ffCommitObs]
  | cons j rest ih =>
    intro done hnd hin
    have hnd1 : (done ++ [j]).Nodup := by
      have : (done ++ [j] ++ rest).Nodup := by simpa using hnd
      exact (List.nodup_append.1 this).1
    have hin1 : ∀ x ∈ done ++ [j], x ∈ cfg.committee := by
      intro x hx; apply hin; simp at hx ⊢; rcases hx with hx | hx
      · exact Or.inl hx
      · exact Or.inr (Or.inl hx)
    have hstep := ff_commit_step cfg h L v vi ff done j hnd1 hin1
    have hrest := ih (done ++ [j]) (by simpa using hnd) (by intro x hx; apply hin; simpa using hx)
    simp only [List.map_cons, runI, stepI, hstep, hrest]
    simp [ffCommitObs]

theorem runI_append (cfg : Cfg) (s : State) (a b : List IOp) :
    runI cfg s (a ++ b) = ((runI cfg (runI cfg s a).1 b).1, (runI cfg s a).2 ++ (runI cfg (runI cfg s a).1 b).2) := by
  induction a generalizing s with
  | nil => simp [runI]
  | cons op rest ih =>
    simp only [List.cons_append, runI, ih]
    cases (stepI cfg s op).2 <;> simp

/-- the synchronous fault-free schedule of round 1 as seen by one operator: Start, the leader's proposal, everybody's
    prepare, everybody's commit (committee order) -/
def ffOps (cfg : Cfg) (h L v vi : Nat) : List IOp :=
  [IOp.start vi h, .deliver (ffProposal cfg h L v)] ++
  cfg.committee.map (fun j => IOp.deliver (ffPrepare cfg h v j)) ++
  cfg.committee.map (fun j => IOp.deliver (ffCommit cfg h v j))

/-- what the operator emits and returns, op by op, in the fault-free first round -/
def ffObs (cfg : Cfg) (h L v vi : Nat) : List IObs :=
  [⟨[.timer h firstRound] ++ (if L = cfg.own then [.bcast (ffProposal cfg h cfg.own vi)] else []), .ok false 0 none⟩,
   ⟨[.bcast (ffPrepare cfg h v cfg.own)], .ok false 0 none⟩] ++
  ffPrepareObs cfg h v 0 cfg.committee ++ ffCommitObs cfg h v [] cfg.committee

theorem ff_round1_run (cfg : Cfg) (h L v vi : Nat) (ff : FF cfg h L v) :
    runI cfg (newInstance h) (ffOps cfg h L v vi) = (ffCommitted cfg h L v vi cfg.committee, ffObs cfg h L v vi) := by
  have hq0 : ¬ cfg.quorum ≤ 0 := by have := ff.q1; omega
  have h1 : runI cfg (newInstance h) [IOp.start vi h, .deliver (ffProposal cfg h L v)] =
      (ffPrepared cfg h L v vi [],
        [⟨[.timer h firstRound] ++ (if L = cfg.own then [.bcast (ffProposal cfg h cfg.own vi)] else []), .ok false 0 none⟩,
         ⟨[.bcast (ffPrepare cfg h v cfg.own)], .ok false 0 none⟩]) := by
    have e0 : ffProposed cfg h L v vi = ffPrepared cfg h L v vi [] := by
      simp [ffPrepared, hq0]
      rfl
    simp only [runI, stepI, ff_start cfg h L v vi ff, ff_accept_proposal cfg h L v vi ff, e0]
  have h2 := ff_prepares_run cfg h L v vi ff cfg.committee [] (by simpa using ff.nodup) (by intro x hx; simpa using hx)
  have e1 : ffPrepared cfg h L v vi ([] ++ cfg.committee) = ffCommitted cfg h L v vi [] := by
    simp [ffCommitted, hq0]
    rfl
  have h3 := ff_commits_run cfg h L v vi ff cfg.committee [] (by simpa using ff.nodup) (by intro x hx; simpa using hx)
  unfold ffOps ffObs
  rw [runI_append, runI_append, h1]
  have e2 : ffPrepared cfg h L v vi cfg.committee = ffCommitted cfg h L v vi [] := by simpa using e1
  simp only [h2, List.nil_append, List.length_nil, e2]
  simp only [h3, List.nil_append]

end Ssv.Qbft
