import Ssv.Proofs.QbftCert
set_option linter.unusedSimpArgs false
namespace Ssv.Qbft

/-! ### controller level -/

def CtrlInv (cfg : Cfg) (c : Ctrl) : Prop := ∀ i ∈ c.insts, InstInv cfg i

/-- every decision a controller step reports — returned decided message, decided broadcast, stored instance, decided
    notification — is a valid certificate -/
def StepCerts (cfg : Cfg) (st : CStep) : Prop :=
  (∀ d, st.res = .ok (some d) → ValidCert cfg d) ∧
  ∀ o ∈ st.outs, ∀ d, (o = .bcastDecided d ∨ o = .save d ∨ o = .notify d) → ValidCert cfg d

theorem findInstance_some {l : List State} {h : Nat} {i : State} (hf : findInstance l h = some i) : i ∈ l ∧ i.height = h := by
  unfold findInstance at hf
  have := List.find?_some hf
  exact ⟨List.mem_of_find?_eq_some hf, by simpa using this⟩

theorem updateInstance_mem (l : List State) (i x : State) (h : x ∈ updateInstance l i) : x ∈ l ∨ x = i := by
  induction l with
  | nil => simp [updateInstance] at h
  | cons e rest ih =>
    unfold updateInstance at h
    split at h
    · rcases List.mem_cons.1 h with h | h
      · exact Or.inr h
      · exact Or.inl (List.mem_cons_of_mem _ h)
    · rcases List.mem_cons.1 h with h | h
      · exact Or.inl (h ▸ List.mem_cons_self)
      · rcases ih h with h | h
        · exact Or.inl (List.mem_cons_of_mem _ h)
        · exact Or.inr h

theorem insertByHeight_mem (i : State) (l : List State) (x : State) (h : x ∈ insertByHeight i l) : x ∈ l ∨ x = i := by
  induction l with
  | nil => simp [insertByHeight] at h; exact Or.inr h
  | cons e rest ih =>
    unfold insertByHeight at h
    split at h
    · rcases List.mem_cons.1 h with h | h
      · exact Or.inr h
      · exact Or.inl h
    · rcases List.mem_cons.1 h with h | h
      · exact Or.inl (h ▸ List.mem_cons_self)
      · rcases ih h with h | h
        · exact Or.inl (List.mem_cons_of_mem _ h)
        · exact Or.inr h

theorem addNewInstance_mem (cap : Nat) (l : List State) (i x : State) (h : x ∈ addNewInstance cap l i) : x ∈ l ∨ x = i :=
  insertByHeight_mem i l x (List.mem_of_mem_take h)

theorem ctrlInv_update (cfg : Cfg) (c : Ctrl) (i : State) (hc : CtrlInv cfg c) (hi : InstInv cfg i) :
    CtrlInv cfg { c with insts := updateInstance c.insts i } := by
  intro x hx
  rcases updateInstance_mem _ _ _ hx with hx | hx
  · exact hc x hx
  · subst hx; exact hi

theorem goodCommit_of_decided (cfg : Cfg) (m : Msg) (hv : validateDecided cfg m = .ok ()) (hid : m.ident = cfg.ident) :
    GoodCommit cfg m := by
  obtain ⟨h1, _, h3, h4, h5, h6, _⟩ := validateDecided_ok cfg m () hv
  exact ⟨h1, h5, h6, h3, h4, hid⟩

theorem decidedUpdate_inv (cfg : Cfg) (c : Ctrl) (m : Msg) (hc : CtrlInv cfg c) (hv : validateDecided cfg m = .ok ())
    (hid : m.ident = cfg.ident) : ∀ i ∈ (decidedUpdate cfg c m).1, InstInv cfg i := by
  have hg := goodCommit_of_decided cfg m hv hid
  unfold decidedUpdate
  split
  · intro x hx
    rcases addNewInstance_mem _ _ _ _ hx with hx | hx
    · exact hc x hx
    · subst hx
      refine ⟨?_, by intro q hq; simp [newInstance] at hq⟩
      intro y hy
      simp [addMsg, newInstance] at hy
      subst hy
      exact ⟨hg, rfl⟩
  · rename_i i hf
    obtain ⟨hmem, hh⟩ := findInstance_some hf
    have hi := hc i hmem
    have hcm : ∀ y ∈ addMsg i.commit m, GoodCommit cfg y ∧ y.height = i.height := by
      intro y hy
      simp [addMsg] at hy
      rcases hy with hy | hy
      · exact hi.commits y hy
      · subst hy; exact ⟨hg, hh.symm⟩
    split
    · intro x hx
      rcases updateInstance_mem _ _ _ hx with hx | hx
      · exact hc x hx
      · subst hx
        exact ⟨hcm, fun q hq => ⟨(hi.accepted q hq).1, by intro hd; simp at hd⟩⟩
    · simp only
      split
      · intro x hx
        rcases updateInstance_mem _ _ _ hx with hx | hx
        · exact hc x hx
        · subst hx
          exact ⟨hcm, hi.accepted⟩
      · exact hc

theorem uponDecided_inv (cfg : Cfg) (c : Ctrl) (m : Msg) (hc : CtrlInv cfg c) (hid : m.ident = cfg.ident) :
    CtrlInv cfg (uponDecided cfg c m).ct ∧ StepCerts cfg (uponDecided cfg c m) := by
  by_cases hv : validateDecided cfg m = .ok ()
  · have hcert := validCert_of_validateDecided cfg m hv hid
    obtain ⟨hres, houts⟩ := uponDecided_accepted cfg c m hv
    refine ⟨?_, ⟨fun d hd => (hres d hd) ▸ hcert, ?_⟩⟩
    · have hu := decidedUpdate_inv cfg c m hc hv hid
      unfold uponDecided
      simp only [hv, wrap]
      split <;> exact hu
    · intro o ho d hd
      rcases houts o ho with h | h <;> subst h <;> rcases hd with hd | hd | hd <;> simp at hd <;> exact hd ▸ hcert
  · obtain ⟨h1, h2, h3⟩ := uponDecided_rejected cfg c m hv
    refine ⟨by rw [h1]; exact hc, ⟨fun d hd => absurd hd (h3 _), ?_⟩⟩
    rw [h2]; intro o ho; simp at ho
end Ssv.Qbft
