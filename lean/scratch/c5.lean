import Ssv.Proofs.QbftCert
set_option linter.unusedSimpArgs false
namespace Ssv.Qbft

/-- what the instance / controller has checked of every message in a commit container -/
structure GoodCommit (cfg : Cfg) (m : Msg) : Prop where
  isCommit : m.type = tCommit
  sigOk : m.sigOk = true
  committee : ∀ s ∈ m.signers, s ∈ cfg.committee
  nodup : m.signers.Nodup
  nozero : 0 ∉ m.signers
  ident : m.ident = cfg.ident

/-- what `isValidProposal` has checked of the accepted proposal -/
structure GoodProposal (cfg : Cfg) (height : Nat) (p : Msg) : Prop where
  hash : hashData p.fullData = p.root
  value : cfg.valOk p.fullData = true
  leader : ∃ l, cfg.proposer height p.round = some l ∧ p.signers = [l]

structure InstInv (cfg : Cfg) (s : State) : Prop where
  commits : ∀ m ∈ s.commit, GoodCommit cfg m
  accepted : ∀ p, s.accepted = some p → GoodProposal cfg s.height p ∧ (s.decided = false → p.round = s.round)

theorem isProposalJustification_value (cfg : Cfg) (sh : Nat) (rcs : List Lvl1) (ps : List Base) (h r fd : Nat) (u : Unit)
    (hj : isProposalJustification cfg sh rcs ps h r fd = .ok u) : cfg.valOk fd = true := by
  unfold isProposalJustification at hj
  simp only [bind_eq_ok, rejectIf_eq_ok] at hj
  obtain ⟨_, h1, _⟩ := hj
  simpa using h1

theorem matchedSigners_singleton (l : List Nat) (x : Nat) (h : matchedSigners l [x] = true) : l = [x] := by
  unfold matchedSigners at h
  simp at h
  obtain ⟨hl, hall⟩ := h
  match l, hl, hall with
  | [a], _, hall => simp at hall; rw [hall]

theorem isValidProposal_ok (cfg : Cfg) (s : State) (m : Msg) (u : Unit) (h : isValidProposal cfg s m = .ok u) :
    GoodProposal cfg s.height m := by
  unfold isValidProposal at h
  simp only [bind_eq_ok, rejectIf_eq_ok] at h
  obtain ⟨_, _, _, _, _, _, _, _, h5⟩ := h
  split at h5
  · simp at h5
  · rename_i leader hl
    simp only [bind_eq_ok, rejectIf_eq_ok, wrap_eq_ok] at h5
    obtain ⟨_, h6, _, _, _, h8, _, h9, _⟩ := h5
    refine ⟨by simpa using h8, isProposalJustification_value _ _ _ _ _ _ _ _ h9, leader, hl, ?_⟩
    exact matchedSigners_singleton _ _ (by simpa using h6)

/-- what `validateCommit` establishes of a single commit against the accepted proposal -/
theorem validateCommit_ok (cfg : Cfg) (m : Base) (height round : Nat) (p : Msg) (u : Unit)
    (h : validateCommit cfg m height round p = .ok u) :
    m.type = tCommit ∧ m.sigOk = true ∧ (∀ s ∈ m.signers, s ∈ cfg.committee) ∧ m.signers.Nodup ∧ 0 ∉ m.signers ∧
    m.round = round ∧ p.root = m.root ∧ m.height = height := by
  unfold validateCommit baseCommitValidation at h
  simp at h
  obtain ⟨ht, hh, ⟨x, hv⟩, hs, _, hr, hroot⟩ := h
  obtain ⟨_, hn, h0, _⟩ := signedValidate_ok m x hv
  obtain ⟨hso, hc⟩ := verifySig_true cfg m hs
  exact ⟨ht, hso, hc, hn, h0, hr, hroot, hh⟩

/-- the validation result of `ProcessMsg`, by message type -/
theorem baseMsgValidation_commit (cfg : Cfg) (s : State) (m : Msg) (u : Unit) (ht : m.type = tCommit)
    (h : baseMsgValidation cfg s m = .ok u) :
    ∃ p, s.accepted = some p ∧ validateCommit cfg m.toBase s.height s.round p = .ok () := by
  unfold baseMsgValidation at h
  simp only [bind_eq_ok, rejectIf_eq_ok, wrap_eq_ok] at h
  obtain ⟨_, _, _, _, h3⟩ := h
  have e0 : (m.type == tProposal) = false := by rw [ht]; decide
  have e1 : (m.type == tPrepare) = false := by rw [ht]; decide
  have e2 : (m.type == tCommit) = true := by rw [ht]; decide
  simp only [e0, e1, e2, if_true, Bool.false_eq_true, if_false] at h3
  split at h3
  · simp at h3
  · rename_i p hp; exact ⟨p, hp, h3⟩

theorem baseMsgValidation_proposal (cfg : Cfg) (s : State) (m : Msg) (u : Unit) (ht : m.type = tProposal)
    (h : baseMsgValidation cfg s m = .ok u) : isValidProposal cfg s m = .ok () := by
  unfold baseMsgValidation at h
  simp only [bind_eq_ok, rejectIf_eq_ok, wrap_eq_ok] at h
  obtain ⟨_, _, _, _, h3⟩ := h
  have e0 : (m.type == tProposal) = true := by rw [ht]; decide
  simp only [e0, if_true] at h3
  exact h3

end Ssv.Qbft
