import Ssv.Model.Qbft.System
open Ssv.Qbft
#eval ((Sys.init 4 3 2 0 [(1,5),(2,5),(3,5),(4,5)]).flush 20).summary
#eval ((Sys.init 7 5 3 3 [(1,5),(2,6),(3,7),(4,8),(5,9),(6,10),(7,11)]).flush 20).summary
