import Ssv.Proofs.QbftCert
set_option linter.unusedSimpArgs false
namespace Ssv.Qbft

/-- outputs an instance can produce: its own broadcasts and timer calls -/
def InstOut (o : Out) : Prop := (∃ m, o = .bcast m) ∨ (∃ h r, o = .timer h r)
def OutsInst (l : List Out) : Prop := ∀ o ∈ l, InstOut o

theorem outsInst_nil : OutsInst [] := by intro o ho; simp at ho
theorem outsInst_append {a b : List Out} (ha : OutsInst a) (hb : OutsInst b) : OutsInst (a ++ b) := by
  intro o ho; rcases List.mem_append.1 ho with h | h
  · exact ha o h
  · exact hb o h
theorem outsInst_timer (h r : Nat) : OutsInst [.timer h r] := by
  intro o ho; simp at ho; exact Or.inr ⟨h, r, ho⟩
theorem outsInst_okStep (s : State) (o : List Out) (h : OutsInst o) : OutsInst (okStep s o).outs := h
theorem outsInst_failStep (s : State) (o : List Out) (f : Fail) (h : OutsInst o) : OutsInst (failStep s o f).outs := by
  cases f <;> exact h

theorem broadcast_outs (cfg : Cfg) (s : State) (m : Msg) (o : List Out) (h : broadcast cfg s m = .ok o) : OutsInst o := by
  unfold broadcast at h
  split at h
  · simp at h; subst h; intro x hx; simp at hx; exact Or.inl ⟨m, hx⟩
  · simp at h

theorem outsInst_sendOr (cfg : Cfg) (s : State) (a : Atom) (m : Msg) (pre : List Out) (h : OutsInst pre) :
    OutsInst (sendOr cfg s a m pre).outs := by
  unfold sendOr
  split
  · rename_i o ho
    exact outsInst_append h (broadcast_outs cfg s m o (by simpa using ho))
  · exact outsInst_failStep _ _ _ h

theorem outsInst_uponProposal (cfg : Cfg) (s : State) (m : Msg) : OutsInst (uponProposal cfg s m).outs := by
  unfold uponProposal
  simp only
  split
  · exact outsInst_nil
  · apply outsInst_sendOr
    split
    · exact outsInst_timer _ _
    · exact outsInst_nil

theorem outsInst_uponPrepare (cfg : Cfg) (s : State) (m : Msg) : OutsInst (uponPrepare cfg s m).outs := by
  unfold uponPrepare
  simp only
  repeat' split
  all_goals first | exact outsInst_nil | exact outsInst_sendOr _ _ _ _ _ outsInst_nil

theorem outsInst_uponCommit (cfg : Cfg) (s : State) (m : Msg) : OutsInst (uponCommit cfg s m).outs := by
  unfold uponCommit
  simp only
  repeat' split
  all_goals first | exact outsInst_nil | exact outsInst_failStep _ _ _ outsInst_nil

theorem outsInst_partialQuorum (cfg : Cfg) (s : State) (r : Nat) : OutsInst (uponChangeRoundPartialQuorum cfg s r).outs := by
  unfold uponChangeRoundPartialQuorum
  exact outsInst_sendOr _ _ _ _ _ (outsInst_timer _ _)

theorem outsInst_uponRoundChange (cfg : Cfg) (s : State) (m : Msg) : OutsInst (uponRoundChange cfg s m).outs := by
  unfold uponRoundChange
  simp only
  repeat' split
  all_goals first | exact outsInst_nil | exact outsInst_failStep _ _ _ outsInst_nil | exact outsInst_sendOr _ _ _ _ _ outsInst_nil | exact outsInst_partialQuorum _ _ _

theorem outsInst_processMsg (cfg : Cfg) (s : State) (m : Msg) : OutsInst (processMsg cfg s m).outs := by
  unfold processMsg
  split
  · exact outsInst_nil
  · split
    · exact outsInst_failStep _ _ _ outsInst_nil
    · repeat' split
      all_goals first | exact outsInst_nil | exact outsInst_uponProposal _ _ _ | exact outsInst_uponPrepare _ _ _ | exact outsInst_uponCommit _ _ _ | exact outsInst_uponRoundChange _ _ _

theorem outsInst_uponRoundTimeout (cfg : Cfg) (s : State) : OutsInst (uponRoundTimeout cfg s).outs := by
  unfold uponRoundTimeout
  split
  · exact outsInst_nil
  · simp only
    split
    · rename_i o ho
      exact outsInst_append (broadcast_outs cfg s _ o (by simpa using ho)) (outsInst_timer _ _)
    · exact outsInst_failStep _ _ _ (outsInst_timer _ _)

theorem outsInst_start (cfg : Cfg) (s : State) (v h : Nat) : OutsInst (start cfg s v h).outs := by
  unfold start
  split
  · exact outsInst_nil
  · simp only
    split
    · exact outsInst_timer _ _
    · split
      · split
        · rename_i o ho
          exact outsInst_append (outsInst_timer _ _) (broadcast_outs cfg _ _ o ho)
        · exact outsInst_timer _ _
      · exact outsInst_timer _ _

theorem instOut_not_decision (o : Out) (h : InstOut o) (d : Msg) : ¬ (o = .bcastDecided d ∨ o = .save d ∨ o = .notify d) := by
  rcases h with ⟨m, rfl⟩ | ⟨a, b, rfl⟩ <;> simp
end Ssv.Qbft
