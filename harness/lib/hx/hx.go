// Package hx: helpers shared by the verification harness programs (PRNG, line protocol, stats).
package hx

import (
	"bufio"
	"encoding/hex"
	"encoding/json"
	"flag"
	"fmt"
	"os"
	"sort"
	"strconv"
)

// Rng is splitmix64: every random choice of a harness run derives from one seed.
type Rng struct{ s uint64 }

// NewRng hashes the seed once so that seeds differing by a small amount give unrelated streams
// (splitmix64 advances its state by a constant, so un-hashed nearby seeds would be shifts of one stream).
func NewRng(seed uint64) *Rng {
	r := &Rng{s: seed*0x9E3779B97F4A7C15 + 0x1234567}
	r.s = r.U64() ^ (seed << 32)
	return r
}
func (r *Rng) U64() uint64 {
	r.s += 0x9E3779B97F4A7C15
	z := r.s
	z = (z ^ (z >> 30)) * 0xBF58476D1CE4E5B9
	z = (z ^ (z >> 27)) * 0x94D049BB133111EB
	return z ^ (z >> 31)
}
func (r *Rng) Intn(n int) int {
	if n <= 0 {
		return 0
	}
	return int(r.U64() % uint64(n))
}
func (r *Rng) Bool() bool        { return r.U64()&1 == 1 }
func (r *Rng) Chance(p int) bool { return r.Intn(100) < p } // p percent
func (r *Rng) Bytes(n int) []byte {
	b := make([]byte, n)
	for i := range b {
		b[i] = byte(r.U64())
	}
	return b
}
func (r *Rng) Pick(xs ...int) int { return xs[r.Intn(len(xs))] }
func (r *Rng) Perm(n int) []int {
	p := make([]int, n)
	for i := range p {
		p[i] = i
	}
	for i := n - 1; i > 0; i-- {
		j := r.Intn(i + 1)
		p[i], p[j] = p[j], p[i]
	}
	return p
}

// Hex renders bytes for the line protocol ("-" is the empty string).
func Hex(b []byte) string {
	if len(b) == 0 {
		return "-"
	}
	return hex.EncodeToString(b)
}

// Violation is one failure of the implementation-side property oracle.
type Violation struct {
	Sig    string   `json:"sig"`    // cause signature, matched against known_findings.json
	Detail string   `json:"detail"` // human readable
	Replay []string `json:"replay"` // op lines that reproduce it
}

// Run carries the output streams and the statistics of a harness run.
type Run struct {
	Seed       uint64
	N          int
	Tier       string
	ops, out   *bufio.Writer
	fo, fi     *os.File
	statsPath  string
	Evals      int
	Tags       map[string]int // distribution: op kinds / branches / outcome classes
	Distinct   map[string]struct{}
	Samples    []string
	Viol       []Violation
	Extra      map[string]any
	ReplayPath string
}

// Start parses the common flags: -seed -n -tier -ops -out -stats -replay
func Start() *Run {
	seed := flag.Uint64("seed", 1, "PRNG seed")
	n := flag.Int("n", 1000, "number of cases")
	tier := flag.String("tier", "quick", "quick|thorough")
	ops := flag.String("ops", "", "file receiving one op per line")
	out := flag.String("out", "", "file receiving one implementation observation per line")
	stats := flag.String("stats", "", "file receiving run statistics as JSON")
	replay := flag.String("replay", "", "replay file: op lines to re-run instead of generating")
	flag.Parse()
	r := &Run{Seed: *seed, N: *n, Tier: *tier, Tags: map[string]int{}, Distinct: map[string]struct{}{}, Extra: map[string]any{}, statsPath: *stats, ReplayPath: *replay}
	var err error
	if *ops != "" {
		if r.fo, err = os.Create(*ops); err != nil {
			panic(err)
		}
		r.ops = bufio.NewWriterSize(r.fo, 1<<20)
	}
	if *out != "" {
		if r.fi, err = os.Create(*out); err != nil {
			panic(err)
		}
		r.out = bufio.NewWriterSize(r.fi, 1<<20)
	}
	return r
}

// Emit records one op line and the implementation's canonical observation for it.
func (r *Run) Emit(op, obs string) {
	r.Evals++
	if r.ops != nil {
		r.ops.WriteString(op)
		r.ops.WriteByte('\n')
	}
	if r.out != nil {
		r.out.WriteString(obs)
		r.out.WriteByte('\n')
	}
	if len(r.Samples) < 6 && r.Evals%97 == 1 {
		s := op + " => " + obs
		if len(s) > 300 {
			s = s[:300] + "…"
		}
		r.Samples = append(r.Samples, s)
	}
}

// Tag counts a distribution bucket; Seen records a distinct non-trivial case class.
func (r *Run) Tag(t string)  { r.Tags[t]++ }
func (r *Run) Seen(k string) { r.Distinct[k] = struct{}{} }

func (r *Run) Violate(sig, detail string, replay ...string) {
	if len(r.Viol) < 50 {
		r.Viol = append(r.Viol, Violation{Sig: sig, Detail: detail, Replay: replay})
	}
}

// ReplayLines returns the op lines of the replay file (nil when not replaying).
func (r *Run) ReplayLines() []string {
	if r.ReplayPath == "" {
		return nil
	}
	f, err := os.Open(r.ReplayPath)
	if err != nil {
		panic(err)
	}
	defer f.Close()
	var ls []string
	sc := bufio.NewScanner(f)
	sc.Buffer(make([]byte, 1<<20), 1<<26)
	for sc.Scan() {
		if t := sc.Text(); t != "" && t[0] != '#' {
			ls = append(ls, t)
		}
	}
	return ls
}

func (r *Run) Finish() {
	if r.ops != nil {
		r.ops.Flush()
		r.fo.Close()
	}
	if r.out != nil {
		r.out.Flush()
		r.fi.Close()
	}
	if r.statsPath == "" {
		return
	}
	keys := make([]string, 0, len(r.Tags))
	for k := range r.Tags {
		keys = append(keys, k)
	}
	sort.Strings(keys)
	dist := map[string]int{}
	for _, k := range keys {
		dist[k] = r.Tags[k]
	}
	st := map[string]any{
		"seed": r.Seed, "n": r.N, "tier": r.Tier, "evaluations": r.Evals,
		"distinct_nontrivial": len(r.Distinct), "input_distribution": dist,
		"samples": r.Samples, "violations": r.Viol, "extra": r.Extra,
	}
	b, _ := json.MarshalIndent(st, "", " ")
	if err := os.WriteFile(r.statsPath, b, 0o644); err != nil {
		panic(err)
	}
}

func Itoa(i int) string                 { return strconv.Itoa(i) }
func Sprintf(f string, a ...any) string { return fmt.Sprintf(f, a...) }

func Min(a, b int) int {
	if a < b {
		return a
	}
	return b
}
