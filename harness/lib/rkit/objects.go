package rkit

// Independent (runner-free) computation of the duty objects a consensus value contains and of the pre-consensus
// objects of a duty: the harness' abstraction function "object is contained in the value".

import (
	v1 "github.com/attestantio/go-eth2-client/api/v1"
	"github.com/attestantio/go-eth2-client/spec/altair"
	"github.com/attestantio/go-eth2-client/spec/phase0"
	spectypes "github.com/bloxapp/ssv-spec/types"
	ssz "github.com/ferranbt/fastssz"
)

// ValueFacts are the oracle facts about a consensus value.
type ValueFacts struct {
	DecodeOK bool
	GetOK    bool
	Slot     phase0.Slot
	Roots    [][32]byte // signing roots of the contained duty objects, in the order of the role's getter
	CD       *spectypes.ConsensusData
}

func (k Kind) PostDomain() phase0.DomainType {
	switch k.Role {
	case spectypes.BNRoleAttester:
		return spectypes.DomainAttester
	case spectypes.BNRoleProposer:
		return spectypes.DomainProposer
	case spectypes.BNRoleAggregator:
		return spectypes.DomainAggregateAndProof
	case spectypes.BNRoleSyncCommittee:
		return spectypes.DomainSyncCommittee
	case spectypes.BNRoleSyncCommitteeContribution:
		return spectypes.DomainContributionAndProof
	}
	return spectypes.DomainError
}

func (k Kind) PreDomain() phase0.DomainType {
	switch k.Role {
	case spectypes.BNRoleProposer:
		return spectypes.DomainRandao
	case spectypes.BNRoleAggregator:
		return spectypes.DomainSelectionProof
	case spectypes.BNRoleSyncCommitteeContribution:
		return spectypes.DomainSyncCommitteeSelectionProof
	case spectypes.BNRoleVoluntaryExit:
		return spectypes.DomainVoluntaryExit
	case spectypes.BNRoleValidatorRegistration:
		return spectypes.DomainApplicationBuilder
	}
	return spectypes.DomainError
}

// ValueObjects decodes a consensus value and extracts the duty objects of this role from it.
func (k Kind) ValueObjects(value []byte) ValueFacts {
	f := ValueFacts{}
	cd := &spectypes.ConsensusData{}
	if err := cd.Decode(value); err != nil {
		return f
	}
	f.DecodeOK, f.CD, f.Slot = true, cd, cd.Duty.Slot
	var objs []ssz.HashRoot
	switch k.Role {
	case spectypes.BNRoleAttester:
		a, err := cd.GetAttestationData()
		if err != nil {
			return f
		}
		objs = []ssz.HashRoot{a}
	case spectypes.BNRoleProposer:
		if _, hr, err := cd.GetBlindedBlockData(); err == nil {
			objs = []ssz.HashRoot{hr}
		} else if _, hr, err := cd.GetBlockData(); err == nil {
			objs = []ssz.HashRoot{hr}
		} else {
			return f
		}
	case spectypes.BNRoleAggregator:
		a, err := cd.GetAggregateAndProof()
		if err != nil {
			return f
		}
		objs = []ssz.HashRoot{a}
	case spectypes.BNRoleSyncCommittee:
		r, err := cd.GetSyncCommitteeBlockRoot()
		if err != nil {
			return f
		}
		objs = []ssz.HashRoot{spectypes.SSZBytes(r[:])}
	case spectypes.BNRoleSyncCommitteeContribution:
		cs, err := cd.GetSyncCommitteeContributions()
		if err != nil {
			return f
		}
		for _, c := range cs {
			cc := c.Contribution
			objs = append(objs, &altair.ContributionAndProof{AggregatorIndex: cd.Duty.ValidatorIndex, Contribution: &cc, SelectionProof: c.SelectionProofSig})
		}
	default:
		return f
	}
	f.GetOK = true
	for _, o := range objs {
		f.Roots = append(f.Roots, SigningRoot(o, k.PostDomain()))
	}
	return f
}

// PreObjects: signing roots of the pre-consensus objects `executeDuty` signs for this duty.
func (k Kind) PreObjects(share *spectypes.Share, duty *spectypes.Duty) [][32]byte {
	bn := spectypes.BeaconTestNetwork
	var objs []ssz.HashRoot
	switch k.Role {
	case spectypes.BNRoleProposer:
		objs = []ssz.HashRoot{spectypes.SSZUint64(bn.EstimatedEpochAtSlot(duty.Slot))}
	case spectypes.BNRoleAggregator:
		objs = []ssz.HashRoot{spectypes.SSZUint64(duty.Slot)}
	case spectypes.BNRoleSyncCommitteeContribution:
		for _, idx := range duty.ValidatorSyncCommitteeIndices {
			objs = append(objs, &altair.SyncAggregatorSelectionData{Slot: duty.Slot, SubcommitteeIndex: idx})
		}
	case spectypes.BNRoleVoluntaryExit:
		objs = []ssz.HashRoot{&phase0.VoluntaryExit{Epoch: bn.EstimatedEpochAtSlot(duty.Slot), ValidatorIndex: duty.ValidatorIndex}}
	case spectypes.BNRoleValidatorRegistration:
		pk := phase0.BLSPubKey{}
		copy(pk[:], share.ValidatorPubKey)
		objs = []ssz.HashRoot{&v1.ValidatorRegistration{FeeRecipient: share.FeeRecipientAddress, GasLimit: spectypes.DefaultGasLimit,
			Timestamp: bn.EpochStartTime(bn.EstimatedEpochAtSlot(duty.Slot)), Pubkey: pk}}
	}
	var out [][32]byte
	for _, o := range objs {
		out = append(out, SigningRoot(o, k.PreDomain()))
	}
	return out
}

// DomainName maps a beacon signature domain to the name the model uses.
func DomainName(d phase0.DomainType) string {
	switch d {
	case spectypes.DomainRandao:
		return "randao"
	case spectypes.DomainSelectionProof:
		return "selectionProof"
	case spectypes.DomainSyncCommitteeSelectionProof:
		return "syncSelectionProof"
	case spectypes.DomainVoluntaryExit:
		return "voluntaryExit"
	case spectypes.DomainApplicationBuilder:
		return "applicationBuilder"
	case spectypes.DomainAttester:
		return "attester"
	case spectypes.DomainProposer:
		return "proposer"
	case spectypes.DomainAggregateAndProof:
		return "aggregateAndProof"
	case spectypes.DomainSyncCommittee:
		return "syncCommittee"
	case spectypes.DomainContributionAndProof:
		return "contributionAndProof"
	}
	return "other"
}
