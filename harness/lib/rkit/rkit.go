// Package rkit: shared pieces of the `partialsig` (C05) and `runner` (C03) harnesses.
// Builds REAL duty runners the way operator/validator.SetupRunners does (real QBFT controller, real
// value checks, spec test key sets = real threshold BLS shares) around recording mocks of the three
// external systems: beacon node (Submit* calls), network (Broadcast) and key manager (SignBeaconObject).
// Nothing of the runner / container / reconstruction logic is re-implemented here.
package rkit

import (
	"bytes"
	"encoding/hex"
	"fmt"
	"sort"
	"sync"

	"github.com/attestantio/go-eth2-client/api"
	spec "github.com/attestantio/go-eth2-client/spec"
	"github.com/attestantio/go-eth2-client/spec/altair"
	"github.com/attestantio/go-eth2-client/spec/bellatrix"
	"github.com/attestantio/go-eth2-client/spec/phase0"
	specqbft "github.com/bloxapp/ssv-spec/qbft"
	specssv "github.com/bloxapp/ssv-spec/ssv"
	spectypes "github.com/bloxapp/ssv-spec/types"
	tu "github.com/bloxapp/ssv-spec/types/testingutils"
	ssz "github.com/ferranbt/fastssz"
	"github.com/herumi/bls-eth-go-binary/bls"
	"go.uber.org/zap"

	"github.com/bloxapp/ssv/protocol/v2/qbft"
	qbftcontroller "github.com/bloxapp/ssv/protocol/v2/qbft/controller"
	"github.com/bloxapp/ssv/protocol/v2/qbft/roundtimer"
	qbfttesting "github.com/bloxapp/ssv/protocol/v2/qbft/testing"
	"github.com/bloxapp/ssv/protocol/v2/ssv/runner"
	ssvtypes "github.com/bloxapp/ssv/protocol/v2/types"
)

// ---------------------------------------------------------------- key sets

func KeySet(n int) *tu.TestKeySet {
	switch n {
	case 4:
		return ks4
	case 7:
		return ks7
	case 10:
		return ks10
	case 13:
		return ks13
	}
	panic("committee size")
}

var ks4, ks7, ks10, ks13 = tu.Testing4SharesSet(), tu.Testing7SharesSet(), tu.Testing10SharesSet(), tu.Testing13SharesSet()

// ---------------------------------------------------------------- recording mocks

// Submission is one Submit* call on the beacon node.
type Submission struct {
	Call   string       // SubmitAttestation, SubmitBeaconBlock, ...
	Obj    ssz.HashRoot // the duty object the signature is over
	Domain phase0.DomainType
	Sig    phase0.BLSSignature
	Note   string
}

// RecBeacon is the spec test beacon node with every Submit* call recorded.
type RecBeacon struct {
	*tu.TestingBeaconNode
	Subs []Submission
	// LastEpoch is the epoch of the most recent DomainData call (signBeaconObject asks for the domain right before it signs)
	LastEpoch phase0.Epoch
	// FailSubmit makes every Submit* return an error (after recording)
	FailSubmit bool
}

func NewRecBeacon() *RecBeacon { return &RecBeacon{TestingBeaconNode: tu.NewTestingBeaconNode()} }

func (b *RecBeacon) rec(s Submission) error {
	b.Subs = append(b.Subs, s)
	if b.FailSubmit {
		return fmt.Errorf("beacon node refused")
	}
	return nil
}

func (b *RecBeacon) SubmitAttestation(a *phase0.Attestation) error {
	return b.rec(Submission{Call: "SubmitAttestation", Obj: a.Data, Domain: spectypes.DomainAttester, Sig: a.Signature})
}
func (b *RecBeacon) SubmitBeaconBlock(blk *api.VersionedProposal, sig phase0.BLSSignature) error {
	var obj ssz.HashRoot
	switch {
	case blk.Capella != nil:
		obj = blk.Capella
	case blk.Deneb != nil && blk.Deneb.Block != nil:
		obj = blk.Deneb.Block
	default:
		return b.rec(Submission{Call: "SubmitBeaconBlock", Note: "no-block", Domain: spectypes.DomainProposer, Sig: sig})
	}
	return b.rec(Submission{Call: "SubmitBeaconBlock", Obj: obj, Domain: spectypes.DomainProposer, Sig: sig})
}
func (b *RecBeacon) SubmitBlindedBeaconBlock(blk *api.VersionedBlindedProposal, sig phase0.BLSSignature) error {
	var obj ssz.HashRoot
	switch {
	case blk.Capella != nil:
		obj = blk.Capella
	case blk.Deneb != nil:
		obj = blk.Deneb
	default:
		return b.rec(Submission{Call: "SubmitBlindedBeaconBlock", Note: "no-block", Domain: spectypes.DomainProposer, Sig: sig})
	}
	return b.rec(Submission{Call: "SubmitBlindedBeaconBlock", Obj: obj, Domain: spectypes.DomainProposer, Sig: sig})
}
func (b *RecBeacon) SubmitSignedAggregateSelectionProof(m *phase0.SignedAggregateAndProof) error {
	return b.rec(Submission{Call: "SubmitSignedAggregateSelectionProof", Obj: m.Message, Domain: spectypes.DomainAggregateAndProof, Sig: m.Signature})
}
func (b *RecBeacon) SubmitSyncMessage(m *altair.SyncCommitteeMessage) error {
	return b.rec(Submission{Call: "SubmitSyncMessage", Obj: spectypes.SSZBytes(m.BeaconBlockRoot[:]), Domain: spectypes.DomainSyncCommittee, Sig: m.Signature})
}
func (b *RecBeacon) SubmitSignedContributionAndProof(c *altair.SignedContributionAndProof) error {
	return b.rec(Submission{Call: "SubmitSignedContributionAndProof", Obj: c.Message, Domain: spectypes.DomainContributionAndProof, Sig: c.Signature})
}
func (b *RecBeacon) SubmitVoluntaryExit(e *phase0.SignedVoluntaryExit) error {
	return b.rec(Submission{Call: "SubmitVoluntaryExit", Obj: e.Message, Domain: spectypes.DomainVoluntaryExit, Sig: e.Signature})
}

// RegObj is filled by the harness with the registration object of the running duty (the call carries only key, recipient and signature).
func (b *RecBeacon) SubmitValidatorRegistration(pubkey []byte, feeRecipient bellatrix.ExecutionAddress, sig phase0.BLSSignature) error {
	return b.rec(Submission{Call: "SubmitValidatorRegistration", Obj: nil, Domain: spectypes.DomainApplicationBuilder, Sig: sig,
		Note: hex.EncodeToString(pubkey) + ":" + hex.EncodeToString(feeRecipient[:])})
}

func (b *RecBeacon) DomainData(epoch phase0.Epoch, domain phase0.DomainType) (phase0.Domain, error) {
	b.LastEpoch = epoch
	return b.TestingBeaconNode.DomainData(epoch, domain)
}

// RecNet records every broadcast.
type RecNet struct {
	Msgs []*spectypes.SSVMessage
	Fail bool // the network refuses to publish (Broadcast returns an error, nothing is recorded)
}

func (n *RecNet) Broadcast(m *spectypes.SSVMessage) error {
	if n.Fail {
		return fmt.Errorf("network refused to publish")
	}
	n.Msgs = append(n.Msgs, m)
	return nil
}

// SignEvent is one KeyManager.SignBeaconObject call.
type SignEvent struct {
	Root       [32]byte // signing root (object root + domain)
	ObjRoot    [32]byte // hash tree root of the object
	Domain     phase0.Domain
	DomainType phase0.DomainType
	PK         []byte
	Err        bool
	Epoch      phase0.Epoch // epoch of the DomainData call that preceded the signature (= epoch of the slot handed to signBeaconObject)
}

// RecKM wraps the spec testing key manager (which holds all test shares) and records validator-key-share signatures.
type RecKM struct {
	spectypes.KeyManager
	Signs []SignEvent
	BN    *RecBeacon
	mu    sync.Mutex // the validator-level harnesses sign from queue-consumer goroutines
}

// SignCount is the number of SignBeaconObject calls so far (safe to call from another goroutine).
func (k *RecKM) SignCount() int {
	k.mu.Lock()
	defer k.mu.Unlock()
	return len(k.Signs)
}

func NewRecKM() *RecKM { return &RecKM{KeyManager: tu.NewTestingKeyManager()} }

func (k *RecKM) SignBeaconObject(obj ssz.HashRoot, domain phase0.Domain, pk []byte, domainType phase0.DomainType) (spectypes.Signature, [32]byte, error) {
	sig, r, err := k.KeyManager.SignBeaconObject(obj, domain, pk, domainType)
	or, _ := obj.HashTreeRoot()
	ev := SignEvent{Root: r, ObjRoot: or, Domain: domain, DomainType: domainType, PK: append([]byte{}, pk...), Err: err != nil}
	if k.BN != nil {
		ev.Epoch = k.BN.LastEpoch
	}
	k.mu.Lock()
	k.Signs = append(k.Signs, ev)
	k.mu.Unlock()
	return sig, r, err
}

// ---------------------------------------------------------------- runner construction

// Kind names a runner flavour.
type Kind struct {
	Name    string
	Role    spectypes.BeaconRole
	Blinded bool
}

var Kinds = []Kind{
	{"att", spectypes.BNRoleAttester, false},
	{"prop", spectypes.BNRoleProposer, false},
	{"propb", spectypes.BNRoleProposer, true},
	{"agg", spectypes.BNRoleAggregator, false},
	{"sc", spectypes.BNRoleSyncCommittee, false},
	{"contrib", spectypes.BNRoleSyncCommitteeContribution, false},
	{"reg", spectypes.BNRoleValidatorRegistration, false},
	{"exit", spectypes.BNRoleVoluntaryExit, false},
}

func KindByName(n string) (Kind, bool) {
	for _, k := range Kinds {
		if k.Name == n {
			return k, true
		}
	}
	return Kind{}, false
}

// HasConsensus: the duty goes through QBFT; PreOnly: the submission is triggered by the pre-consensus quorum.
func (k Kind) HasConsensus() bool {
	return k.Role != spectypes.BNRoleValidatorRegistration && k.Role != spectypes.BNRoleVoluntaryExit
}
func (k Kind) HasPre() bool {
	return k.Role == spectypes.BNRoleProposer || k.Role == spectypes.BNRoleAggregator || k.Role == spectypes.BNRoleSyncCommitteeContribution || !k.HasConsensus()
}

// Env is one operator's runner with its mocks.
type Env struct {
	Kind   Kind
	KS     *tu.TestKeySet
	OpID   spectypes.OperatorID
	Share  *spectypes.Share
	Runner runner.Runner
	BN     *RecBeacon
	Net    *RecNet
	KM     *RecKM
	Ctrl   *qbftcontroller.Controller
	Log    *zap.Logger
}

var nop = zap.NewNop()

// ShareFor builds operator `op`'s share the way the spec test kit does, with quorum values taken from the node's own kernel.
func ShareFor(ks *tu.TestKeySet, op spectypes.OperatorID) *spectypes.Share {
	sh := tu.TestingShare(ks)
	sh.OperatorID = op
	sh.SharePubKey = ks.Shares[op].GetPublicKey().Serialize()
	sh.Quorum, sh.PartialQuorum = ssvtypes.ComputeQuorumAndPartialQuorum(len(sh.Committee))
	return sh
}

// NewEnv mirrors operator/validator.SetupRunners for one role.
func NewEnv(kind Kind, ks *tu.TestKeySet, op spectypes.OperatorID) *Env {
	return NewEnvWith(kind, ks, op, NewRecBeacon(), &RecNet{}, NewRecKM())
}

// NewEnvWith builds the runner around the given (possibly shared) mocks.
func NewEnvWith(kind Kind, ks *tu.TestKeySet, op spectypes.OperatorID, bn *RecBeacon, net *RecNet, km *RecKM) *Env {
	e := &Env{Kind: kind, KS: ks, OpID: op, BN: bn, Net: net, KM: km, Log: nop}
	if km.BN == nil {
		km.BN = bn
	}
	e.Share = ShareFor(ks, op)
	bnet := spectypes.BeaconTestNetwork
	vpk := e.Share.ValidatorPubKey
	idx := phase0.ValidatorIndex(tu.TestingValidatorIndex)
	build := func(vc specqbft.ProposedValueCheckF) *qbftcontroller.Controller {
		cfg := &qbft.Config{
			Signer:    e.KM,
			SigningPK: e.Share.SharePubKey,
			Domain:    tu.TestingSSVDomainType,
			ProposerF: func(state *specqbft.State, round specqbft.Round) spectypes.OperatorID {
				return specqbft.RoundRobinProposer(state, round)
			},
			Storage:               qbfttesting.TestingStores(nop).Get(kind.Role),
			Network:               e.Net,
			Timer:                 roundtimer.NewTestingTimer(),
			SignatureVerification: true,
		}
		cfg.ValueCheckF = vc
		id := spectypes.NewMsgID(tu.TestingSSVDomainType, vpk, kind.Role)
		c := qbftcontroller.NewController(id[:], e.Share, cfg, false)
		e.Ctrl = c
		return c
	}
	switch kind.Role {
	case spectypes.BNRoleAttester:
		vc := specssv.AttesterValueCheckF(e.KM, bnet, vpk, idx, e.Share.SharePubKey)
		e.Runner = runner.NewAttesterRunnner(bnet, e.Share, build(vc), e.BN, e.Net, e.KM, vc, 0)
	case spectypes.BNRoleProposer:
		vc := specssv.ProposerValueCheckF(e.KM, bnet, vpk, idx, e.Share.SharePubKey)
		e.Runner = runner.NewProposerRunner(bnet, e.Share, build(vc), e.BN, e.Net, e.KM, vc, 0)
		e.Runner.(*runner.ProposerRunner).ProducesBlindedBlocks = kind.Blinded
	case spectypes.BNRoleAggregator:
		vc := specssv.AggregatorValueCheckF(e.KM, bnet, vpk, idx)
		e.Runner = runner.NewAggregatorRunner(bnet, e.Share, build(vc), e.BN, e.Net, e.KM, vc, 0)
	case spectypes.BNRoleSyncCommittee:
		vc := specssv.SyncCommitteeValueCheckF(e.KM, bnet, vpk, idx)
		e.Runner = runner.NewSyncCommitteeRunner(bnet, e.Share, build(vc), e.BN, e.Net, e.KM, vc, 0)
	case spectypes.BNRoleSyncCommitteeContribution:
		vc := specssv.SyncCommitteeContributionValueCheckF(e.KM, bnet, vpk, idx)
		e.Runner = runner.NewSyncCommitteeAggregatorRunner(bnet, e.Share, build(vc), e.BN, e.Net, e.KM, vc, 0)
	case spectypes.BNRoleValidatorRegistration:
		e.Runner = runner.NewValidatorRegistrationRunner(bnet, e.Share, build(nil), e.BN, e.Net, e.KM)
	case spectypes.BNRoleVoluntaryExit:
		e.Runner = runner.NewVoluntaryExitRunner(bnet, e.Share, e.BN, e.Net, e.KM)
	default:
		panic("role")
	}
	return e
}

// Duty returns the spec test duty of this kind (slot 12 for all but the proposer, which needs a Capella slot), shifted by `slotDelta`.
func (k Kind) Duty(slotDelta uint64) *spectypes.Duty {
	var d spectypes.Duty
	switch k.Role {
	case spectypes.BNRoleAttester:
		d = tu.TestingAttesterDuty
	case spectypes.BNRoleProposer:
		d = *tu.TestingProposerDutyV(spec.DataVersionCapella)
	case spectypes.BNRoleAggregator:
		d = tu.TestingAggregatorDuty
	case spectypes.BNRoleSyncCommittee:
		d = tu.TestingSyncCommitteeDuty
	case spectypes.BNRoleSyncCommitteeContribution:
		d = tu.TestingSyncCommitteeContributionDuty
	case spectypes.BNRoleValidatorRegistration:
		d = tu.TestingValidatorRegistrationDuty
	case spectypes.BNRoleVoluntaryExit:
		d = tu.TestingVoluntaryExitDuty
	}
	d.Slot += phase0.Slot(slotDelta)
	return &d
}

// ---------------------------------------------------------------- messages

// LastPartialSig decodes the most recent partial-signature broadcast of this operator (its own share message).
func (e *Env) LastPartialSig() *spectypes.SignedPartialSignatureMessage {
	for i := len(e.Net.Msgs) - 1; i >= 0; i-- {
		m := e.Net.Msgs[i]
		if m.MsgType != spectypes.SSVPartialSignatureMsgType {
			continue
		}
		sm := &spectypes.SignedPartialSignatureMessage{}
		if err := sm.Decode(m.Data); err != nil {
			panic(err)
		}
		return sm
	}
	return nil
}

// Roots of a partial signature message in message order.
func Roots(sm *spectypes.SignedPartialSignatureMessage) [][32]byte {
	var rs [][32]byte
	for _, m := range sm.Message.Messages {
		rs = append(rs, m.SigningRoot)
	}
	return rs
}

// PartialSigMsg builds signer `id`'s message: one REAL share signature per root (sk = that operator's share key).
// The outer operator signature is produced with the same share key, as the node does.
func PartialSigMsg(ks *tu.TestKeySet, typ spectypes.PartialSigMsgType, slot phase0.Slot, id spectypes.OperatorID, roots [][32]byte, sigs [][]byte) *spectypes.SignedPartialSignatureMessage {
	msgs := spectypes.PartialSignatureMessages{Type: typ, Slot: slot}
	for i, r := range roots {
		msgs.Messages = append(msgs.Messages, &spectypes.PartialSignatureMessage{PartialSignature: sigs[i], SigningRoot: r, Signer: id})
	}
	var outer []byte
	if sk, ok := ks.Shares[id]; ok {
		// the operator signature over the message (the runner does not verify it; message validation does). Cached: BLS signing is slow.
		if r, err := msgs.GetRoot(); err == nil {
			k := fmt.Sprintf("%d/%d/%x", ks.ShareCount, id, r)
			if c, ok := outerSigCache[k]; ok {
				outer = c
			} else if s, err := tu.NewTestingKeyManager().SignRoot(msgs, spectypes.PartialSignatureType, sk.GetPublicKey().Serialize()); err == nil {
				outer = s
				outerSigCache[k] = s
			}
		}
	}
	if outer == nil {
		outer = make([]byte, 96)
	}
	return &spectypes.SignedPartialSignatureMessage{Message: msgs, Signature: outer, Signer: id}
}

var shareSigCache = map[string][]byte{}
var outerSigCache = map[string][]byte{}
var decidedCache = map[string]*specqbft.SignedMessage{}

// ShareSig is operator id's real BLS share signature over root (cached: BLS signing is slow).
func ShareSig(ks *tu.TestKeySet, id spectypes.OperatorID, root [32]byte) []byte {
	k := fmt.Sprintf("%d/%d/%x", ks.ShareCount, id, root)
	if s, ok := shareSigCache[k]; ok {
		return s
	}
	s := ks.Shares[id].SignByte(root[:]).Serialize()
	shareSigCache[k] = s
	return s
}

var verifyCache = map[string]bool{}

// VerifyShare: real BLS verification of a share signature under operator id's share public key (cached).
func VerifyShare(ks *tu.TestKeySet, id spectypes.OperatorID, root [32]byte, sig []byte) bool {
	sk, ok := ks.Shares[id]
	if !ok {
		return false
	}
	k := fmt.Sprintf("%d/%d/%x/%x", ks.ShareCount, id, root, sig)
	if v, ok := verifyCache[k]; ok {
		return v
	}
	s := &bls.Sign{}
	v := false
	if err := s.Deserialize(append([]byte(nil), sig...)); err == nil { // fresh copy: cgo pointer rule
		v = s.VerifyByte(sk.GetPublicKey(), root[:])
	}
	verifyCache[k] = v
	return v
}

// VerifyUnderValidator: real BLS verification under the validator public key.
func VerifyUnderValidator(ks *tu.TestKeySet, root [32]byte, sig []byte) bool {
	s := &bls.Sign{}
	if err := s.Deserialize(append([]byte(nil), sig...)); err != nil { // fresh copy: cgo pointer rule
		return false
	}
	return s.VerifyByte(ks.ValidatorPK, root[:])
}

// SigningRoot of a beacon object under the test beacon node's domain data.
func SigningRoot(obj ssz.HashRoot, dt phase0.DomainType) [32]byte {
	d, err := tu.NewTestingBeaconNode().DomainData(0, dt)
	if err != nil {
		panic(err)
	}
	r, err := spectypes.ComputeETHSigningRoot(obj, d)
	if err != nil {
		panic(err)
	}
	return r
}

// DecidedMsg: a commit message for `fullData` aggregated from the given signers' REAL signatures (a valid certificate when |ids| >= quorum).
func DecidedMsg(ks *tu.TestKeySet, identifier []byte, height specqbft.Height, round specqbft.Round, fullData []byte, ids []spectypes.OperatorID) *specqbft.SignedMessage {
	root, err := specqbft.HashDataRoot(fullData)
	if err != nil {
		panic(err)
	}
	key := fmt.Sprintf("%d/%x/%d/%d/%x/%v", ks.ShareCount, identifier, height, round, root, ids)
	if m, ok := decidedCache[key]; ok { // BLS signing is slow: one certificate per distinct (committee, duty, value, signer set)
		cp := *m
		cp.Signers = append([]spectypes.OperatorID{}, m.Signers...)
		cp.Signature = append([]byte{}, m.Signature...)
		cp.FullData = append([]byte{}, m.FullData...)
		return &cp
	}
	sks := make([]*bls.SecretKey, len(ids))
	for i, id := range ids {
		sks[i] = ks.Shares[id]
	}
	m := tu.TestingCommitMultiSignerMessageWithParams(sks, ids, round, height, identifier, root, fullData)
	decidedCache[key] = m
	cp := *m
	cp.Signers = append([]spectypes.OperatorID{}, m.Signers...)
	cp.Signature = append([]byte{}, m.Signature...)
	cp.FullData = append([]byte{}, m.FullData...)
	return &cp
}

// FirstIDs returns operator ids 1..k.
func FirstIDs(k int) []spectypes.OperatorID {
	o := make([]spectypes.OperatorID, k)
	for i := range o {
		o[i] = spectypes.OperatorID(i + 1)
	}
	return o
}

// ContainerDump renders `root -> sorted signers with share quality (real verification)` of a container for the given roots.
func ContainerDump(ks *tu.TestKeySet, c *specssv.PartialSigContainer, roots [][32]byte) string {
	var b bytes.Buffer
	for i, r := range roots {
		if i > 0 {
			b.WriteByte(';')
		}
		m := c.GetSignatures(r)
		ids := make([]int, 0, len(m))
		for id := range m {
			ids = append(ids, int(id))
		}
		sort.Ints(ids)
		for j, id := range ids {
			if j > 0 {
				b.WriteByte(',')
			}
			q := "b"
			if VerifyShare(ks, spectypes.OperatorID(id), r, m[spectypes.OperatorID(id)]) {
				q = "g"
			}
			fmt.Fprintf(&b, "%d%s", id, q)
		}
		if len(ids) == 0 {
			b.WriteByte('-')
		}
	}
	return b.String()
}
