//go:build verif

package metricsreporter

// Verification hook of engine `validation` (C08, resource clause): the number of series (distinct label combinations) the
// message-validation metric vectors hold. A Prometheus vector keeps every series for ever, and the labels are filled from
// peers' messages before they are checked.

import "github.com/prometheus/client_golang/prometheus"

func verifCount(c prometheus.Collector) int {
	ch := make(chan prometheus.Metric, 256)
	go func() {
		c.Collect(ch)
		close(ch)
	}()
	n := 0
	for range ch {
		n++
	}
	return n
}

// VerifValidationSeries returns the series count of every vector the message validator writes to.
func VerifValidationSeries() map[string]int {
	return map[string]int{
		"validation_result":         verifCount(messageValidationResult),
		"validation_ssv_type":       verifCount(messageValidationSSVType),
		"validation_consensus_type": verifCount(messageValidationConsensusType),
		"validation_duration":       verifCount(messageValidationDuration),
		"signature_duration":        verifCount(signatureValidationDuration),
		"active_validation":         verifCount(activeMsgValidation),
		"in_committee":              verifCount(inCommitteeMessages),
		"non_committee":             verifCount(nonCommitteeMessages),
		"rsa_verifications":         verifCount(messageValidationRSAVerifications),
		"message_size":              verifCount(messageSize),
	}
}
