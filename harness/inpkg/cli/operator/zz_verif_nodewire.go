//go:build verif

package operator

import (
	"context"

	"go.uber.org/zap"

	"github.com/bloxapp/ssv/eth/executionclient"
	"github.com/bloxapp/ssv/monitoring/metricsreporter"
	"github.com/bloxapp/ssv/networkconfig"
	operatordatastore "github.com/bloxapp/ssv/operator/datastore"
	operatorstorage "github.com/bloxapp/ssv/operator/storage"
	registrystorage "github.com/bloxapp/ssv/registry/storage"
)

// VerifSetupEventHandling runs the node's REAL setupEventHandling (event handler + event syncer construction, historical sync,
// hand-over to the ongoing sync) for a registry without events: no validator controller, key manager or decrypter is needed.
func VerifSetupEventHandling(ctx context.Context, logger *zap.Logger, ec *executionclient.ExecutionClient,
	netCfg networkconfig.NetworkConfig, ns operatorstorage.Storage) {
	setupEventHandling(ctx, logger, ec, nil, nil, metricsreporter.NewNop(), netCfg, ns,
		operatordatastore.New(&registrystorage.OperatorData{}), nil)
}
