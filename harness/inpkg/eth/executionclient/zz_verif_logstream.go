//go:build verif

package executionclient

import "github.com/ethereum/go-ethereum/rpc"

// VerifRPCClient returns the JSON-RPC client of the connection the ExecutionClient currently uses.
// Only the `logstream` harness (property C13) calls it, for a barrier request: it never changes client state.
func VerifRPCClient(ec *ExecutionClient) *rpc.Client { return ec.client.Client() }
