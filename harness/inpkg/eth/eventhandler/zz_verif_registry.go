//go:build verif

package eventhandler

// Verification hooks for engine `registry` (properties C11/C12): expose the unexported owner-signature
// check so that the harness derives the abstract fact `signedNonce` from the REAL verifier.

import (
	ethcommon "github.com/ethereum/go-ethereum/common"

	registrystorage "github.com/bloxapp/ssv/registry/storage"
)

// VerifVerifySignature calls the real verifySignature (owner:nonce, keccak256, BLS verify by the validator key).
func VerifVerifySignature(sig []byte, owner ethcommon.Address, pubKey []byte, nonce uint16) bool {
	return verifySignature(sig, owner, pubKey, registrystorage.Nonce(nonce)) == nil
}

// VerifEncryptedKeyLength is the constant the handler uses for the share-data length check.
const VerifEncryptedKeyLength = encryptedKeyLength

// VerifMaxOperators is the committee size bound of validateOperators.
const VerifMaxOperators = maxOperators
