//go:build verif

package queue

import "time"

// VerifSetLastRead sets the time of the last inbox read, so that the harness controls the outcome of
// the `time.Since(q.lastRead) > inboxReadFrequency` test at the start of Pop.
func VerifSetLastRead(q Queue, t time.Time) { verifInner(q).lastRead = t }

// verifInner unwraps the metrics wrapper the validator puts around its queue (WithMetrics).
func verifInner(q Queue) *priorityQueue {
	if w, ok := q.(*queueWithMetrics); ok {
		return verifInner(w.Queue)
	}
	return q.(*priorityQueue)
}

// VerifListLen returns the number of messages in the linked list (excluding the inbox channel).
func VerifListLen(q Queue) int {
	n := 0
	for i := verifInner(q).head; i != nil; i = i.next {
		n++
	}
	return n
}
