//go:build verif

package validator

import (
	specqbft "github.com/bloxapp/ssv-spec/qbft"
	spectypes "github.com/bloxapp/ssv-spec/types"
)

// VerifTimerMessage builds the queue event a round-timer callback creates (Validator.onTimeout -> createTimerMessage): the
// verification harness pushes such events for heights / rounds of its choosing (C17: a timeout for another height changes nothing).
func (v *Validator) VerifTimerMessage(identifier spectypes.MessageID, height specqbft.Height, round specqbft.Round) (*spectypes.SSVMessage, error) {
	return v.createTimerMessage(identifier, height, round)
}
