//go:build verif

package runner

import "github.com/attestantio/go-eth2-client/spec/phase0"

// VerifHighestDecidedSlot exposes BaseRunner.highestDecidedSlot to the verification harness (read-only).
func (b *BaseRunner) VerifHighestDecidedSlot() phase0.Slot { return b.highestDecidedSlot }
