//go:build verif

// Verification shim for engine `heights` (property C15): access to unexported runner pieces. Adds no behaviour:
// every function below only forwards to the real unexported method.
package runner

import (
	"errors"

	"github.com/attestantio/go-eth2-client/spec/phase0"
	specqbft "github.com/bloxapp/ssv-spec/qbft"
	spectypes "github.com/bloxapp/ssv-spec/types"
	"go.uber.org/zap"
)

// verifHeightsLateRunner is the real attester runner whose executeDuty does nothing: it stands for a runner
// with a pre-consensus phase (proposer, aggregator, ...), where StartNewDuty only passes the guard, installs the
// new runner state and broadcasts pre-consensus shares; consensus is started later by `decide`.
type verifHeightsLateRunner struct{ *AttesterRunner }

func (verifHeightsLateRunner) executeDuty(*zap.Logger, *spectypes.Duty) error { return nil }

// VerifHeightsBeginDuty runs the real baseStartNewDuty (ShouldProcessDuty + baseSetupForNewDuty) with the
// pre-consensus phase left pending.
func VerifHeightsBeginDuty(logger *zap.Logger, r Runner, duty *spectypes.Duty) error {
	a, ok := r.(*AttesterRunner)
	if !ok {
		return errors.New("verif: attester runner expected")
	}
	return a.BaseRunner.baseStartNewDuty(logger, verifHeightsLateRunner{a}, duty)
}

// VerifHeightsHasDuty is hasRunningDuty (the check ValidatePreConsensusMsg makes before a runner reaches `decide`).
func VerifHeightsHasDuty(r Runner) bool { return r.GetBaseRunner().hasRunningDuty() }

// VerifHeightsDecide is the real BaseRunner.decide.
func VerifHeightsDecide(logger *zap.Logger, r Runner, input *spectypes.ConsensusData) error {
	return r.GetBaseRunner().decide(logger, r, input)
}

// VerifHeightsCompact is the real compactInstanceIfNeeded.
func VerifHeightsCompact(r Runner, msg *specqbft.SignedMessage) { r.GetBaseRunner().compactInstanceIfNeeded(msg) }

// VerifHeightsHighestDecidedSlot reads highestDecidedSlot.
func VerifHeightsHighestDecidedSlot(r Runner) phase0.Slot { return r.GetBaseRunner().highestDecidedSlot }
