//go:build verif

package runner

// Verification hook (engine qbft, C06/C01): run the runner's REAL compaction step
// (`compactInstanceIfNeeded`, called by baseConsensusMsgProcessing right after Controller.ProcessMsg)
// on a bare controller, without a duty runner around it.

import (
	specqbft "github.com/bloxapp/ssv-spec/qbft"
	spectypes "github.com/bloxapp/ssv-spec/types"

	"github.com/bloxapp/ssv/protocol/v2/qbft/controller"
)

// VerifCompactInstanceIfNeeded calls BaseRunner.compactInstanceIfNeeded(msg) for the given controller and share.
func VerifCompactInstanceIfNeeded(ctrl *controller.Controller, share *spectypes.Share, msg *specqbft.SignedMessage) {
	b := &BaseRunner{Share: share, QBFTController: ctrl}
	b.compactInstanceIfNeeded(msg)
}
