//go:build verif

package roundtimer

// Verification hook (C17): the quick/slow allowances of a RoundTimer are seconds/minutes in
// production; the differential harness scales them down to milliseconds so that thousands of
// arm/expire interleavings of the REAL timer can be observed in real time. Nothing else changes:
// RoundTimeout, TimeoutForRound and waitForRound run unmodified.

import (
	"time"

	specqbft "github.com/bloxapp/ssv-spec/qbft"
)

// VerifSetTimeoutOptions replaces the timer's timeoutOptions (call before the first TimeoutForRound).
func (t *RoundTimer) VerifSetTimeoutOptions(quickThreshold specqbft.Round, quick, slow time.Duration) {
	t.timeoutOptions = TimeoutOptions{quickThreshold: quickThreshold, quick: quick, slow: slow}
}

// VerifTimeoutOptions reads the timer's current timeoutOptions (the defaults installed by New).
func (t *RoundTimer) VerifTimeoutOptions() (specqbft.Round, time.Duration, time.Duration) {
	return t.timeoutOptions.quickThreshold, t.timeoutOptions.quick, t.timeoutOptions.slow
}
