//go:build verif

package validation

// Verification hooks of engine `validation` (C08, C09, C10): explicit receive time and signature verifier,
// error identity, read-only view of the per-signer state, direct access to the arithmetic kernels.

import (
	"errors"
	"time"

	"github.com/attestantio/go-eth2-client/spec/phase0"
	specqbft "github.com/bloxapp/ssv-spec/qbft"
	spectypes "github.com/bloxapp/ssv-spec/types"

	"github.com/bloxapp/ssv/protocol/v2/qbft/instance"
	"github.com/bloxapp/ssv/protocol/v2/ssv/queue"
	ssvtypes "github.com/bloxapp/ssv/protocol/v2/types"
)

// VerifValidateSSVWith calls validateSSVMessage with an explicit receive time and signature verifier (nil = before the fork).
func VerifValidateSSVWith(mv MessageValidator, msg *spectypes.SSVMessage, receivedAt time.Time, verifier func() error) (*queue.DecodedSSVMessage, Descriptor, error) {
	return mv.(*messageValidator).validateSSVMessage(msg, receivedAt, verifier)
}

// VerifVerifySignature is the real operator signature check of rsa.go.
func VerifVerifySignature(mv MessageValidator, data []byte, op spectypes.OperatorID, sig []byte) error {
	return mv.(*messageValidator).verifySignature(data, op, sig)
}

var verifErrNames = []struct {
	e Error
	n string
}{
	{ErrEmptyData, "EmptyData"}, {ErrWrongDomain, "WrongDomain"}, {ErrNoShareMetadata, "NoShareMetadata"},
	{ErrUnknownValidator, "UnknownValidator"}, {ErrValidatorLiquidated, "ValidatorLiquidated"},
	{ErrValidatorNotAttesting, "ValidatorNotAttesting"}, {ErrSlotAlreadyAdvanced, "SlotAlreadyAdvanced"},
	{ErrRoundAlreadyAdvanced, "RoundAlreadyAdvanced"}, {ErrZeroRound, "ZeroRound"}, {ErrRoundTooHigh, "RoundTooHigh"},
	{ErrEarlyMessage, "EarlyMessage"}, {ErrLateMessage, "LateMessage"},
	{ErrTooManySameTypeMessagesPerRound, "TooManySameTypeMessagesPerRound"}, {ErrSignatureVerification, "SignatureVerification"},
	{ErrOperatorNotFound, "OperatorNotFound"}, {ErrPubSubMessageHasNoData, "PubSubMessageHasNoData"},
	{ErrPubSubDataTooBig, "PubSubDataTooBig"}, {ErrMalformedPubSubMessage, "MalformedPubSubMessage"},
	{ErrEmptyPubSubMessage, "EmptyPubSubMessage"}, {ErrTopicNotFound, "TopicNotFound"}, {ErrSSVDataTooBig, "SSVDataTooBig"},
	{ErrInvalidRole, "InvalidRole"}, {ErrUnexpectedConsensusMessage, "UnexpectedConsensusMessage"}, {ErrNoSigners, "NoSigners"},
	{ErrWrongSignatureSize, "WrongSignatureSize"}, {ErrZeroSignature, "ZeroSignature"}, {ErrZeroSigner, "ZeroSigner"},
	{ErrSignerNotInCommittee, "SignerNotInCommittee"}, {ErrDuplicatedSigner, "DuplicatedSigner"},
	{ErrSignerNotLeader, "SignerNotLeader"}, {ErrSignersNotSorted, "SignersNotSorted"}, {ErrUnexpectedSigner, "UnexpectedSigner"},
	{ErrInvalidHash, "InvalidHash"}, {ErrEstimatedRoundTooFar, "EstimatedRoundTooFar"}, {ErrMalformedMessage, "MalformedMessage"},
	{ErrMalformedSignedMessage, "MalformedSignedMessage"}, {ErrUnknownSSVMessageType, "UnknownSSVMessageType"},
	{ErrUnknownQBFTMessageType, "UnknownQBFTMessageType"}, {ErrUnknownPartialMessageType, "UnknownPartialMessageType"},
	{ErrPartialSignatureTypeRoleMismatch, "PartialSignatureTypeRoleMismatch"},
	{ErrNonDecidedWithMultipleSigners, "NonDecidedWithMultipleSigners"}, {ErrWrongSignersLength, "WrongSignersLength"},
	{ErrDuplicatedProposalWithDifferentData, "DuplicatedProposalWithDifferentData"}, {ErrEventMessage, "EventMessage"},
	{ErrDKGMessage, "DKGMessage"}, {ErrMalformedPrepareJustifications, "MalformedPrepareJustifications"},
	{ErrUnexpectedPrepareJustifications, "UnexpectedPrepareJustifications"},
	{ErrMalformedRoundChangeJustifications, "MalformedRoundChangeJustifications"},
	{ErrUnexpectedRoundChangeJustifications, "UnexpectedRoundChangeJustifications"}, {ErrInvalidJustifications, "InvalidJustifications"},
	{ErrTooManyDutiesPerEpoch, "TooManyDutiesPerEpoch"}, {ErrNoDuty, "NoDuty"}, {ErrNoDutyIgnored, "NoDutyIgnored"},
	{ErrDeserializePublicKey, "DeserializePublicKey"}, {ErrNoPartialMessages, "NoPartialMessages"},
	{ErrDuplicatedPartialSignatureMessage, "DuplicatedPartialSignatureMessage"},
}

// VerifErrTag identifies a validation error by the package variable it was derived from (name of the Err… variable
// without the prefix) and reports its reject class. Non-validation errors yield ("other", false, false).
func VerifErrTag(err error) (tag string, reject bool, isValErr bool) {
	var e Error
	if !errors.As(err, &e) {
		return "other", false, false
	}
	for _, x := range verifErrNames {
		if x.e.text == e.text {
			return x.n, e.reject, true
		}
	}
	return "unlisted", e.reject, true
}

// VerifSignerState is a copy of one signer's state.
type VerifSignerState struct {
	Found        bool
	Slot         uint64
	Round        uint64
	Counts       [7]int // pre-consensus, proposal, prepare, commit, decided, round change, post-consensus
	ProposalData []byte
	EpochDuties  int
}

// VerifSignerStateOf reads (without creating) the state kept for (validator key, role, signer).
func VerifSignerStateOf(mv MessageValidator, pk []byte, role spectypes.BeaconRole, signer spectypes.OperatorID) VerifSignerState {
	if len(pk) != 48 {
		return VerifSignerState{}
	}
	id := ConsensusID{PubKey: phase0.BLSPubKey(pk), Role: role}
	v, ok := mv.(*messageValidator).index.Load(id)
	if !ok {
		return VerifSignerState{}
	}
	ss := v.(*ConsensusState).GetSignerState(signer)
	if ss == nil {
		return VerifSignerState{}
	}
	c := ss.MessageCounts
	return VerifSignerState{Found: true, Slot: uint64(ss.Slot), Round: uint64(ss.Round),
		Counts:       [7]int{c.PreConsensus, c.Proposal, c.Prepare, c.Commit, c.Decided, c.RoundChange, c.PostConsensus},
		ProposalData: ss.ProposalData, EpochDuties: ss.EpochDuties}
}

// VerifIsProposalJustification evaluates the justification predicate exactly as validateJustifications calls it.
func VerifIsProposalJustification(mv MessageValidator, share *ssvtypes.SSVShare, m *specqbft.SignedMessage) (ok bool, decoded bool) {
	pj, err := m.Message.GetPrepareJustifications()
	if err != nil {
		return false, false
	}
	rcj, err := m.Message.GetRoundChangeJustifications()
	if err != nil {
		return false, false
	}
	cfg := newQBFTConfig(mv.(*messageValidator).netCfg.Domain)
	return instance.IsProposalJustification(cfg, share, m.Message.Identifier, rcj, pj, m.Message.Height, m.Message.Round, m.FullData) == nil, true
}

// Arithmetic kernels, for direct comparison with the model.
func VerifCurrentEstimatedRound(mv MessageValidator, d time.Duration) uint64 {
	return uint64(mv.(*messageValidator).currentEstimatedRound(d))
}
func VerifSlotTime(mv MessageValidator, slot phase0.Slot, role spectypes.BeaconRole, at time.Time) error {
	return mv.(*messageValidator).validateSlotTime(slot, role, at)
}
func VerifMaxRound(mv MessageValidator, role spectypes.BeaconRole) uint64 {
	return uint64(mv.(*messageValidator).maxRound(role))
}
func VerifMaxDecided(n int) int { return maxDecidedCount(n) }

// VerifPerIDStateSizes counts the validator's per-message-ID entries: the validation locks (one mutex per message ID, never
// evicted) and the consensus states (one per validator key and role). C08 resource clause: a message refused because its
// validator is unknown / not served must leave neither behind.
func VerifPerIDStateSizes(mv MessageValidator) (locks int, index int) {
	m := mv.(*messageValidator)
	m.validationMutex.Lock()
	locks = len(m.validationLocks)
	m.validationMutex.Unlock()
	m.index.Range(func(_, _ any) bool { index++; return true })
	return locks, index
}
