//go:build verif

package validation

// Verification hooks: expose the unexported entry points with an explicit receive time.

import (
	"errors"
	"time"

	spectypes "github.com/bloxapp/ssv-spec/types"
	pubsub "github.com/libp2p/go-libp2p-pubsub"

	"github.com/bloxapp/ssv/protocol/v2/ssv/queue"
)

// VerifValidateP2P calls validateP2PMessage with an explicit receive time.
func VerifValidateP2P(mv MessageValidator, pmsg *pubsub.Message, receivedAt time.Time) (*queue.DecodedSSVMessage, Descriptor, error) {
	return mv.(*messageValidator).validateP2PMessage(pmsg, receivedAt)
}

// VerifValidateSSV calls validateSSVMessage with an explicit receive time and no signature verifier.
func VerifValidateSSV(mv MessageValidator, msg *spectypes.SSVMessage, receivedAt time.Time) (*queue.DecodedSSVMessage, Descriptor, error) {
	return mv.(*messageValidator).validateSSVMessage(msg, receivedAt, nil)
}

// VerifIsTopicNotFound reports whether err is the wrong-topic rule.
func VerifIsTopicNotFound(err error) bool {
	var e Error
	return errors.As(err, &e) && e.Text() == ErrTopicNotFound.Text()
}

// VerifErrInfo classifies a validation error: text, reject flag.
func VerifErrInfo(err error) (text string, reject bool, isValErr bool) {
	var e Error
	if errors.As(err, &e) {
		return e.Text(), e.Reject(), true
	}
	if err != nil {
		return err.Error(), false, false
	}
	return "", false, false
}
