//go:build verif

package p2pv1

// Verification hook (C18): drive the real p2pNetwork.Broadcast / Subscribe code paths with a
// recording topics controller, so that the harness observes which topic names they hand on.

import (
	"context"
	"sync/atomic"
	"time"

	spectypes "github.com/bloxapp/ssv-spec/types"
	"github.com/cornelk/hashmap"
	"github.com/libp2p/go-libp2p/core/peer"
	"go.uber.org/zap"

	"github.com/bloxapp/ssv/networkconfig"
	"github.com/bloxapp/ssv/operator/datastore"
	"github.com/bloxapp/ssv/operator/keys"
	registrystorage "github.com/bloxapp/ssv/registry/storage"
)

type verifRecCtrl struct {
	Subscribed []string
	Published  []string
	Data       [][]byte
}

func (c *verifRecCtrl) Subscribe(_ *zap.Logger, name string) error {
	c.Subscribed = append(c.Subscribed, name)
	return nil
}
func (c *verifRecCtrl) Unsubscribe(_ *zap.Logger, _ string, _ bool) error { return nil }
func (c *verifRecCtrl) Peers(string) ([]peer.ID, error)                   { return nil, nil }
func (c *verifRecCtrl) Topics() []string                                  { return nil }
func (c *verifRecCtrl) Broadcast(name string, data []byte, _ time.Duration) error {
	c.Published = append(c.Published, name)
	c.Data = append(c.Data, data)
	return nil
}
func (c *verifRecCtrl) Close() error { return nil }

// VerifNet is a minimal ready p2pNetwork whose topics controller records its calls.
type VerifNet struct {
	n    *p2pNetwork
	ctrl *verifRecCtrl
}

// NewVerifNet builds the network object; signed=true activates the signed envelope path.
func NewVerifNet(signer keys.OperatorSigner, opID uint64, signed bool) *VerifNet {
	nc := networkconfig.TestNetwork
	if signed {
		nc.PermissionlessActivationEpoch = 0
	} else {
		nc.PermissionlessActivationEpoch = 1 << 62
	}
	ctrl := &verifRecCtrl{}
	ds := datastore.New(&registrystorage.OperatorData{ID: opID})
	n := &p2pNetwork{
		parentCtx:         context.Background(),
		ctx:               context.Background(),
		interfaceLogger:   zap.NewNop(),
		cfg:               &Config{Network: nc, RequestTimeout: time.Second},
		topicsCtrl:        ctrl,
		activeValidators:  hashmap.New[string, validatorStatus](),
		operatorSigner:    signer,
		operatorDataStore: ds,
	}
	atomic.StoreInt32(&n.state, stateReady)
	return &VerifNet{n: n, ctrl: ctrl}
}

// BroadcastTopics runs the real Broadcast and returns the topic names and payloads handed to the controller.
func (v *VerifNet) BroadcastTopics(msg *spectypes.SSVMessage) ([]string, [][]byte, error) {
	v.ctrl.Published, v.ctrl.Data = nil, nil
	err := v.n.Broadcast(msg)
	return v.ctrl.Published, v.ctrl.Data, err
}

// SubscribeTopics runs the real Subscribe (fresh validator table) and returns the names subscribed.
func (v *VerifNet) SubscribeTopics(pk []byte) ([]string, error) {
	v.ctrl.Subscribed = nil
	v.n.activeValidators = hashmap.New[string, validatorStatus]()
	err := v.n.Subscribe(pk)
	return v.ctrl.Subscribed, err
}

// ResetSubscriptions forgets what was subscribed so far (fresh validator table), for drivers that reach Subscribe
// through other real code (validator.Validator.Start).
func (v *VerifNet) ResetSubscriptions() {
	v.ctrl.Subscribed = nil
	v.n.activeValidators = hashmap.New[string, validatorStatus]()
}

// Subscribed returns the topic names handed to the topics controller since the last reset.
func (v *VerifNet) Subscribed() []string { return v.ctrl.Subscribed }

// Net returns the real network object (it implements the qbft Network and the p2p Subscriber interfaces).
func (v *VerifNet) Net() interface {
	Broadcast(msg *spectypes.SSVMessage) error
	Subscribe(pk spectypes.ValidatorPK) error
} {
	return v.n
}
