//go:build verif

package discovery

// Verification hook of engine `validation` (C08): what the discovery service does with ONE discovered node record —
// ToPeer (discover loop), the node filters and checkPeer (Bootstrap) — on a service value without sockets.

import (
	"github.com/ethereum/go-ethereum/p2p/enode"
	libp2pnetwork "github.com/libp2p/go-libp2p/core/network"
	"github.com/libp2p/go-libp2p/core/peer"
	"go.uber.org/zap"

	spectypes "github.com/bloxapp/ssv-spec/types"

	"github.com/bloxapp/ssv/network/commons"
	"github.com/bloxapp/ssv/network/peers"
)

type verifConns struct{ atLimit bool }

func (c verifConns) Connectedness(peer.ID) libp2pnetwork.Connectedness {
	return libp2pnetwork.NotConnected
}
func (c verifConns) CanConnect(peer.ID) bool              { return true }
func (c verifConns) AtLimit(libp2pnetwork.Direction) bool { return c.atLimit }
func (c verifConns) IsBad(*zap.Logger, peer.ID) bool      { return false }

// VerifDiscovered runs ToPeer, badNodeFilter, subnetFilter(subnet), sharedSubnetsFilter(1) and checkPeer for the node.
// It returns the stage that turned the node down ("ok" when it would be handed to the new-peer handler).
func VerifDiscovered(node *enode.Node, own []byte, domain spectypes.DomainType, atLimit bool, subnet uint64) (string, error) {
	logger := zap.NewNop()
	dvs := &DiscV5Service{conns: verifConns{atLimit}, subnetsIdx: peers.NewSubnetsIndex(commons.Subnets()), domainType: domain, subnets: own}
	ai, err := ToPeer(node)
	if err != nil {
		return "topeer", err
	}
	_ = dvs.badNodeFilter(logger)(node)
	_ = dvs.subnetFilter(subnet)(node)
	_ = dvs.sharedSubnetsFilter(1)(node)
	if err := dvs.checkPeer(logger, PeerEvent{AddrInfo: *ai, Node: node}); err != nil {
		return "checkpeer", err
	}
	return "ok", nil
}
