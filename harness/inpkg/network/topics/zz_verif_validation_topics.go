//go:build verif

package topics

// Verification hook of engine `validation` (C08, resource clause): the msg-id handler's map — one entry per distinct pubsub
// message id, written BEFORE validation for whatever bytes a peer sends — read directly.

import "time"

// VerifMsgIDEntries returns the stored message ids with the time of their last update.
func VerifMsgIDEntries(h MsgIDHandler) map[string]time.Time {
	mh := h.(*msgIDHandler)
	mh.locker.Lock()
	defer mh.locker.Unlock()
	out := make(map[string]time.Time, len(mh.ids))
	for k, e := range mh.ids {
		out[k] = e.t
	}
	return out
}
