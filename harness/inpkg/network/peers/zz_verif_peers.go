//go:build verif

package peers

import "github.com/bloxapp/ssv/network/records"

// VerifScorePeer: the peer scoring of connManager.getBestPeers for one peer's (handshake-provided) subnets,
// with the scores the node computes for its own subnets.
func VerifScorePeer(peerSubnets, mySubnets records.Subnets) float64 {
	stats := &SubnetsStats{PeersCount: make([]int, len(mySubnets)), Connected: make([]int, len(mySubnets))}
	scores := GetSubnetsDistributionScores(stats, 4, mySubnets, 10)
	return float64(scorePeer(peerSubnets, scores))
}
