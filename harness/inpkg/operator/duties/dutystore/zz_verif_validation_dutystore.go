//go:build verif

package dutystore

// Verification hook of engine `validation` (C10): the raw contents of the duty store — is an entry stored at all, whatever
// its inCommittee flag — read from the maps directly and not through the accessors the message validator uses.

import (
	eth2apiv1 "github.com/attestantio/go-eth2-client/api/v1"
	"github.com/attestantio/go-eth2-client/spec/phase0"
)

func VerifStoredProposer(d *Duties[eth2apiv1.ProposerDuty], epoch phase0.Epoch, slot phase0.Slot, idx phase0.ValidatorIndex) (stored, inCommittee bool) {
	d.mu.RLock()
	defer d.mu.RUnlock()
	desc, ok := d.m[epoch][slot][idx]
	return ok && desc.duty != nil, ok && desc.inCommittee
}

func VerifStoredSync(d *SyncCommitteeDuties, period uint64, idx phase0.ValidatorIndex) (stored, inCommittee bool) {
	d.mu.RLock()
	defer d.mu.RUnlock()
	desc, ok := d.m[period][idx]
	return ok && desc.duty != nil, ok && desc.inCommittee
}
