//go:build verif

package validator

// Verification shim for engine `duties` (property C16): a `controller` that has exactly what the REAL
// AllActiveIndices / CommitteeActiveIndices / GetOperatorShares need — a real registry/storage shares store on an
// in-memory Badger, an operator data store, a validators map and a closed committeeValidatorSetup channel — so that
// the duty handlers are driven with the real index functions in the loop.
//
// Which shares get a running validator is decided here the way StartValidators / onShareStop decide it: shares of this
// operator that are not liquidated (ByNotLiquidated + BelongsToOperator); a share that is removed or liquidated leaves
// the validators map.

import (
	"context"
	"encoding/binary"
	"encoding/hex"

	eth2apiv1 "github.com/attestantio/go-eth2-client/api/v1"
	"github.com/attestantio/go-eth2-client/spec/phase0"
	spectypes "github.com/bloxapp/ssv-spec/types"
	"go.uber.org/zap"

	"github.com/bloxapp/ssv/operator/duties"
	operatordatastore "github.com/bloxapp/ssv/operator/datastore"
	"github.com/bloxapp/ssv/operator/validatorsmap"
	beaconprotocol "github.com/bloxapp/ssv/protocol/v2/blockchain/beacon"
	"github.com/bloxapp/ssv/protocol/v2/ssv/validator"
	ssvtypes "github.com/bloxapp/ssv/protocol/v2/types"
	registrystorage "github.com/bloxapp/ssv/registry/storage"
	"github.com/bloxapp/ssv/storage/basedb"
	"github.com/bloxapp/ssv/storage/kv"
)

// VerifShare describes one share of the registry as the harness scripts it.
type VerifShare struct {
	Index      uint64 // validator index (also the identity of the share)
	Own        bool   // belongs to this operator
	Liquidated bool
	HasMeta    bool // beacon metadata known
	Status     eth2apiv1.ValidatorState
	Activation uint64 // activation epoch (relevant for PendingQueued)
}

type VerifIndexController struct {
	c      *controller
	db     *kv.BadgerDB
	shares registrystorage.Shares
	opID   uint64
	keys   map[string][]byte // hex pubkey -> pubkey of every share currently stored
}

func verifPubKey(index uint64) []byte {
	pk := make([]byte, 48)
	binary.BigEndian.PutUint64(pk[:8], index)
	pk[47] = 0x5A
	return pk
}

// VerifNewIndexController builds the controller for operator `opID` with an empty registry.
func VerifNewIndexController(opID uint64) (*VerifIndexController, error) {
	logger := zap.NewNop()
	db, err := kv.NewInMemory(logger, basedb.Options{})
	if err != nil {
		return nil, err
	}
	shares, err := registrystorage.NewSharesStorage(logger, db, []byte("verif"))
	if err != nil {
		return nil, err
	}
	setup := make(chan struct{})
	close(setup) // committee validators are set up (StartValidators closes it)
	c := &controller{
		context:                 context.Background(),
		logger:                  logger,
		sharesStorage:           shares,
		operatorDataStore:       operatordatastore.New(&registrystorage.OperatorData{ID: opID}),
		validatorsMap:           validatorsmap.New(context.Background()),
		committeeValidatorSetup: setup,
	}
	return &VerifIndexController{c: c, db: db, shares: shares, opID: opID, keys: map[string][]byte{}}, nil
}

// Controller is the real controller as the scheduler's ValidatorController.
func (v *VerifIndexController) Controller() duties.ValidatorController { return v.c }

func (v *VerifIndexController) Close() { _ = v.db.Close() }

// SetShares makes the registry contain exactly `list`.
func (v *VerifIndexController) SetShares(list []VerifShare) error {
	want := map[string]bool{}
	objs := make([]*ssvtypes.SSVShare, 0, len(list))
	for _, s := range list {
		pk := verifPubKey(s.Index)
		want[hex.EncodeToString(pk)] = true
		op := spectypes.OperatorID(v.opID)
		if !s.Own {
			op = spectypes.OperatorID(v.opID + 1)
		}
		sh := &ssvtypes.SSVShare{
			Share: spectypes.Share{
				OperatorID:      op,
				ValidatorPubKey: pk,
				Committee:       []*spectypes.Operator{{OperatorID: op, PubKey: []byte{1}}},
				Quorum:          1, PartialQuorum: 1,
				DomainType: spectypes.DomainType{0, 0, 0, 1},
				Graffiti:   []byte{},
			},
			Metadata: ssvtypes.Metadata{Liquidated: s.Liquidated},
		}
		if s.HasMeta {
			sh.BeaconMetadata = &beaconprotocol.ValidatorMetadata{
				Status: s.Status, Index: phase0.ValidatorIndex(s.Index), ActivationEpoch: phase0.Epoch(s.Activation),
			}
		}
		objs = append(objs, sh)
	}
	for k, pk := range v.keys {
		v.c.validatorsMap.RemoveValidator(k) // onShareStop
		if !want[k] {
			if err := v.shares.Delete(nil, pk); err != nil {
				return err
			}
			delete(v.keys, k)
		}
	}
	if err := v.shares.Save(nil, objs...); err != nil {
		return err
	}
	for _, sh := range objs {
		k := hex.EncodeToString(sh.ValidatorPubKey)
		v.keys[k] = sh.ValidatorPubKey
		// StartValidators / setupValidators: non-liquidated shares of this operator get a validator
		if !sh.Liquidated && sh.BelongsToOperator(v.c.operatorDataStore.GetOperatorID()) {
			v.c.validatorsMap.CreateValidator(k, &validator.Validator{Share: sh})
		}
	}
	return nil
}
