//go:build verif

package validator

// Verification shim for engine `duties` (property C16): a `controller` that has exactly what the REAL
// AllActiveIndices / CommitteeActiveIndices / GetOperatorShares need — a real registry/storage shares store on an
// in-memory Badger, an operator data store, a validators map and a closed committeeValidatorSetup channel — so that
// the duty handlers are driven with the real index functions in the loop.
//
// Which shares get a running validator is decided here the way StartValidators / onShareStop decide it: shares of this
// operator that are not liquidated (ByNotLiquidated + BelongsToOperator); a share that is removed or liquidated leaves
// the validators map.

import (
	"context"
	"encoding/binary"
	"encoding/hex"
	"sync"
	"time"

	"github.com/ethereum/go-ethereum/common"
	"github.com/libp2p/go-libp2p/core/peer"

	eth2apiv1 "github.com/attestantio/go-eth2-client/api/v1"
	"github.com/attestantio/go-eth2-client/spec/phase0"
	spectypes "github.com/bloxapp/ssv-spec/types"
	"go.uber.org/zap"

	ibftstorage "github.com/bloxapp/ssv/ibft/storage"
	"github.com/bloxapp/ssv/network"
	"github.com/bloxapp/ssv/networkconfig"
	operatordatastore "github.com/bloxapp/ssv/operator/datastore"
	"github.com/bloxapp/ssv/operator/duties"
	"github.com/bloxapp/ssv/operator/validatorsmap"
	beaconprotocol "github.com/bloxapp/ssv/protocol/v2/blockchain/beacon"
	p2pprotocol "github.com/bloxapp/ssv/protocol/v2/p2p"
	"github.com/bloxapp/ssv/protocol/v2/ssv/validator"
	ssvtypes "github.com/bloxapp/ssv/protocol/v2/types"
	registrystorage "github.com/bloxapp/ssv/registry/storage"
	"github.com/bloxapp/ssv/storage/basedb"
	"github.com/bloxapp/ssv/storage/kv"
)

// VerifShare describes one share of the registry as the harness scripts it.
type VerifShare struct {
	Index      uint64 // validator index (also the identity of the share)
	Own        bool   // belongs to this operator
	Liquidated bool
	HasMeta    bool // beacon metadata known
	Status     eth2apiv1.ValidatorState
	Activation uint64 // activation epoch (relevant for PendingQueued)
}

type VerifIndexController struct {
	c      *controller
	db     *kv.BadgerDB
	shares registrystorage.Shares
	opID   uint64
	keys   map[string][]byte // hex pubkey -> pubkey of every share currently stored
}

func runtimeGosched() { time.Sleep(200 * time.Microsecond) }

func verifPubKey(index uint64) []byte {
	pk := make([]byte, 48)
	binary.BigEndian.PutUint64(pk[:8], index)
	pk[47] = 0x5A
	return pk
}

// VerifNewIndexController builds the controller for operator `opID` with an empty registry.
func VerifNewIndexController(opID uint64) (*VerifIndexController, error) {
	logger := zap.NewNop()
	db, err := kv.NewInMemory(logger, basedb.Options{})
	if err != nil {
		return nil, err
	}
	shares, err := registrystorage.NewSharesStorage(logger, db, []byte("verif"))
	if err != nil {
		return nil, err
	}
	setup := make(chan struct{})
	close(setup) // committee validators are set up (StartValidators closes it)
	c := &controller{
		context:                 context.Background(),
		logger:                  logger,
		sharesStorage:           shares,
		operatorDataStore:       operatordatastore.New(&registrystorage.OperatorData{ID: opID}),
		validatorsMap:           validatorsmap.New(context.Background()),
		committeeValidatorSetup: setup,
	}
	return &VerifIndexController{c: c, db: db, shares: shares, opID: opID, keys: map[string][]byte{}}, nil
}

// VerifRunningValidators: size of the validators map (validators that setupValidators / onShareStart have created).
func (v *VerifIndexController) VerifRunningValidators() int { return v.c.validatorsMap.Size() }

// Controller is the real controller as the scheduler's ValidatorController.
func (v *VerifIndexController) Controller() duties.ValidatorController { return v.c }

func (v *VerifIndexController) Close() { _ = v.db.Close() }

// SetShares makes the registry contain exactly `list`.
func (v *VerifIndexController) SetShares(list []VerifShare) error {
	want := map[string]bool{}
	objs := make([]*ssvtypes.SSVShare, 0, len(list))
	for _, s := range list {
		pk := verifPubKey(s.Index)
		want[hex.EncodeToString(pk)] = true
		op := spectypes.OperatorID(v.opID)
		if !s.Own {
			op = spectypes.OperatorID(v.opID + 1)
		}
		sh := &ssvtypes.SSVShare{
			Share: spectypes.Share{
				OperatorID:      op,
				ValidatorPubKey: pk,
				Committee:       []*spectypes.Operator{{OperatorID: op, PubKey: []byte{1}}},
				Quorum:          1, PartialQuorum: 1,
				DomainType: spectypes.DomainType{0, 0, 0, 1},
				Graffiti:   []byte{},
			},
			Metadata: ssvtypes.Metadata{Liquidated: s.Liquidated},
		}
		if s.HasMeta {
			sh.BeaconMetadata = &beaconprotocol.ValidatorMetadata{
				Status: s.Status, Index: phase0.ValidatorIndex(s.Index), ActivationEpoch: phase0.Epoch(s.Activation),
			}
		}
		objs = append(objs, sh)
	}
	for k, pk := range v.keys {
		v.c.validatorsMap.RemoveValidator(k) // onShareStop
		if !want[k] {
			if err := v.shares.Delete(nil, pk); err != nil {
				return err
			}
			delete(v.keys, k)
		}
	}
	if err := v.shares.Save(nil, objs...); err != nil {
		return err
	}
	for _, sh := range objs {
		k := hex.EncodeToString(sh.ValidatorPubKey)
		v.keys[k] = sh.ValidatorPubKey
		// StartValidators / setupValidators: non-liquidated shares of this operator get a validator
		if !sh.Liquidated && sh.BelongsToOperator(v.c.operatorDataStore.GetOperatorID()) {
			v.c.validatorsMap.CreateValidator(k, &validator.Validator{Share: sh})
		}
	}
	return nil
}

// ---- the real StartValidators, with a slow set-up ----

// verifRecipients: fee-recipient storage whose lookup (called by onShareInit for every own share during
// setupValidators) blocks until the harness opens the gate: a slow set-up.
type verifRecipients struct {
	gate    chan struct{}
	mu      sync.Mutex
	lookups int
}

func (r *verifRecipients) GetRecipientData(basedb.Reader, common.Address) (*registrystorage.RecipientData, bool, error) {
	r.mu.Lock()
	r.lookups++
	r.mu.Unlock()
	<-r.gate
	return nil, false, nil
}

type verifNet struct{}

func (verifNet) Broadcast(*spectypes.SSVMessage) error                     { return nil }
func (verifNet) UseMessageRouter(network.MessageRouter)                    {}
func (verifNet) Peers(spectypes.ValidatorPK) ([]peer.ID, error)            { return nil, nil }
func (verifNet) SubscribeRandoms(*zap.Logger, int) error                   { return nil }
func (verifNet) RegisterHandlers(*zap.Logger, ...*p2pprotocol.SyncHandler) {}

// VerifStartSlowSetup makes the registry contain `list`, empties the validators map, re-opens the
// committeeValidatorSetup gate and runs the REAL StartValidators in a goroutine; its setupValidators blocks in the first
// fee-recipient lookup until `release()` is called. `started` is closed once that lookup is reached (or StartValidators
// returned), `done` when StartValidators returned.
func (v *VerifIndexController) VerifStartSlowSetup(list []VerifShare) (started, done chan struct{}, release func(), err error) {
	if err = v.SetShares(list); err != nil {
		return
	}
	for k := range v.keys {
		v.c.validatorsMap.RemoveValidator(k) // node start: no validator is running yet
	}
	rec := &verifRecipients{gate: make(chan struct{})}
	v.c.recipientsStorage = rec
	v.c.committeeValidatorSetup = make(chan struct{})
	v.c.metrics = validator.NopMetrics{}
	v.c.network = verifNet{}
	v.c.validatorStartFunc = func(*validator.Validator) (bool, error) { return true, nil }
	v.c.validatorOptions = validator.Options{
		BeaconNetwork: networkconfig.TestNetwork.Beacon,
		Storage:       ibftstorage.NewStores(),
	}
	started, done = make(chan struct{}), make(chan struct{})
	go func() {
		defer close(done)
		v.c.StartValidators()
	}()
	go func() { // reached the first lookup, or finished without any
		defer close(started)
		for {
			rec.mu.Lock()
			n := rec.lookups
			rec.mu.Unlock()
			if n > 0 {
				return
			}
			select {
			case <-done:
				return
			default:
			}
			runtimeGosched()
		}
	}()
	var once sync.Once
	release = func() { once.Do(func() { close(rec.gate) }) }
	return
}
