//go:build verif

package validator

// Verification shim for the validator-glue engine (`vglue -mode router`, property C03): a `controller` that has exactly what the
// REAL handleRouterMessages needs — the message router channel the p2p layer writes to, the validators map with one served,
// started validator — so that network-originated messages of every type go through the real router loop.

import (
	"context"
	"encoding/hex"

	"go.uber.org/zap"

	"github.com/bloxapp/ssv/operator/validatorsmap"
	"github.com/bloxapp/ssv/protocol/v2/ssv/queue"
	"github.com/bloxapp/ssv/protocol/v2/ssv/validator"
)

type VerifRouter struct {
	c      *controller
	cancel context.CancelFunc
}

// VerifNewRouter starts the real handleRouterMessages loop for a controller serving validator `v` (public key `pk`).
func VerifNewRouter(v *validator.Validator, pk []byte, exporter bool) *VerifRouter {
	ctx, cancel := context.WithCancel(context.Background())
	logger := zap.NewNop()
	c := &controller{
		context:          ctx,
		logger:           logger,
		validatorsMap:    validatorsmap.New(ctx),
		messageRouter:    newMessageRouter(logger),
		validatorOptions: validator.Options{Exporter: exporter},
	}
	c.validatorsMap.CreateValidator(hex.EncodeToString(pk), v)
	go c.handleRouterMessages()
	return &VerifRouter{c: c, cancel: cancel}
}

// Route is what the p2p layer does with a validated message (network.UseMessageRouter(c.messageRouter)).
func (r *VerifRouter) Route(msg *queue.DecodedSSVMessage) { r.c.messageRouter.Route(r.c.context, msg) }

// Pending is the number of routed messages the loop has not taken yet.
func (r *VerifRouter) Pending() int { return len(r.c.messageRouter.ch) }

func (r *VerifRouter) Stop() { r.cancel() }
