//go:build verif

package ekm

// Verification hooks for engine `ekm` (property C04). Nothing here changes behaviour unless VerifInstrument is called.
//
// VerifInstrument wraps the signer's Storage field (the one BumpSlashingProtection, AddShare's bump and
// RemoveShare go through) in a decorator that calls a hook at the ENTRY of each slashing-record call and then
// delegates to the real storage. The hook may block (to interleave the real BumpSlashingProtection with sign
// requests) or return an error (storage fault injection: the call fails without touching the database).
// The library's slashing protector keeps its direct reference to the real storage, so sign requests are
// never gated.

import (
	"encoding/hex"

	"github.com/attestantio/go-eth2-client/spec/phase0"
	spectypes "github.com/bloxapp/ssv-spec/types"
)

// VerifHook is called with one of: retrAtt, saveAtt, retrProp, saveProp, rmAtt, rmProp.
type VerifHook func(call string) error

type verifStorage struct {
	Storage
	hook VerifHook
}

func (v *verifStorage) RetrieveHighestAttestation(pubKey []byte) (*phase0.AttestationData, bool, error) {
	if err := v.hook("retrAtt"); err != nil {
		return nil, false, err
	}
	return v.Storage.RetrieveHighestAttestation(pubKey)
}

func (v *verifStorage) SaveHighestAttestation(pubKey []byte, attestation *phase0.AttestationData) error {
	if err := v.hook("saveAtt"); err != nil {
		return err
	}
	return v.Storage.SaveHighestAttestation(pubKey, attestation)
}

func (v *verifStorage) RetrieveHighestProposal(pubKey []byte) (phase0.Slot, bool, error) {
	if err := v.hook("retrProp"); err != nil {
		return 0, false, err
	}
	return v.Storage.RetrieveHighestProposal(pubKey)
}

func (v *verifStorage) SaveHighestProposal(pubKey []byte, slot phase0.Slot) error {
	if err := v.hook("saveProp"); err != nil {
		return err
	}
	return v.Storage.SaveHighestProposal(pubKey, slot)
}

func (v *verifStorage) RemoveHighestAttestation(pubKey []byte) error {
	if err := v.hook("rmAtt"); err != nil {
		return err
	}
	return v.Storage.RemoveHighestAttestation(pubKey)
}

func (v *verifStorage) RemoveHighestProposal(pubKey []byte) error {
	if err := v.hook("rmProp"); err != nil {
		return err
	}
	return v.Storage.RemoveHighestProposal(pubKey)
}

// VerifInstrument installs the hook; returns the real (undecorated) storage for read-back by the harness.
func VerifInstrument(km spectypes.KeyManager, hook VerifHook) Storage {
	k := km.(*ethKeyManagerSigner)
	inner := k.storage
	if d, ok := inner.(*verifStorage); ok {
		inner = d.Storage
	}
	k.storage = &verifStorage{Storage: inner, hook: hook}
	return inner
}

// VerifHasAccount reports whether the wallet resolves an account for the share public key
// (the lookup AddShare, RemoveShare and every sign request start with).
func VerifHasAccount(km spectypes.KeyManager, pubKey []byte) bool {
	k := km.(*ethKeyManagerSigner)
	k.walletLock.RLock()
	defer k.walletLock.RUnlock()
	acc, err := k.wallet.AccountByPublicKey(hex.EncodeToString(pubKey))
	return err == nil && acc != nil
}

// VerifHasAccountNoLock is VerifHasAccount without taking the wallet lock: for read-back while a paused
// BumpSlashingProtection holds the wallet lock (nothing mutates the wallet at that moment).
func VerifHasAccountNoLock(km spectypes.KeyManager, pubKey []byte) bool {
	k := km.(*ethKeyManagerSigner)
	acc, err := k.wallet.AccountByPublicKey(hex.EncodeToString(pubKey))
	return err == nil && acc != nil
}

// VerifWalletLocked reports whether the wallet lock is currently held for writing (a request that takes it would block).
func VerifWalletLocked(km spectypes.KeyManager) bool {
	k := km.(*ethKeyManagerSigner)
	if k.walletLock.TryRLock() {
		k.walletLock.RUnlock()
		return false
	}
	return true
}

// VerifWalletState probes the wallet lock without blocking: held (by anybody) for reading or writing, and whether a
// request that needs it for READING would block (held for writing, or a writer is waiting). The caller holds nothing.
func VerifWalletState(km spectypes.KeyManager) (held bool, readersBlock bool) {
	k := km.(*ethKeyManagerSigner)
	if k.walletLock.TryLock() {
		k.walletLock.Unlock()
		return false, false
	}
	if k.walletLock.TryRLock() {
		k.walletLock.RUnlock()
		return true, false
	}
	return true, true
}
