// Harness of engine `ssz` (C08, byte-level SSZ decoders of the validation path): runs the REAL decoders the node runs on
// attacker-supplied bytes — commons.DecodeNetworkMsg (SSVMessage), queue.DecodeSSVMessage (SignedMessage /
// SignedPartialSignatureMessage bodies), and the spec types' Decode for the nested parts — on valid encodings produced by the
// real MarshalSSZ and on targeted malformations of them (every offset word set to boundary values, truncations at every
// field boundary, inner offset tables of the justification lists edited, counts/sizes at and one beyond each limit, bit
// flips, splices, random bytes), renders what was decoded canonically (diffed against the Lean model by bin/check) and
// reports any panic of a decoder (oracle, independent of the model).
//
//	ops:  ssv|qmsg|signed|psig|psigs|spsig <bytes>     -> err | ok <fields>
//	      encqmsg <type> <height> <round> <id> <root> <dataRound> <rcj> <pj>  -> bytes of the real qbft.Message.MarshalSSZ
//	      encssv <type> <id> <data>                      -> bytes of the real SSVMessage.Encode
//	      encspsig <sig> <signer> <type> <slot> <psig>*  -> bytes of the real SignedPartialSignatureMessage.Encode
//	<bytes> = chunks joined by '+': hex | zN (N zero bytes) | -
package main

import (
	"encoding/binary"
	"encoding/hex"
	"fmt"
	"runtime/debug"
	"strconv"
	"strings"

	"github.com/attestantio/go-eth2-client/spec/phase0"
	specqbft "github.com/bloxapp/ssv-spec/qbft"
	spectypes "github.com/bloxapp/ssv-spec/types"

	"github.com/bloxapp/ssv/network/commons"
	"github.com/bloxapp/ssv/protocol/v2/ssv/queue"
	"github.com/bloxapp/ssv/zz_verif/lib/hx"
)

func cksum(b []byte) uint32 {
	c := uint64(7)
	for _, x := range b {
		c = (c*31 + uint64(x)) % 4294967296
	}
	return uint32(c)
}

func rb(b []byte) string {
	if len(b) <= 40 {
		return hx.Hex(b)
	}
	return fmt.Sprintf("#%d:%d", len(b), cksum(b))
}

func rlist(l [][]byte) string {
	s := make([]string, len(l))
	for i, x := range l {
		s[i] = rb(x)
	}
	return "[" + strings.Join(s, ",") + "]"
}

func rQ(m *specqbft.Message) string {
	return fmt.Sprintf("t=%d h=%d r=%d id=%s root=%s dr=%d rcj=%s pj=%s", uint64(m.MsgType), uint64(m.Height), uint64(m.Round),
		rb(m.Identifier), rb(m.Root[:]), uint64(m.DataRound), rlist(m.RoundChangeJustification), rlist(m.PrepareJustification))
}

func rP(m *spectypes.PartialSignatureMessage) string {
	return fmt.Sprintf("%s:%s:%d", rb(m.PartialSignature), rb(m.SigningRoot[:]), uint64(m.Signer))
}

func rPs(m *spectypes.PartialSignatureMessages) string {
	s := make([]string, len(m.Messages))
	for i, x := range m.Messages {
		s[i] = rP(x)
	}
	return fmt.Sprintf("t=%d slot=%d msgs=[%s]", uint64(m.Type), uint64(m.Slot), strings.Join(s, ","))
}

func rnats(l []spectypes.OperatorID) string {
	if len(l) == 0 {
		return "-"
	}
	s := make([]string, len(l))
	for i, x := range l {
		s[i] = strconv.FormatUint(uint64(x), 10)
	}
	return strings.Join(s, ",")
}

// chunked byte strings -------------------------------------------------------------------------------------------

type chunk struct {
	b []byte
	z int // > 0: z zero bytes
}

func parseBytes(s string) ([]byte, bool) {
	var out []byte
	for _, c := range strings.Split(s, "+") {
		switch {
		case c == "-":
		case strings.HasPrefix(c, "z"):
			n, err := strconv.Atoi(c[1:])
			if err != nil || n < 0 {
				return nil, false
			}
			out = append(out, make([]byte, n)...)
		default:
			b, err := hex.DecodeString(c)
			if err != nil {
				return nil, false
			}
			out = append(out, b...)
		}
	}
	return out, true
}

// fmtBytes renders a byte string for an op line, compressing runs of >= 64 zero bytes
func fmtBytes(b []byte) string {
	if len(b) == 0 {
		return "-"
	}
	var parts []string
	i := 0
	start := 0
	for i < len(b) {
		if b[i] == 0 {
			j := i
			for j < len(b) && b[j] == 0 {
				j++
			}
			if j-i >= 64 {
				if i > start {
					parts = append(parts, hex.EncodeToString(b[start:i]))
				}
				parts = append(parts, "z"+strconv.Itoa(j-i))
				start = j
			}
			i = j
			continue
		}
		i++
	}
	if start < len(b) {
		parts = append(parts, hex.EncodeToString(b[start:]))
	}
	return strings.Join(parts, "+")
}

// the real decoders ----------------------------------------------------------------------------------------------

func decode(target string, b []byte) (obs string, panicked string) {
	defer func() {
		if p := recover(); p != nil {
			st := string(debug.Stack())
			site := "?"
			for _, l := range strings.Split(st, "\n") {
				if (strings.Contains(l, "ssv-spec") || strings.Contains(l, "fastssz") || strings.Contains(l, "bloxapp/ssv/")) && strings.Contains(l, "(") && !strings.Contains(l, "zz_verif") {
					site = strings.TrimSpace(l)
					if i := strings.LastIndex(site, "("); i > 0 {
						site = site[:i]
					}
					break
				}
			}
			obs = "panic"
			panicked = site + ":" + strings.ReplaceAll(fmt.Sprint(p), " ", "_")
		}
	}()
	switch target {
	case "ssv":
		m, err := commons.DecodeNetworkMsg(b)
		if err != nil {
			return "err", ""
		}
		return fmt.Sprintf("ok t=%d id=%s data=%s", uint64(m.MsgType), rb(m.MsgID[:]), rb(m.Data)), ""
	case "qmsg":
		m := &specqbft.Message{}
		if err := m.Decode(b); err != nil {
			return "err", ""
		}
		return "ok " + rQ(m), ""
	case "signed":
		d, err := queue.DecodeSSVMessage(&spectypes.SSVMessage{MsgType: spectypes.SSVConsensusMsgType, Data: b})
		if err != nil {
			return "err", ""
		}
		m := d.Body.(*specqbft.SignedMessage)
		return fmt.Sprintf("ok sig=%s signers=%s %s fd=%s", rb(m.Signature), rnats(m.Signers), rQ(&m.Message), rb(m.FullData)), ""
	case "psig":
		m := &spectypes.PartialSignatureMessage{}
		if err := m.Decode(b); err != nil {
			return "err", ""
		}
		return "ok " + rP(m), ""
	case "psigs":
		m := &spectypes.PartialSignatureMessages{}
		if err := m.Decode(b); err != nil {
			return "err", ""
		}
		return "ok " + rPs(m), ""
	case "spsig":
		d, err := queue.DecodeSSVMessage(&spectypes.SSVMessage{MsgType: spectypes.SSVPartialSignatureMsgType, Data: b})
		if err != nil {
			return "err", ""
		}
		m := d.Body.(*spectypes.SignedPartialSignatureMessage)
		return fmt.Sprintf("ok sig=%s signer=%d %s", rb(m.Signature), uint64(m.Signer), rPs(&m.Message)), ""
	}
	return "bad-op", ""
}

func doDecode(run *hx.Run, target string, b []byte, kind string) {
	op := target + " " + fmtBytes(b)
	obs, p := decode(target, b)
	if p != "" {
		run.Violate("C08/ssz-decoder-panic:"+target, p, op)
	}
	out := "err"
	if strings.HasPrefix(obs, "ok") {
		out = "ok"
	} else if obs == "panic" {
		out = "panic"
	}
	run.Tag("decode/" + target + "/" + out)
	run.Tag("mut/" + kind)
	run.Seen(target + "/" + kind + "/" + out)
	run.Emit(op, obs)
}

func doLine(run *hx.Run, l string) {
	f := strings.Fields(l)
	if len(f) == 0 {
		return
	}
	switch f[0] {
	case "ssv", "qmsg", "signed", "psig", "psigs", "spsig":
		if len(f) != 2 {
			run.Emit(l, "bad-op")
			return
		}
		b, ok := parseBytes(f[1])
		if !ok {
			run.Emit(l, "bad-op")
			return
		}
		obs, p := decode(f[0], b)
		if p != "" {
			run.Violate("C08/ssz-decoder-panic:"+f[0], p, l)
		}
		run.Emit(l, obs)
	case "encssv":
		t, _ := strconv.ParseUint(f[1], 10, 64)
		id, _ := parseBytes(f[2])
		data, _ := parseBytes(f[3])
		m := &spectypes.SSVMessage{MsgType: spectypes.MsgType(t), Data: data}
		copy(m.MsgID[:], id)
		enc, err := m.Encode()
		if err != nil {
			run.Emit(l, "err")
			return
		}
		run.Emit(l, rb(enc))
	case "encqmsg":
		if len(f) != 9 {
			run.Emit(l, "bad-op")
			return
		}
		u := func(s string) uint64 { v, _ := strconv.ParseUint(s, 10, 64); return v }
		lst := func(s string) [][]byte {
			if s == "[]" {
				return nil
			}
			var out [][]byte
			for _, x := range strings.Split(s, ",") {
				b, _ := parseBytes(x)
				out = append(out, b)
			}
			return out
		}
		id, _ := parseBytes(f[4])
		root, _ := parseBytes(f[5])
		m := &specqbft.Message{MsgType: specqbft.MessageType(u(f[1])), Height: specqbft.Height(u(f[2])), Round: specqbft.Round(u(f[3])),
			Identifier: id, DataRound: specqbft.Round(u(f[6])), RoundChangeJustification: lst(f[7]), PrepareJustification: lst(f[8])}
		copy(m.Root[:], root)
		enc, err := m.MarshalSSZ()
		if err != nil {
			run.Emit(l, "err")
			return
		}
		run.Emit(l, rb(enc))
	case "encspsig":
		sig, _ := parseBytes(f[1])
		signer, _ := strconv.ParseUint(f[2], 10, 64)
		t, _ := strconv.ParseUint(f[3], 10, 64)
		slot, _ := strconv.ParseUint(f[4], 10, 64)
		m := &spectypes.SignedPartialSignatureMessage{Signature: sig, Signer: spectypes.OperatorID(signer),
			Message: spectypes.PartialSignatureMessages{Type: spectypes.PartialSigMsgType(t), Slot: phase0.Slot(slot)}}
		for _, p := range f[5:] {
			q := strings.Split(p, ":")
			ps, _ := parseBytes(q[0])
			root, _ := parseBytes(q[1])
			sn, _ := strconv.ParseUint(q[2], 10, 64)
			x := &spectypes.PartialSignatureMessage{PartialSignature: ps, Signer: spectypes.OperatorID(sn)}
			copy(x.SigningRoot[:], root)
			m.Message.Messages = append(m.Message.Messages, x)
		}
		enc, err := m.Encode()
		if err != nil {
			run.Emit(l, "err")
			return
		}
		run.Emit(l, rb(enc))
	default:
		run.Emit(l, "bad-op")
	}
}

// generators -------------------------------------------------------------------------------------------------------

var u64s = []uint64{0, 1, 2, 3, 4, 255, 256, 1 << 31, 1<<32 - 1, 1 << 32, 1<<63 - 1, 1 << 63, 1<<64 - 1}

func pickU64(r *hx.Rng) uint64 {
	if r.Chance(50) {
		return u64s[r.Intn(len(u64s))]
	}
	return r.U64()
}

func genQMsg(r *hx.Rng) *specqbft.Message {
	m := &specqbft.Message{MsgType: specqbft.MessageType(pickU64(r)), Height: specqbft.Height(pickU64(r)), Round: specqbft.Round(pickU64(r)),
		DataRound: specqbft.Round(pickU64(r)), Identifier: r.Bytes(r.Pick(0, 1, 55, 56, 56, 56))}
	copy(m.Root[:], r.Bytes(32))
	just := func() [][]byte {
		n := r.Pick(0, 0, 1, 2, 3, 5, 13)
		l := make([][]byte, n)
		for i := range l {
			l[i] = r.Bytes(r.Pick(0, 1, 4, 30, 41, 108, 300))
			if r.Chance(4) {
				l[i] = make([]byte, r.Pick(65535, 65536)) // at the per-item limit
				l[i][0] = byte(r.Intn(256))
			}
		}
		return l
	}
	m.RoundChangeJustification = just()
	m.PrepareJustification = just()
	return m
}

func genSigned(r *hx.Rng) *specqbft.SignedMessage {
	m := &specqbft.SignedMessage{Signature: r.Bytes(96), Message: *genQMsg(r), FullData: r.Bytes(r.Pick(0, 0, 1, 32, 41, 500))}
	n := r.Pick(0, 1, 1, 3, 4, 7, 13)
	for i := 0; i < n; i++ {
		m.Signers = append(m.Signers, spectypes.OperatorID(pickU64(r)))
	}
	return m
}

func genSPSig(r *hx.Rng) *spectypes.SignedPartialSignatureMessage {
	m := &spectypes.SignedPartialSignatureMessage{Signature: r.Bytes(96), Signer: spectypes.OperatorID(pickU64(r)),
		Message: spectypes.PartialSignatureMessages{Type: spectypes.PartialSigMsgType(pickU64(r)), Slot: phase0.Slot(pickU64(r))}}
	n := r.Pick(0, 1, 1, 2, 5, 13)
	for i := 0; i < n; i++ {
		x := &spectypes.PartialSignatureMessage{PartialSignature: r.Bytes(96), Signer: spectypes.OperatorID(pickU64(r))}
		copy(x.SigningRoot[:], r.Bytes(32))
		m.Message.Messages = append(m.Message.Messages, x)
	}
	return m
}

func must(b []byte, err error) []byte {
	if err != nil {
		panic(err)
	}
	return b
}

func put32(b []byte, at int, v uint32) []byte {
	c := append([]byte{}, b...)
	if at+4 <= len(c) {
		binary.LittleEndian.PutUint32(c[at:], v)
	}
	return c
}

// offset words of the fixed part of each target (byte positions)
var offsetWords = map[string][]int{"ssv": {64}, "qmsg": {24, 68, 72}, "signed": {96, 100, 104}, "psigs": {16}, "spsig": {0}}
var fixedLen = map[string]int{"ssv": 68, "qmsg": 76, "signed": 108, "psigs": 20, "spsig": 108, "psig": 136}

func mutate(run *hx.Run, r *hx.Rng, target string, enc []byte) ([]byte, string) {
	fx := fixedLen[target]
	switch r.Intn(12) {
	case 0:
		return enc, "valid"
	case 1: // truncate (often at / around the fixed part and the end)
		cut := r.Pick(0, 1, fx-1, fx, fx+1, len(enc)-1, len(enc)-4, r.Intn(len(enc)+1))
		if cut < 0 {
			cut = 0
		}
		if cut > len(enc) {
			cut = len(enc)
		}
		return enc[:cut], "truncate"
	case 2, 3: // one offset word set to a boundary value
		ws := offsetWords[target]
		if len(ws) == 0 {
			return append(append([]byte{}, enc...), r.Bytes(r.Pick(1, 8, 135, 136, 137))...), "extend"
		}
		at := ws[r.Intn(len(ws))]
		cur := uint32(0)
		if at+4 <= len(enc) {
			cur = binary.LittleEndian.Uint32(enc[at:])
		}
		vals := []uint32{0, 1, uint32(fx) - 1, uint32(fx), uint32(fx) + 1, uint32(len(enc)) - 1, uint32(len(enc)), uint32(len(enc)) + 1, cur + 1, cur - 1, cur + 4, cur + 8, 1 << 31, 1<<32 - 1}
		return put32(enc, at, vals[r.Intn(len(vals))]), "offset-word"
	case 4: // an inner offset table entry (justification lists live behind the fixed part)
		if len(enc) <= fx+4 {
			return enc, "valid"
		}
		at := fx + 4*r.Intn((len(enc)-fx)/4)
		vals := []uint32{0, 1, 3, 4, 5, 8, 52, 56, uint32(len(enc)), uint32(len(enc) - fx), 1 << 16, 1 << 31, 1<<32 - 1}
		return put32(enc, at, vals[r.Intn(len(vals))]), "inner-word"
	case 5: // bit flip
		if len(enc) == 0 {
			return enc, "valid"
		}
		c := append([]byte{}, enc...)
		c[r.Intn(len(c))] ^= 1 << uint(r.Intn(8))
		return c, "flip"
	case 6: // append
		return append(append([]byte{}, enc...), r.Bytes(r.Pick(1, 3, 4, 7, 8, 136))...), "extend"
	case 7: // splice two halves
		if len(enc) < 2 {
			return enc, "valid"
		}
		a, b := r.Intn(len(enc)), r.Intn(len(enc))
		return append(append([]byte{}, enc[:a]...), enc[b:]...), "splice"
	case 8: // random bytes of interesting lengths
		return r.Bytes(r.Pick(0, 1, 3, 4, fx-1, fx, fx+1, fx+4, fx+136, 300)), "random"
	case 9: // all zero / all ff of interesting lengths
		n := r.Pick(fx, fx+1, fx+4, fx+8, 2*fx)
		b := make([]byte, n)
		if r.Bool() {
			for i := range b {
				b[i] = 0xff
			}
		}
		return b, "const"
	case 10: // two offset words swapped / equalised
		ws := offsetWords[target]
		if len(ws) < 2 || len(enc) < fx {
			return enc, "valid"
		}
		i, j := ws[r.Intn(len(ws))], ws[r.Intn(len(ws))]
		c := append([]byte{}, enc...)
		copy(c[i:i+4], enc[j:j+4])
		return c, "offset-copy"
	default: // drop bytes from the middle
		if len(enc) < 8 {
			return enc, "valid"
		}
		a := r.Intn(len(enc) - 4)
		e := a + r.Pick(1, 4, 8)
		if e > len(enc) {
			e = len(enc)
		}
		return append(append([]byte{}, enc[:a]...), enc[e:]...), "cut-middle"
	}
}

func main() {
	run := hx.Start()
	defer run.Finish()
	r := hx.NewRng(run.Seed)
	if lines := run.ReplayLines(); lines != nil {
		for _, l := range lines {
			doLine(run, l)
		}
		return
	}
	// limits: exactly at and one beyond each size limit (zero-filled payloads, compressed on the op line)
	for _, n := range []int{6291829, 6291830} {
		m := &spectypes.SSVMessage{MsgType: spectypes.SSVConsensusMsgType, Data: make([]byte, n)}
		enc := append(append(append([]byte{}, make([]byte, 8)...), make([]byte, 56)...), 68, 0, 0, 0)
		enc = append(enc, m.Data...)
		doDecode(run, "ssv", enc, "limit")
	}
	for _, n := range []int{5243144, 5243145} {
		s := genSigned(r)
		s.FullData = nil
		enc := must(s.MarshalSSZ())
		enc = append(enc, make([]byte, n)...)
		doDecode(run, "signed", enc, "limit")
	}
	for _, n := range []int{65536, 65537} {
		q := genQMsg(r)
		q.PrepareJustification = [][]byte{make([]byte, 65536)}
		enc := must(q.MarshalSSZ())
		if n == 65537 {
			enc = append(enc, 0)
		}
		doDecode(run, "qmsg", enc, "limit")
	}
	{ // 14 justifications / 14 signers / 14 partial signatures / 57-byte identifier: hand-made encodings beyond the limits
		q := genQMsg(r)
		q.RoundChangeJustification, q.PrepareJustification = nil, nil
		enc := must(q.MarshalSSZ())
		tab := make([]byte, 14*4)
		for i := 0; i < 14; i++ {
			binary.LittleEndian.PutUint32(tab[4*i:], 56)
		}
		doDecode(run, "qmsg", append(append([]byte{}, enc...), tab...), "limit")
		s := genSigned(r)
		s.Signers = nil
		e2 := must(s.MarshalSSZ())
		ins := make([]byte, 14*8)
		c := append(append(append([]byte{}, e2[:108]...), ins...), e2[108:]...)
		binary.LittleEndian.PutUint32(c[100:], binary.LittleEndian.Uint32(e2[100:])+uint32(len(ins)))
		binary.LittleEndian.PutUint32(c[104:], binary.LittleEndian.Uint32(e2[104:])+uint32(len(ins)))
		doDecode(run, "signed", c, "limit")
		p := genSPSig(r)
		p.Message.Messages = nil
		e3 := must(p.MarshalSSZ())
		doDecode(run, "spsig", append(append([]byte{}, e3...), make([]byte, 14*136)...), "limit")
		doDecode(run, "spsig", append(append([]byte{}, e3...), make([]byte, 13*136)...), "limit")
	}
	targets := []string{"ssv", "qmsg", "signed", "signed", "psig", "psigs", "spsig", "spsig"}
	for n := 0; n < run.N; n++ {
		tg := targets[r.Intn(len(targets))]
		var enc []byte
		switch tg {
		case "ssv":
			m := &spectypes.SSVMessage{MsgType: spectypes.MsgType(pickU64(r)), Data: r.Bytes(r.Pick(0, 1, 40, 41, 200, 1000))}
			copy(m.MsgID[:], r.Bytes(56))
			enc = must(m.MarshalSSZ())
			if r.Chance(15) { // encoder tie
				doLine(run, fmt.Sprintf("encssv %d %s %s", uint64(m.MsgType), fmtBytes(m.MsgID[:]), fmtBytes(m.Data)))
			}
		case "qmsg":
			q := genQMsg(r)
			enc = must(q.MarshalSSZ())
			if r.Chance(25) { // encoder tie
				ls := func(l [][]byte) string {
					if len(l) == 0 {
						return "[]"
					}
					s := make([]string, len(l))
					for i, x := range l {
						s[i] = fmtBytes(x)
					}
					return strings.Join(s, ",")
				}
				doLine(run, fmt.Sprintf("encqmsg %d %d %d %s %s %d %s %s", uint64(q.MsgType), uint64(q.Height), uint64(q.Round), fmtBytes(q.Identifier),
					fmtBytes(q.Root[:]), uint64(q.DataRound), ls(q.RoundChangeJustification), ls(q.PrepareJustification)))
			}
		case "signed":
			enc = must(genSigned(r).MarshalSSZ())
		case "psig":
			enc = must(genSPSig(r).Message.MarshalSSZ())
			x := &spectypes.PartialSignatureMessage{PartialSignature: r.Bytes(96), Signer: spectypes.OperatorID(pickU64(r))}
			copy(x.SigningRoot[:], r.Bytes(32))
			enc = must(x.MarshalSSZ())
		case "psigs":
			enc = must(genSPSig(r).Message.MarshalSSZ())
		case "spsig":
			m := genSPSig(r)
			enc = must(m.MarshalSSZ())
			if r.Chance(15) {
				parts := []string{"encspsig", fmtBytes(m.Signature), strconv.FormatUint(uint64(m.Signer), 10), strconv.FormatUint(uint64(m.Message.Type), 10), strconv.FormatUint(uint64(m.Message.Slot), 10)}
				for _, x := range m.Message.Messages {
					parts = append(parts, fmt.Sprintf("%s:%s:%d", hex.EncodeToString(x.PartialSignature), hex.EncodeToString(x.SigningRoot[:]), uint64(x.Signer)))
				}
				doLine(run, strings.Join(parts, " "))
			}
		}
		b, kind := mutate(run, r, tg, enc)
		if r.Chance(20) && kind != "valid" { // second mutation on top
			var k2 string
			b, k2 = mutate(run, r, tg, b)
			kind = kind + "+" + k2
			if len(kind) > 40 {
				kind = "multi"
			}
		}
		doDecode(run, tg, b, kind)
	}
}
