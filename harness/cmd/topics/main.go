// Harness for engine `topics` (property C18): runs the REAL topic mapping, envelope codec, subnet
// bitmap codec, p2pNetwork.Broadcast/Subscribe and the validator's topic rule, writes one op
// line + one canonical observation per case (diffed against the Lean model by bin/check) and
// evaluates the property oracle on the implementation itself.
package main

import (
	"bytes"
	"context"
	"sort"
	"strconv"
	"strings"
	"time"

	spectypes "github.com/bloxapp/ssv-spec/types"
	pubsub "github.com/libp2p/go-libp2p-pubsub"
	pspb "github.com/libp2p/go-libp2p-pubsub/pb"
	"go.uber.org/zap"

	"github.com/bloxapp/ssv/message/validation"
	"github.com/bloxapp/ssv/network/commons"
	p2pv1 "github.com/bloxapp/ssv/network/p2p"
	"github.com/bloxapp/ssv/network/records"
	"github.com/bloxapp/ssv/networkconfig"
	"github.com/bloxapp/ssv/operator/keys"
	"github.com/bloxapp/ssv/protocol/v2/ssv/runner"
	ssvvalidator "github.com/bloxapp/ssv/protocol/v2/ssv/validator"
	ssvtypes "github.com/bloxapp/ssv/protocol/v2/types"
	"github.com/bloxapp/ssv/zz_verif/lib/hx"
)

var (
	netSigned, netPlain *p2pv1.VerifNet
	mv                  validation.MessageValidator
	opKey               keys.OperatorPrivateKey
)

const opID = 0x0102030405060708

// envelopes handed out earlier (by EncodeSignedSSVMessage directly or through Broadcast) together with a private
// copy of what they contained when they were returned: wrapping another message later must not change them
type heldEnv struct {
	ref, want []byte
	line      string
}

var held []heldEnv

func holdEnv(run *hx.Run, e []byte, line string) {
	for _, h := range held {
		if !bytes.Equal(h.ref, h.want) {
			run.Violate("C18/envelope-changed-by-later-encode", "an envelope returned earlier no longer unwraps to its parts after a later wrap", h.line, line)
			break
		}
	}
	held = append(held, heldEnv{ref: e, want: append([]byte(nil), e...), line: line})
	if len(held) > 6 {
		held = held[1:]
	}
}

func joinHex(ss []string) string {
	o := make([]string, len(ss))
	for i, s := range ss {
		o[i] = hx.Hex([]byte(s))
	}
	return strings.Join(o, ",")
}

func fullNames(raw []string) []string {
	o := make([]string, len(raw))
	for i, s := range raw {
		o[i] = commons.GetTopicFullName(s) // what topicsCtrl.Subscribe/Broadcast do with the name (tied by a regenerated call-site fact)
	}
	return o
}

func ssvMsg(pk []byte, payload []byte) *spectypes.SSVMessage {
	return &spectypes.SSVMessage{
		MsgType: spectypes.SSVConsensusMsgType,
		MsgID:   spectypes.NewMsgID(networkconfig.TestNetwork.Domain, pk, spectypes.BNRoleAttester),
		Data:    payload,
	}
}

// accept runs the real validateP2PMessage for a message of validator pk arriving on `topic`.
func accept(pk []byte, topic string) (bool, string) {
	m := ssvMsg(pk, []byte{1, 2, 3})
	enc, err := commons.EncodeNetworkMsg(m)
	if err != nil {
		return false, "encode-failed"
	}
	pm := &pubsub.Message{Message: &pspb.Message{Data: enc, Topic: &topic}}
	_, _, verr := validation.VerifValidateP2P(mv, pm, time.Unix(int64(networkconfig.TestNetwork.Beacon.MinGenesisTime())+100, 0))
	if validation.VerifIsTopicNotFound(verr) {
		return false, ""
	}
	txt, _, _ := validation.VerifErrInfo(verr)
	return true, txt
}

var lastKey []byte

// genKey: mostly fresh keys; every few keys one that shares a prefix (first 1..47 bytes) with the previous key and
// differs right after it — a mapping that depends on fewer (or more) bytes than the real one, or that remembers
// earlier keys, shows up on such families
func genKey(r *hx.Rng) []byte {
	if lastKey != nil && len(lastKey) >= 8 && r.Chance(30) {
		k := append([]byte(nil), lastKey...)
		p := r.Pick(3, 4, 4, 4, 5, 6, 47)
		if p >= len(k) {
			p = len(k) - 1
		}
		k[p] += byte(1 + r.Intn(255))
		for i := p + 1; i < len(k); i++ {
			if r.Chance(50) {
				k[i] = byte(r.U64())
			}
		}
		lastKey = k
		return k
	}
	k := genKeyFresh(r)
	lastKey = k
	return k
}

func genKeyFresh(r *hx.Rng) []byte {
	switch r.Intn(10) {
	case 0:
		return r.Bytes(r.Intn(6)) // short / malformed
	case 1:
		return r.Bytes(r.Intn(61))
	case 2:
		b := bytes.Repeat([]byte{0xff}, 48)
		b[4] = byte(r.Intn(256))
		return b
	case 3:
		return make([]byte, 48)
	default:
		return r.Bytes(48)
	}
}

func key48(r *hx.Rng) []byte {
	k := genKey(r)
	for len(k) < 48 {
		k = append(k, byte(r.U64()))
	}
	return k[:48]
}

func genStr(r *hx.Rng) []byte {
	const hexd = "0123456789abcdefABCDEF"
	const other = "xXgz _-+.:/"
	n := r.Pick(0, 1, 5, 9, 10, 10, 10, 11, 12, 20, 32, 33, 34, 40)
	b := make([]byte, n)
	for i := range b {
		if r.Chance(92) {
			b[i] = hexd[r.Intn(len(hexd))]
		} else if r.Chance(70) {
			b[i] = other[r.Intn(len(other))]
		} else {
			b[i] = byte(r.Intn(256))
		}
	}
	if r.Chance(25) && n >= 2 {
		p := r.Intn(n - 1)
		b[p], b[p+1] = '0', 'x'
	}
	return b
}

func main() {
	run := hx.Start()
	defer run.Finish()
	r := hx.NewRng(run.Seed)
	var err error
	opKey, err = keys.GeneratePrivateKey()
	if err != nil {
		panic(err)
	}
	netSigned = p2pv1.NewVerifNet(opKey, opID, true)
	netPlain = p2pv1.NewVerifNet(opKey, opID, false)
	nc := networkconfig.TestNetwork
	nc.PermissionlessActivationEpoch = 1 << 62 // topic rule is checked on the unsigned path
	mv = validation.NewMessageValidator(nc)

	if lines := run.ReplayLines(); lines != nil {
		for _, l := range lines {
			doOp(run, strings.Fields(l))
		}
		return
	}
	run.Emit("alltopics", joinHex(commons.Topics()))
	for i := 0; i < run.N; i++ {
		switch r.Intn(14) {
		case 0:
			doOp(run, []string{"subnet", hx.Hex(genStr(r))})
		case 1:
			doOp(run, []string{"topicid", hx.Hex(genKey(r))})
		case 2:
			doOp(run, []string{"fullname", hx.Hex(genStr(r))})
		case 3:
			s := genStr(r)
			if r.Chance(70) {
				s = append([]byte("ssv.v2."), s...)
			}
			if r.Chance(20) {
				s = append(s, []byte("ssv.v2.7")...)
			}
			doOp(run, []string{"basename", hx.Hex(s)})
		case 4:
			doOp(run, []string{"pubtopics", hx.Hex(key48(r))})
		case 5:
			if r.Chance(35) {
				doOp(run, []string{"vstart", hx.Hex(key48(r)), hx.Hex(key48(r))})
			} else {
				doOp(run, []string{"subtopics", hx.Hex(genKey(r))})
			}
		case 6:
			pk := key48(r)
			var topic string
			switch r.Intn(4) {
			case 0:
				topic = commons.GetTopicFullName(commons.ValidatorTopicID(pk)[0])
			case 1:
				topic = commons.GetTopicFullName(commons.SubnetTopicID(r.Intn(128)))
			case 2:
				topic = commons.SubnetTopicID(r.Intn(128))
			default:
				topic = string(genStr(r))
			}
			doOp(run, []string{"accept", hx.Hex(pk), hx.Hex([]byte(topic))})
		case 7:
			sig := r.Bytes(r.Pick(256, 256, 256, 256, 0, 1, 255, 257, 264, 300, 600))
			id := r.U64()
			if r.Chance(20) {
				id = uint64(r.Intn(3))
			}
			doOp(run, []string{"enc", hx.Hex(r.Bytes(r.Pick(0, 1, 7, 8, 9, 50, 300))), hx.Sprintf("%d", id), hx.Hex(sig)})
		case 8:
			doOp(run, []string{"dec", hx.Hex(r.Bytes(r.Pick(0, 1, 255, 256, 263, 264, 265, 300, 500)))})
		case 9:
			n := r.Pick(128, 128, 128, 128, 0, 1, 64, 127, 129, 200)
			v := make([]byte, n)
			for j := range v {
				if r.Chance(40) {
					v[j] = 1
				}
				if r.Chance(3) {
					v[j] = byte(r.Intn(256))
				}
			}
			doOp(run, []string{"substr", hx.Hex(v)})
		case 10:
			doOp(run, []string{"subfrom", hx.Hex(genStr(r))})
		case 11:
			// string produced by the real encoder, fed back (round-trip direction the node uses)
			v := make([]byte, 128)
			dens := r.Pick(0, 50, 50, 100)
			for j := range v {
				if r.Chance(dens) {
					v[j] = 1
				}
			}
			doOp(run, []string{"subfrom", hx.Hex([]byte(records.Subnets(v).String()))})
		case 12:
			a, b := genVec(r), genVec(r)
			if r.Chance(15) {
				b = append([]byte{}, a...)
			}
			doOp(run, []string{"shared", hx.Hex(a), hx.Hex(b), hx.Sprintf("%d", r.Pick(0, 0, 0, 1, 2, 5, 20, 128, 500, -1))})
		case 13:
			a, b := genVec(r), genVec(r)
			if r.Chance(30) {
				b = append([]byte{}, a...)
				for k := 0; k < r.Intn(4) && len(b) > 0; k++ {
					b[r.Intn(len(b))] ^= 1
				}
			}
			if r.Chance(50) {
				doOp(run, []string{"diff", hx.Hex(a), hx.Hex(b)})
			} else {
				doOp(run, []string{"active", hx.Hex(a)})
			}
		}
	}
}

func unhex(s string) []byte {
	if s == "-" {
		return nil
	}
	b := make([]byte, len(s)/2)
	for i := range b {
		var v byte
		for _, c := range []byte(s[2*i : 2*i+2]) {
			v <<= 4
			switch {
			case c >= '0' && c <= '9':
				v |= c - '0'
			case c >= 'a' && c <= 'f':
				v |= c - 'a' + 10
			}
		}
		b[i] = v
	}
	return b
}

func doOp(run *hx.Run, w []string) {
	line := strings.Join(w, " ")
	run.Tag("op:" + w[0])
	switch w[0] {
	case "subnet":
		s := string(unhex(w[1]))
		v := commons.ValidatorSubnet(s)
		run.Seen(hx.Sprintf("subnet:%d:%v", len(s), v < 0))
		run.Emit(line, hx.Sprintf("%d", v))
	case "topicid":
		pk := unhex(w[1])
		t := commons.ValidatorTopicID(pk)
		sn := commons.ValidatorSubnet(hx.Hex(pk))
		if pk == nil {
			sn = commons.ValidatorSubnet("")
		}
		if len(pk) >= 5 && (sn < 0 || sn >= commons.Subnets()) {
			run.Violate("C18/subnet-out-of-range", hx.Sprintf("key %x -> subnet %d", pk, sn), line)
		}
		if len(t) != 1 || t[0] != commons.SubnetTopicID(sn) {
			// the node advertises / subscribes subnets through ValidatorSubnet (p2pNetwork.UpdateSubnets) and publishes through
			// ValidatorTopicID: both must name the same subnet for every key, whatever keys were seen before
			run.Violate("C18/topicid-differs-from-subnet-mapping", hx.Sprintf("key %x: ValidatorTopicID %v but ValidatorSubnet %d", pk, t, sn), line)
		}
		if len(pk) < 5 && (len(t) != 1 || t[0] != commons.UnknownSubnet) {
			run.Violate("C18/short-key-not-unknown", hx.Sprintf("key %x -> %v", pk, t), line)
		}
		run.Seen(hx.Sprintf("topicid:%d:%s", hx.Min(len(pk), 6), t[0]))
		run.Emit(line, joinHex(t))
	case "fullname":
		run.Emit(line, hx.Hex([]byte(commons.GetTopicFullName(string(unhex(w[1]))))))
	case "basename":
		s := string(unhex(w[1]))
		b := commons.GetTopicBaseName(s)
		run.Seen(hx.Sprintf("basename:%v:%v", strings.HasPrefix(s, "ssv.v2."), strings.Count(s, "ssv.v2.")))
		run.Emit(line, hx.Hex([]byte(b)))
	case "pubtopics":
		pk := unhex(w[1])
		net := netSigned
		if pk[0]&1 == 0 {
			net = netPlain
		}
		payload := append([]byte{9}, pk[:7]...)
		m := ssvMsg(pk, payload)
		raw, data, err := net.BroadcastTopics(m)
		if err != nil {
			run.Emit(line, "err")
			return
		}
		full := fullNames(raw)
		// oracle: same names as the subscribe path, inside the advertised range, accepted by the validator's topic rule
		sub, _ := net.SubscribeTopics(pk)
		if strings.Join(fullNames(sub), "|") != strings.Join(full, "|") {
			run.Violate("C18/publish-ne-subscribe", hx.Sprintf("key %x publish %v subscribe %v", pk, raw, sub), line)
		}
		all := commons.Topics()
		for _, t := range full {
			found := false
			for _, a := range all {
				if a == t {
					found = true
				}
			}
			if !found {
				run.Violate("C18/topic-not-advertised", hx.Sprintf("key %x topic %q", pk, t), line)
			}
			if ok, _ := accept(pk, t); !ok {
				run.Violate("C18/validator-rejects-publish-topic", hx.Sprintf("key %x topic %q", pk, t), line)
			}
		}
		// oracle: the envelope that went out decodes to the same three parts
		if net == netSigned && len(data) == 1 {
			enc, _ := commons.EncodeNetworkMsg(m)
			gm, gid, gsig, derr := commons.DecodeSignedSSVMessage(data[0])
			if derr != nil || !bytes.Equal(gm, enc) || gid != opID || opKey.Public().Verify(gm, gsig) != nil {
				run.Violate("C18/broadcast-envelope", hx.Sprintf("key %x: envelope does not unwrap to message/id/valid signature", pk), line)
			}
		}
		if len(data) == 1 {
			holdEnv(run, data[0], line)
		}
		run.Seen(hx.Sprintf("pub:%s:%v", raw[0], net == netSigned))
		run.Emit(line, joinHex(full))
	case "subtopics":
		pk := unhex(w[1])
		raw, err := netPlain.SubscribeTopics(pk)
		if err != nil {
			run.Emit(line, "err")
			return
		}
		run.Seen(hx.Sprintf("sub:%s", raw[0]))
		run.Emit(line, joinHex(fullNames(raw)))
	case "vstart":
		// the REAL validator start-up path: Validator.Start subscribes, through the real p2pNetwork.Subscribe, to the
		// topic of every duty runner's validator; the model's answer is subscribeTopics(validator key). The share key
		// (second argument) is a different key of the same length and must play no role.
		pk, spk := unhex(w[1]), unhex(w[2])
		share := &ssvtypes.SSVShare{Share: spectypes.Share{OperatorID: 1, ValidatorPubKey: pk, SharePubKey: spk}}
		runners := runner.DutyRunners{
			spectypes.BNRoleVoluntaryExit: runner.NewVoluntaryExitRunner(spectypes.BeaconTestNetwork, &share.Share, nil, netPlain.Net(), nil),
		}
		ctx, cancel := context.WithCancel(context.Background())
		v := ssvvalidator.NewValidator(ctx, cancel, ssvvalidator.Options{Network: netPlain.Net(), SSVShare: share, DutyRunners: runners})
		netPlain.ResetSubscriptions()
		_, err := v.Start(zap.NewNop())
		raw := append([]string(nil), netPlain.Subscribed()...)
		v.Stop()
		if err != nil {
			run.Emit(line, "err")
			return
		}
		// cross-site oracle: what the validator listens on is what a broadcast for this validator and role is published on
		if len(pk) == 48 {
			mid := spectypes.NewMsgID(networkconfig.TestNetwork.Domain, pk, spectypes.BNRoleVoluntaryExit)
			pub, _, perr := netPlain.BroadcastTopics(&spectypes.SSVMessage{MsgType: spectypes.SSVConsensusMsgType, MsgID: mid, Data: []byte{1}})
			a, b := append([]string(nil), raw...), append([]string(nil), pub...)
			sort.Strings(a)
			sort.Strings(b)
			if perr == nil && strings.Join(a, ",") != strings.Join(b, ",") {
				run.Violate("C18/validator-start-subscribes-other-topic-than-broadcast", hx.Sprintf("validator %x share key %x: Start subscribed %v, Broadcast publishes on %v", pk, spk, a, b), line)
			}
		}
		if len(raw) > 0 {
			run.Seen(hx.Sprintf("vstart:%s", raw[0]))
		}
		run.Emit(line, joinHex(fullNames(raw)))
	case "accept":
		pk, topic := unhex(w[1]), string(unhex(w[2]))
		ok, after := accept(pk, topic)
		own := commons.GetTopicFullName(commons.ValidatorTopicID(pk)[0])
		if topic == own && !ok {
			run.Violate("C18/validator-rejects-own-topic", hx.Sprintf("key %x topic %q", pk, topic), line)
		}
		for i := 0; i < commons.Subnets(); i++ {
			if t := commons.GetTopicFullName(commons.SubnetTopicID(i)); t == topic && t != own && ok {
				run.Violate("C18/validator-accepts-foreign-topic", hx.Sprintf("key %x topic %q", pk, topic), line)
			}
		}
		run.Seen(hx.Sprintf("accept:%v:%v:%s", ok, topic == own, after))
		if ok {
			run.Emit(line, "1")
		} else {
			run.Emit(line, "0")
		}
	case "enc":
		msg, sig := unhex(w[1]), unhex(w[3])
		var id uint64
		for _, c := range w[2] {
			id = id*10 + uint64(c-'0')
		}
		e := commons.EncodeSignedSSVMessage(msg, id, sig)
		if len(sig) == 256 {
			gm, gid, gs, err := commons.DecodeSignedSSVMessage(e)
			if err != nil || !bytes.Equal(gm, msg) || gid != id || !bytes.Equal(gs, sig) {
				run.Violate("C18/envelope-roundtrip", hx.Sprintf("msg %x id %d sig %x…", msg, id, sig[:4]), line)
			}
		}
		want := hx.Hex(e)
		holdEnv(run, e, line)
		run.Seen(hx.Sprintf("enc:%d:%d", len(sig), hx.Min(len(msg), 9)))
		run.Emit(line, want)
	case "dec":
		e := unhex(w[1])
		gm, gid, gs, err := commons.DecodeSignedSSVMessage(e)
		run.Seen(hx.Sprintf("dec:%d:%v", len(e), err != nil))
		if err != nil {
			run.Emit(line, "err")
		} else {
			run.Emit(line, hx.Sprintf("%s %d %s", hx.Hex(gm), gid, hx.Hex(gs)))
		}
	case "substr":
		v := unhex(w[1])
		s := records.Subnets(v).String()
		ok01 := len(v) == 128
		for _, b := range v {
			if b > 1 {
				ok01 = false
			}
		}
		if ok01 {
			back, err := records.Subnets{}.FromString(s)
			if err != nil || !bytes.Equal(back, v) {
				run.Violate("C18/subnets-roundtrip", hx.Sprintf("vector %x -> %q -> %x (%v)", v, s, []byte(back), err), line)
			}
		}
		run.Seen(hx.Sprintf("substr:%d:%v:%s", len(v), ok01, s[:2]))
		run.Emit(line, hx.Hex([]byte(s)))
	case "subfrom":
		s := string(unhex(w[1]))
		d, err := records.Subnets{}.FromString(s)
		run.Seen(hx.Sprintf("subfrom:%d:%v:%v", len(s), err != nil, strings.Contains(s, "0x")))
		if err != nil {
			run.Emit(line, "err")
		} else {
			obs := hx.Hex(d)
			// the parsed vector belongs to the caller: editing it must not change what a later parse returns
			for i := range d {
				d[i] ^= 1
			}
			d2, err2 := records.Subnets{}.FromString(s)
			if err2 != nil || hx.Hex(d2) != obs {
				run.Violate("C18/subnets-fromstring-result-shared", hx.Sprintf("parsing %q again after editing the first result gives a different vector", s), line)
			}
			run.Emit(line, obs)
		}
	case "alltopics":
		run.Emit(line, joinHex(commons.Topics()))
	case "shared":
		a, b := unhex(w[1]), unhex(w[2])
		m, _ := strconv.Atoi(w[3])
		got := records.SharedSubnets(a, b, m)
		// oracle (independent of the model): strictly increasing indices inside both vectors, set on both sides;
		// complete when no limit can have been hit
		prev := -1
		for _, s := range got {
			if s <= prev || s >= len(a) || s >= len(b) || a[s] == 0 || b[s] == 0 {
				run.Violate("C18/shared-subnets-unsound", hx.Sprintf("SharedSubnets(%x,%x,%d) lists %d", a, b, m, s), line)
				break
			}
			prev = s
		}
		want := 0
		for i := range a {
			if i < len(b) && a[i] != 0 && b[i] != 0 {
				want++
			}
		}
		if (m <= 0 || m >= want) && len(got) != want {
			run.Violate("C18/shared-subnets-incomplete", hx.Sprintf("SharedSubnets(%x,%x,%d) lists %d of %d shared subnets", a, b, m, len(got), want), line)
		}
		if m > 0 && m < want && len(got) != m {
			run.Violate("C18/shared-subnets-limit", hx.Sprintf("SharedSubnets(%x,%x,%d) lists %d entries", a, b, m, len(got)), line)
		}
		strs := make([]string, len(got))
		for i, s := range got {
			strs[i] = hx.Sprintf("%d", s)
		}
		run.Seen(hx.Sprintf("shared:%d:%d:%d:%v", lenClass(len(a)), lenClass(len(b)), sign(m), len(got) == want))
		run.Emit(line, "["+strings.Join(strs, ",")+"]")
	case "diff":
		a, b := unhex(w[1]), unhex(w[2])
		d := records.DiffSubnets(a, b)
		// oracle: patching a with the diff (and cutting to len(b)) gives b; no entry repeats an unchanged value
		patched := make([]byte, len(b))
		copy(patched, a)
		keys := make([]int, 0, len(d))
		for k, v := range d {
			keys = append(keys, k)
			if k < 0 || k >= len(b) {
				run.Violate("C18/diff-subnets-out-of-range", hx.Sprintf("DiffSubnets(%x,%x) has key %d", a, b, k), line)
				continue
			}
			if k < len(a) && a[k] == v {
				run.Violate("C18/diff-subnets-unchanged-entry", hx.Sprintf("DiffSubnets(%x,%x) lists unchanged subnet %d", a, b, k), line)
			}
			patched[k] = v
		}
		if !bytes.Equal(patched, b) {
			run.Violate("C18/diff-subnets-does-not-reproduce", hx.Sprintf("a=%x patched with DiffSubnets(a,b) gives %x, b=%x", a, patched, b), line)
		}
		sort.Ints(keys)
		strs := make([]string, len(keys))
		for i, k := range keys {
			strs[i] = hx.Sprintf("%d:%d", k, d[k])
		}
		run.Seen(hx.Sprintf("diff:%d:%d:%d", lenClass(len(a)), lenClass(len(b)), lenClass(len(d))))
		run.Emit(line, "["+strings.Join(strs, ",")+"]")
	case "active":
		v := unhex(w[1])
		run.Seen(hx.Sprintf("active:%d", lenClass(len(v))))
		run.Emit(line, hx.Sprintf("%d", records.Subnets(v).Active()))
	}
}

func lenClass(n int) int {
	switch {
	case n == 0:
		return 0
	case n < 128:
		return 1
	case n == 128:
		return 2
	}
	return 3
}

func sign(n int) int {
	switch {
	case n < 0:
		return -1
	case n == 0:
		return 0
	}
	return 1
}

func genVec(r *hx.Rng) []byte {
	n := r.Pick(128, 128, 128, 128, 0, 1, 64, 127, 129, 200)
	v := make([]byte, n)
	dens := r.Pick(0, 10, 40, 40, 100)
	for j := range v {
		if r.Chance(dens) {
			v[j] = 1
		}
		if r.Chance(3) {
			v[j] = byte(r.Intn(256))
		}
	}
	return v
}

