// Engine `validationrace` (C09, thorough tier): builds the `validation` harness with the Go race detector and runs its
// concurrent stage (`-mode conc`): concurrent validation calls for the same / different ids with the sequential Lean model
// as linearizability oracle. In the quick tier it does nothing (the race-instrumented build takes minutes the first time).
// A data race reported by the detector makes the child exit non-zero, which this program propagates.
package main

import (
	"flag"
	"fmt"
	"os"
	"os/exec"
	"path/filepath"
)

func main() {
	seed := flag.Uint64("seed", 1, "")
	n := flag.Int("n", 0, "")
	tier := flag.String("tier", "quick", "")
	ops := flag.String("ops", "", "")
	out := flag.String("out", "", "")
	stats := flag.String("stats", "", "")
	replay := flag.String("replay", "", "")
	flag.Parse()
	touch := func(p, content string) {
		if p != "" {
			_ = os.WriteFile(p, []byte(content), 0o644)
		}
	}
	if *tier != "thorough" || *n == 0 || *replay != "" {
		touch(*ops, "")
		touch(*out, "")
		touch(*stats, fmt.Sprintf(`{"seed":%d,"n":%d,"tier":%q,"evaluations":0,"distinct_nontrivial":0,"input_distribution":{},"samples":[],"violations":[],"extra":{"skipped":"quick tier / replay"}}`, *seed, *n, *tier))
		return
	}
	verif := os.Getenv("VERIF_HOME")
	if verif == "" {
		verif = "/verif"
	}
	repo := os.Getenv("VERIF_REPO")
	if repo == "" {
		repo = "/repo"
	}
	bin := filepath.Join(verif, ".build", "h_validation_race")
	build := exec.Command("go", "build", "-race", "-tags", "verif", "-overlay", filepath.Join(verif, ".build", "overlay.json"),
		"-ldflags=-checklinkname=0", "-o", bin, "./zz_verif/cmd/validation")
	build.Dir = repo
	build.Env = append(os.Environ(), "GOFLAGS=-mod=mod", "GOPROXY=off", "GOSUMDB=off", "GOTOOLCHAIN=local")
	if b, err := build.CombinedOutput(); err != nil {
		fmt.Fprintf(os.Stderr, "race build failed: %v\n%s\n", err, b)
		os.Exit(3)
	}
	run := exec.Command(bin, "-mode", "conc", "-seed", fmt.Sprint(*seed), "-n", fmt.Sprint(*n), "-tier", *tier, "-ops", *ops, "-out", *out, "-stats", *stats,
		"-driver", filepath.Join(verif, "lean", ".lake", "build", "bin", "m_validation"))
	run.Stdout, run.Stderr = os.Stdout, os.Stderr
	run.Env = append(os.Environ(), "GORACE=halt_on_error=1 exitcode=66")
	if err := run.Run(); err != nil {
		fmt.Fprintln(os.Stderr, "concurrent stage failed (a data race report exits with code 66):", err)
		os.Exit(4)
	}
}
