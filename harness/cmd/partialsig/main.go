// Harness for engine `partialsig` (property C05): drives REAL duty runners (built as operator/validator.SetupRunners
// builds them, real QBFT controller, real threshold BLS shares of the spec test key sets, real
// ReconstructSignature) into their partial-signature collection phase and delivers generated
// partial-signature messages in generated arrival orders with Byzantine senders. For every op it writes the
// op line and the implementation's canonical observation (diffed against the Lean model by bin/check) and
// evaluates the implementation-side C05 oracle (model-independent):
//   - every BeaconNode.Submit* argument verifies under the validator public key (real BLS) over an object of the decided value,
//   - each decided object is submitted at most once,
//   - once 2f+1 distinct committee members have delivered a correct share for a decided object (and at most f members
//     ever sent a wrong/malformed one) that object has been submitted.
package main

import (
	"crypto/sha256"
	"fmt"
	"os"
	"runtime/pprof"
	"sort"
	"strconv"
	"strings"

	v1 "github.com/attestantio/go-eth2-client/api/v1"
	"github.com/attestantio/go-eth2-client/spec/altair"
	"github.com/attestantio/go-eth2-client/spec/phase0"
	specqbft "github.com/bloxapp/ssv-spec/qbft"
	specssv "github.com/bloxapp/ssv-spec/ssv"
	spectypes "github.com/bloxapp/ssv-spec/types"
	ssz "github.com/ferranbt/fastssz"

	ssvtypes "github.com/bloxapp/ssv/protocol/v2/types"
	"github.com/bloxapp/ssv/zz_verif/lib/hx"
	"github.com/bloxapp/ssv/zz_verif/lib/rkit"
)

// ---------------------------------------------------------------- one case

type cs struct {
	run      *hx.Run
	env      *rkit.Env
	kind     rkit.Kind
	n, q, f  int
	pre      bool // the collecting container is the pre-consensus one (exit, registration)
	decided  bool
	pending  *specqbft.SignedMessage // decided message not yet delivered (reset dec=0)
	roots    [][32]byte              // expected roots, in the order of the runner's own share message
	typ      spectypes.PartialSigMsgType
	slot     phase0.Slot
	goodFrom []map[int]bool // per root: members that delivered a correct share in a well-formed message while collecting
	badFrom  map[int]bool   // members that ever sent a wrong share or a malformed message
	subCount []int
	seenSubs int
	lines    []string
	// roots that already held a quorum of correct stored shares when a well-formed message made ProcessX return an error
	starved   map[int]bool
	reported  map[string]bool
	regObj    ssz.HashRoot
	lastDelta int // slot offset of the duty started last on this runner
}

func (c *cs) container() *specssv.PartialSigContainer {
	st := c.env.Runner.GetBaseRunner().State
	if c.pre {
		return st.PreConsensusContainer
	}
	return st.PostConsensusContainer
}

func (c *cs) violate(sig, detail string) {
	if c.reported[sig] {
		return
	}
	c.reported[sig] = true
	c.run.Violate(sig, detail, c.lines...)
}

// decidedRoots computes, independently of the runner, the signing roots of the duty objects of the decided value.
func decidedRoots(kind rkit.Kind, env *rkit.Env, duty *spectypes.Duty, decidedValue []byte) ([][32]byte, ssz.HashRoot) {
	var objs []ssz.HashRoot
	var dom phase0.DomainType
	var regObj ssz.HashRoot
	bn := spectypes.BeaconTestNetwork
	switch kind.Role {
	case spectypes.BNRoleVoluntaryExit:
		objs = []ssz.HashRoot{&phase0.VoluntaryExit{Epoch: bn.EstimatedEpochAtSlot(duty.Slot), ValidatorIndex: duty.ValidatorIndex}}
		dom = spectypes.DomainVoluntaryExit
	case spectypes.BNRoleValidatorRegistration:
		pk := phase0.BLSPubKey{}
		copy(pk[:], env.Share.ValidatorPubKey)
		regObj = &v1.ValidatorRegistration{FeeRecipient: env.Share.FeeRecipientAddress, GasLimit: spectypes.DefaultGasLimit,
			Timestamp: bn.EpochStartTime(bn.EstimatedEpochAtSlot(duty.Slot)), Pubkey: pk}
		objs = []ssz.HashRoot{regObj}
		dom = spectypes.DomainApplicationBuilder
	default:
		cd := &spectypes.ConsensusData{}
		if err := cd.Decode(decidedValue); err != nil {
			panic(err)
		}
		switch kind.Role {
		case spectypes.BNRoleAttester:
			a, err := cd.GetAttestationData()
			must(err)
			objs, dom = []ssz.HashRoot{a}, spectypes.DomainAttester
		case spectypes.BNRoleProposer:
			if _, hr, err := cd.GetBlindedBlockData(); err == nil {
				objs = []ssz.HashRoot{hr}
			} else {
				_, hr, err := cd.GetBlockData()
				must(err)
				objs = []ssz.HashRoot{hr}
			}
			dom = spectypes.DomainProposer
		case spectypes.BNRoleAggregator:
			a, err := cd.GetAggregateAndProof()
			must(err)
			objs, dom = []ssz.HashRoot{a}, spectypes.DomainAggregateAndProof
		case spectypes.BNRoleSyncCommittee:
			r, err := cd.GetSyncCommitteeBlockRoot()
			must(err)
			objs, dom = []ssz.HashRoot{spectypes.SSZBytes(r[:])}, spectypes.DomainSyncCommittee
		case spectypes.BNRoleSyncCommitteeContribution:
			cs, err := cd.GetSyncCommitteeContributions()
			must(err)
			for _, c := range cs {
				cc := c.Contribution
				objs = append(objs, &altair.ContributionAndProof{AggregatorIndex: cd.Duty.ValidatorIndex, Contribution: &cc, SelectionProof: c.SelectionProofSig})
			}
			dom = spectypes.DomainContributionAndProof
		}
	}
	var out [][32]byte
	for _, o := range objs {
		out = append(out, rkit.SigningRoot(o, dom))
	}
	return out, regObj
}

func must(err error) {
	if err != nil {
		panic(err)
	}
}

func goodMsg(c *cs, typ spectypes.PartialSigMsgType, slot phase0.Slot, id int, roots [][32]byte) *spectypes.SignedPartialSignatureMessage {
	sigs := make([][]byte, len(roots))
	for i, r := range roots {
		sigs[i] = rkit.ShareSig(c.env.KS, spectypes.OperatorID(id), r)
	}
	return rkit.PartialSigMsg(c.env.KS, typ, slot, spectypes.OperatorID(id), roots, sigs)
}

// reset builds a fresh runner of `kind` with committee size n, starts the duty and drives it (through the real
// pre-consensus phase and a real decided message where the duty has them) into its collection phase.
func reset(run *hx.Run, kindName string, n int, dec bool) (*cs, string) {
	kind, ok := rkit.KindByName(kindName)
	if !ok {
		return nil, "bad-kind"
	}
	env := rkit.NewEnv(kind, rkit.KeySet(n), 1)
	c := &cs{run: run, env: env, kind: kind, n: n, q: int(env.Share.Quorum), f: (n - 1) / 3, reported: map[string]bool{}, lastDelta: -1}
	return c, c.begin(0, dec)
}

// begin starts the duty `delta` slots after the kind's base slot ON THIS RUNNER OBJECT (a later duty of the same runner when
// it is not the first) and drives it into its collection phase; all per-duty oracle bookkeeping starts afresh.
func (c *cs) begin(delta int, dec bool) string {
	kind, env, n := c.kind, c.env, c.n
	duty := kind.Duty(uint64(delta))
	if err := env.Runner.StartNewDuty(env.Log, duty); err != nil {
		if delta <= c.lastDelta {
			return "refused" // "duty for slot … already passed"
		}
		panic(err)
	}
	c.lastDelta = delta
	c.badFrom, c.starved = map[int]bool{}, map[int]bool{}
	c.pre, c.decided, c.pending = false, false, nil
	var decidedValue []byte
	if !kind.HasConsensus() {
		c.pre, c.decided = true, true
	} else {
		if kind.HasPre() { // real pre-consensus phase: q correct shares start the consensus instance
			own := env.LastPartialSig()
			for id := 1; id <= c.q; id++ {
				must(env.Runner.ProcessPreConsensus(env.Log, goodMsg(c, own.Message.Type, own.Message.Slot, id, rkit.Roots(own))))
			}
		}
		inst := env.Runner.GetBaseRunner().State.RunningInstance
		if inst == nil {
			panic("no running instance after duty start")
		}
		decidedValue = inst.StartValue
		// the certificate is signed by the LAST q operators so that it is not this operator's own commit quorum
		ids := make([]spectypes.OperatorID, 0, c.q)
		for id := n - c.q + 1; id <= n; id++ {
			ids = append(ids, spectypes.OperatorID(id))
		}
		dm := rkit.DecidedMsg(env.KS, env.Ctrl.Identifier, inst.GetHeight(), specqbft.FirstRound, decidedValue, ids)
		if dec {
			must(env.Runner.ProcessConsensus(env.Log, dm))
			c.decided = true
		} else {
			c.pending = dm
		}
	}
	exp, regObj := decidedRoots(kind, env, duty, decidedValue)
	c.regObj = regObj
	if c.decided {
		c.afterDecided(exp)
	} else {
		c.roots = exp // order fixed after the decision by the runner's own message
		c.typ, c.slot = spectypes.PostConsensusPartialSig, duty.Slot
	}
	c.goodFrom = make([]map[int]bool, len(c.roots))
	for i := range c.goodFrom {
		c.goodFrom[i] = map[int]bool{}
	}
	c.subCount = make([]int, len(c.roots))
	return fmt.Sprintf("ok q=%d k=%d", c.q, len(c.roots))
}

// afterDecided takes the root order, message type and slot from the runner's own broadcast share message and checks that
// its roots are exactly the independently computed roots of the decided objects.
func (c *cs) afterDecided(exp [][32]byte) {
	own := c.env.LastPartialSig()
	if own == nil {
		panic("runner did not broadcast its own share")
	}
	c.roots, c.typ, c.slot = rkit.Roots(own), own.Message.Type, own.Message.Slot
	a, b := append([][32]byte{}, c.roots...), append([][32]byte{}, exp...)
	less := func(x [][32]byte) func(i, j int) bool {
		return func(i, j int) bool { return string(x[i][:]) < string(x[j][:]) }
	}
	sort.Slice(a, less(a))
	sort.Slice(b, less(b))
	same := len(a) == len(b)
	for i := 0; same && i < len(a); i++ {
		same = a[i] == b[i]
	}
	if !same {
		c.violate("C05/own-share-not-over-decided-objects", fmt.Sprintf("%s n=%d: roots signed by the runner differ from the roots of the decided duty objects", c.kind.Name, c.n))
	}
}

// share flavours: g = correct; w = signed with another operator's share key; r = own key over another root;
// z = 96 zero bytes; j = bytes that are no curve point; i = point at infinity
func (c *cs) shareBytes(signer int, root [32]byte, fl byte) []byte {
	ks := c.env.KS
	id := spectypes.OperatorID(signer)
	if _, ok := ks.Shares[id]; !ok {
		id = spectypes.OperatorID(1 + (signer % c.n))
	}
	switch fl {
	case 'g':
		return rkit.ShareSig(ks, id, root)
	case 'w':
		return rkit.ShareSig(ks, spectypes.OperatorID(1+int(id)%c.n), root)
	case 'r':
		return rkit.ShareSig(ks, id, sha256.Sum256(root[:]))
	case 'z':
		return make([]byte, 96)
	case 'j':
		b := make([]byte, 96)
		for k := range b {
			b[k] = 0xff
		}
		return b
	case 'i':
		b := make([]byte, 96)
		b[0] = 0xc0
		return b
	}
	return make([]byte, 96)
}

type shareTok struct {
	idx int // root index, -1 = a root that is not expected
	fl  byte
}

func parseShares(s string) ([]shareTok, bool) {
	if s == "-" {
		return nil, true
	}
	var out []shareTok
	for _, t := range strings.Split(s, ",") {
		if len(t) < 2 {
			return nil, false
		}
		// <idx|x><flavour>[verified bit]
		j := 0
		for j < len(t) && (t[j] >= '0' && t[j] <= '9') {
			j++
		}
		tok := shareTok{idx: -1}
		if j == 0 {
			if t[0] != 'x' {
				return nil, false
			}
			j = 1
		} else {
			v, _ := strconv.Atoi(t[:j])
			tok.idx = v
		}
		if j >= len(t) {
			return nil, false
		}
		tok.fl = t[j]
		out = append(out, tok)
	}
	return out, true
}

// msgOp delivers one partial-signature message. Returns the canonical op line (with the share qualities computed by real
// verification) and the observation.
func (c *cs) msgOp(signer, inner int, slotBad bool, toks []shareTok) (string, string) {
	ks := c.env.KS
	roots := make([][32]byte, len(toks))
	sigs := make([][]byte, len(toks))
	desc := make([]string, len(toks))
	wellFormed := signer >= 1 && signer <= c.n && inner == signer && !slotBad && len(toks) == len(c.roots)
	seen := map[int]bool{}
	anyBad := false
	good := make([]bool, len(toks))
	for i, t := range toks {
		var r [32]byte
		if t.idx >= 0 && t.idx < len(c.roots) {
			r = c.roots[t.idx]
			if seen[t.idx] {
				wellFormed = false
			}
			seen[t.idx] = true
		} else {
			r = sha256.Sum256([]byte(fmt.Sprintf("unexpected-root-%d-%d", signer, i)))
			wellFormed = false
		}
		roots[i] = r
		sigs[i] = c.shareBytes(signer, r, t.fl)
		good[i] = rkit.VerifyShare(ks, spectypes.OperatorID(signer), r, sigs[i]) // REAL verification decides the abstract quality
		if !good[i] {
			anyBad = true
		}
		ix := "x"
		if t.idx >= 0 && t.idx < len(c.roots) {
			ix = strconv.Itoa(t.idx)
		}
		b := "0"
		if good[i] {
			b = "1"
		}
		desc[i] = ix + string(t.fl) + b
	}
	slot := c.slot
	if slotBad {
		slot++
	}
	m := rkit.PartialSigMsg(ks, c.typ, slot, spectypes.OperatorID(signer), roots, sigs)
	for _, im := range m.Message.Messages {
		im.Signer = spectypes.OperatorID(inner)
	}
	sh := "-"
	if len(desc) > 0 {
		sh = strings.Join(desc, ",")
	}
	sb := 0
	if slotBad {
		sb = 1
	}
	op := fmt.Sprintf("msg s=%d in=%d slot=%d sh=%s", signer, inner, sb, sh)
	c.lines = append(c.lines, op)

	collecting := c.decided && c.env.Runner.HasRunningDuty()
	var err error
	if c.pre {
		err = c.env.Runner.ProcessPreConsensus(c.env.Log, m)
	} else {
		err = c.env.Runner.ProcessPostConsensus(c.env.Log, m)
	}

	// ---- oracle bookkeeping (model-independent)
	if signer >= 1 && signer <= c.n && (anyBad || !wellFormed) {
		c.badFrom[signer] = true
	}
	if collecting && wellFormed {
		for i, t := range toks {
			if good[i] {
				c.goodFrom[t.idx][signer] = true
			}
		}
		if err != nil { // a well-formed message was refused while collecting: the reconstruction-failure path
			for i, r := range c.roots { // roots that hold a quorum of correct stored shares although nothing was submitted for them
				g := 0
				for id, sg := range c.container().GetSignatures(r) {
					if rkit.VerifyShare(ks, id, r, sg) {
						g++
					}
				}
				if g >= c.q && c.subCount[i] == 0 {
					c.starved[i] = true
				}
			}
		}
	}
	subs := c.checkSubmissions()
	c.checkLiveness()
	return op, c.obs(err != nil, subs)
}

func (c *cs) obs(isErr bool, subs []int) string {
	e := 0
	if isErr {
		e = 1
	}
	fin := 1
	if c.env.Runner.HasRunningDuty() {
		fin = 0
	}
	ss := "-"
	if len(subs) > 0 {
		p := make([]string, len(subs))
		for i, s := range subs {
			p[i] = strconv.Itoa(s)
		}
		ss = strings.Join(p, ",")
	}
	return fmt.Sprintf("r=%d sub=%s fin=%d c=%s", e, ss, fin, rkit.ContainerDump(c.env.KS, c.container(), c.roots))
}

// checkSubmissions inspects the Submit* calls made since the last op: real BLS verification under the validator key.
func (c *cs) checkSubmissions() []int {
	var out []int
	for ; c.seenSubs < len(c.env.BN.Subs); c.seenSubs++ {
		s := c.env.BN.Subs[c.seenSubs]
		obj := s.Obj
		if s.Call == "SubmitValidatorRegistration" {
			obj = c.regObj
		}
		if obj == nil {
			c.violate("C05/submission-without-object", fmt.Sprintf("%s n=%d: %s carried no duty object", c.kind.Name, c.n, s.Call))
			out = append(out, -1)
			continue
		}
		// the signature must verify under the validator key over EXACTLY the object handed to the beacon node
		root := rkit.SigningRoot(obj, s.Domain)
		if !rkit.VerifyUnderValidator(c.env.KS, root, s.Sig[:]) {
			c.violate("C05/invalid-signature-submitted", fmt.Sprintf("%s n=%d: signature passed to %s does not verify under the validator public key over the object it was submitted with", c.kind.Name, c.n, s.Call))
		}
		idx := -1
		for i, r := range c.roots {
			if r == root {
				idx = i
			}
		}
		out = append(out, idx)
		if idx < 0 {
			c.violate("C05/submission-not-over-a-decided-object", fmt.Sprintf("%s n=%d: %s submitted an object that is not a duty object of the current duty's decided value", c.kind.Name, c.n, s.Call))
			continue
		}
		c.subCount[idx]++
		if c.subCount[idx] > 1 {
			c.violate("C05/decided-object-submitted-twice", fmt.Sprintf("%s n=%d: %s called %d times for decided object %d", c.kind.Name, c.n, s.Call, c.subCount[idx], idx))
		}
	}
	return out
}

func (c *cs) checkLiveness() {
	if len(c.badFrom) > c.f {
		return
	}
	for i := range c.roots {
		if len(c.goodFrom[i]) >= c.q && c.subCount[i] == 0 {
			if len(c.roots) == 1 {
				c.violate("C05/single-root-runner:quorum-of-correct-shares-not-submitted",
					fmt.Sprintf("%s n=%d: %d correct shares from distinct members arrived (quorum %d, %d faulty senders <= f=%d) and nothing was submitted", c.kind.Name, c.n, len(c.goodFrom[i]), c.q, len(c.badFrom), c.f))
			} else if c.starved[i] {
				c.violate("C05/multi-root-runner:quorum-edge-lost-after-failed-reconstruction-of-another-root",
					fmt.Sprintf("%s n=%d: decided object %d of %d held a quorum of correct shares when the reconstruction of another root failed; it never gets another quorum edge and is never submitted (%d correct shares, quorum %d, %d faulty senders <= f=%d)",
						c.kind.Name, c.n, i, len(c.roots), len(c.goodFrom[i]), c.q, len(c.badFrom), c.f))
			} else {
				c.violate("C05/multi-root-runner:quorum-of-correct-shares-not-submitted",
					fmt.Sprintf("%s n=%d: decided object %d of %d: %d correct shares (quorum %d) and no submission", c.kind.Name, c.n, i, len(c.roots), len(c.goodFrom[i]), c.q))
			}
		}
	}
}

func (c *cs) decideOp() (string, string) {
	c.lines = append(c.lines, "decide")
	if c.pending == nil {
		return "decide", "noop"
	}
	err := c.env.Runner.ProcessConsensus(c.env.Log, c.pending)
	c.pending = nil
	if err != nil {
		return "decide", "err"
	}
	c.decided = true
	exp := c.roots
	c.afterDecided(exp)
	return "decide", c.obs(false, nil)
}

// ---------------------------------------------------------------- op interpreter (generation and replay share it)

type state struct {
	run *hx.Run
	cur *cs
}

func kvs(ws []string) map[string]string {
	m := map[string]string{}
	for _, w := range ws {
		if i := strings.IndexByte(w, '='); i > 0 {
			m[w[:i]] = w[i+1:]
		}
	}
	return m
}

func (s *state) do(line string) {
	ws := strings.Fields(line)
	if len(ws) == 0 {
		return
	}
	kv := kvs(ws[1:])
	switch ws[0] {
	case "quorum":
		n, _ := strconv.Atoi(kv["n"])
		q, pq := ssvtypes.ComputeQuorumAndPartialQuorum(n)
		s.run.Emit(fmt.Sprintf("quorum n=%d", n), fmt.Sprintf("q=%d pq=%d", q, pq))
	case "reset":
		n, _ := strconv.Atoi(kv["n"])
		if n != 4 && n != 7 && n != 10 && n != 13 {
			s.run.Emit(line, "bad-op")
			return
		}
		c, obs := reset(s.run, kv["kind"], n, kv["dec"] != "0")
		if c == nil {
			s.run.Emit(line, obs)
			return
		}
		s.cur = c
		op := fmt.Sprintf("reset kind=%s n=%d dec=%s", kv["kind"], n, map[bool]string{true: "1", false: "0"}[kv["dec"] != "0"])
		c.lines = []string{op}
		s.run.Emit(op, obs)
		s.run.Tag("kind/" + kv["kind"])
		s.run.Tag("n/" + kv["n"])
	case "next":
		if s.cur == nil {
			s.run.Emit(line, "bad-op")
			return
		}
		d, _ := strconv.Atoi(kv["d"])
		if d < 0 || d > 4096 {
			s.run.Emit(line, "bad-op")
			return
		}
		op := fmt.Sprintf("next d=%d dec=%s", d, map[bool]string{true: "1", false: "0"}[kv["dec"] != "0"])
		s.cur.lines = append(s.cur.lines, op)
		s.run.Emit(op, s.cur.begin(d, kv["dec"] != "0"))
		s.run.Tag("op/next-duty")
	case "exitprobe":
		exitBroadcastFailureProbe(s.run)
		s.run.Emit("exitprobe", "done")
	case "arbids":
		sd := uint64(1)
		if len(ws) > 1 {
			sd, _ = strconv.ParseUint(ws[1], 10, 64)
		}
		arbIDsProbe(s.run, sd)
		s.run.Emit(fmt.Sprintf("arbids %d", sd), "done")
	case "decide":
		if s.cur == nil {
			s.run.Emit(line, "bad-op")
			return
		}
		op, obs := s.cur.decideOp()
		s.run.Emit(op, obs)
	case "msg":
		if s.cur == nil {
			s.run.Emit(line, "bad-op")
			return
		}
		signer, _ := strconv.Atoi(kv["s"])
		inner, _ := strconv.Atoi(kv["in"])
		toks, ok := parseShares(kv["sh"])
		if !ok {
			s.run.Emit(line, "bad-op")
			return
		}
		c := s.cur
		op, obs := c.msgOp(signer, inner, kv["slot"] == "1", toks)
		s.run.Emit(op, obs)
		// coverage
		cls := "ok"
		switch {
		case strings.HasPrefix(obs, "r=1") && strings.Contains(obs, "fin=1"):
			cls = "refused-finished"
		case strings.HasPrefix(obs, "r=1"):
			cls = "refused"
		case !strings.Contains(obs, "sub=-"):
			cls = "submitted"
		}
		s.run.Tag("out/" + cls)
		fl := ""
		for _, t := range toks {
			fl += string(t.fl)
		}
		s.run.Seen(fmt.Sprintf("%s/n%d/%s/%s/k%d/later%v", c.kind.Name, c.n, cls, classOf(fl), len(toks), c.lastDelta > 0))
	default:
		s.run.Emit(line, "bad-op")
	}
}

func classOf(fl string) string {
	if fl == "" {
		return "empty"
	}
	allg, anyg := true, false
	for _, ch := range fl {
		if ch == 'g' {
			anyg = true
		} else {
			allg = false
		}
	}
	switch {
	case allg:
		return "good"
	case anyg:
		return "mixed"
	}
	return "bad:" + fl[:1]
}

// exitBroadcastFailureProbe (implementation-side oracle only, nothing for the model) — regression case of the fixed finding
// `C05/voluntary-exit:cached-exit-message-not-set-when-own-broadcast-fails` (fix be4261283): the voluntary-exit runner keeps the
// exit message of the duty in `r.voluntaryExit`. When the operator's OWN broadcast fails the duty is nevertheless armed and
// the peers' shares reach a quorum; whatever ProcessPreConsensus then submits must be THIS duty's exit with a signature that
// verifies (before the fix: a nil message followed by a nil dereference on a first duty, the previous duty's message otherwise).
func exitBroadcastFailureProbe(run *hx.Run) {
	kind, _ := rkit.KindByName("exit")
	ks := rkit.KeySet(4)
	bn, net, km := rkit.NewRecBeacon(), &rkit.RecNet{}, rkit.NewRecKM()
	env := rkit.NewEnvWith(kind, ks, 1, bn, net, km)
	fresh := func() { // a runner that has not executed any duty yet
		bn, net, km = rkit.NewRecBeacon(), &rkit.RecNet{}, rkit.NewRecKM()
		env = rkit.NewEnvWith(kind, ks, 1, bn, net, km)
	}
	const sig = "C05/voluntary-exit:cached-exit-message-not-set-when-own-broadcast-fails"
	replay := []string{"exitprobe"}
	duty := func(delta uint64, fail bool) {
		net.Fail = fail
		d := kind.Duty(delta)
		_ = env.Runner.StartNewDuty(env.Log, d)
		roots := kind.PreObjects(env.Share, d)
		for id := 2; id <= 4; id++ {
			m := rkit.PartialSigMsg(ks, spectypes.VoluntaryExitPartialSig, d.Slot, spectypes.OperatorID(id), roots,
				[][]byte{rkit.ShareSig(ks, spectypes.OperatorID(id), roots[0])})
			func() {
				defer func() {
					if p := recover(); p != nil {
						run.Violate(sig, fmt.Sprintf("exit n=4: own broadcast of the duty at slot %d failed; the peers' quorum made ProcessPreConsensus submit a SignedVoluntaryExit with a nil message and then panic (%v)", d.Slot, p), replay...)
					}
				}()
				_ = env.Runner.ProcessPreConsensus(env.Log, m)
			}()
		}
		if len(bn.Subs) > 1 {
			run.Violate("C05/decided-object-submitted-twice", fmt.Sprintf("exit n=4: %d submissions for the duty at slot %d", len(bn.Subs), d.Slot), replay...)
		}
		for _, s := range bn.Subs {
			ex, _ := s.Obj.(*phase0.VoluntaryExit)
			if ex != nil && ex.Epoch != spectypes.BeaconTestNetwork.EstimatedEpochAtSlot(d.Slot) {
				run.Violate(sig, fmt.Sprintf("exit n=4: own broadcast of the duty at slot %d failed; the exit message of epoch %d was submitted for it", d.Slot, ex.Epoch), replay...)
			}
			if ex == nil {
				run.Violate(sig, fmt.Sprintf("exit n=4: own broadcast of the duty at slot %d failed; SubmitVoluntaryExit was called with a nil message", d.Slot), replay...)
				continue
			}
			if !rkit.VerifyUnderValidator(ks, rkit.SigningRoot(ex, s.Domain), s.Sig[:]) {
				run.Violate(sig, fmt.Sprintf("exit n=4: own broadcast of the duty at slot %d failed; the exit message of an EARLIER duty (epoch %d) was submitted with the signature over this duty's exit: it does not verify under the validator public key", d.Slot, ex.Epoch), replay...)
			}
		}
		bn.Subs = nil
	}
	duty(1, false)
	duty(38, true)
	fresh()
	duty(0, true) // first duty of a runner, own broadcast fails
	duty(70, true)
	run.Tag("op/exitprobe")
}

// ---------------------------------------------------------------- generators

var badFl = []byte{'w', 'r', 'z', 'j', 'i'}

func shToks(k int, f func(i int) byte) string {
	p := make([]string, k)
	for i := 0; i < k; i++ {
		p[i] = strconv.Itoa(i) + string(f(i))
	}
	return strings.Join(p, ",")
}

func rootsOf(kind string) int {
	if kind == "contrib" {
		return 3
	}
	return 1
}

// genCase: one duty, arrival order and faulty senders drawn from the PRNG.
func genCase(s *state, r *hx.Rng) {
	kind := rkit.Kinds[r.Intn(len(rkit.Kinds))].Name
	if r.Chance(25) {
		kind = "contrib"
	}
	n := r.Pick(4, 4, 7, 7, 10, 13)
	f := (n - 1) / 3
	k := rootsOf(kind)
	// one to three consecutive duties on the SAME runner object (later ones in the same or in another epoch)
	duties := 1
	if r.Chance(35) {
		duties = 2 + r.Intn(2)
	}
	delta := 0
	for di := 0; di < duties; di++ {
		dec := true
		if kind != "reg" && kind != "exit" && r.Chance(12) {
			dec = false
		}
		if di == 0 {
			s.do(fmt.Sprintf("reset kind=%s n=%d dec=%d", kind, n, map[bool]int{true: 1, false: 0}[dec]))
		} else {
			if r.Chance(6) {
				s.do(fmt.Sprintf("next d=%d dec=1", delta)) // a duty whose slot already passed: refused
			}
			delta += r.Pick(1, 38, 38, 70)
			s.do(fmt.Sprintf("next d=%d dec=%d", delta, map[bool]int{true: 1, false: 0}[dec]))
		}
		genDuty(s, r, kind, n, f, k, dec)
	}
}

// genDuty: the traffic of one duty: arrival order and faulty senders drawn from the PRNG.
func genDuty(s *state, r *hx.Rng, kind string, n, f, k int, dec bool) {
	nb := r.Intn(f + 1)
	if r.Chance(8) {
		nb = r.Intn(n + 1) // beyond the fault bound: safety must still hold, the model must still agree
	}
	perm := r.Perm(n)
	byz := map[int]bool{}
	for _, p := range perm[:nb] {
		byz[p+1] = true
	}
	var evs []string
	good := func(id int) string {
		return fmt.Sprintf("msg s=%d in=%d slot=0 sh=%s", id, id, shToks(k, func(int) byte { return 'g' }))
	}
	for id := 1; id <= n; id++ {
		if !byz[id] {
			if r.Chance(90) {
				evs = append(evs, good(id))
			}
			if r.Chance(15) {
				evs = append(evs, good(id)) // replay
			}
			continue
		}
		for j, m := 0, 1+r.Intn(3); j < m; j++ {
			switch r.Intn(10) {
			case 0, 1, 2: // wrong share on every root
				fl := badFl[r.Intn(len(badFl))]
				evs = append(evs, fmt.Sprintf("msg s=%d in=%d slot=0 sh=%s", id, id, shToks(k, func(int) byte { return fl })))
			case 3, 4, 5: // wrong share on some roots only
				bad := r.Intn(k)
				fl := badFl[r.Intn(len(badFl))]
				evs = append(evs, fmt.Sprintf("msg s=%d in=%d slot=0 sh=%s", id, id, shToks(k, func(i int) byte {
					if i == bad || r.Chance(30) {
						return fl
					}
					return 'g'
				})))
			case 6: // a correct message after all (replaced share)
				evs = append(evs, good(id))
			case 7: // permuted root order, possibly with a wrong share
				p := r.Perm(k)
				parts := make([]string, k)
				for i, x := range p {
					fl := byte('g')
					if r.Chance(30) {
						fl = badFl[r.Intn(len(badFl))]
					}
					parts[i] = strconv.Itoa(x) + string(fl)
				}
				evs = append(evs, fmt.Sprintf("msg s=%d in=%d slot=0 sh=%s", id, id, strings.Join(parts, ",")))
			case 8: // malformed: wrong slot / inner signer / root count / unexpected root / duplicate root
				switch r.Intn(6) {
				case 0:
					evs = append(evs, fmt.Sprintf("msg s=%d in=%d slot=1 sh=%s", id, id, shToks(k, func(int) byte { return 'g' })))
				case 1:
					evs = append(evs, fmt.Sprintf("msg s=%d in=%d slot=0 sh=%s", id, 1+(id%n), shToks(k, func(int) byte { return 'g' })))
				case 2:
					evs = append(evs, fmt.Sprintf("msg s=%d in=%d slot=0 sh=%s", id, id, shToks(k+1, func(i int) byte { return 'g' })))
				case 3:
					if k > 1 {
						evs = append(evs, fmt.Sprintf("msg s=%d in=%d slot=0 sh=%s", id, id, shToks(k-1, func(int) byte { return 'g' })))
					} else {
						evs = append(evs, fmt.Sprintf("msg s=%d in=%d slot=0 sh=-", id, id))
					}
				case 4:
					evs = append(evs, fmt.Sprintf("msg s=%d in=%d slot=0 sh=xg%s", id, id, strings.Repeat(",xg", k-1)))
				case 5:
					evs = append(evs, fmt.Sprintf("msg s=%d in=%d slot=0 sh=%s", id, id, "0g"+strings.Repeat(",0g", k-1)))
				}
			case 9: // impersonation attempts that validation must refuse: signer 0 / not a member
				if r.Bool() {
					evs = append(evs, fmt.Sprintf("msg s=0 in=0 slot=0 sh=%s", shToks(k, func(int) byte { return 'g' })))
				} else {
					evs = append(evs, fmt.Sprintf("msg s=%d in=%d slot=0 sh=%s", n+1, n+1, shToks(k, func(int) byte { return 'g' })))
				}
			}
		}
	}
	// arrival order
	p := r.Perm(len(evs))
	decAt := -1
	if !dec {
		decAt = r.Intn(len(evs) + 1)
	}
	var early []string
	for i, x := range p {
		if i == decAt {
			s.do("decide")
		}
		s.do(evs[x])
		if !dec && (decAt < 0 || i < decAt) {
			early = append(early, evs[x])
		}
	}
	if !dec {
		if decAt >= len(p) {
			s.do("decide")
		}
		for _, e := range early { // what arrived before the decision was refused; the senders retry
			s.do(e)
		}
	}
	// late traffic after the duty finished
	if r.Chance(30) {
		s.do(good(1 + r.Intn(n)))
	}
}

func permutations(n int) [][]int {
	if n == 1 {
		return [][]int{{0}}
	}
	var out [][]int
	for _, p := range permutations(n - 1) {
		for i := 0; i <= len(p); i++ {
			q := append(append(append([]int{}, p[:i]...), n-1), p[i:]...)
			out = append(out, q)
		}
	}
	return out
}

// systematic: committee of 4, one faulty member (sends a wrong share, then a correct one), EVERY arrival order.
func systematic(s *state, limit int) {
	perms := permutations(5)
	type cfg struct {
		kind string
		evs  []string
	}
	var cfgs []cfg
	for _, kind := range []string{"att", "exit", "contrib", "prop"} {
		k := rootsOf(kind)
		for badRoot := 0; badRoot < k; badRoot++ {
			evs := []string{}
			for id := 1; id <= 3; id++ {
				evs = append(evs, fmt.Sprintf("msg s=%d in=%d slot=0 sh=%s", id, id, shToks(k, func(int) byte { return 'g' })))
			}
			br := badRoot
			evs = append(evs, fmt.Sprintf("msg s=4 in=4 slot=0 sh=%s", shToks(k, func(i int) byte {
				if i == br {
					return 'w'
				}
				return 'g'
			})))
			evs = append(evs, fmt.Sprintf("msg s=4 in=4 slot=0 sh=%s", shToks(k, func(int) byte { return 'g' })))
			cfgs = append(cfgs, cfg{kind, evs})
		}
	}
	cnt := 0
	// stride through the 120 orders so that a truncated run still spreads over all of them
	for i := 0; i < len(perms); i++ {
		p := perms[(i*37)%len(perms)]
		for _, c := range cfgs {
			if cnt >= limit {
				return
			}
			cnt++
			s.do(fmt.Sprintf("reset kind=%s n=4 dec=1", c.kind))
			for _, x := range p {
				s.do(c.evs[x])
			}
		}
	}
}

func main() {
	run := hx.Start()
	defer run.Finish()
	if pf := os.Getenv("VERIF_PROF"); pf != "" {
		f, _ := os.Create(pf)
		_ = pprof.StartCPUProfile(f)
		defer pprof.StopCPUProfile()
	}
	s := &state{run: run}
	if lines := run.ReplayLines(); lines != nil {
		for _, l := range lines {
			s.do(l)
		}
		return
	}
	r := hx.NewRng(run.Seed)
	for n := 0; n <= 40; n++ {
		s.do(fmt.Sprintf("quorum n=%d", n))
	}
	s.do("exitprobe")
	arb := 400
	if run.Tier == "quick" {
		arb = 60
	}
	for i := 0; i < arb && run.N > 0; i++ {
		s.do(fmt.Sprintf("arbids %d", r.U64()%1000000))
	}
	sys := 720
	if run.Tier == "quick" {
		sys = 240
	}
	if run.N > 0 {
		systematic(s, sys)
	}
	for i := 0; i < run.N; i++ {
		genCase(s, r)
	}
}
