// Committees whose operator ids are NOT 1..n (campaign V, V-m03). Operator ids are assigned by the registry contract and are
// arbitrary; every key set of the spec test kit has ids 1..n, so code that confuses an operator id with a committee position
// is indistinguishable on the generated cases of the other ops. This probe builds a real 2f+1-of-n threshold split of a fresh
// validator key evaluated AT the chosen ids, a share for it, the real voluntary-exit runner (pre-consensus only: the
// single-root runner of C05), and checks, independently of the model:
//   - a partial signature message of a NON-member (ids at most n and above n) is refused and leads to no submission;
//   - once 2f+1 distinct MEMBERS have delivered a correct share — in any order, with the non-members and one wrong share of
//     a member in between — the exit has been submitted exactly once with a signature that verifies under the validator key.
package main

import (
	"fmt"
	"strconv"

	"github.com/attestantio/go-eth2-client/spec/phase0"
	spectypes "github.com/bloxapp/ssv-spec/types"
	tu "github.com/bloxapp/ssv-spec/types/testingutils"
	"github.com/herumi/bls-eth-go-binary/bls"
	"go.uber.org/zap"

	"github.com/bloxapp/ssv/protocol/v2/ssv/runner"
	"github.com/bloxapp/ssv/zz_verif/lib/hx"
	"github.com/bloxapp/ssv/zz_verif/lib/rkit"
)

var nopLogger = zap.NewNop()

func nop() *zap.Logger { return nopLogger }

func arbIDsProbe(run *hx.Run, seed uint64) {
	spectypes.InitBLS()
	r := hx.NewRng(seed ^ 0x5eed1d5)
	replay := []string{fmt.Sprintf("arbids %d", seed)}
	kind, _ := rkit.KindByName("exit")
	n := r.Pick(4, 4, 7)
	f := (n - 1) / 3
	q := 2*f + 1
	// distinct ids: a mix of small ones (some at most n, some just above), mid-size and large ones; never exactly 1..n
	pool := []uint64{1, 2, 3, 4, 5, 6, 7, 8, 9, 11, 13, 21, 100, 255, 256, 1000, 65536, 1 << 32, 1<<40 + 7}
	perm := r.Perm(len(pool))
	ids := make([]spectypes.OperatorID, 0, n)
	for _, i := range perm[:n] {
		ids = append(ids, spectypes.OperatorID(pool[i]))
	}
	in := map[spectypes.OperatorID]bool{}
	all1n := true
	for _, id := range ids {
		in[id] = true
		if uint64(id) > uint64(n) {
			all1n = false
		}
	}
	if all1n {
		ids[0] = 1 << 20
		in = map[spectypes.OperatorID]bool{}
		for _, id := range ids {
			in[id] = true
		}
	}
	msk := make([]bls.SecretKey, q)
	for i := range msk {
		msk[i].SetByCSPRNG()
	}
	validatorSK := msk[0]
	shares := map[spectypes.OperatorID]*bls.SecretKey{}
	committee := make([]*spectypes.Operator, 0, n)
	for _, id := range ids {
		var blsID bls.ID
		if err := blsID.SetDecString(strconv.FormatUint(uint64(id), 10)); err != nil {
			panic(err)
		}
		sk := &bls.SecretKey{}
		if err := sk.Set(msk, &blsID); err != nil {
			panic(err)
		}
		shares[id] = sk
		committee = append(committee, &spectypes.Operator{OperatorID: id, PubKey: sk.GetPublicKey().Serialize()})
	}
	own := ids[r.Intn(n)]
	share := &spectypes.Share{OperatorID: own, ValidatorPubKey: validatorSK.GetPublicKey().Serialize(), SharePubKey: shares[own].GetPublicKey().Serialize(),
		Committee: committee, Quorum: uint64(q), PartialQuorum: uint64(f + 1), DomainType: tu.TestingSSVDomainType, Graffiti: []byte("x")}
	km := tu.NewTestingKeyManager()
	if err := km.AddShare(shares[own]); err != nil {
		panic(err)
	}
	bn := rkit.NewRecBeacon()
	rn := runner.NewVoluntaryExitRunner(spectypes.BeaconTestNetwork, share, bn, &rkit.RecNet{}, km)
	duty := kind.Duty(uint64(r.Intn(40)))
	desc := fmt.Sprintf("exit n=%d ids=%v own=%d", n, ids, own)
	if err := rn.StartNewDuty(nop(), duty); err != nil {
		run.Violate("C05/arbitrary-ids:duty-not-started", desc+": "+err.Error(), replay...)
		return
	}
	root := kind.PreObjects(share, duty)[0]
	msg := func(signer spectypes.OperatorID, sk *bls.SecretKey) *spectypes.SignedPartialSignatureMessage {
		return &spectypes.SignedPartialSignatureMessage{Signature: make([]byte, 96), Signer: signer,
			Message: spectypes.PartialSignatureMessages{Type: spectypes.VoluntaryExitPartialSig, Slot: duty.Slot,
				Messages: []*spectypes.PartialSignatureMessage{{PartialSignature: sk.SignByte(root[:]).Serialize(), SigningRoot: root, Signer: signer}}}}
	}
	// non-members: ids at most n that are not in the committee, ids above n, and neighbours of members
	var outsiders []spectypes.OperatorID
	for c := uint64(1); c <= uint64(n)+2; c++ {
		if !in[spectypes.OperatorID(c)] {
			outsiders = append(outsiders, spectypes.OperatorID(c))
		}
	}
	for _, id := range ids {
		if !in[id+1] {
			outsiders = append(outsiders, id+1)
		}
	}
	type ev struct {
		id    spectypes.OperatorID
		kind  int // 0 correct member share, 1 non-member, 2 wrong share of a member
	}
	var evs []ev
	mp := r.Perm(n)
	members := 0
	for _, i := range mp[:q] {
		evs = append(evs, ev{ids[i], 0})
		members++
	}
	for k := 0; k < 1+r.Intn(3) && len(outsiders) > 0; k++ {
		evs = append(evs, ev{outsiders[r.Intn(len(outsiders))], 1})
	}
	if n > q && r.Bool() { // a wrong share from a member outside the chosen quorum (at most f of them)
		evs = append(evs, ev{ids[mp[q]], 2})
	}
	order := r.Perm(len(evs))
	hasWrong := false // with a wrong share in the container the quorum-completing message legitimately returns the reconstruction error
	for _, e := range evs {
		hasWrong = hasWrong || e.kind == 2
	}
	good := 0
	for _, oi := range order {
		e := evs[oi]
		before := len(bn.Subs)
		switch e.kind {
		case 0:
			err := rn.ProcessPreConsensus(nop(), msg(e.id, shares[e.id]))
			good++
			if err != nil && good <= q && before == 0 && !hasWrong {
				run.Violate("C05/arbitrary-ids:committee-member-share-refused", fmt.Sprintf("%s: correct partial signature of member %d refused: %v", desc, e.id, err), replay...)
			}
		case 1:
			sk := &bls.SecretKey{}
			sk.SetByCSPRNG()
			err := rn.ProcessPreConsensus(nop(), msg(e.id, sk))
			if err == nil && before == 0 {
				run.Violate("C05/arbitrary-ids:non-member-share-accepted", fmt.Sprintf("%s: partial signature message of operator %d, not a member, was accepted", desc, e.id), replay...)
			}
			if len(bn.Subs) > before {
				run.Violate("C05/arbitrary-ids:non-member-share-completes-quorum", fmt.Sprintf("%s: a message of non-member %d led to a submission", desc, e.id), replay...)
			}
		case 2:
			sk := &bls.SecretKey{}
			sk.SetByCSPRNG()
			_ = rn.ProcessPreConsensus(nop(), msg(e.id, sk))
		}
	}
	switch {
	case len(bn.Subs) == 0:
		run.Violate("C05/arbitrary-ids:quorum-of-correct-shares-not-submitted", fmt.Sprintf("%s: %d distinct members delivered correct shares, nothing was submitted", desc, q), replay...)
	case len(bn.Subs) > 1:
		run.Violate("C05/decided-object-submitted-twice", fmt.Sprintf("%s: %d submissions", desc, len(bn.Subs)), replay...)
	default:
		s := bn.Subs[0]
		ex, _ := s.Obj.(*phase0.VoluntaryExit)
		sig := &bls.Sign{}
		sigBytes := append([]byte{}, s.Sig[:]...) // cgo: the bytes must not live inside a struct that holds Go pointers
		okSig := ex != nil && sig.Deserialize(sigBytes) == nil
		if okSig {
			rt := rkit.SigningRoot(ex, s.Domain)
			okSig = sig.VerifyByte(validatorSK.GetPublicKey(), rt[:])
		}
		if !okSig {
			run.Violate("C05/arbitrary-ids:submitted-signature-does-not-verify", desc, replay...)
		}
	}
	run.Tag("op/arbids")
	run.Tag(fmt.Sprintf("arbids/n=%d", n))
	run.Seen(fmt.Sprintf("arbids/n=%d/own-small=%v/events=%d", n, uint64(own) <= uint64(n), len(evs)))
}
