// Harness of engine `storekey` (C15, key layer): drives the REAL ibft/storage store on a REAL in-memory Badger DB through a
// recording wrapper, emits the (prefix, key) pairs / delete prefixes the store hands to the database (diffed against the Lean
// model by bin/check) and checks, independently of the model, that distinct (store, identifier, height | highest) entries never
// overwrite each other and that CleanAllInstances removes exactly one identifier's entries.
//
//	ops:  hkey <prefix> <id>      SaveHighestInstance of a fresh instance           -> "<db prefix> <db key>" of the write
//	      ikey <prefix> <id> <h>  SaveInstance of a fresh instance of height h      -> "<db prefix> <db key>" of the write
//	      cprefix <prefix> <id>   CleanAllInstances(id)                             -> the prefix handed to DeletePrefix
//	      case                    fresh database (replay files: every case starts with it)
package main

import (
	"bytes"
	"sort"
	"strconv"
	"strings"

	specqbft "github.com/bloxapp/ssv-spec/qbft"
	"go.uber.org/zap"

	ibftstorage "github.com/bloxapp/ssv/ibft/storage"
	qbftstorage "github.com/bloxapp/ssv/protocol/v2/qbft/storage"
	"github.com/bloxapp/ssv/storage/basedb"
	"github.com/bloxapp/ssv/storage/kv"
	"github.com/bloxapp/ssv/zz_verif/lib/hx"
)

// recDB forwards to the real database and records the arguments of the calls the store makes
type recDB struct {
	basedb.Database
	sets  [][2][]byte
	delPs [][]byte
}

func cp(b []byte) []byte { return append([]byte{}, b...) }

func (d *recDB) Set(prefix, key, value []byte) error {
	d.sets = append(d.sets, [2][]byte{cp(prefix), cp(key)})
	return d.Database.Set(prefix, key, value)
}

func (d *recDB) DeletePrefix(prefix []byte) (int, error) {
	d.delPs = append(d.delPs, cp(prefix))
	return d.Database.DeletePrefix(prefix)
}

type entry struct {
	prefix, id string
	highest    bool
	height     uint64
}

type world struct {
	db      *recDB
	stores  map[string]qbftstorage.QBFTStore
	want    map[entry]uint64 // entry -> marker (round of the decided message) of the value that must be read back
	counter uint64
	lines   []string
}

var logger = zap.NewNop()

func newWorld() *world {
	db, err := kv.NewInMemory(logger, basedb.Options{})
	if err != nil {
		panic(err)
	}
	return &world{db: &recDB{Database: db}, stores: map[string]qbftstorage.QBFTStore{}, want: map[entry]uint64{}}
}

func (w *world) store(prefix []byte) qbftstorage.QBFTStore {
	s, ok := w.stores[string(prefix)]
	if !ok {
		s = ibftstorage.New(w.db, string(prefix))
		w.stores[string(prefix)] = s
	}
	return s
}

func (w *world) inst(id []byte, h uint64) *qbftstorage.StoredInstance {
	w.counter++
	return &qbftstorage.StoredInstance{
		State: &specqbft.State{ID: cp(id), Height: specqbft.Height(h), Round: 1, Decided: true, DecidedValue: []byte{1}},
		DecidedMessage: &specqbft.SignedMessage{Signature: make([]byte, 96), Signers: []uint64{1, 2, 3},
			Message: specqbft.Message{MsgType: specqbft.CommitMsgType, Height: specqbft.Height(h), Round: specqbft.Round(w.counter), Identifier: cp(id)}},
	}
}

func marker(s *qbftstorage.StoredInstance) uint64 {
	if s == nil || s.DecidedMessage == nil {
		return 0
	}
	return uint64(s.DecidedMessage.Message.Round)
}

// verify reads every expected entry back from the real stores (model-independent oracle)
func (w *world) verify(run *hx.Run, sig string) {
	keys := make([]entry, 0, len(w.want))
	for e := range w.want {
		keys = append(keys, e)
	}
	sort.Slice(keys, func(i, j int) bool {
		a, b := keys[i], keys[j]
		if a.prefix != b.prefix {
			return a.prefix < b.prefix
		}
		if a.id != b.id {
			return a.id < b.id
		}
		if a.highest != b.highest {
			return a.highest
		}
		return a.height < b.height
	})
	for _, e := range keys {
		var got *qbftstorage.StoredInstance
		var err error
		if e.highest {
			got, err = w.store([]byte(e.prefix)).GetHighestInstance([]byte(e.id))
		} else {
			got, err = w.store([]byte(e.prefix)).GetInstance([]byte(e.id), specqbft.Height(e.height))
		}
		if err != nil || marker(got) != w.want[e] {
			run.Violate(sig, hx.Sprintf("entry store=%x id=%x highest=%v height=%d: stored instance #%d, read back #%d (err %v)",
				e.prefix, e.id, e.highest, e.height, w.want[e], marker(got), err), w.lines...)
			return
		}
	}
}

func (w *world) do(run *hx.Run, f []string) {
	line := strings.Join(f, " ")
	w.lines = append(w.lines, line)
	switch f[0] {
	case "hkey", "ikey":
		p, id := unhex(f[1]), unhex(f[2])
		var h uint64
		e := entry{prefix: string(p), id: string(id), highest: f[0] == "hkey"}
		if f[0] == "ikey" {
			h, _ = strconv.ParseUint(f[3], 10, 64)
			e.height = h
		}
		in := w.inst(id, h)
		n := len(w.db.sets)
		var err error
		if e.highest {
			if _, dup := w.want[e]; dup { // a second highest entry of the same height is (rightly) not written: `replaces`
				w.counter--
				w.lines = w.lines[:len(w.lines)-1]
				return
			}
			err = w.store(p).SaveHighestInstance(in)
		} else {
			if _, dup := w.want[e]; dup {
				w.counter--
				w.lines = w.lines[:len(w.lines)-1]
				return
			}
			err = w.store(p).SaveInstance(in)
		}
		if err != nil || len(w.db.sets) != n+1 {
			// an entry that was never written is refused only if the store believes it exists already: a collision
			run.Violate("C15/store-refuses-new-entry", hx.Sprintf("%s: err=%v writes=%d", line, err, len(w.db.sets)-n), w.lines...)
			run.Emit(line, "nowrite")
			return
		}
		w.want[e] = w.counter
		run.Seen(hx.Sprintf("%s:%d:%d:%v", f[0], len(p), len(id), h > 1<<32))
		run.Emit(line, hx.Hex(w.db.sets[n][0])+" "+hx.Hex(w.db.sets[n][1]))
		w.verify(run, "C15/store-entries-collide")
	case "cprefix":
		p, id := unhex(f[1]), unhex(f[2])
		n := len(w.db.delPs)
		if err := w.store(p).CleanAllInstances(logger, id); err != nil || len(w.db.delPs) != n+1 {
			run.Emit(line, "err")
			return
		}
		removed := 0
		for e := range w.want {
			if e.prefix == string(p) && e.id == string(id) {
				delete(w.want, e)
				removed++
				var got *qbftstorage.StoredInstance
				if e.highest {
					got, _ = w.store(p).GetHighestInstance(id)
				} else {
					got, _ = w.store(p).GetInstance(id, specqbft.Height(e.height))
				}
				if got != nil {
					run.Violate("C15/clean-leaves-own-entry", hx.Sprintf("%s: entry highest=%v height=%d still readable", line, e.highest, e.height), w.lines...)
				}
			}
		}
		run.Seen(hx.Sprintf("clean:%d:%d", len(p), removed))
		run.Emit(line, hx.Hex(w.db.delPs[n]))
		w.verify(run, "C15/clean-removes-foreign-entry")
	}
}

func unhex(s string) []byte {
	if s == "-" {
		return nil
	}
	b := make([]byte, len(s)/2)
	for i := range b {
		v, _ := strconv.ParseUint(s[2*i:2*i+2], 16, 8)
		b[i] = byte(v)
	}
	return b
}

var rolePrefixes = []string{"ATTESTER", "AGGREGATOR", "PROPOSER", "SYNC_COMMITTEE", "SYNC_COMMITTEE_CONTRIBUTION", "VALIDATOR_REGISTRATION", "VOLUNTARY_EXIT"}

func main() {
	run := hx.Start()
	defer run.Finish()
	r := hx.NewRng(run.Seed)
	if lines := run.ReplayLines(); lines != nil {
		w := newWorld()
		for _, l := range lines {
			f := strings.Fields(l)
			if len(f) == 0 {
				continue
			}
			if f[0] == "case" {
				w.db.Close()
				w = newWorld()
				run.Emit(l, "ok")
				continue
			}
			w.do(run, f)
		}
		w.db.Close()
		return
	}
	heights := []uint64{0, 1, 2, 255, 256, 257, 65535, 65536, 1 << 24, 1<<32 - 1, 1 << 32, 1 << 56, 1<<63 - 1, 1 << 63, 1<<64 - 1}
	for n := 0; n < run.N; {
		w := newWorld()
		run.Emit("case", "ok")
		// a few store prefixes (production role names — one is a prefix of another — and adversarial ones) and identifiers
		var ps [][]byte
		for i := 0; i < 2+r.Intn(3); i++ {
			if r.Chance(75) {
				ps = append(ps, []byte(rolePrefixes[r.Intn(len(rolePrefixes))]))
			} else {
				ps = append(ps, r.Bytes(r.Pick(0, 1, 8, 14)))
			}
		}
		idLen := r.Pick(56, 56, 56, 56, 1, 8, 16, 60)
		var ids [][]byte
		for i := 0; i < 2+r.Intn(4); i++ {
			id := r.Bytes(idLen)
			switch r.Intn(6) {
			case 0: // identifier that starts like the tail of a longer role name
				copy(id, "_CONTRIBUTION")
			case 1: // identifier that contains the tags
				copy(id, "instance")
			case 2:
				copy(id, "highest_instance")
			case 3: // shares a long prefix with an earlier one
				if len(ids) > 0 {
					copy(id, ids[0][:len(id)-1])
				}
			}
			ids = append(ids, id)
		}
		for k := 0; k < 8+r.Intn(16) && n < run.N; k++ {
			p, id := ps[r.Intn(len(ps))], ids[r.Intn(len(ids))]
			switch {
			case r.Chance(60):
				h := heights[r.Intn(len(heights))]
				if r.Chance(30) {
					h = r.U64()
				}
				w.do(run, []string{"ikey", hx.Hex(p), hx.Hex(id), strconv.FormatUint(h, 10)})
			case r.Chance(60):
				w.do(run, []string{"hkey", hx.Hex(p), hx.Hex(id)})
			default:
				w.do(run, []string{"cprefix", hx.Hex(p), hx.Hex(id)})
			}
			n++
		}
		w.db.Close()
	}
	_ = bytes.Equal
}
