package main

// Mode `-mode c17` (additional engine stratum of property C17, implementation-side oracle only): real timeout EVENT messages —
// the queue event the round-timer callback creates (Validator.onTimeout -> createTimerMessage) — are handed to the REAL
// Validator.ProcessMessage -> handleEventMessage -> Controller.OnTimeout for heights that were evicted from the controller's
// two-slot container, never ran, are decided, or for lower rounds, while another instance is running.
// Oracle (C17: "a timeout for another height / a lower round / a decided instance changes nothing"): the round of the running
// instance and of every stored instance, the number of broadcasts and the timer arming are unchanged.

import (
	"flag"
	"fmt"
	"strings"

	specqbft "github.com/bloxapp/ssv-spec/qbft"
	spectypes "github.com/bloxapp/ssv-spec/types"
	tu "github.com/bloxapp/ssv-spec/types/testingutils"

	"github.com/bloxapp/ssv/protocol/v2/qbft/roundtimer"
	"github.com/bloxapp/ssv/protocol/v2/ssv/queue"
	"github.com/bloxapp/ssv/zz_verif/lib/hx"
	"github.com/bloxapp/ssv/zz_verif/lib/rkit"
)

var mode = flag.String("mode", "", "c17: stale timeout events through Validator.ProcessMessage")

type ctlSnap struct {
	running string
	stored  string
	bcasts  int
	timer   string
}

func (c *cs) ctlSnapshot() ctlSnap {
	b := c.env.Runner.GetBaseRunner()
	s := ctlSnap{running: "-", bcasts: len(c.net.Msgs), timer: "-"}
	if b.State != nil && b.State.RunningInstance != nil {
		ri := b.State.RunningInstance
		s.running = fmt.Sprintf("h%d:r%d:d%d", ri.GetHeight(), ri.State.Round, b2i(ri.State.Decided))
	}
	if b.QBFTController == nil {
		return s
	}
	var parts []string
	for _, inst := range b.QBFTController.StoredInstances {
		parts = append(parts, fmt.Sprintf("h%d:r%d:d%d", inst.GetHeight(), inst.State.Round, b2i(inst.State.Decided)))
	}
	s.stored = strings.Join(parts, ",")
	if t, ok := b.QBFTController.GetConfig().GetTimer().(*roundtimer.TestQBFTTimer); ok {
		s.timer = fmt.Sprintf("arm%d:r%d", t.State.Timeouts, t.State.Round)
	}
	return s
}

// timeoutOp pushes the timeout event for (base slot + dh, round r).
func (c *cs) timeoutOp(dh, r int) (string, string) {
	b := c.env.Runner.GetBaseRunner()
	if b.QBFTController == nil {
		return "", ""
	}
	height := specqbft.Height(int64(c.kind.Duty(0).Slot) + int64(dh))
	id := spectypes.NewMsgID(tu.TestingSSVDomainType, c.share.ValidatorPubKey, c.kind.Role)
	m, err := c.v.VerifTimerMessage(id, height, specqbft.Round(r))
	if err != nil {
		return "", ""
	}
	d, err := queue.DecodeSSVMessage(m)
	if err != nil {
		return "", ""
	}
	before := c.ctlSnapshot()
	// a timeout is due only for a stored, undecided instance that is the duty's running instance, in its current (or a later) round
	legit := false
	cls := "unknown-height"
	if inst := b.QBFTController.StoredInstances.FindInstance(height); inst != nil {
		switch {
		case inst.State.Decided:
			cls = "decided-instance"
		case specqbft.Round(r) < inst.State.Round:
			cls = "lower-round"
		case b.State == nil || b.State.RunningInstance != inst:
			cls = "stored-instance-of-another-duty"
		default:
			cls, legit = "due", true
		}
	} else if b.State != nil && b.State.RunningInstance != nil && b.State.RunningInstance.GetHeight() == height {
		cls = "running-instance-evicted"
	}
	perr := c.v.ProcessMessage(nop, d)
	after := c.ctlSnapshot()
	op := fmt.Sprintf("tmo h=%d r=%d cls=%s", height, r, cls)
	obs := fmt.Sprintf("r=%d run=%s st=%s bc=%d tm=%s", b2i(perr != nil), after.running, after.stored, after.bcasts-before.bcasts, after.timer)
	c.run.Tag("tmo/" + cls)
	if !legit && after != before {
		who := fmt.Sprintf("%s n=%d", c.kind.Name, c.n)
		if after.running != before.running {
			c.violate("C17/validator-glue:timeout-event-for-another-height-advanced-the-running-instance",
				fmt.Sprintf("%s: timeout event for height %d round %d (%s) changed the running instance %s -> %s (broadcasts +%d, timer %s -> %s)",
					who, height, r, cls, before.running, after.running, after.bcasts-before.bcasts, before.timer, after.timer))
		} else {
			c.violate("C17/validator-glue:stale-timeout-event-had-an-effect",
				fmt.Sprintf("%s: timeout event for height %d round %d (%s): stored %s -> %s, broadcasts +%d, timer %s -> %s",
					who, height, r, cls, before.stored, after.stored, after.bcasts-before.bcasts, before.timer, after.timer))
		}
	}
	return op, obs
}

// genCaseC17: some decided duties, then a running one; timeout events aimed at every kind of other height.
func genCaseC17(s *state, r *hx.Rng) {
	kind := []string{"att", "sc"}[r.Intn(2)]
	n := r.Pick(4, 4, 7)
	var script []string
	s.do(fmt.Sprintf("reset role=%s n=%d", kind, n), &script)
	if r.Chance(20) {
		s.do(fmt.Sprintf("tmo dh=%d r=1", r.Pick(0, 1, 5)), &script) // before any duty
	}
	k := 1 + r.Intn(3) // decided duties before the running one
	for di := 0; di < k; di++ {
		s.do(fmt.Sprintf("start d=%d", di), &script)
		if r.Chance(25) {
			s.do(fmt.Sprintf("tmo dh=%d r=1", di), &script) // due: moves this duty to round 2 first
		}
		if r.Chance(20) {
			continue // this duty never decides: its instance stays stored, stopped, when the next duty starts
		}
		s.do(fmt.Sprintf("decided d=%d dh=0 val=0", di), &script)
		if r.Chance(30) {
			s.do(fmt.Sprintf("tmo dh=%d r=%d", di, r.Pick(1, 2, 3)), &script) // decided instance
		}
	}
	s.do(fmt.Sprintf("start d=%d", k), &script)
	cur := 1
	for j, m := 0, 5+r.Intn(6); j < m; j++ {
		switch r.Intn(8) {
		case 0, 1, 2: // an earlier duty's height: evicted (k >= 2) or stored and decided
			s.do(fmt.Sprintf("tmo dh=%d r=%d", r.Intn(k), r.Pick(1, 1, 2, 5)), &script)
		case 3: // never run, lower
			s.do(fmt.Sprintf("tmo dh=-%d r=%d", 1+r.Intn(3), r.Pick(1, 2)), &script)
		case 4: // never run, higher
			s.do(fmt.Sprintf("tmo dh=%d r=%d", k+1+r.Intn(30), r.Pick(1, 2)), &script)
		case 5: // lower round of the running instance
			s.do(fmt.Sprintf("tmo dh=%d r=%d", k, r.Intn(cur)), &script)
		case 6: // due
			s.do(fmt.Sprintf("tmo dh=%d r=%d", k, cur), &script)
			cur++
		case 7: // a certificate for a later height arrives (may evict), then stale timeouts again
			s.do(fmt.Sprintf("decided d=%d dh=%d val=0", k, 1+r.Intn(2)), &script)
		}
	}
	if r.Chance(40) {
		s.do(fmt.Sprintf("decided d=%d dh=0 val=0", k), &script)
		s.do(fmt.Sprintf("tmo dh=%d r=%d", k, cur), &script) // running instance decided meanwhile
		s.do(fmt.Sprintf("tmo dh=%d r=1", r.Intn(k)), &script)
	}
}

var _ = rkit.Kinds
