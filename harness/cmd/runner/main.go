// Harness for engine `runner` (property C03): a REAL Validator with its seven REAL duty runners (built as
// operator/validator.SetupRunners builds them: real QBFT controllers with the production instance-container capacity, real
// value checks) around a recording KeyManager (every SignBeaconObject), BeaconNode and Network. Messages are REAL traffic
// captured from honest runs of the peer operators' runners (pre-consensus shares, proposal/prepare/commit, decided,
// post-consensus shares) plus certificates crafted with the peers' real keys, delivered through Validator.ProcessMessage in
// perturbed orders (replayed, stale, future, wrong slot / role / validator, invalid values, instance-evicting bursts).
// Per op: the abstract op line (oracle facts computed with the real functions), the implementation's canonical
// observation (diffed against the Lean model) and the implementation-side C03 oracle on the recording key manager.
package main

import (
	"bytes"
	"context"
	"crypto/sha256"
	"fmt"
	"os"
	"sort"
	"strconv"
	"strings"

	"github.com/attestantio/go-eth2-client/spec/phase0"
	specqbft "github.com/bloxapp/ssv-spec/qbft"
	spectypes "github.com/bloxapp/ssv-spec/types"
	tu "github.com/bloxapp/ssv-spec/types/testingutils"
	"go.uber.org/zap"

	qbftcontroller "github.com/bloxapp/ssv/protocol/v2/qbft/controller"
	qbfttesting "github.com/bloxapp/ssv/protocol/v2/qbft/testing"
	"github.com/bloxapp/ssv/protocol/v2/ssv/queue"
	"github.com/bloxapp/ssv/protocol/v2/ssv/runner"
	"github.com/bloxapp/ssv/protocol/v2/ssv/validator"
	ssvtypes "github.com/bloxapp/ssv/protocol/v2/types"
	"github.com/bloxapp/ssv/zz_verif/lib/hx"
	"github.com/bloxapp/ssv/zz_verif/lib/rkit"
)

var nop = zap.NewNop()

// ---------------------------------------------------------------- honest traffic of the whole committee

type pmsg struct {
	m      *spectypes.SSVMessage
	sender int
}

var poolCache = map[string][]pmsg{}

func deliverTo(e *rkit.Env, m *spectypes.SSVMessage) {
	d, err := queue.DecodeSSVMessage(m)
	if err != nil {
		return
	}
	switch b := d.Body.(type) {
	case *specqbft.SignedMessage:
		_ = e.Runner.ProcessConsensus(e.Log, b)
	case *spectypes.SignedPartialSignatureMessage:
		if b.Message.Type == spectypes.PostConsensusPartialSig {
			_ = e.Runner.ProcessPostConsensus(e.Log, b)
		} else {
			_ = e.Runner.ProcessPreConsensus(e.Log, b)
		}
	}
}

// honestPool runs all n operators' real runners on the duty, every broadcast delivered to everybody (loop-back included),
// until nothing is left, and returns all messages in broadcast order.
func honestPool(kind rkit.Kind, n int, delta uint64) []pmsg {
	key := fmt.Sprintf("%s/%d/%d", kind.Name, n, delta)
	if p, ok := poolCache[key]; ok {
		return p
	}
	ks := rkit.KeySet(n)
	envs := make([]*rkit.Env, n+1)
	seen := make([]int, n+1)
	var out []pmsg
	collect := func() {
		for id := 1; id <= n; id++ {
			for ; seen[id] < len(envs[id].Net.Msgs); seen[id]++ {
				out = append(out, pmsg{envs[id].Net.Msgs[seen[id]], id})
			}
		}
	}
	for id := 1; id <= n; id++ {
		envs[id] = rkit.NewEnv(kind, ks, spectypes.OperatorID(id))
	}
	for id := 1; id <= n; id++ {
		_ = envs[id].Runner.StartNewDuty(nop, kind.Duty(delta))
		collect()
	}
	for i := 0; i < len(out) && i < 4000; i++ {
		for id := 1; id <= n; id++ {
			deliverTo(envs[id], out[i].m)
			collect()
		}
	}
	poolCache[key] = out
	return out
}

// ---------------------------------------------------------------- one case

type cs struct {
	run    *hx.Run
	kind   rkit.Kind
	n      int
	ks     *tu.TestKeySet
	v      *validator.Validator
	env    *rkit.Env
	km     *rkit.RecKM
	bn     *rkit.RecBeacon
	net    *rkit.RecNet
	share  *spectypes.Share
	cancel context.CancelFunc

	seenSigns, seenBc, seenSubs int
	rootIDs                     map[[32]byte]int
	valIDs                      map[[32]byte]int
	lines                       []string

	// oracle state (model-independent)
	dutySlot   int64 // slot of the duty started last on the runner under test (-1: none)
	dutyPre    map[[32]byte]bool
	postSigned map[string]int
	reported   map[string]bool
}

func (c *cs) violate(sig, detail string) {
	if c.reported[sig] {
		return
	}
	c.reported[sig] = true
	c.run.Violate(sig, detail, c.lines...)
}

func (c *cs) rid(r [32]byte) int {
	if id, ok := c.rootIDs[r]; ok {
		return id
	}
	id := len(c.rootIDs) + 1
	c.rootIDs[r] = id
	return id
}

func (c *cs) vid(v []byte) int {
	h := sha256.Sum256(v)
	if id, ok := c.valIDs[h]; ok {
		return id
	}
	id := len(c.valIDs) + 1
	c.valIDs[h] = id
	return id
}

func ids(xs []int) string {
	if len(xs) == 0 {
		return "-"
	}
	p := make([]string, len(xs))
	for i, x := range xs {
		p[i] = strconv.Itoa(x)
	}
	return strings.Join(p, ",")
}

func b2i(b bool) int {
	if b {
		return 1
	}
	return 0
}

func newCase(run *hx.Run, kindName string, n int) *cs {
	kind, ok := rkit.KindByName(kindName)
	if !ok {
		return nil
	}
	c := &cs{run: run, kind: kind, n: n, ks: rkit.KeySet(n), km: rkit.NewRecKM(), bn: rkit.NewRecBeacon(), net: &rkit.RecNet{},
		rootIDs: map[[32]byte]int{}, valIDs: map[[32]byte]int{}, dutySlot: -1, postSigned: map[string]int{}, reported: map[string]bool{}}
	runners := runner.DutyRunners{}
	for _, k := range rkit.Kinds {
		if k.Role == kind.Role && k.Name != kind.Name {
			continue
		}
		if _, dup := runners[k.Role]; dup {
			continue
		}
		e := rkit.NewEnvWith(k, c.ks, 1, c.bn, c.net, c.km)
		runners[k.Role] = e.Runner
		if k.Name == kind.Name {
			c.env = e
		}
	}
	c.share = c.env.Share
	ctx, cancel := context.WithCancel(context.Background())
	c.cancel = cancel
	c.v = validator.NewValidator(ctx, cancel, validator.Options{
		Network: c.net, Beacon: c.bn, Storage: qbfttesting.TestingStores(nop), SSVShare: &ssvtypes.SSVShare{Share: *c.share},
		Signer: c.km, DutyRunners: runners,
	})
	return c
}

// ---- state dump of the runner under test (and its controller)
func (c *cs) dump() string {
	b := c.env.Runner.GetBaseRunner()
	var sb strings.Builder
	if b.State == nil {
		sb.WriteString("-")
	} else {
		st := b.State
		run, rdec := "-", "-"
		if st.RunningInstance != nil {
			run = strconv.FormatUint(uint64(st.RunningInstance.GetHeight()), 10)
			rdec = strconv.Itoa(b2i(st.RunningInstance.State.Decided))
		}
		dv := "-"
		if st.DecidedValue != nil {
			enc, err := st.DecidedValue.Encode()
			if err == nil {
				dv = strconv.Itoa(c.vid(enc))
			}
		}
		fmt.Fprintf(&sb, "%d,%s,%s,%s,%d", st.StartingDuty.Slot, run, rdec, dv, b2i(st.Finished))
	}
	fmt.Fprintf(&sb, "|%d", b.VerifHighestDecidedSlot())
	if b.QBFTController == nil {
		sb.WriteString("|-|-")
		return sb.String()
	}
	fmt.Fprintf(&sb, "|%d|", b.QBFTController.Height)
	if len(b.QBFTController.StoredInstances) == 0 {
		sb.WriteString("-")
	}
	for i, inst := range b.QBFTController.StoredInstances {
		if i > 0 {
			sb.WriteByte(',')
		}
		fmt.Fprintf(&sb, "%d:%d", inst.GetHeight(), b2i(inst.State.Decided))
	}
	return sb.String()
}

type opCtx struct {
	kind      string // start | pre | post | cons | foreign
	slot      int64  // start: slot
	accepted  bool   // start: returned nil
	consH     int64  // cons: message height
	consValue []byte // cons: the value the op reports decided (decided message's FullData, or the instance's value after a commit-quorum decision)
	consCert  bool   // cons: that report is backed by a valid certificate / by the instance's own decision
	preState  *preState
}

type preState struct {
	hadDuty, finished bool
	runH              int64
	runStored         bool
}

func (c *cs) snapshot() *preState {
	b := c.env.Runner.GetBaseRunner()
	p := &preState{runH: -1}
	if b.State != nil {
		p.hadDuty, p.finished = true, b.State.Finished
		if ri := b.State.RunningInstance; ri != nil {
			p.runH = int64(ri.GetHeight())
			if b.QBFTController != nil {
				p.runStored = b.QBFTController.StoredInstances.FindInstance(ri.GetHeight()) == ri
			}
		}
	}
	return p
}

// observe collects what happened during the op and evaluates the C03 oracle on the sign events.
func (c *cs) observe(err error, showR bool, oc opCtx) string {
	var sg []string
	for ; c.seenSigns < len(c.km.Signs); c.seenSigns++ {
		s := c.km.Signs[c.seenSigns]
		sg = append(sg, fmt.Sprintf("%d:%d:%s", c.rid(s.Root), s.Epoch, rkit.DomainName(s.DomainType)))
		c.oracle(s, oc)
	}
	var bc []string
	for ; c.seenBc < len(c.net.Msgs); c.seenBc++ {
		m := c.net.Msgs[c.seenBc]
		if m.MsgType != spectypes.SSVPartialSignatureMsgType {
			continue
		}
		sm := &spectypes.SignedPartialSignatureMessage{}
		if sm.Decode(m.Data) != nil {
			continue
		}
		var rs []int
		for _, r := range rkit.Roots(sm) {
			rs = append(rs, c.rid(r))
		}
		bc = append(bc, strings.ReplaceAll(ids(rs), ",", "+"))
	}
	var sub []int
	for ; c.seenSubs < len(c.bn.Subs); c.seenSubs++ {
		s := c.bn.Subs[c.seenSubs]
		if s.Obj == nil {
			if s.Call == "SubmitValidatorRegistration" {
				for r := range c.dutyPre {
					sub = append(sub, c.rid(r))
				}
			}
			continue
		}
		sub = append(sub, c.rid(rkit.SigningRoot(s.Obj, s.Domain)))
	}
	r := "-"
	if showR {
		r = strconv.Itoa(b2i(err != nil))
	}
	j := func(x []string) string {
		if len(x) == 0 {
			return "-"
		}
		return strings.Join(x, ",")
	}
	return fmt.Sprintf("r=%s sg=%s bc=%s sub=%s st=%s", r, j(sg), j(bc), ids(sub), c.dump())
}

// oracle: the window rule of C03 for one SignBeaconObject call, from real objects only.
func (c *cs) oracle(s rkit.SignEvent, oc opCtx) {
	who := fmt.Sprintf("%s n=%d", c.kind.Name, c.n)
	if !bytes.Equal(s.PK, c.share.SharePubKey) {
		c.violate("C03/signed-with-foreign-key", who+": SignBeaconObject called with a key that is not this operator's share")
		return
	}
	switch oc.kind {
	case "start":
		// (a) slot-bound pre-consensus proof of the duty being started
		if !c.dutyPreHas(oc.slot, s) {
			c.violate("C03/start-duty-signed-unexpected-object", fmt.Sprintf("%s: StartDuty(slot %d) signed an object that is not a pre-consensus proof of that duty (domain %s, epoch %d)", who, oc.slot, rkit.DomainName(s.DomainType), s.Epoch))
		}
	case "cons":
		p := oc.preState
		switch {
		case !p.hadDuty || p.finished:
			c.violate("C03/signed-without-running-duty", who+": a consensus message caused a validator-key signature although no duty was running (none started or the duty had finished)")
		case p.runH < 0 || p.runH != oc.consH:
			c.violate("C03/signed-for-other-height", fmt.Sprintf("%s: consensus message of height %d caused a signature while the running instance is at height %d", who, oc.consH, p.runH))
		case !oc.consCert || oc.consValue == nil:
			c.violate("C03/signed-without-valid-decision", who+": signature released although the message carried no valid decision (no valid quorum certificate and no decision of the instance)")
		default:
			vf := c.kind.ValueObjects(oc.consValue)
			vcOK := false
			if vf.DecodeOK {
				if enc, err := vf.CD.Encode(); err == nil {
					vcOK = c.env.Runner.GetValCheckF()(enc) == nil
				}
			}
			in := false
			for _, r := range vf.Roots {
				if r == s.Root {
					in = true
				}
			}
			switch {
			case !vcOK:
				c.violate("C03/signed-value-that-fails-the-duty-check", who+": the decided value does not pass the duty's value check, yet an object of it was signed")
			case !in || s.DomainType != c.kind.PostDomain():
				c.violate("C03/signed-object-not-in-decided-value", who+": the signed object is not contained in the value decided for the running instance")
			default:
				k := fmt.Sprintf("%d/%x", p.runH, s.Root)
				c.postSigned[k]++
				if c.postSigned[k] > 1 {
					if !p.runStored {
						// regression signature of the defect fixed by c50569811
						c.violate("C03/decided-object-signed-again:running-instance-evicted-from-controller-container",
							fmt.Sprintf("%s: the object decided at height %d was signed %d times: the running instance had been pushed out of the controller's %d-slot instance container by decided messages of later heights, so every further decided message for the height is a 'first' decision again and the runner's own instance object is never marked decided",
								who, p.runH, c.postSigned[k], qbftcontroller.InstanceContainerDefaultCapacity))
					} else {
						c.violate("C03/decided-object-signed-again", fmt.Sprintf("%s: the object decided at height %d was signed %d times", who, p.runH, c.postSigned[k]))
					}
				}
			}
		}
	default:
		c.violate("C03/sign-outside-window:"+oc.kind, fmt.Sprintf("%s: a %s message caused a validator-key signature", who, oc.kind))
	}
}

func (c *cs) dutyPreHas(slot int64, s rkit.SignEvent) bool {
	if s.DomainType != c.kind.PreDomain() || uint64(s.Epoch) != uint64(spectypes.BeaconTestNetwork.EstimatedEpochAtSlot(phase0.Slot(slot))) {
		return false
	}
	return c.dutyPre[s.Root]
}

// ---- ops

func (c *cs) startOp(delta uint64) (string, string) {
	duty := c.kind.Duty(delta)
	pre := c.kind.PreObjects(c.share, duty)
	var pids []int
	c.dutyPre = map[[32]byte]bool{}
	for _, r := range pre {
		pids = append(pids, c.rid(r))
		c.dutyPre[r] = true
	}
	op := fmt.Sprintf("start slot=%d pre=%s iok=1", duty.Slot, ids(pids))
	err := c.v.StartDuty(nop, duty)
	if err == nil {
		c.dutySlot = int64(duty.Slot)
	}
	return op, c.observe(err, true, opCtx{kind: "start", slot: int64(duty.Slot), accepted: err == nil})
}

func (c *cs) valFacts(v []byte) string {
	vf := c.kind.ValueObjects(v)
	vc := false
	if vf.DecodeOK {
		if enc, err := vf.CD.Encode(); err == nil && c.env.Runner.GetValCheckF() != nil {
			vc = c.env.Runner.GetValCheckF()(enc) == nil
		}
	}
	var os []int
	for _, r := range vf.Roots {
		os = append(os, c.rid(r))
	}
	return fmt.Sprintf("v=%d vd=%d vc=%d vs=%d vo=%s vg=%d", c.vid(v), b2i(vf.DecodeOK), b2i(vc), vf.Slot, ids(os), b2i(vf.GetOK))
}

// deliver hands one network message to Validator.ProcessMessage.
func (c *cs) deliver(m *spectypes.SSVMessage) (string, string) {
	d, derr := queue.DecodeSSVMessage(m)
	if derr != nil {
		return "", ""
	}
	own := bytes.Equal(m.MsgID.GetPubKey(), c.share.ValidatorPubKey) && m.MsgID.GetRoleType() == c.kind.Role
	pre := c.snapshot()
	if !own {
		err := c.v.ProcessMessage(nop, d)
		return "foreign", c.observe(err, false, opCtx{kind: "foreign", preState: pre})
	}
	switch b := d.Body.(type) {
	case *specqbft.SignedMessage:
		ctrl := c.env.Runner.GetBaseRunner().QBFTController
		if ctrl == nil {
			return "", ""
		}
		idOk := bytes.Equal(ctrl.Identifier, b.Message.Identifier)
		isDec := qbftcontroller.IsDecidedMsg(c.share, b)
		valid := isDec && qbftcontroller.ValidateDecided(ctrl.GetConfig(), b, c.share) == nil
		inst := ctrl.StoredInstances.FindInstance(b.Message.Height)
		prevDec := inst != nil && inst.State.Decided
		err := c.v.ProcessMessage(nop, d)
		idec := false
		value := b.FullData
		if !isDec && inst != nil && !prevDec && inst.State.Decided {
			idec = true
			value = inst.State.DecidedValue
		}
		vfacts := "v=0 vd=0 vc=0 vs=0 vo=- vg=0"
		if isDec || idec {
			vfacts = c.valFacts(value)
		}
		op := fmt.Sprintf("cons id=%d h=%d dec=%d valid=%d %s idec=%d", b2i(idOk), b.Message.Height, b2i(isDec), b2i(valid), vfacts, b2i(idec))
		oc := opCtx{kind: "cons", consH: int64(b.Message.Height), preState: pre}
		if idOk && ((isDec && valid) || idec) {
			oc.consValue, oc.consCert = value, true
		}
		return op, c.observe(err, isDec, oc)
	case *spectypes.SignedPartialSignatureMessage:
		var ent []string
		for _, pm := range b.Message.Messages {
			good := rkit.VerifyShare(c.ks, pm.Signer, pm.SigningRoot, pm.PartialSignature)
			ent = append(ent, fmt.Sprintf("%d:%d:%d", pm.Signer, c.rid(pm.SigningRoot), b2i(good)))
		}
		sh := "-"
		if len(ent) > 0 {
			sh = strings.Join(ent, ",")
		}
		kind := "pre"
		extra := " iok=1"
		if b.Message.Type == spectypes.PostConsensusPartialSig {
			kind, extra = "post", ""
		}
		op := fmt.Sprintf("%s s=%d slot=%d sh=%s%s", kind, b.Signer, b.Message.Slot, sh, extra)
		err := c.v.ProcessMessage(nop, d)
		return op, c.observe(err, true, opCtx{kind: kind, preState: pre})
	}
	return "", ""
}

// ---------------------------------------------------------------- crafted messages

func (c *cs) identifier() []byte {
	id := spectypes.NewMsgID(tu.TestingSSVDomainType, c.share.ValidatorPubKey, c.kind.Role)
	return id[:]
}

func (c *cs) consMsg(sm *specqbft.SignedMessage) *spectypes.SSVMessage {
	data, err := sm.Encode()
	if err != nil {
		panic(err)
	}
	return &spectypes.SSVMessage{MsgType: spectypes.SSVConsensusMsgType, MsgID: spectypes.NewMsgID(tu.TestingSSVDomainType, c.share.ValidatorPubKey, c.kind.Role), Data: data}
}

// certificate for `value` at `height` signed by the last q operators (never this operator)
func (c *cs) decided(height uint64, value []byte, signers int) *spectypes.SSVMessage {
	var sg []spectypes.OperatorID
	for id := c.n - signers + 1; id <= c.n; id++ {
		sg = append(sg, spectypes.OperatorID(id))
	}
	return c.consMsg(rkit.DecidedMsg(c.ks, c.identifier(), specqbft.Height(height), specqbft.FirstRound, value, sg))
}

// variants of a valid consensus value: 1 = another valid value, 2 = fails the duty's value check, 3 = undecodable
func (c *cs) variant(v []byte, which int) []byte {
	cd := &spectypes.ConsensusData{}
	if cd.Decode(v) != nil {
		return v
	}
	switch which {
	case 1:
		switch c.kind.Role {
		case spectypes.BNRoleAttester:
			a, err := cd.GetAttestationData()
			if err != nil {
				return v
			}
			a.BeaconBlockRoot[0] ^= 0x55
			cd.DataSSZ, _ = a.MarshalSSZ()
		case spectypes.BNRoleSyncCommittee:
			d := append([]byte{}, cd.DataSSZ...)
			d[0] ^= 0x55
			cd.DataSSZ = d
		case spectypes.BNRoleAggregator:
			a, err := cd.GetAggregateAndProof()
			if err != nil {
				return v
			}
			a.SelectionProof[5] ^= 0x55
			cd.DataSSZ, _ = a.MarshalSSZ()
		default:
			return v
		}
	case 2:
		cd.Duty.ValidatorIndex += 7 // "wrong validator index"
	case 3:
		return []byte{1, 2, 3}
	}
	out, err := cd.Encode()
	if err != nil {
		return v
	}
	return out
}

// ---------------------------------------------------------------- interpreter (generation and replay)

type state struct {
	run  *hx.Run
	cur  *cs
	scen string // the scenario line being executed: emitted op lines are "<scenario line> | <abstract op for the model>"
	// replay bookkeeping: messages by their canonical op line are not reconstructible, so replay files hold scenario ops
}

func kvs(ws []string) map[string]string {
	m := map[string]string{}
	for _, w := range ws {
		if i := strings.IndexByte(w, '='); i > 0 {
			m[w[:i]] = w[i+1:]
		}
	}
	return m
}

func (s *state) emit(op, obs string) {
	if op == "" {
		return
	}
	s.run.Emit(s.scen+" | "+op, obs)
	kind := strings.Fields(op)[0]
	s.run.Tag("op/" + kind)
	c := s.cur
	if kind == "tmo" {
		kv := kvs(strings.Fields(op))
		s.run.Seen(fmt.Sprintf("%s/tmo/%s/%s", c.kind.Name, kv["cls"], obs[:strings.Index(obs, " st=")]))
		return
	}
	signed := !strings.Contains(obs, "sg=-")
	cls := kind
	if kind == "cons" {
		kv := kvs(strings.Fields(op))
		cls = fmt.Sprintf("cons/id%s/dec%s/valid%s/vc%s/idec%s", kv["id"], kv["dec"], kv["valid"], kv["vc"], kv["idec"])
	}
	st := obs[strings.Index(obs, "st=")+3:]
	phase := "noduty"
	if f := strings.Split(strings.Split(st, "|")[0], ","); len(f) == 5 {
		phase = fmt.Sprintf("run%v/rdec%s/dv%v/fin%s", f[1] != "-", f[2], f[3] != "-", f[4])
	}
	s.run.Seen(fmt.Sprintf("%s/%s/%s/signed%v/r%s", c.kind.Name, cls, phase, signed, obs[2:3]))
	if signed {
		s.run.Tag("signed/" + kind)
	}
}

// scenario ops (what replay files and the corpus contain):
//
//	reset role=<kind> n=<n>
//	start d=<delta>
//	pool d=<delta> i=<index> [mut=<pk|role|ident|slot|share>]     deliver message i of the honest traffic of duty delta
//	decided d=<delta> dh=<height offset> val=<0 own|1 other|2 invalid|3 garbage> [signers=<k>] [badcert=1]
func (s *state) scenario(line string) {
	ws := strings.Fields(line)
	if len(ws) == 0 {
		return
	}
	kv := kvs(ws[1:])
	atoi := func(k string) int { v, _ := strconv.Atoi(kv[k]); return v }
	switch ws[0] {
	case "reset":
		n := atoi("n")
		if n != 4 && n != 7 && n != 10 && n != 13 {
			return
		}
		c := newCase(s.run, kv["role"], n)
		if c == nil {
			return
		}
		if s.cur != nil && s.cur.cancel != nil {
			s.cur.cancel()
		}
		s.cur = c
		op := fmt.Sprintf("reset role=%s n=%d", kv["role"], n)
		c.lines = []string{s.scen}
		s.run.Emit(s.scen+" | "+op, "ok st="+c.dump())
		s.run.Tag("role/" + kv["role"])
	case "start":
		if s.cur == nil {
			return
		}
		s.emit(s.cur.startOp(uint64(atoi("d"))))
	case "pool":
		if s.cur == nil {
			return
		}
		c := s.cur
		pool := honestPool(c.kind, c.n, uint64(atoi("d")))
		i := atoi("i")
		if i < 0 || i >= len(pool) {
			return
		}
		m := *pool[i].m
		switch kv["mut"] {
		case "pk": // another validator's key in the message id
			pk := append([]byte{}, c.share.ValidatorPubKey...)
			pk[7] ^= 0xff
			m.MsgID = spectypes.NewMsgID(tu.TestingSSVDomainType, pk, c.kind.Role)
		case "role": // another role in the message id
			other := spectypes.BNRoleAttester
			if c.kind.Role == other {
				other = spectypes.BNRoleSyncCommittee
			}
			m.MsgID = spectypes.NewMsgID(tu.TestingSSVDomainType, c.share.ValidatorPubKey, other)
		case "ident": // consensus message whose inner identifier names another role
			if m.MsgType == spectypes.SSVConsensusMsgType {
				sm := &specqbft.SignedMessage{}
				if sm.Decode(m.Data) == nil {
					other := spectypes.NewMsgID(tu.TestingSSVDomainType, c.share.ValidatorPubKey, spectypes.BNRoleValidatorRegistration)
					sm.Message.Identifier = other[:]
					m.Data, _ = sm.Encode()
				}
			}
		case "slot", "share":
			if m.MsgType == spectypes.SSVPartialSignatureMsgType {
				sm := &spectypes.SignedPartialSignatureMessage{}
				if sm.Decode(m.Data) == nil {
					if kv["mut"] == "slot" {
						sm.Message.Slot += 3
					} else if len(sm.Message.Messages) > 0 {
						sm.Message.Messages[0].PartialSignature = rkit.ShareSig(c.ks, spectypes.OperatorID(1+int(sm.Signer)%c.n), sm.Message.Messages[0].SigningRoot)
					}
					m.Data, _ = sm.Encode()
				}
			}
		}
		s.emit(c.deliver(&m))
	case "tmo":
		if s.cur == nil {
			return
		}
		s.emit(s.cur.timeoutOp(atoi("dh"), atoi("r")))
	case "decided":
		if s.cur == nil {
			return
		}
		c := s.cur
		duty := c.kind.Duty(uint64(atoi("d")))
		pool := honestPool(c.kind, c.n, uint64(atoi("d")))
		// the value the committee proposes for this duty: FullData of the first proposal in the honest traffic
		var own []byte
		for _, p := range pool {
			if p.m.MsgType != spectypes.SSVConsensusMsgType {
				continue
			}
			sm := &specqbft.SignedMessage{}
			if sm.Decode(p.m.Data) == nil && sm.Message.MsgType == specqbft.ProposalMsgType {
				own = sm.FullData
				break
			}
		}
		if own == nil || !c.kind.HasConsensus() {
			return
		}
		val := c.variant(own, atoi("val"))
		q := int(c.share.Quorum)
		signers := q
		if kv["signers"] != "" {
			signers = atoi("signers")
		}
		if signers < 1 || signers > c.n-1 {
			signers = q
		}
		m := c.decided(uint64(int(duty.Slot)+atoi("dh")), val, signers)
		if kv["badcert"] == "1" { // certificate whose full data does not hash to the signed root
			sm := &specqbft.SignedMessage{}
			if sm.Decode(m.Data) == nil {
				sm.FullData = append(append([]byte{}, sm.FullData...), 0)
				m.Data, _ = sm.Encode()
			}
		}
		s.emit(c.deliver(m))
	}
}

// ---------------------------------------------------------------- generators

func (s *state) do(line string, script *[]string) {
	if i := strings.Index(line, " | "); i >= 0 { // replay of an emitted op line: the scenario part drives the harness
		line = line[:i]
	}
	if strings.HasPrefix(line, "reset") {
		*script = (*script)[:0]
	}
	*script = append(*script, line)
	s.scen = line
	if s.cur != nil {
		// violations carry the scenario script (replayable), not the derived op lines
		s.cur.lines = append([]string{}, *script...)
	}
	s.scenario(line)
}

func genCase(s *state, r *hx.Rng) {
	kind := rkit.Kinds[r.Intn(len(rkit.Kinds))]
	n := r.Pick(4, 4, 4, 7)
	var script []string
	s.do(fmt.Sprintf("reset role=%s n=%d", kind.Name, n), &script)
	nd := 1
	if r.Chance(40) {
		nd = 2
	}
	if r.Chance(8) { // traffic before any duty
		pool := honestPool(kind, n, 0)
		for j := 0; j < 3 && len(pool) > 0; j++ {
			s.do(fmt.Sprintf("pool d=0 i=%d", r.Intn(len(pool))), &script)
		}
	}
	for di := 0; di < nd; di++ {
		pool := honestPool(kind, n, uint64(di))
		s.do(fmt.Sprintf("start d=%d", di), &script)
		if r.Chance(10) {
			s.do(fmt.Sprintf("start d=%d", di), &script) // same duty started again
		}
		// arrival order: broadcast order with local jitter, drops, replays; the operator's own messages loop back sometimes
		type ev struct {
			key  float64
			line string
		}
		var evs []ev
		jit := float64(r.Pick(0, 2, 6, 30))
		scen := r.Intn(10)
		for i, p := range pool {
			if p.sender == 1 && r.Chance(50) {
				continue
			}
			if r.Chance(7) {
				continue
			}
			line := fmt.Sprintf("pool d=%d i=%d", di, i)
			if r.Chance(6) {
				line += " mut=" + []string{"pk", "role", "ident", "slot", "share"}[r.Intn(5)]
			}
			k := float64(i) + jit*float64(r.Intn(1000))/1000
			evs = append(evs, ev{k, line})
			if r.Chance(8) {
				evs = append(evs, ev{k + float64(r.Intn(20)), line}) // replay
			}
		}
		L := float64(len(pool))
		at := func(frac float64) float64 { return frac*L + float64(r.Intn(100))/100 }
		if kind.HasConsensus() {
			switch scen {
			case 0, 1: // certificate arrives before the instance decides by itself
				evs = append(evs, ev{at(0.3), fmt.Sprintf("decided d=%d dh=0 val=0", di)})
			case 2: // burst of later heights pushes the running instance out of the container, then decided messages for it
				t := at(float64(r.Pick(15, 30, 45)) / 100)
				for k := 1; k <= 2+r.Intn(2); k++ {
					evs = append(evs, ev{t + float64(k)/100, fmt.Sprintf("decided d=%d dh=%d val=0", di, k)})
				}
				for k := 0; k < 1+r.Intn(3); k++ {
					evs = append(evs, ev{t + 0.5 + float64(k)/100, fmt.Sprintf("decided d=%d dh=0 val=0 signers=%d", di, int(rkit.ShareFor(rkit.KeySet(n), 1).Quorum)+k%2)})
				}
			case 7: // eviction, then an invalid value for the running height, then valid certificates (twice, two values)
				t := at(float64(r.Pick(15, 40)) / 100)
				for k := 1; k <= 2; k++ {
					evs = append(evs, ev{t + float64(k)/100, fmt.Sprintf("decided d=%d dh=%d val=0", di, k)})
				}
				evs = append(evs, ev{t + 0.3, fmt.Sprintf("decided d=%d dh=0 val=%d", di, r.Pick(2, 3))})
				evs = append(evs, ev{t + 0.4, fmt.Sprintf("decided d=%d dh=0 val=%d", di, r.Pick(0, 1))})
				evs = append(evs, ev{t + 0.5, fmt.Sprintf("decided d=%d dh=0 val=%d", di, r.Pick(0, 1))})
				evs = append(evs, ev{t + 0.6, fmt.Sprintf("decided d=%d dh=0 val=0", di)})
			case 3: // invalid decisions
				evs = append(evs, ev{at(0.2), fmt.Sprintf("decided d=%d dh=0 val=%d", di, r.Pick(2, 3))})
				evs = append(evs, ev{at(0.25), fmt.Sprintf("decided d=%d dh=0 val=0 badcert=1", di)})
				evs = append(evs, ev{at(0.3), fmt.Sprintf("decided d=%d dh=0 val=0 signers=%d", di, int(rkit.ShareFor(rkit.KeySet(n), 1).Quorum)-1)})
			case 4: // another valid value gets decided
				evs = append(evs, ev{at(0.25), fmt.Sprintf("decided d=%d dh=0 val=1", di)})
			case 5: // decisions of other heights
				evs = append(evs, ev{at(0.2), fmt.Sprintf("decided d=%d dh=%d val=0", di, r.Pick(1, 5))})
				evs = append(evs, ev{at(0.6), fmt.Sprintf("decided d=%d dh=-%d val=0", di, r.Pick(1, 2))})
			case 6: // after everything: certificates again, with more signers
				evs = append(evs, ev{L + 1, fmt.Sprintf("decided d=%d dh=0 val=0", di)})
				evs = append(evs, ev{L + 2, fmt.Sprintf("decided d=%d dh=0 val=0 signers=%d", di, n-1)})
				evs = append(evs, ev{L + 3, fmt.Sprintf("decided d=%d dh=0 val=1", di)})
			}
		}
		if di == 1 && r.Chance(50) { // stale traffic of the previous duty
			p0 := honestPool(kind, n, 0)
			for j := 0; j < 4 && len(p0) > 0; j++ {
				evs = append(evs, ev{at(float64(r.Intn(100)) / 100), fmt.Sprintf("pool d=0 i=%d", r.Intn(len(p0)))})
			}
		}
		if di == 0 && nd == 2 && r.Chance(50) { // future traffic of the next duty
			p1 := honestPool(kind, n, 1)
			for j := 0; j < 4 && len(p1) > 0; j++ {
				evs = append(evs, ev{at(float64(r.Intn(100)) / 100), fmt.Sprintf("pool d=1 i=%d", r.Intn(len(p1)))})
			}
		}
		sort.SliceStable(evs, func(i, j int) bool { return evs[i].key < evs[j].key })
		for _, e := range evs {
			s.do(e.line, &script)
		}
	}
	if r.Chance(15) { // a duty for a slot that already passed
		s.do("start d=0", &script)
	}
}

func main() {
	run := hx.Start()
	defer run.Finish()
	s := &state{run: run}
	if lines := run.ReplayLines(); lines != nil {
		var script []string
		for _, l := range lines {
			s.do(l, &script)
		}
		return
	}
	r := hx.NewRng(run.Seed)
	for i := 0; i < run.N; i++ {
		if *mode == "c17" {
			genCaseC17(s, r)
		} else {
			genCase(s, r)
		}
	}
	if os.Getenv("VERIF_DEBUG") != "" {
		var ks []string
		for k := range run.Distinct {
			ks = append(ks, k)
		}
		sort.Strings(ks)
		run.Extra["classes"] = ks
	}
}
