// Hand-over between historical and ongoing sync as the NODE wires it (campaign V, V-m10): the real cli/operator
// setupEventHandling — real event handler, real event syncer, real node storage holding the last processed block of the previous
// run — against the fake execution node. The chain carries no registry logs; the oracle works on the wire: once the head has moved
// far enough, the client must have asked (eth_getLogs) for a range that contains block lastProcessed+1, and for no block at or below
// lastProcessed. A block that is never requested cannot be delivered, whatever it contains.
//
//	op:  nodewire last=<n> gap=<n> follow=<n> batch=<n>     (head at restart = last + gap)   -> done
package main

import (
	"context"
	"fmt"
	"math/big"
	"time"

	"go.uber.org/zap"
	"go.uber.org/zap/zapcore"

	clioperator "github.com/bloxapp/ssv/cli/operator"
	"github.com/bloxapp/ssv/eth/executionclient"
	"github.com/bloxapp/ssv/networkconfig"
	operatorstorage "github.com/bloxapp/ssv/operator/storage"
	"github.com/bloxapp/ssv/storage/basedb"
	"github.com/bloxapp/ssv/storage/kv"
	"github.com/bloxapp/ssv/zz_verif/lib/hx"
)

func nodeWireProbe(run *hx.Run, last, gap, follow, batch uint64) {
	line := fmt.Sprintf("nodewire last=%d gap=%d follow=%d batch=%d", last, gap, follow, batch)
	cfg := &caseCfg{start: last + 1, follow: follow, batch: batch, hist: "-", harm: -1, chain: map[uint64][]rawLog{}}
	node, err := newFakeNode(cfg)
	if err != nil {
		panic(err)
	}
	defer node.close()
	node.mu.Lock()
	node.head = last + gap
	node.mu.Unlock()
	ctx, cancel := context.WithCancel(context.Background())
	defer cancel()
	logger := zap.New(zapcore.NewNopCore(), zap.WithFatalHook(zapcore.WriteThenGoexit))
	ec, err := executionclient.New(ctx, node.url(), contract,
		executionclient.WithLogger(logger),
		executionclient.WithFollowDistance(follow),
		executionclient.WithLogBatchSize(batch),
		executionclient.WithReconnectionInitialInterval(time.Millisecond),
		executionclient.WithReconnectionMaxInterval(2*time.Second),
		executionclient.WithConnectionTimeout(10*time.Second))
	if err != nil {
		panic(err)
	}
	defer func() {
		defer func() { _ = recover() }()
		ec.Close()
	}()
	db, err := kv.NewInMemory(logger, basedb.Options{Ctx: ctx})
	if err != nil {
		panic(err)
	}
	defer db.Close()
	ns, err := operatorstorage.NewNodeStorage(logger, db)
	if err != nil {
		panic(err)
	}
	if err := ns.SaveLastProcessedBlock(nil, new(big.Int).SetUint64(last)); err != nil {
		panic(err)
	}
	done := make(chan struct{})
	go func() {
		defer close(done) // logger.Fatal ends this goroutine (hook), close still runs
		clioperator.VerifSetupEventHandling(ctx, logger, ec, networkconfig.TestNetwork, ns)
	}()
	select {
	case <-done:
	case <-time.After(20 * time.Second):
		run.Emit(line, "done")
		run.Tag("nodewire/setup-timeout")
		return
	}
	type call struct{ lo, hi uint64 }
	var calls []call
	covered := func() bool {
		for _, c := range calls {
			if c.lo <= last+1 && last+1 <= c.hi {
				return true
			}
		}
		return false
	}
	subscribed := false
	target := last + 1 + follow + 2
	if target < last+gap {
		target = last + gap
	}
	next := last + gap + 1
	deadline := time.After(15 * time.Second)
	idle := time.NewTimer(150 * time.Millisecond)
loop:
	for {
		select {
		case ev := <-node.events:
			switch ev.kind {
			case "sub":
				subscribed = true
			case "getlogs":
				if ev.ok {
					calls = append(calls, call{ev.lo, ev.hi})
				}
			}
			if !idle.Stop() {
				select {
				case <-idle.C:
				default:
				}
			}
			idle.Reset(150 * time.Millisecond)
		case <-idle.C:
			// nothing is happening: move the chain on (one head at a time), stop a while after the target head
			if !subscribed {
				idle.Reset(150 * time.Millisecond)
				continue
			}
			if next <= target+2 {
				_ = node.pushHead(next)
				next++
				idle.Reset(150 * time.Millisecond)
				continue
			}
			break loop
		case <-deadline:
			break loop
		}
	}
	run.Emit(line, "done")
	run.Tag("op/nodewire")
	hist := "history"
	if gap < follow || last+gap-follow < last+1 {
		hist = "nothing-to-sync"
	}
	run.Tag("nodewire/" + hist)
	run.Seen(fmt.Sprintf("nodewire/%s/gap-vs-follow=%d/batch-small=%v", hist, sign3(int64(gap)-int64(follow)), batch < follow))
	if len(calls) == 0 {
		run.Tag("nodewire/no-fetch-observed") // timing: inconclusive, never a violation
		return
	}
	minLo := calls[0].lo
	for _, c := range calls {
		if c.lo < minLo {
			minLo = c.lo
		}
	}
	var shown []string
	for _, c := range calls {
		shown = append(shown, fmt.Sprintf("%d-%d", c.lo, c.hi))
	}
	switch {
	case minLo <= last:
		run.Violate("C13/hand-over:processed-block-fetched-again",
			fmt.Sprintf("last processed block %d, head at restart %d, follow %d: the node asked for logs from block %d (requests %v)", last, last+gap, follow, minLo, shown), line)
	case !covered():
		run.Violate("C13/hand-over:first-unprocessed-block-never-fetched",
			fmt.Sprintf("last processed block %d, head at restart %d, follow %d, head now %d: no eth_getLogs request contains block %d (requests %v) — its logs can never be delivered", last, last+gap, follow, next-1, last+1, shown), line)
	}
}

func sign3(x int64) int {
	switch {
	case x < 0:
		return -1
	case x > 0:
		return 1
	}
	return 0
}

func nodeWireLine(run *hx.Run, l string) {
	var last, gap, follow, batch uint64
	if _, err := fmt.Sscanf(l, "nodewire last=%d gap=%d follow=%d batch=%d", &last, &gap, &follow, &batch); err != nil {
		run.Emit(l, "bad-op")
		return
	}
	nodeWireProbe(run, last, gap, follow, batch)
}

// genNodeWire: restarts inside the follow distance (nothing to sync), exactly at it, and beyond it (historical sync first)
func genNodeWire(run *hx.Run, r *hx.Rng, k int) {
	for i := 0; i < k; i++ {
		follow := uint64(2 + r.Intn(5))
		last := uint64(r.Pick(0, 1, 7, 20, 1000))
		var gap uint64
		switch i % 3 {
		case 0:
			gap = uint64(r.Intn(int(follow))) // head - follow < last + 1: nothing to sync
		case 1:
			gap = follow + uint64(r.Intn(2)) // at the edge
		default:
			gap = follow + 2 + uint64(r.Intn(20))
		}
		batch := uint64(r.Pick(1, 2, 5, 500))
		nodeWireProbe(run, last, gap, follow, batch)
	}
}
