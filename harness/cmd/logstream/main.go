// Harness for engine `logstream` (property C13).
//
// Runs the REAL executionclient.ExecutionClient (StreamLogs / FetchHistoricalLogs, driven through the REAL
// eventsyncer.EventSyncer) over a real websocket against an in-process go-ethereum rpc.Server that exposes a
// fake `eth` API: a scripted chain (block -> logs with removed flags), eth_getLogs, eth_blockNumber and the
// newHeads subscription. The fake node can fail eth_getLogs (RPC error or by dropping the TCP connection instead
// of answering), fail eth_subscribe, break a live subscription (malformed notification) and drop the connection.
//
// Determinism: the script advances only on EVENTS (a call reached the fake node, the expected entry was read from
// the stream, the client re-subscribed, the stream was closed); no timing comparison anywhere. A wait that times
// out is reported as `stall` after the case was re-run once in isolation.
//
// One case = `reset …` + ops + `end`. Cases run in parallel on separate fake nodes (port 0 listeners) and are
// emitted in case order. Nothing of the client logic is re-implemented here: the fake node, the generator, the
// canonicaliser, the synchronisation and the property oracle only.
package main

import (
	"context"
	"encoding/binary"
	"errors"
	"flag"
	"fmt"
	"math/big"
	"net"
	"net/http/httptest"
	"os"
	"runtime"
	"sort"
	"strconv"
	"strings"
	"sync"
	"time"

	ethcommon "github.com/ethereum/go-ethereum/common"
	"github.com/ethereum/go-ethereum/common/hexutil"
	ethtypes "github.com/ethereum/go-ethereum/core/types"
	"github.com/ethereum/go-ethereum/rpc"
	"go.uber.org/zap"
	"go.uber.org/zap/zapcore"

	"github.com/bloxapp/ssv/eth/eventsyncer"
	"github.com/bloxapp/ssv/eth/executionclient"
	"github.com/bloxapp/ssv/zz_verif/lib/hx"
)

var (
	stallMs  = flag.Int("stallms", 8000, "how long to wait for an expected event before reporting a stall")
	workers  = flag.Int("workers", 8, "cases run in parallel")
	contract = ethcommon.HexToAddress("0x00000000000000000000000000000000000c0de1")
)

// ---------------------------------------------------------------- scripted chain

type rawLog struct {
	id, tx  uint64
	removed bool
}

type caseCfg struct {
	start, follow, batch uint64
	hist                 string // "-" (stream only) | "fail" | head number at the time of the historical sync
	harm                 int    // fetch countdown armed for the historical fetch (-1: none)
	hmsg                 string // error text of that failure
	chain                map[uint64][]rawLog
}

func (c *caseCfg) resetLine() string {
	var bs []uint64
	for b := range c.chain {
		bs = append(bs, b)
	}
	sort.Slice(bs, func(i, j int) bool { return bs[i] < bs[j] })
	var parts []string
	for _, b := range bs {
		var ls []string
		for _, l := range c.chain[b] {
			r := 0
			if l.removed {
				r = 1
			}
			ls = append(ls, fmt.Sprintf("%d.%d.%d", l.id, l.tx, r))
		}
		parts = append(parts, fmt.Sprintf("%d:%s", b, strings.Join(ls, ",")))
	}
	ch := "-"
	if len(parts) > 0 {
		ch = strings.Join(parts, ";")
	}
	harm := "-"
	if c.harm >= 0 {
		harm = strconv.Itoa(c.harm)
	}
	hmsg := c.hmsg
	if hmsg == "" {
		hmsg = "generic"
	}
	return fmt.Sprintf("reset start=%d follow=%d batch=%d hist=%s harm=%s hmsg=%s chain=%s", c.start, c.follow, c.batch, c.hist, harm, hmsg, ch)
}

func kvOf(ws []string, k string) (string, bool) {
	for _, w := range ws {
		if strings.HasPrefix(w, k+"=") {
			return w[len(k)+1:], true
		}
	}
	return "", false
}

func parseReset(line string) (*caseCfg, error) {
	ws := strings.Fields(line)
	c := &caseCfg{hist: "-", harm: -1, chain: map[uint64][]rawLog{}}
	num := func(k string) (uint64, error) {
		v, ok := kvOf(ws, k)
		if !ok {
			return 0, fmt.Errorf("missing %s", k)
		}
		return strconv.ParseUint(v, 10, 64)
	}
	var err error
	if c.start, err = num("start"); err != nil {
		return nil, err
	}
	if c.follow, err = num("follow"); err != nil {
		return nil, err
	}
	if c.batch, err = num("batch"); err != nil {
		return nil, err
	}
	if v, ok := kvOf(ws, "hist"); ok {
		c.hist = v
	}
	if v, ok := kvOf(ws, "harm"); ok && v != "-" {
		if c.harm, err = strconv.Atoi(v); err != nil {
			return nil, err
		}
	}
	if v, ok := kvOf(ws, "hmsg"); ok {
		c.hmsg = v
	}
	if v, ok := kvOf(ws, "chain"); ok && v != "-" {
		for _, bp := range strings.Split(v, ";") {
			kv := strings.SplitN(bp, ":", 2)
			if len(kv) != 2 {
				return nil, fmt.Errorf("bad block %q", bp)
			}
			b, err := strconv.ParseUint(kv[0], 10, 64)
			if err != nil {
				return nil, err
			}
			for _, lp := range strings.Split(kv[1], ",") {
				f := strings.Split(lp, ".")
				if len(f) != 3 {
					return nil, fmt.Errorf("bad log %q", lp)
				}
				id, e1 := strconv.ParseUint(f[0], 10, 64)
				tx, e2 := strconv.ParseUint(f[1], 10, 64)
				if e1 != nil || e2 != nil {
					return nil, fmt.Errorf("bad log %q", lp)
				}
				c.chain[b] = append(c.chain[b], rawLog{id, tx, f[2] != "0"})
			}
		}
	}
	return c, nil
}

// nonRemoved is the oracle's reading of the property: that block's non-removed logs, in the node's order.
func (c *caseCfg) nonRemoved(b uint64) []uint64 {
	var ids []uint64
	for _, l := range c.chain[b] {
		if !l.removed {
			ids = append(ids, l.id)
		}
	}
	return ids
}

// ---------------------------------------------------------------- fake execution node

type event struct {
	kind    string // sub | subfail | getlogs | blocknum
	lo, hi  uint64
	ok      bool
	lastBlk uint64 // getlogs ok: the highest block the client has to hand on for this answer
	release chan struct{} // getlogs failing by a dropped connection: the node waits for it before it drops
}

type trackLn struct {
	net.Listener
	mu    sync.Mutex
	conns []net.Conn
}

func (l *trackLn) Accept() (net.Conn, error) {
	c, err := l.Listener.Accept()
	if err == nil {
		l.mu.Lock()
		l.conns = append(l.conns, c)
		l.mu.Unlock()
	}
	return c, err
}

func (l *trackLn) dropAll() {
	l.mu.Lock()
	cs := l.conns
	l.conns = nil
	l.mu.Unlock()
	for _, c := range cs {
		c.Close()
	}
}

type fakeNode struct {
	mu        sync.Mutex
	cfg       *caseCfg
	head      uint64
	failHead  bool   // eth_blockNumber fails
	armFetch  int    // -1: none; k: the (k+1)-th eth_getLogs from now fails
	armMode   string // rpc | drop
	armMsg    string // generic | toolarge | readlimit | respsize: the text of the injected RPC error
	armSub    int    // pending eth_subscribe failures
	notifier  *rpc.Notifier
	subID     rpc.ID
	events    chan event
	ln        *trackLn
	srv       *httptest.Server
	rpcServer *rpc.Server
}

// faultText: what real execution nodes / providers answer when an eth_getLogs result is too big, or a generic failure.
// The client code does not look at the text today; a client that does must still not lose blocks.
func faultText(msg string) string {
	switch msg {
	case "toolarge":
		return "query returned more than 10000 results"
	case "readlimit":
		return "websocket: read limit exceeded"
	case "respsize":
		return "response size exceeded"
	}
	return "injected eth_getLogs failure"
}

// ethAPI is registered as the "eth" namespace.
type ethAPI struct{ n *fakeNode }

func (a *ethAPI) ChainId() *hexutil.Big { return (*hexutil.Big)(big.NewInt(1)) }

func (a *ethAPI) BlockNumber() (hexutil.Uint64, error) {
	n := a.n
	n.mu.Lock()
	defer n.mu.Unlock()
	if n.failHead {
		n.events <- event{kind: "blocknum", ok: false}
		return 0, errors.New("injected eth_blockNumber failure")
	}
	n.events <- event{kind: "blocknum", ok: true}
	return hexutil.Uint64(n.head), nil
}

func (a *ethAPI) GetLogs(arg map[string]interface{}) ([]*ethtypes.Log, error) {
	n := a.n
	n.mu.Lock()
	fs, _ := arg["fromBlock"].(string)
	ts, _ := arg["toBlock"].(string)
	lo, e1 := hexutil.DecodeUint64(fs)
	hi, e2 := hexutil.DecodeUint64(ts)
	if e1 != nil || e2 != nil {
		n.mu.Unlock()
		return nil, errors.New("fake node: unsupported filter")
	}
	if n.armFetch == 0 {
		n.armFetch = -1
		mode, msg := n.armMode, n.armMsg
		n.mu.Unlock()
		if mode == "drop" {
			// the answer never arrives: the client sees the connection die. The harness first makes sure (barrier
			// request on the same connection) that the client has finished SENDING this request: go-ethereum's rpc
			// client never completes a request whose connection dies between its write and its bookkeeping of it.
			rel := make(chan struct{})
			n.events <- event{kind: "getlogs", lo: lo, hi: hi, ok: false, release: rel}
			select {
			case <-rel:
			case <-time.After(30 * time.Second):
			}
			n.ln.dropAll()
		} else {
			n.events <- event{kind: "getlogs", lo: lo, hi: hi, ok: false}
		}
		return nil, errors.New(faultText(msg))
	}
	if n.armFetch > 0 {
		n.armFetch--
	}
	out := []*ethtypes.Log{}
	last := hi
	for b := lo; b <= hi; b++ {
		for i, l := range n.cfg.chain[b] {
			data := make([]byte, 8)
			binary.BigEndian.PutUint64(data, l.id)
			out = append(out, &ethtypes.Log{
				Address: contract, Topics: []ethcommon.Hash{{1}}, Data: data, BlockNumber: b,
				TxHash: ethcommon.BigToHash(new(big.Int).SetUint64(b*1000 + l.tx)), TxIndex: uint(l.tx),
				BlockHash: ethcommon.BigToHash(new(big.Int).SetUint64(b)), Index: uint(i), Removed: l.removed,
			})
			if !l.removed {
				last = b
			}
		}
		if b == ^uint64(0) {
			break
		}
	}
	n.mu.Unlock()
	n.events <- event{kind: "getlogs", lo: lo, hi: hi, ok: true, lastBlk: last}
	return out, nil
}

func (a *ethAPI) NewHeads(ctx context.Context) (*rpc.Subscription, error) {
	n := a.n
	notifier, ok := rpc.NotifierFromContext(ctx)
	if !ok {
		return nil, rpc.ErrNotificationsUnsupported
	}
	n.mu.Lock()
	if n.armSub > 0 {
		n.armSub--
		n.mu.Unlock()
		n.events <- event{kind: "subfail"}
		return nil, errors.New("injected eth_subscribe failure")
	}
	sub := notifier.CreateSubscription()
	n.notifier, n.subID = notifier, sub.ID
	n.mu.Unlock()
	n.events <- event{kind: "sub"}
	return sub, nil
}

func newFakeNode(cfg *caseCfg) (*fakeNode, error) {
	n := &fakeNode{cfg: cfg, armFetch: -1, armMode: "rpc", events: make(chan event, 1<<14)}
	n.rpcServer = rpc.NewServer()
	if err := n.rpcServer.RegisterName("eth", &ethAPI{n}); err != nil {
		return nil, err
	}
	ln, err := net.Listen("tcp", "127.0.0.1:0")
	if err != nil {
		return nil, err
	}
	n.ln = &trackLn{Listener: ln}
	n.srv = httptest.NewUnstartedServer(n.rpcServer.WebsocketHandler([]string{"*"}))
	n.srv.Listener.Close()
	n.srv.Listener = n.ln
	n.srv.Start()
	return n, nil
}

func (n *fakeNode) url() string { return "ws://" + n.ln.Addr().String() }

func (n *fakeNode) close() {
	n.ln.dropAll()
	n.rpcServer.Stop()
	n.srv.CloseClientConnections()
	go n.srv.Close()
}

func (n *fakeNode) pushHead(h uint64) error {
	n.mu.Lock()
	if h > n.head {
		n.head = h
	}
	nt, id := n.notifier, n.subID
	n.mu.Unlock()
	if nt == nil {
		return errors.New("no live subscription")
	}
	return nt.Notify(id, &ethtypes.Header{Number: new(big.Int).SetUint64(h), Difficulty: big.NewInt(0), Extra: []byte{}})
}

func (n *fakeNode) breakSubscription() error {
	n.mu.Lock()
	nt, id := n.notifier, n.subID
	n.mu.Unlock()
	if nt == nil {
		return errors.New("no live subscription")
	}
	return nt.Notify(id, "not a header") // the client cannot decode it: its subscription ends with an error
}

// ---------------------------------------------------------------- recording event handler (mock of eth/eventhandler)

type entry struct {
	block uint64
	ids   []uint64
	eos   bool // the stream handed to HandleBlockEventsStream was closed
}

var errInferior = errors.New("inferior block") // stands for eventhandler.ErrInferiorBlock

type recHandler struct {
	mu        sync.Mutex
	db        int64 // stored last processed block (-1: none)
	inferior  bool
	delivered chan entry
}

// HandleBlockEventsStream mirrors the cursor logic of the real handler: block numbers must strictly increase.
// During the ongoing sync it keeps reading after an inferior block (and remembers it) so that the client is never
// blocked by the mock; the oracle reports it.
func (h *recHandler) HandleBlockEventsStream(logs <-chan executionclient.BlockLogs, executeTasks bool) (uint64, error) {
	var last uint64
	var ferr error
	for bl := range logs {
		e := entry{block: bl.BlockNumber}
		for _, l := range bl.Logs {
			id := uint64(0)
			if len(l.Data) == 8 {
				id = binary.BigEndian.Uint64(l.Data)
			}
			if l.BlockNumber != bl.BlockNumber {
				id += 1 << 40 // a log filed under a foreign block: visible in the observation
			}
			e.ids = append(e.ids, id)
		}
		h.mu.Lock()
		if h.db >= int64(bl.BlockNumber) {
			h.inferior = true
			if !executeTasks && ferr == nil {
				ferr = errInferior
			}
		} else {
			h.db = int64(bl.BlockNumber)
		}
		h.mu.Unlock()
		h.delivered <- e
		if ferr == nil {
			last = bl.BlockNumber
		}
	}
	h.delivered <- entry{eos: true}
	if ferr != nil {
		return 0, fmt.Errorf("failed to process block events: %w", ferr)
	}
	return last, nil
}

// ---------------------------------------------------------------- one case

type caseRun struct {
	cfg   *caseCfg
	node  *fakeNode
	ec    *executionclient.ExecutionClient
	h     *recHandler
	ctx   context.Context
	stop  context.CancelFunc
	lines []string // op lines
	obs   []string
	tags  []string
	seen  []string

	got        []entry
	streaming  bool // SyncOngoing is running
	closed     bool // its stream was closed (client gave up)
	aborted    bool // … before the script asked for the end
	dead       bool // the node would have exited (historical sync failed)
	stalled    bool
	doneUpTo   int64 // highest target whose fetch was seen to complete
	maxTarget  int64
	maxHead    uint64
	cleanHeads []uint64 // targets of heads pushed while the client was alive and no fetch failure was armed
	histHead   int64    // head − follow of a successful historical sync (-1: none)
	anyFault   bool
}

func (c *caseRun) emit(op, obs string) {
	c.lines = append(c.lines, op)
	c.obs = append(c.obs, obs)
}

func (c *caseRun) stallAfter() <-chan time.Time {
	return time.After(time.Duration(*stallMs) * time.Millisecond)
}

// take handles one delivered entry
func (c *caseRun) take(e entry) {
	if e.eos {
		if c.streaming {
			c.closed = true
		}
		return
	}
	c.got = append(c.got, e)
}

// waitDelivered reads the stream until an entry at or above blk was handed over
func (c *caseRun) waitDelivered(blk uint64) bool {
	for _, e := range c.got {
		if e.block >= blk {
			return true
		}
	}
	to := c.stallAfter()
	for {
		select {
		case e := <-c.h.delivered:
			c.take(e)
			if c.closed {
				return false
			}
			if !e.eos && e.block >= blk {
				return true
			}
		case <-to:
			c.stalled = true
			return false
		}
	}
}

// waitRecovered waits until the client has re-subscribed or given up; returns the number of eth_subscribe requests seen
func (c *caseRun) waitRecovered(calls *[]string) (subs int) {
	to := c.stallAfter()
	for {
		select {
		case ev := <-c.node.events:
			switch ev.kind {
			case "subfail":
				subs++
			case "sub":
				subs++
				return
			case "getlogs":
				*calls = append(*calls, showCall(ev))
				c.releaseDrop(ev)
			}
		case e := <-c.h.delivered:
			c.take(e)
			if c.closed {
				return
			}
		case <-to:
			c.stalled = true
			if os.Getenv("LSDEBUG") != "" {
				buf := make([]byte, 1<<20)
				os.Stderr.Write(buf[:runtime.Stack(buf, true)])
			}
			return
		}
	}
}

// barrier: a request on the client's current connection that the node answers at once; when it returns, every
// request the client started before it has been completely sent. Then the node may drop the connection.
func (c *caseRun) releaseDrop(ev event) {
	if ev.release == nil {
		return
	}
	ctx, cancel := context.WithTimeout(context.Background(), 20*time.Second)
	var id hexutil.Big
	_ = executionclient.VerifRPCClient(c.ec).CallContext(ctx, &id, "eth_chainId")
	cancel()
	close(ev.release)
}

func showCall(ev event) string {
	s := fmt.Sprintf("%d-%d", ev.lo, ev.hi)
	if !ev.ok {
		s += "!"
	}
	return s
}

func b01(b bool) string {
	if b {
		return "1"
	}
	return "0"
}

func (c *caseRun) start() error {
	var err error
	if c.node, err = newFakeNode(c.cfg); err != nil {
		return err
	}
	c.ctx, c.stop = context.WithCancel(context.Background())
	// logger.Fatal must not kill the harness: the hook ends the calling goroutine instead (its deferred close(logs) runs)
	logger := zap.New(zapcore.NewNopCore(), zap.WithFatalHook(zapcore.WriteThenGoexit))
	c.ec, err = executionclient.New(c.ctx, c.node.url(), contract,
		executionclient.WithLogger(logger),
		executionclient.WithFollowDistance(c.cfg.follow),
		executionclient.WithLogBatchSize(c.cfg.batch),
		executionclient.WithReconnectionInitialInterval(time.Millisecond),
		executionclient.WithReconnectionMaxInterval(2*time.Second),
		executionclient.WithConnectionTimeout(10*time.Second))
	if err != nil {
		return err
	}
	c.h = &recHandler{db: int64(c.cfg.start) - 1, delivered: make(chan entry, 1<<14)}
	c.doneUpTo, c.maxTarget, c.histHead = int64(c.cfg.start)-1, int64(c.cfg.start)-1, -1
	return nil
}

func (c *caseRun) finish() {
	if c.stop != nil {
		c.stop()
	}
	if c.ec != nil {
		func() {
			defer func() { _ = recover() }()
			c.ec.Close()
		}()
	}
	if c.node != nil {
		c.node.close()
	}
}

// doReset performs the historical sync (if asked for) and starts the ongoing sync, as setupEventHandling does.
func (c *caseRun) doReset() string {
	syncer := eventsyncer.New(nil, c.ec, c.h)
	from := c.cfg.start
	obs := "ok"
	if c.cfg.hist != "-" {
		if c.cfg.hist == "fail" {
			c.node.failHead = true
		} else {
			hh, _ := strconv.ParseUint(c.cfg.hist, 10, 64)
			c.node.head = hh
			c.maxHead = hh
		}
		c.node.armFetch, c.node.armMode, c.node.armMsg = c.cfg.harm, "rpc", c.cfg.hmsg
		last, err := syncer.SyncHistory(c.ctx, from)
		c.node.mu.Lock()
		c.node.armFetch, c.node.failHead = -1, false
		c.node.mu.Unlock()
		var calls []string
	drain:
		for {
			select {
			case ev := <-c.node.events:
				if ev.kind == "getlogs" {
					calls = append(calls, showCall(ev))
				}
			default:
				break drain
			}
		}
	drain2:
		for {
			select {
			case e := <-c.h.delivered:
				c.take(e)
			default:
				break drain2
			}
		}
		cs := "[" + strings.Join(calls, ",") + "]"
		switch {
		case err == nil:
			// Advance fromBlock to the block after lastProcessedBlock (cli/operator/node.go).
			from = last + 1
			obs = fmt.Sprintf("hist=ok last=%d calls=%s", last, cs)
			hh, _ := strconv.ParseUint(c.cfg.hist, 10, 64)
			c.histHead = int64(hh - c.cfg.follow)
			c.doneUpTo, c.maxTarget = int64(last), int64(last)
			c.tags = append(c.tags, "hist/ok")
			if int64(last) < c.histHead {
				c.seen = append(c.seen, "hist/ok/last-below-target")
			} else {
				c.seen = append(c.seen, "hist/ok/last-at-target")
			}
		case errors.Is(err, executionclient.ErrNothingToSync):
			obs = fmt.Sprintf("hist=nothing calls=%s", cs)
			c.tags = append(c.tags, "hist/nothing")
			c.seen = append(c.seen, "hist/nothing")
		default:
			// logger.Fatal("failed to sync historical registry events") in the node
			tag := "err"
			if errors.Is(err, errInferior) {
				tag = "inferior"
			}
			obs = fmt.Sprintf("hist=err:%s calls=%s", tag, cs)
			c.dead = true
			c.tags = append(c.tags, "hist/err")
			c.seen = append(c.seen, "hist/err/"+tag+"/delivered:"+b01(len(c.got) > 0))
			return obs
		}
	}
	c.streaming = true
	go func() { _ = syncer.SyncOngoing(c.ctx, from) }()
	// the client subscribes before anything else happens
	var calls []string
	c.waitRecovered(&calls)
	return obs
}

func (c *caseRun) alive() bool { return c.streaming && !c.closed && !c.dead && !c.stalled }

func (c *caseRun) doOp(line string) string {
	ws := strings.Fields(line)
	if len(ws) == 0 {
		return "bad-op"
	}
	if ws[0] == "end" {
		return c.doEnd()
	}
	if !c.alive() {
		if c.stalled {
			return "stall"
		}
		return "dead"
	}
	switch ws[0] {
	case "head":
		v, _ := kvOf(ws, "n")
		n, err := strconv.ParseUint(v, 10, 64)
		if err != nil {
			return "bad-op"
		}
		return c.doHead(n)
	case "suberr", "drop":
		c.anyFault = true
		if ws[0] == "suberr" {
			if err := c.node.breakSubscription(); err != nil {
				return "bad-op"
			}
		} else {
			c.node.ln.dropAll()
		}
		var calls []string
		subs := c.waitRecovered(&calls)
		c.tags = append(c.tags, ws[0])
		c.seen = append(c.seen, fmt.Sprintf("%s/subs:%d/ab:%s", ws[0], subs, b01(c.closed)))
		if c.stalled {
			return "stall"
		}
		if len(calls) > 0 {
			return fmt.Sprintf("unexpected-calls=[%s] subs=%d ab=%s", strings.Join(calls, ","), subs, b01(c.closed))
		}
		return fmt.Sprintf("subs=%d ab=%s", subs, b01(c.closed))
	case "fetcherr":
		v, _ := kvOf(ws, "k")
		k, err := strconv.Atoi(v)
		if err != nil || k < 0 {
			return "bad-op"
		}
		mode, ok := kvOf(ws, "mode")
		if !ok {
			mode = "rpc"
		}
		msg, ok := kvOf(ws, "msg")
		if !ok {
			msg = "generic"
		}
		c.anyFault = true
		c.node.mu.Lock()
		c.node.armFetch, c.node.armMode, c.node.armMsg = k, mode, msg
		c.node.mu.Unlock()
		c.tags = append(c.tags, "fetcherr/"+mode+"/"+msg)
		return "armed"
	case "subfail":
		c.anyFault = true
		c.node.mu.Lock()
		c.node.armSub++
		c.node.mu.Unlock()
		c.tags = append(c.tags, "subfail")
		return "armed"
	}
	return "bad-op"
}

func (c *caseRun) doHead(n uint64) string {
	c.node.mu.Lock()
	armed := c.node.armFetch >= 0
	c.node.mu.Unlock()
	if n > c.maxHead {
		c.maxHead = n
	}
	t := int64(n) - int64(c.cfg.follow)
	expectFetch := n >= c.cfg.follow && t > c.doneUpTo
	ambiguous := expectFetch && t < c.maxTarget // only hand-written replays: the generator never produces it
	if n >= c.cfg.follow && !armed {
		c.cleanHeads = append(c.cleanHeads, uint64(t))
	}
	if t > c.maxTarget {
		c.maxTarget = t
	}
	if err := c.node.pushHead(n); err != nil {
		return "bad-op"
	}
	if !expectFetch {
		c.tags = append(c.tags, "head/ignored")
		if n < c.cfg.follow {
			c.seen = append(c.seen, "head/ignored/below-follow")
		} else {
			c.seen = append(c.seen, "head/ignored/stale")
		}
		return "calls=[] subs=0 ab=0"
	}
	var calls []string
	failed := false
	var lastBlk uint64
	to := c.stallAfter()
	var grace <-chan time.Time
	if ambiguous {
		grace = time.After(400 * time.Millisecond)
	}
	subs := 0
	completed := false
	// After the head the client fetches until the target is reached; after a failed eth_getLogs it either
	// re-subscribes (what the code does today) or goes on fetching: both are followed here, model-independently.
loop:
	for {
		select {
		case ev := <-c.node.events:
			switch ev.kind {
			case "getlogs":
				grace = nil
				calls = append(calls, showCall(ev))
				c.releaseDrop(ev)
				if !ev.ok {
					failed = true
					c.anyFault = true
				} else if int64(ev.hi) >= t {
					lastBlk = ev.lastBlk
					completed = true
					break loop
				}
			case "subfail":
				subs++
			case "sub":
				subs++
				break loop // the client started over with a new subscription
			}
		case e := <-c.h.delivered:
			c.take(e)
			if c.closed {
				break loop
			}
		case <-grace:
			return "calls=[] subs=0 ab=0"
		case <-to:
			c.stalled = true
			break loop
		}
	}
	if completed && !c.stalled && !c.closed {
		if c.waitDelivered(lastBlk) {
			c.doneUpTo = t
		}
	}
	nb := len(calls)
	if nb > 3 {
		nb = 3
	}
	if failed && completed {
		c.tags = append(c.tags, "head/fetch-continued-after-failure")
	} else if failed {
		c.tags = append(c.tags, "head/fetch-failed")
		c.seen = append(c.seen, fmt.Sprintf("head/fetch-failed/at:%d/subs:%d/ab:%s", nb, subs, b01(c.closed)))
	} else {
		c.tags = append(c.tags, "head/fetched")
		c.seen = append(c.seen, fmt.Sprintf("head/fetched/batches:%d/armed:%s/afterfault:%s", nb, b01(armed), b01(c.anyFault)))
	}
	if c.stalled {
		return fmt.Sprintf("stall calls=[%s]", strings.Join(calls, ","))
	}
	return fmt.Sprintf("calls=[%s] subs=%d ab=%s", strings.Join(calls, ","), subs, b01(c.closed))
}

func (c *caseRun) doEnd() string {
	wasClosed := c.closed
	c.aborted = wasClosed
	if c.streaming && !c.closed && !c.stalled {
		// graceful stop: everything the client still holds is handed over before the stream is closed
		c.stop()
		to := c.stallAfter()
	wait:
		for {
			select {
			case e := <-c.h.delivered:
				c.take(e)
				if c.closed {
					break wait
				}
			case <-to:
				c.stalled = true
				break wait
			}
		}
	}
	var parts []string
	for _, e := range c.got {
		ids := make([]string, len(e.ids))
		for i, id := range e.ids {
			ids[i] = strconv.FormatUint(id, 10)
		}
		parts = append(parts, fmt.Sprintf("%d:%s", e.block, strings.Join(ids, "+")))
	}
	s := fmt.Sprintf("out=[%s] ab=%s", strings.Join(parts, ","), b01(wasClosed))
	if c.stalled {
		s += " stall"
	}
	return s
}

// ---------------------------------------------------------------- property oracle (model independent)

type violation struct{ sig, detail string }

func (c *caseRun) oracle() []violation {
	var vs []violation
	add := func(sig, f string, a ...any) { vs = append(vs, violation{sig, fmt.Sprintf(f, a...)}) }
	count := map[uint64]int{}
	for i, e := range c.got {
		count[e.block]++
		if i > 0 && c.got[i-1].block >= e.block {
			add("C13/not-strictly-increasing", "entry %d has block %d after block %d", i, e.block, c.got[i-1].block)
		}
		if e.block < c.cfg.start {
			add("C13/entry-below-start", "entry for block %d but the stream was requested from %d", e.block, c.cfg.start)
		}
		want := c.cfg.nonRemoved(e.block)
		if fmt.Sprint(want) != fmt.Sprint(e.ids) {
			add("C13/wrong-logs", "entry for block %d carries logs %v, the block's non-removed logs are %v", e.block, e.ids, want)
		}
	}
	// completeness: every head that arrived while the client was alive and no fetch failure was armed
	var upto int64 = c.histHead
	for _, t := range c.cleanHeads {
		if int64(t) > upto {
			upto = int64(t)
		}
	}
	for b := int64(c.cfg.start); b <= upto; b++ {
		if len(c.cfg.nonRemoved(uint64(b))) == 0 {
			continue
		}
		switch count[uint64(b)] {
		case 1:
		case 0:
			add("C13/block-missing", "block %d has non-removed logs and lies in [%d, %d] but was never delivered", b, c.cfg.start, upto)
		default:
			add("C13/block-duplicated", "block %d was delivered %d times", b, count[uint64(b)])
		}
	}
	if c.h.inferior {
		add("C13/handler-rejects-block", "the event handler saw a block number at or below its last processed block")
	}
	return vs
}

// ---------------------------------------------------------------- generator

func genCfg(r *hx.Rng, tier string) *caseCfg {
	c := &caseCfg{hist: "-", harm: -1, chain: map[uint64][]rawLog{}}
	c.follow = uint64(r.Intn(9))
	c.batch = uint64(1 + r.Intn(8))
	c.start = uint64(r.Pick(0, 1, 1, 2, 5, 10, 10, 37, 100, 1000))
	density := r.Pick(0, 5, 15, 35, 35, 70, 100)
	removedPct := r.Pick(0, 0, 0, 10, 10, 50, 100)
	lo := uint64(0)
	if c.start > 4 {
		lo = c.start - 4
	}
	id := uint64(1)
	for b := lo; b < c.start+140; b++ {
		if !r.Chance(density) {
			continue
		}
		nl := 1 + r.Intn(4)
		if r.Chance(4) {
			nl = 13 + r.Intn(12) // more than Go's insertion-sort threshold, with equal sort keys
		}
		tx := uint64(r.Intn(3))
		for i := 0; i < nl; i++ {
			if r.Chance(40) {
				tx += uint64(r.Intn(3))
			}
			c.chain[b] = append(c.chain[b], rawLog{id, tx, r.Chance(removedPct)})
			id++
		}
	}
	if c.start >= 1 && r.Chance(30) {
		switch r.Intn(8) {
		case 0:
			c.hist = "fail"
		case 1:
			c.hist = strconv.FormatUint(uint64(r.Intn(int(c.follow)+1)), 10) // below the follow distance / below start
		default:
			c.hist = strconv.FormatUint(c.start+c.follow+uint64(r.Intn(40)), 10)
			if r.Chance(25) {
				c.hist = strconv.FormatUint(c.start+c.follow-uint64(r.Intn(2)), 10)
			}
		}
		if c.hist != "fail" && r.Chance(30) {
			c.harm = r.Intn(6)
			c.hmsg = genMsg(r)
		}
	}
	return c
}

// genMsg: about half of the RPC-error faults carry the text of a "response too large" answer (≈ 1/3 of all fetch faults)
func genMsg(r *hx.Rng) string {
	if r.Chance(50) {
		return []string{"toolarge", "readlimit", "respsize"}[r.Intn(3)]
	}
	return "generic"
}

// nextOp picks the next op from the state the case has reached (heads are either stale or at/after every target
// pushed so far, so that "will the client fetch?" never depends on timing)
func (c *caseRun) nextOp(r *hx.Rng) string {
	head := func() string {
		if r.Chance(15) {
			if r.Chance(40) && c.cfg.follow > 0 {
				return fmt.Sprintf("head n=%d", r.Intn(int(c.cfg.follow)))
			}
			if c.doneUpTo >= 0 {
				t := c.doneUpTo - int64(r.Intn(5))
				if t < 0 {
					t = 0
				}
				return fmt.Sprintf("head n=%d", uint64(t)+c.cfg.follow)
			}
		}
		base := c.maxTarget
		if base < int64(c.cfg.start)-1 {
			base = int64(c.cfg.start) - 1
		}
		step := int64(r.Pick(0, 1, 1, 2, 3, int(c.cfg.batch), int(c.cfg.batch)+1, 2*int(c.cfg.batch), 3*int(c.cfg.batch)+1, 20))
		t := base + step
		if t < 0 {
			t = 0
		}
		return fmt.Sprintf("head n=%d", uint64(t)+c.cfg.follow)
	}
	switch x := r.Intn(100); {
	case x < 60:
		return head()
	case x < 68:
		return "suberr"
	case x < 78:
		return "drop"
	case x < 93:
		k := r.Pick(0, 0, 0, 1, 1, 2, 3, 5)
		if r.Chance(30) {
			return fmt.Sprintf("fetcherr k=%d mode=drop msg=generic", k)
		}
		return fmt.Sprintf("fetcherr k=%d mode=rpc msg=%s", k, genMsg(r))
	default:
		return "subfail"
	}
}

// ---------------------------------------------------------------- driver

type result struct {
	lines, obs, tags, seen []string
	viol                   []violation
	err                    error
	stalled                bool
}

// runCase runs a generated (ops == nil) or given case once
func runCase(cfg *caseCfg, ops []string, rng *hx.Rng) result {
	c := &caseRun{cfg: cfg}
	defer c.finish()
	if err := c.start(); err != nil {
		return result{err: err}
	}
	c.emit(cfg.resetLine(), c.doReset())
	if ops != nil {
		for _, op := range ops {
			c.emit(op, c.doOp(op))
		}
	} else {
		n := 3 + rng.Intn(12)
		for i := 0; i < n && c.alive(); i++ {
			op := c.nextOp(rng)
			c.emit(op, c.doOp(op))
		}
		// most scripts end with a head that nothing disturbs
		if c.alive() && rng.Chance(70) {
			c.node.mu.Lock()
			armed := c.node.armFetch >= 0
			c.node.mu.Unlock()
			if !armed {
				op := fmt.Sprintf("head n=%d", uint64(c.maxTarget+1+int64(rng.Intn(int(2*c.cfg.batch+1))))+c.cfg.follow)
				c.emit(op, c.doOp(op))
			}
		}
	}
	if len(c.lines) == 0 || c.lines[len(c.lines)-1] != "end" {
		c.emit("end", c.doOp("end"))
	}
	markers, removed := false, false
	for _, e := range c.got {
		if len(e.ids) == 0 {
			markers = true
		}
	}
	for _, ls := range cfg.chain {
		for _, l := range ls {
			if l.removed {
				removed = true
			}
		}
	}
	c.seen = append(c.seen, fmt.Sprintf("case/markers:%s/removed:%s/aborted:%s/hist:%s", b01(markers), b01(removed), b01(c.aborted), b01(cfg.hist != "-")))
	if c.aborted {
		c.tags = append(c.tags, "case/aborted")
	}
	return result{lines: c.lines, obs: c.obs, tags: c.tags, seen: c.seen, viol: c.oracle(), stalled: c.stalled}
}

func main() {
	run := hx.Start()
	defer run.Finish()

	type job struct {
		cfg *caseCfg
		ops []string
		rng func() *hx.Rng
	}
	var jobs []job
	if lines := run.ReplayLines(); lines != nil {
		var cur *job
		for _, l := range lines {
			if strings.HasPrefix(l, "nodewire") {
				nodeWireLine(run, l)
				continue
			}
			if strings.HasPrefix(l, "reset") {
				cfg, err := parseReset(l)
				if err != nil {
					panic(fmt.Sprintf("bad reset line: %v", err))
				}
				jobs = append(jobs, job{cfg: cfg, ops: []string{}})
				cur = &jobs[len(jobs)-1]
			} else if cur != nil {
				cur.ops = append(cur.ops, l)
			}
		}
	} else {
		n := run.N
		if n > 0 {
			k := 6
			if run.Tier != "quick" {
				k = 30
			}
			genNodeWire(run, hx.NewRng(run.Seed^0x0de1), k)
		}
		for i := 0; i < n; i++ {
			seed := run.Seed*1000003 + uint64(i)
			jobs = append(jobs, job{rng: func() *hx.Rng { return hx.NewRng(seed) }})
		}
	}
	results := make([]result, len(jobs))
	one := func(i int) result {
		j := jobs[i]
		if j.rng != nil {
			r := j.rng()
			return runCase(genCfg(r, run.Tier), nil, r)
		}
		return runCase(j.cfg, j.ops, nil)
	}
	var wg sync.WaitGroup
	sem := make(chan struct{}, *workers)
	for i := range jobs {
		wg.Add(1)
		sem <- struct{}{}
		go func(i int) {
			defer wg.Done()
			defer func() { <-sem }()
			results[i] = one(i)
		}(i)
	}
	wg.Wait()
	// a missing event is retried in isolation before it is reported
	// (if the first three stall again the stalls are systematic: the others are reported as they are)
	retried, again := 0, 0
	var stallNotes []string
	for i := range results {
		if results[i].stalled || results[i].err != nil {
			if retried >= 3 && again == retried {
				continue
			}
			retried++
			if results[i].err == nil && len(stallNotes) < 5 {
				note := []string{}
				for k := range results[i].lines {
					l := results[i].lines[k]
					if len(l) > 80 {
						l = l[:80]
					}
					note = append(note, l+" => "+results[i].obs[k])
				}
				stallNotes = append(stallNotes, strings.Join(note, " ; "))
			}
			results[i] = one(i)
			if results[i].stalled || results[i].err != nil {
				again++
			}
		}
	}
	run.Extra["retried_in_isolation"] = retried
	run.Extra["first_run_stalls"] = stallNotes
	stalls := 0
	for _, res := range results {
		if res.err != nil {
			panic(fmt.Sprintf("harness infrastructure failure: %v", res.err))
		}
		for k := range res.lines {
			run.Emit(res.lines[k], res.obs[k])
		}
		for _, t := range res.tags {
			run.Tag(t)
		}
		for _, s := range res.seen {
			run.Seen(s)
		}
		if res.stalled {
			stalls++
			run.Tag("case/stalled")
		}
		seenSig := map[string]bool{}
		for _, v := range res.viol {
			if !seenSig[v.sig] {
				seenSig[v.sig] = true
				run.Violate(v.sig, v.detail, res.lines...)
			}
		}
	}
	run.Extra["cases"] = len(results)
	run.Extra["stalled_cases"] = stalls
}
