// Harness for engine `queue` (property C14): drives the REAL priorityQueue op by op from one goroutine
// (deterministic), with real DecodedSSVMessages, the consumer's three filters and random predicates,
// random prioritizer states; writes op lines + canonical observations (diffed against the Lean model)
// and evaluates the conservation / completeness / maximality oracle on the implementation itself.
// `-concurrent` adds concurrent pushers with the conservation oracle (no model diff).
package main

import (
	"context"
	"flag"
	"strconv"
	"strings"
	"sync"
	"sync/atomic"
	"time"

	"github.com/attestantio/go-eth2-client/spec/phase0"
	specqbft "github.com/bloxapp/ssv-spec/qbft"
	spectypes "github.com/bloxapp/ssv-spec/types"

	"github.com/bloxapp/ssv/protocol/v2/ssv/queue"
	ssvtypes "github.com/bloxapp/ssv/protocol/v2/types"
	"github.com/bloxapp/ssv/zz_verif/lib/hx"
)

var concurrent = flag.Bool("concurrent", false, "also run concurrent-producer cases (oracle only)")

type sim struct {
	run    *hx.Run
	q      queue.Queue
	ids    map[*queue.DecodedSSVMessage]int
	bodies map[int]string
	queued map[int]*queue.DecodedSSVMessage // pushed successfully and not yet returned
	popped map[int]bool
	inbox  map[int]bool // pushed since the queue last drained its channel (not yet visible to a pop that does not read it)
	trace  []string
}

// dropCounter is the Metrics implementation handed to the production wrapper
type dropCounter struct{ n int64 }

func (d *dropCounter) DroppedQueueMessage(spectypes.MessageID) { atomic.AddInt64(&d.n, 1) }

// newQ builds the queue exactly as validator.NewValidator does (protocol/v2/ssv/validator/validator.go)
func newQ(c int) queue.Queue { return queue.WithMetrics(queue.New(c), &dropCounter{}) }

func mkMsg(body string) *queue.DecodedSSVMessage {
	f := strings.Split(body, ":")
	at := func(i int) uint64 { v, _ := strconv.ParseUint(f[i], 10, 64); return v }
	switch f[0] {
	case "ev":
		return &queue.DecodedSSVMessage{SSVMessage: &spectypes.SSVMessage{MsgType: 99}, Body: &ssvtypes.EventMsg{Type: ssvtypes.EventType(at(1))}}
	case "c":
		signers := make([]spectypes.OperatorID, at(4))
		for i := range signers {
			signers[i] = spectypes.OperatorID(i + 1)
		}
		return &queue.DecodedSSVMessage{SSVMessage: &spectypes.SSVMessage{MsgType: spectypes.SSVConsensusMsgType},
			Body: &specqbft.SignedMessage{Signers: signers, Message: specqbft.Message{Height: specqbft.Height(at(1)), Round: specqbft.Round(at(2)), MsgType: specqbft.MessageType(at(3))}}}
	case "p":
		t := spectypes.RandaoPartialSig
		if at(2) == 1 {
			t = spectypes.PostConsensusPartialSig
		}
		return &queue.DecodedSSVMessage{SSVMessage: &spectypes.SSVMessage{MsgType: spectypes.SSVPartialSignatureMsgType},
			Body: &spectypes.SignedPartialSignatureMessage{Message: spectypes.PartialSignatureMessages{Type: t, Slot: spectypesSlot(at(1))}}}
	}
	panic("bad body " + body)
}

func spectypesSlot(v uint64) phase0.Slot { return phase0.Slot(v) }

func parseState(s string) *queue.State {
	f := strings.Split(s, ":")
	at := func(i int) uint64 { v, _ := strconv.ParseUint(f[i], 10, 64); return v }
	return &queue.State{HasRunningInstance: at(0) == 1, Height: specqbft.Height(at(1)), Round: specqbft.Round(at(2)), Slot: spectypesSlot(at(3)), Quorum: at(4)}
}

// the consumer's filters, as written in Validator.ConsumeQueue (protocol/v2/ssv/validator/msgqueue_consumer.go)
func (s *sim) filter(name string, st *queue.State) queue.Filter {
	f := strings.Split(name, ":")
	switch f[0] {
	case "any":
		return queue.FilterAny
	case "idle":
		return func(m *queue.DecodedSSVMessage) bool {
			e, ok := m.Body.(*ssvtypes.EventMsg)
			if !ok {
				return false
			}
			return e.Type == ssvtypes.ExecuteDuty
		}
	case "noprop":
		return func(m *queue.DecodedSSVMessage) bool {
			sm, ok := m.Body.(*specqbft.SignedMessage)
			if !ok {
				return true
			}
			if sm.Message.Height != st.Height || sm.Message.Round != st.Round {
				return true
			}
			return sm.Message.MsgType != specqbft.PrepareMsgType && sm.Message.MsgType != specqbft.CommitMsgType
		}
	case "none":
		return func(*queue.DecodedSSVMessage) bool { return false }
	case "mod":
		k, _ := strconv.Atoi(f[1])
		r, _ := strconv.Atoi(f[2])
		return func(m *queue.DecodedSSVMessage) bool { return s.ids[m]%k == r }
	case "height":
		h, _ := strconv.ParseUint(f[1], 10, 64)
		return func(m *queue.DecodedSSVMessage) bool {
			sm, ok := m.Body.(*specqbft.SignedMessage)
			return ok && uint64(sm.Message.Height) == h
		}
	}
	panic("bad filter " + name)
}

func kv(w []string, k string) string {
	for _, x := range w {
		if strings.HasPrefix(x, k+"=") {
			return x[len(k)+1:]
		}
	}
	return ""
}

func (s *sim) violate(sig, detail string) {
	s.run.Violate(sig, detail, s.trace...)
}

// checkPop evaluates the property oracle for one pop result (model-independent).
func (s *sim) checkPop(line string, got *queue.DecodedSSVMessage, flt queue.Filter, pr queue.MessagePrioritizer, lenBefore int, readsInboxFirst bool) string {
	lenAfter := s.q.Len()
	anyAdm, anyAdmInList := false, false
	for id, m := range s.queued {
		if flt(m) {
			anyAdm = true
			if !s.inbox[id] {
				anyAdmInList = true
			}
		}
	}
	// Pop without an initial inbox read returns from the linked list alone when that holds an admissible
	// message; messages still in the channel are in flight and do not take part in that selection.
	listOnly := !readsInboxFirst && anyAdmInList
	if !listOnly {
		s.inbox = map[int]bool{}
	}
	if got == nil {
		if lenAfter != lenBefore {
			s.violate("C14/message-dropped-by-pop-returning-nil", hx.Sprintf("len %d -> %d after `%s` returned nil", lenBefore, lenAfter, line))
		}
		if anyAdm {
			s.violate("C14/admissible-message-not-returned", hx.Sprintf("`%s` returned nil although an admissible message is queued", line))
		}
		return hx.Sprintf("nil len=%d", lenAfter)
	}
	id, known := s.ids[got]
	switch {
	case !known:
		s.violate("C14/unknown-message-returned", line)
	case s.popped[id]:
		s.violate("C14/message-returned-twice", hx.Sprintf("id %d", id))
	case s.queued[id] == nil:
		s.violate("C14/never-pushed-message-returned", hx.Sprintf("id %d", id))
	}
	if !flt(got) {
		s.violate("C14/returned-message-not-admitted-by-filter", hx.Sprintf("id %d by `%s`", id, line))
	}
	if lenAfter != lenBefore-1 {
		s.violate("C14/length-not-decremented-by-one", hx.Sprintf("len %d -> %d after `%s` returned id %d", lenBefore, lenAfter, line, id))
	}
	for oid, m := range s.queued {
		if oid != id && flt(m) && !(listOnly && s.inbox[oid]) && !pr.Prior(got, m) {
			s.violate("C14/returned-message-not-maximal", hx.Sprintf("`%s` returned id %d (%s) although id %d (%s) is admissible and strictly prior", line, id, s.bodies[id], oid, s.bodies[oid]))
		}
	}
	delete(s.queued, id)
	s.popped[id] = true
	return hx.Sprintf("%d len=%d", id, lenAfter)
}

func (s *sim) do(line string) {
	w := strings.Fields(line)
	s.run.Tag("op:" + w[0])
	s.trace = append(s.trace, line)
	switch w[0] {
	case "reset":
		c, _ := strconv.Atoi(kv(w, "cap"))
		s.q = newQ(c) // as validator.NewValidator builds it: WithMetrics(New(size), metrics)
		s.ids, s.bodies, s.queued, s.popped = map[*queue.DecodedSSVMessage]int{}, map[int]string{}, map[int]*queue.DecodedSSVMessage{}, map[int]bool{}
		s.inbox = map[int]bool{}
		s.trace = []string{line}
		s.run.Emit(line, "ok")
	case "push":
		id, _ := strconv.Atoi(kv(w, "id"))
		m := mkMsg(kv(w, "body"))
		s.ids[m] = id
		s.bodies[id] = kv(w, "body")
		if s.q.TryPush(m) {
			s.queued[id] = m
			s.inbox[id] = true
			s.run.Emit(line, "1")
		} else {
			s.run.Tag("push:full")
			s.run.Emit(line, "0")
		}
	case "trypop", "pop":
		st := parseState(kv(w, "st"))
		flt := s.filter(kv(w, "f"), st)
		pr := queue.NewMessagePrioritizer(st)
		before := s.q.Len()
		var got *queue.DecodedSSVMessage
		if w[0] == "trypop" {
			got = s.q.TryPop(pr, flt)
		} else {
			if kv(w, "rf") == "1" {
				queue.VerifSetLastRead(s.q, time.Now().Add(-time.Hour))
			} else {
				queue.VerifSetLastRead(s.q, time.Now().Add(time.Hour))
			}
			ctx, cancel := context.WithTimeout(context.Background(), 4*time.Millisecond)
			got = s.q.Pop(ctx, pr, flt)
			cancel()
		}
		obs := s.checkPop(line, got, flt, pr, before, w[0] == "trypop" || kv(w, "rf") == "1")
		cls := "some"
		if got == nil {
			cls = "nil"
		}
		s.run.Seen(hx.Sprintf("%s:%s:%s:%d:%v", w[0], strings.Split(kv(w, "f"), ":")[0], cls, hx.Min(before, 6), st.HasRunningInstance))
		s.run.Tag(w[0] + ":" + cls)
		s.run.Emit(line, obs)
	case "len":
		s.run.Emit(line, strconv.Itoa(s.q.Len()))
	case "prior":
		st := parseState(w[1])
		a, b := mkMsg(w[2]), mkMsg(w[3])
		pr := queue.NewMessagePrioritizer(st)
		ab, ba := pr.Prior(a, b), pr.Prior(b, a)
		if !ab && !ba {
			s.violate("C14/prioritizer-not-total", line)
		}
		s.run.Seen("prior:" + strings.Split(w[2], ":")[0] + ":" + strings.Split(w[3], ":")[0] + hx.Sprintf(":%v", ab))
		if ab {
			s.run.Emit(line, "1")
		} else {
			s.run.Emit(line, "0")
		}
	}
}

func genBody(r *hx.Rng) string {
	switch r.Intn(10) {
	case 0:
		return "ev:1"
	case 1:
		return "ev:0"
	case 2, 3:
		return hx.Sprintf("p:%d:%d", 63+r.Intn(3), r.Intn(2))
	default:
		return hx.Sprintf("c:%d:%d:%d:%d", 99+r.Intn(3), 1+r.Intn(3), r.Intn(4), r.Pick(1, 1, 1, 3, 4))
	}
}

func genState(r *hx.Rng) string {
	return hx.Sprintf("%d:%d:%d:%d:%d", r.Intn(2), 99+r.Intn(3), 1+r.Intn(3), 63+r.Intn(3), 3)
}

func genFilter(r *hx.Rng) string {
	switch r.Intn(10) {
	case 0, 1:
		return "any"
	case 2, 3:
		return "idle"
	case 4, 5:
		return "noprop"
	case 6:
		return "none"
	case 7:
		return hx.Sprintf("height:%d", 99+r.Intn(3))
	default:
		k := 2 + r.Intn(3)
		return hx.Sprintf("mod:%d:%d", k, r.Intn(k))
	}
}

func main() {
	run := hx.Start()
	defer run.Finish()
	r := hx.NewRng(run.Seed)
	s := &sim{run: run}
	if lines := run.ReplayLines(); lines != nil {
		s.do("reset cap=32")
		for _, l := range lines {
			s.do(l)
		}
		return
	}
	nextID := 0
	for c := 0; c < run.N; c++ {
		s.do(hx.Sprintf("reset cap=%d", r.Pick(1, 2, 4, 8, 32)))
		nops := 4 + r.Intn(26)
		for i := 0; i < nops; i++ {
			switch x := r.Intn(100); {
			case x < 50:
				nextID++
				s.do(hx.Sprintf("push id=%d body=%s", nextID, genBody(r)))
			case x < 80:
				s.do(hx.Sprintf("trypop st=%s f=%s", genState(r), genFilter(r)))
			case x < 88:
				s.do(hx.Sprintf("pop rf=%d st=%s f=%s", r.Intn(2), genState(r), genFilter(r)))
			case x < 92:
				s.do("len")
			default:
				s.do(hx.Sprintf("prior %s %s %s", genState(r), genBody(r), genBody(r)))
			}
		}
		// drain: everything pushed must come out exactly once
		for i := 0; i < 40 && len(s.queued) > 0; i++ {
			s.do(hx.Sprintf("trypop st=%s f=any", genState(r)))
		}
		if len(s.queued) != 0 || s.q.Len() != 0 {
			s.violate("C14/queue-not-drained", hx.Sprintf("%d messages never returned", len(s.queued)))
		}
	}
	if *concurrent {
		concurrentCases(run, r)
	}
}

// concurrentCases: several producers push concurrently while one consumer pops; conservation oracle.
func concurrentCases(run *hx.Run, r *hx.Rng) {
	cases := run.N / 20
	if cases < 5 {
		cases = 5
	}
	for c := 0; c < cases; c++ {
		q := newQ(r.Pick(2, 8, 32))
		producers, per := 2+r.Intn(4), 20+r.Intn(60)
		var mu sync.Mutex
		pushed := map[*queue.DecodedSSVMessage]bool{}
		var wg sync.WaitGroup
		for p := 0; p < producers; p++ {
			wg.Add(1)
			seed := r.U64()
			go func() {
				defer wg.Done()
				pr := hx.NewRng(seed)
				for i := 0; i < per; i++ {
					m := mkMsg(genBody(pr))
					if pr.Chance(50) {
						if q.TryPush(m) {
							mu.Lock()
							pushed[m] = true
							mu.Unlock()
						}
					} else {
						mu.Lock()
						pushed[m] = true
						mu.Unlock()
						q.Push(m)
					}
				}
			}()
		}
		done := make(chan struct{})
		go func() { wg.Wait(); close(done) }()
		got := map[*queue.DecodedSSVMessage]int{}
		cr := hx.NewRng(r.U64())
		finished := false
		for !finished {
			select {
			case <-done:
				finished = true
			default:
			}
			st := parseState(genState(cr))
			var m *queue.DecodedSSVMessage
			flt := queue.FilterAny
			if cr.Chance(30) {
				flt = func(m *queue.DecodedSSVMessage) bool { _, ok := m.Body.(*specqbft.SignedMessage); return ok }
			}
			if cr.Chance(50) {
				m = q.TryPop(queue.NewMessagePrioritizer(st), flt)
			} else {
				ctx, cancel := context.WithTimeout(context.Background(), time.Millisecond)
				m = q.Pop(ctx, queue.NewMessagePrioritizer(st), flt)
				cancel()
			}
			if m != nil {
				if !flt(m) {
					run.Violate("C14/returned-message-not-admitted-by-filter", "concurrent case")
				}
				got[m]++
			}
		}
		for {
			m := q.TryPop(queue.NewMessagePrioritizer(parseState("1:100:1:64:3")), queue.FilterAny)
			if m == nil {
				break
			}
			got[m]++
		}
		mu.Lock()
		for m := range pushed {
			if got[m] != 1 {
				run.Violate("C14/concurrent-conservation", hx.Sprintf("a pushed message was returned %d times (producers=%d)", got[m], producers))
				break
			}
		}
		for m, n := range got {
			if !pushed[m] || n != 1 {
				run.Violate("C14/concurrent-conservation", hx.Sprintf("a message was returned %d times, pushed=%v", n, pushed[m]))
				break
			}
		}
		mu.Unlock()
		run.Tag("concurrent-case")
		run.Evals++
	}
}
