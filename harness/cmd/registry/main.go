// Harness for engine `registry` (properties C11 and C12).
//
// Drives the REAL eth/eventhandler.EventHandler over the REAL node storage (operator/storage,
// registry/storage), the REAL ekm key manager and the REAL ibft decided-history store, all on one
// Badger database, with ethtypes.Logs packed by the contract ABI. Every abstract fact that appears in an
// op line is produced by real cryptography: the owner signature is checked with the handler's own
// verifySignature, share keys are RSA-encrypted to real operator keys and decrypted with the node's own
// decrypter, share public keys are derived from the decrypted BLS secret.
//
// One op line + one canonical observation per processed block (diffed against the Lean model
// `m_registry` by bin/check); the implementation-side oracles (batching independence, restart
// reproduces, memory = database, crash/error-then-resume = uninterrupted run) never use the model.
package main

import (
	"bytes"
	"encoding/base64"
	"encoding/hex"
	"encoding/json"
	"errors"
	"fmt"
	"os"
	"sort"
	"strconv"
	"strings"

	"github.com/attestantio/go-eth2-client/spec/phase0"
	ekmcore "github.com/bloxapp/eth2-key-manager/core"
	spectypes "github.com/bloxapp/ssv-spec/types"
	ethabi "github.com/ethereum/go-ethereum/accounts/abi"
	ethcommon "github.com/ethereum/go-ethereum/common"
	ethtypes "github.com/ethereum/go-ethereum/core/types"
	"github.com/herumi/bls-eth-go-binary/bls"
	"go.uber.org/zap"

	"github.com/bloxapp/ssv/ekm"
	"github.com/bloxapp/ssv/eth/contract"
	"github.com/bloxapp/ssv/eth/eventhandler"
	"github.com/bloxapp/ssv/eth/eventparser"
	"github.com/bloxapp/ssv/eth/executionclient"
	ibftstorage "github.com/bloxapp/ssv/ibft/storage"
	"github.com/bloxapp/ssv/networkconfig"
	operatordatastore "github.com/bloxapp/ssv/operator/datastore"
	"github.com/bloxapp/ssv/operator/keys"
	operatorstorage "github.com/bloxapp/ssv/operator/storage"
	qbftstorage "github.com/bloxapp/ssv/protocol/v2/qbft/storage"
	ssvtypes "github.com/bloxapp/ssv/protocol/v2/types"
	registrystorage "github.com/bloxapp/ssv/registry/storage"
	"github.com/bloxapp/ssv/storage/basedb"
	"github.com/bloxapp/ssv/storage/kv"
	"github.com/bloxapp/ssv/zz_verif/lib/hx"
)

// ------------------------------------------------------------------------------------------------
// key material (generated once per run; everything else refers to it by small interned ids)

const (
	nRSA    = 14 // operator RSA keys; index 0 is the node's own key. RSA public key id = index+1
	nOwners = 3  // owner addresses: address id = index+1
	nAddr   = 5  // address pool (owners first, then extra fee recipients)
	nVal    = 6  // validator (master) BLS keys: validator pk id = index+1
	nShare  = 10 // share BLS keys: share key id = index+1
)

var (
	logger    = zap.NewNop()
	netCfg    = networkconfig.TestNetwork
	abi       *ethabi.ABI
	parser    *eventparser.EventParser
	rsaKeys   []keys.OperatorPrivateKey
	rsaPub    [][]byte // base64 public keys as stored in OperatorData.PublicKey
	rsaPubID  = map[string]int{}
	addrs     []ethcommon.Address
	addrID    = map[ethcommon.Address]int{}
	valSK     []*bls.SecretKey
	valPK     [][]byte
	valID     = map[string]int{}
	shareSK   []*bls.SecretKey
	sharePK   [][]byte
	shareID   = map[string]int{}
	blobOwn   [][]byte // share secret i (hex) encrypted to the node's own RSA key
	blobOther [][]byte // ... encrypted to RSA key 1 (not ours)
	blobNoHex []byte   // decrypts with our key, but not to a hex BLS secret
	junkPK    []byte   // 48 bytes that are not a BLS public key
	histRole  = spectypes.BNRoleAttester
)

func must(err error) {
	if err != nil {
		panic(err)
	}
}

func setupMaterial(r *hx.Rng) {
	must(bls.Init(bls.BLS12_381))
	must(bls.SetETHmode(bls.EthModeDraft07))
	a, err := contract.ContractMetaData.GetAbi()
	must(err)
	abi = a
	filterer, err := contract.NewContractFilterer(ethcommon.Address{}, nil)
	must(err)
	parser = eventparser.New(filterer)
	cached := loadRSACache()
	for i := 0; i < nRSA; i++ {
		var k keys.OperatorPrivateKey
		if i < len(cached) {
			k = cached[i]
		} else {
			var err error
			k, err = keys.GeneratePrivateKey()
			must(err)
		}
		rsaKeys = append(rsaKeys, k)
		p, err := k.Public().Base64()
		must(err)
		rsaPub = append(rsaPub, p)
		rsaPubID[string(p)] = i + 1
	}
	if len(cached) < nRSA {
		storeRSACache()
	}
	for i := 0; i < nAddr; i++ {
		var ad ethcommon.Address
		copy(ad[:], r.Bytes(20))
		addrs = append(addrs, ad)
		addrID[ad] = i + 1
	}
	for i := 0; i < nVal; i++ {
		sk := &bls.SecretKey{}
		sk.SetByCSPRNG()
		valSK = append(valSK, sk)
		pk := sk.GetPublicKey().Serialize()
		valPK = append(valPK, pk)
		valID[string(pk)] = i + 1
	}
	for i := 0; i < nShare; i++ {
		sk := &bls.SecretKey{}
		sk.SetByCSPRNG()
		shareSK = append(shareSK, sk)
		pk := sk.GetPublicKey().Serialize()
		sharePK = append(sharePK, pk)
		shareID[string(pk)] = i + 1
		b, err := rsaKeys[0].Public().Encrypt([]byte(sk.SerializeToHexStr()))
		must(err)
		blobOwn = append(blobOwn, b)
		b2, err := rsaKeys[1].Public().Encrypt([]byte(sk.SerializeToHexStr()))
		must(err)
		blobOther = append(blobOther, b2)
	}
	b, err := rsaKeys[0].Public().Encrypt([]byte("this is not a hexadecimal BLS secret"))
	must(err)
	blobNoHex = b
	junkPK = bytes.Repeat([]byte{0xff}, 48)
	valID[string(junkPK)] = 99
}

// RSA key generation dominates start-up; the operator keys are kept next to the stats file between invocations
// (they are test material; BLS keys, owners and everything derived from the seed are fresh every run).
var rsaCachePath string

func loadRSACache() []keys.OperatorPrivateKey {
	if rsaCachePath == "" {
		return nil
	}
	raw, err := os.ReadFile(rsaCachePath)
	if err != nil {
		return nil
	}
	var out []keys.OperatorPrivateKey
	for _, line := range strings.Split(string(raw), "\n") {
		if line == "" {
			continue
		}
		k, err := keys.PrivateKeyFromString(line)
		if err != nil {
			return nil
		}
		out = append(out, k)
	}
	return out
}

func storeRSACache() {
	if rsaCachePath == "" {
		return
	}
	var sb strings.Builder
	for _, k := range rsaKeys {
		sb.WriteString(base64.StdEncoding.EncodeToString(k.Bytes()))
		sb.WriteString("\n")
	}
	_ = os.WriteFile(rsaCachePath, []byte(sb.String()), 0o600)
}

func idOfAddr(a ethcommon.Address) int {
	if id, ok := addrID[a]; ok {
		return id
	}
	id := 1000 + len(addrID)
	addrID[a] = id
	return id
}
func idOfRSA(pk []byte) int {
	if id, ok := rsaPubID[string(pk)]; ok {
		return id
	}
	id := 1000 + len(rsaPubID)
	rsaPubID[string(pk)] = id
	return id
}
func idOfVal(pk []byte) int {
	if id, ok := valID[string(pk)]; ok {
		return id
	}
	id := 1000 + len(valID)
	valID[string(pk)] = id
	return id
}
func idOfShare(pk []byte) int {
	if len(pk) == 0 {
		return 0
	}
	if id, ok := shareID[string(pk)]; ok {
		return id
	}
	id := 1000 + len(shareID)
	shareID[string(pk)] = id
	return id
}

// ------------------------------------------------------------------------------------------------
// fault-injecting database / transaction / key-manager / history-store wrappers (also record the write trace)

type crashSignal struct{}

type errInjected struct{}

func (errInjected) Error() string { return "verif: injected failure" }

// faultCtl is shared by all wrappers of one simulated process.
type faultCtl struct {
	armed    bool   // count/record only while a block is being processed
	mode     string // "" | "crash" | "error"
	at       int    // fault at this index over ALL real writes (transactional, direct, commit) of the block; -1 none
	atModel  int    // fault at the first modelled write once this many modelled writes are done; -1 none
	kmAt     int    // an injected error is returned by the key-manager call with this index; -1 none
	n        int    // writes seen so far
	kmN      int    // key-manager calls seen so far
	trace    []string
	modelled int // number of modelled writes done
	fired    bool
	hitKind  string // kind of the write that was hit
	prevKind string // kind of the last modelled write before the hit
	readAt   int    // measurement only: the transactional GetMany with this index returns an error; -1 none
	readN    int
}

func (c *faultCtl) clearFault() { c.mode, c.at, c.atModel, c.kmAt, c.readAt = "", -1, -1, -1, -1 }

// writes of the slashing-protection records are not part of the modelled state (they depend on the wall clock)
var unmodelled = map[string]bool{"sp": true}

// classify maps a raw database key to the write kind of the model's micro-step list.
func classify(prefix, key []byte, del bool) string {
	full := string(prefix) + string(key)
	switch {
	case strings.HasPrefix(full, "operator/recipients/"):
		return "R"
	case strings.HasPrefix(full, "operator/operators/"):
		return "O"
	case strings.HasPrefix(full, "operator/shares/"):
		if del {
			return "D"
		}
		return "S"
	case strings.HasPrefix(full, "operator/syncOffset"):
		return "M"
	case strings.Contains(full, "highest_att") || strings.Contains(full, "highest_prop"):
		return "sp"
	case strings.Contains(full, "accounts"):
		if del {
			return "dacc"
		}
		return "acc"
	case strings.Contains(full, "wallet"):
		return "wal"
	case strings.HasPrefix(full, histRole.String()):
		if strings.Contains(full, "highest_instance") {
			return "ch"
		}
		return "ci"
	}
	return "?" + full
}

func (c *faultCtl) write(kind string) error {
	if !c.armed {
		return nil
	}
	idx := c.n
	c.n++
	hit := c.mode != "" && !c.fired && (idx == c.at || (c.atModel >= 0 && !unmodelled[kind] && c.modelled == c.atModel))
	if hit {
		c.fired = true
		c.hitKind = kind
		if len(c.trace) > 0 {
			for i := len(c.trace) - 1; i >= 0; i-- {
				if !unmodelled[c.trace[i]] {
					c.prevKind = c.trace[i]
					break
				}
			}
		}
		if c.mode == "crash" {
			panic(crashSignal{})
		}
		return errInjected{}
	}
	c.trace = append(c.trace, kind)
	if !unmodelled[kind] {
		c.modelled++
	}
	return nil
}

type faultDB struct {
	basedb.Database
	c *faultCtl
}

func (d *faultDB) Begin() basedb.Txn { return &faultTxn{Txn: d.Database.Begin(), c: d.c, db: d} }
func (d *faultDB) Using(rw basedb.ReadWriter) basedb.ReadWriter {
	if rw == nil {
		return d
	}
	return rw
}
func (d *faultDB) UsingReader(r basedb.Reader) basedb.Reader {
	if r == nil {
		return d
	}
	return r
}
func (d *faultDB) Set(prefix, key, value []byte) error {
	if err := d.c.write(classify(prefix, key, false)); err != nil {
		return err
	}
	return d.Database.Set(prefix, key, value)
}
func (d *faultDB) Delete(prefix, key []byte) error {
	if err := d.c.write(classify(prefix, key, true)); err != nil {
		return err
	}
	return d.Database.Delete(prefix, key)
}
func (d *faultDB) DeletePrefix(prefix []byte) (int, error) {
	if err := d.c.write(classify(prefix, nil, true)); err != nil {
		return 0, err
	}
	return d.Database.DeletePrefix(prefix)
}

// SetMany: the REAL database's SetMany, fault points in the item callback (see faultTxn.SetMany)
func (d *faultDB) SetMany(prefix []byte, n int, next func(int) (basedb.Obj, error)) error {
	return d.Database.SetMany(prefix, n, func(i int) (basedb.Obj, error) {
		o, err := next(i)
		if err != nil {
			return o, err
		}
		if err := d.c.write(classify(prefix, o.Key, false)); err != nil {
			return basedb.Obj{}, err
		}
		return o, nil
	})
}

type faultTxn struct {
	basedb.Txn
	c  *faultCtl
	db *faultDB
}

func (t *faultTxn) Set(prefix, key, value []byte) error {
	if err := t.c.write(classify(prefix, key, false)); err != nil {
		return err
	}
	return t.Txn.Set(prefix, key, value)
}

// SetMany runs the REAL transaction's SetMany (the code under test builds the keys and stores the items); the fault
// point of item i sits in the item callback, i.e. in front of the i-th write of the batch.
func (t *faultTxn) SetMany(prefix []byte, n int, next func(int) (basedb.Obj, error)) error {
	return t.Txn.SetMany(prefix, n, func(i int) (basedb.Obj, error) {
		o, err := next(i)
		if err != nil {
			return o, err
		}
		if err := t.c.write(classify(prefix, o.Key, false)); err != nil {
			return basedb.Obj{}, err
		}
		return o, nil
	})
}
func (t *faultTxn) Delete(prefix, key []byte) error {
	if err := t.c.write(classify(prefix, key, true)); err != nil {
		return err
	}
	return t.Txn.Delete(prefix, key)
}
func (t *faultTxn) GetMany(prefix []byte, keys [][]byte, iterator func(basedb.Obj) error) error {
	if t.c.armed {
		idx := t.c.readN
		t.c.readN++
		if t.c.readAt == idx && !t.c.fired {
			t.c.fired = true
			t.c.hitKind = "read"
			return errInjected{}
		}
	}
	return t.Txn.GetMany(prefix, keys, iterator)
}

func (t *faultTxn) Commit() error {
	if err := t.c.write("C"); err != nil {
		return err
	}
	return t.Txn.Commit()
}

// faultKM wraps the real key manager (spectypes.KeyManager + ekm.StorageProvider): an injected error makes the
// c-th key-manager call of a block fail before it does anything.
type faultKM struct {
	spectypes.KeyManager
	sp ekm.StorageProvider
	c  *faultCtl
}

func (k *faultKM) call() error {
	if !k.c.armed {
		return nil
	}
	idx := k.c.kmN
	k.c.kmN++
	if k.c.mode == "error" && !k.c.fired && k.c.kmAt == idx {
		k.c.fired = true
		k.c.hitKind = "km"
		return errInjected{}
	}
	return nil
}
func (k *faultKM) AddShare(sk *bls.SecretKey) error {
	if err := k.call(); err != nil {
		return err
	}
	return k.KeyManager.AddShare(sk)
}
func (k *faultKM) RemoveShare(pk string) error {
	if err := k.call(); err != nil {
		return err
	}
	return k.KeyManager.RemoveShare(pk)
}
func (k *faultKM) ListAccounts() ([]ekmcore.ValidatorAccount, error) { return k.sp.ListAccounts() }
func (k *faultKM) RetrieveHighestAttestation(pk []byte) (*phase0.AttestationData, bool, error) {
	return k.sp.RetrieveHighestAttestation(pk)
}
func (k *faultKM) RetrieveHighestProposal(pk []byte) (phase0.Slot, bool, error) {
	return k.sp.RetrieveHighestProposal(pk)
}
func (k *faultKM) BumpSlashingProtection(pk []byte) error {
	if err := k.call(); err != nil {
		return err
	}
	return k.sp.BumpSlashingProtection(pk)
}

// ------------------------------------------------------------------------------------------------
// recording task executor and metrics

type recExec struct{ tasks []string }

func sharePKs(l []*ssvtypes.SSVShare) string {
	ids := make([]int, len(l))
	for i, s := range l {
		ids[i] = idOfVal(s.ValidatorPubKey)
	}
	sort.Ints(ids)
	return joinInts(ids)
}
func joinInts(v []int) string {
	if len(v) == 0 {
		return "-"
	}
	s := make([]string, len(v))
	for i, x := range v {
		s[i] = strconv.Itoa(x)
	}
	return strings.Join(s, ",")
}
func sortedU64(v []uint64) string {
	c := append([]uint64{}, v...)
	sort.Slice(c, func(i, j int) bool { return c[i] < c[j] })
	return u64s(c)
}

func (x *recExec) StartValidator(s *ssvtypes.SSVShare) error {
	x.tasks = append(x.tasks, fmt.Sprintf("start:%d", idOfVal(s.ValidatorPubKey)))
	return nil
}
func (x *recExec) StopValidator(pk spectypes.ValidatorPK) error {
	x.tasks = append(x.tasks, fmt.Sprintf("stop:%d", idOfVal(pk)))
	return nil
}
func (x *recExec) LiquidateCluster(o ethcommon.Address, ids []uint64, l []*ssvtypes.SSVShare) error {
	x.tasks = append(x.tasks, fmt.Sprintf("liq:%d:%s:%s", idOfAddr(o), sortedU64(ids), sharePKs(l)))
	return nil
}
func (x *recExec) ReactivateCluster(o ethcommon.Address, ids []uint64, l []*ssvtypes.SSVShare) error {
	x.tasks = append(x.tasks, fmt.Sprintf("react:%d:%s:%s", idOfAddr(o), sortedU64(ids), sharePKs(l)))
	return nil
}
func (x *recExec) UpdateFeeRecipient(o, rcp ethcommon.Address) error {
	x.tasks = append(x.tasks, fmt.Sprintf("fee:%d:%d", idOfAddr(o), idOfAddr(rcp)))
	return nil
}
func (x *recExec) ExitValidator(pk phase0.BLSPubKey, blk uint64, idx phase0.ValidatorIndex) error {
	x.tasks = append(x.tasks, fmt.Sprintf("exit:%d:%d:%d", idOfVal(pk[:]), blk, idx))
	return nil
}

type recMetrics struct{ out []byte }

func (m *recMetrics) OperatorPublicKey(spectypes.OperatorID, []byte) {}
func (m *recMetrics) ValidatorInactive([]byte)                       {}
func (m *recMetrics) ValidatorError([]byte)                          {}
func (m *recMetrics) ValidatorRemoved([]byte)                        {}
func (m *recMetrics) EventProcessed(string)                          { m.out = append(m.out, 'P') }
func (m *recMetrics) EventProcessingFailed(string)                   { m.out = append(m.out, 'F') }

// ------------------------------------------------------------------------------------------------
// one simulated node process over a database

type proc struct {
	raw   basedb.Database
	ctl   *faultCtl
	db    *faultDB
	ns    operatorstorage.Storage
	ods   operatordatastore.OperatorDataStore
	km    spectypes.KeyManager
	store qbftstorage.QBFTStore
	eh    *eventhandler.EventHandler
	exec  *recExec
	met   *recMetrics
}

// startProc does what cli/operator/node.go does at start-up, on the given (surviving) database.
func startProc(raw basedb.Database) *proc {
	p := &proc{raw: raw, ctl: &faultCtl{kmAt: -1, at: -1, atModel: -1, readAt: -1}, exec: &recExec{}, met: &recMetrics{}}
	p.db = &faultDB{Database: raw, c: p.ctl}
	ns, err := operatorstorage.NewNodeStorage(logger, p.db)
	must(err)
	p.ns = ns
	od, found, err := ns.GetOperatorDataByPubKey(nil, rsaPub[0])
	must(err)
	if !found {
		od = &registrystorage.OperatorData{PublicKey: rsaPub[0]}
	}
	p.ods = operatordatastore.New(od)
	km, err := ekm.NewETHKeyManagerSigner(logger, p.db, netCfg, true, "")
	must(err)
	p.km = &faultKM{KeyManager: km, sp: km.(ekm.StorageProvider), c: p.ctl}
	stores := ibftstorage.NewStores()
	p.store = ibftstorage.New(p.db, histRole.String())
	stores.Add(histRole, p.store)
	eh, err := eventhandler.New(ns, parser, p.exec, netCfg, p.ods, rsaKeys[0], p.km, nil, stores,
		eventhandler.WithFullNode(), eventhandler.WithLogger(logger), eventhandler.WithMetrics(p.met))
	must(err)
	p.eh = eh
	return p
}

func newMemDB() basedb.Database {
	db, err := kv.NewInMemory(logger, basedb.Options{})
	must(err)
	return db
}

// ------------------------------------------------------------------------------------------------
// canonical observations

func shareString(s *ssvtypes.SSVShare) string {
	cm := make([]string, len(s.Committee))
	for i, m := range s.Committee {
		cm[i] = fmt.Sprintf("%d/%d", m.OperatorID, idOfShare(m.PubKey))
	}
	own := "-"
	if len(s.SharePubKey) > 0 {
		own = strconv.Itoa(idOfShare(s.SharePubKey))
	}
	meta := "-"
	if s.BeaconMetadata != nil {
		meta = strconv.FormatUint(uint64(s.BeaconMetadata.Index), 10)
	}
	return fmt.Sprintf("%d:%d:%d:%s:%d:%s:%s", idOfVal(s.ValidatorPubKey), idOfAddr(s.OwnerAddress), s.OperatorID, own, b2i(s.Liquidated), meta, strings.Join(cm, ","))
}

func sharesString(ns operatorstorage.Storage) string {
	l := ns.Shares().List(nil)
	type kv struct {
		id int
		s  string
	}
	var xs []kv
	for _, s := range l {
		xs = append(xs, kv{idOfVal(s.ValidatorPubKey), shareString(s)})
	}
	sort.Slice(xs, func(i, j int) bool { return xs[i].id < xs[j].id })
	o := make([]string, len(xs))
	for i, x := range xs {
		o[i] = x.s
	}
	return "S[" + strings.Join(o, ";") + "]"
}

func memView(p *proc) string {
	return sharesString(p.ns) + "self=" + strconv.FormatUint(p.ods.GetOperatorID(), 10)
}

// dbView reads the database the way a restarted process would (fresh storages over the same database).
func dbView(raw basedb.Database) string {
	ns, err := operatorstorage.NewNodeStorage(logger, raw)
	must(err)
	var sb strings.Builder
	sb.WriteString(sharesString(ns))
	ops, err := ns.ListOperators(nil, 0, 0)
	must(err)
	sort.Slice(ops, func(i, j int) bool { return ops[i].ID < ops[j].ID })
	os := make([]string, len(ops))
	for i, o := range ops {
		os[i] = fmt.Sprintf("%d:%d:%d", o.ID, idOfRSA(o.PublicKey), idOfAddr(o.OwnerAddress))
	}
	sb.WriteString("O[" + strings.Join(os, ";") + "]")
	var rs []string
	for i := 0; i < nAddr; i++ {
		rd, found, err := ns.GetRecipientData(nil, addrs[i])
		must(err)
		if !found {
			continue
		}
		nonce := "-"
		if rd.Nonce != nil {
			nonce = strconv.Itoa(int(*rd.Nonce))
		}
		rs = append(rs, fmt.Sprintf("%d:%d:%s", idOfAddr(rd.Owner), idOfAddr(ethcommon.Address(rd.FeeRecipient)), nonce))
	}
	sb.WriteString("R[" + strings.Join(rs, ";") + "]")
	lpb, found, err := ns.GetLastProcessedBlock(nil)
	must(err)
	if found {
		sb.WriteString("M=" + lpb.String())
	} else {
		sb.WriteString("M=-")
	}
	// key-manager storage: account records and the persisted wallet index
	st := ekm.NewSignerStorage(raw, netCfg.Beacon, logger)
	accs, err := st.ListAccounts()
	must(err)
	var ks []int
	for _, a := range accs {
		ks = append(ks, idOfShare(a.ValidatorPublicKey()))
	}
	sort.Ints(ks)
	sb.WriteString("W[" + joinInts(ks) + "]")
	var ix []int
	if w, err := st.OpenWallet(); err == nil && w != nil {
		raw, err := json.Marshal(w)
		must(err)
		var wj struct {
			IndexMapper map[string]string `json:"indexMapper"`
		}
		must(json.Unmarshal(raw, &wj))
		for k := range wj.IndexMapper {
			b, err := hex.DecodeString(k)
			must(err)
			ix = append(ix, idOfShare(b))
		}
	}
	sort.Ints(ix)
	sb.WriteString("I[" + joinInts(ix) + "]")
	// decided history
	hs := ibftstorage.New(raw, histRole.String())
	var hi, hh []int
	for i := 0; i < nVal; i++ {
		id := spectypes.NewMsgID(netCfg.Domain, valPK[i], histRole)
		if inst, err := hs.GetInstance(id[:], 1); err == nil && inst != nil {
			hi = append(hi, i+1)
		}
		if inst, err := hs.GetHighestInstance(id[:]); err == nil && inst != nil {
			hh = append(hh, i+1)
		}
	}
	sb.WriteString("H[" + joinInts(hi) + "|" + joinInts(hh) + "]")
	od, found, err := ns.GetOperatorDataByPubKey(nil, rsaPub[0])
	must(err)
	rself := uint64(0)
	if found {
		rself = od.ID
	}
	sb.WriteString("rself=" + strconv.FormatUint(rself, 10))
	return sb.String()
}

// ------------------------------------------------------------------------------------------------
// processing one block on the real handler

type blockResult struct {
	status string // ok | refused | failed | panic | crashed
	out    string
	tasks  string
	trace  string
}

func (p *proc) processBlock(num uint64, evs []*event) (res blockResult) {
	logs := make([]ethtypes.Log, len(evs))
	for i, e := range evs {
		logs[i] = buildLog(e, num, uint(i))
	}
	p.exec.tasks, p.met.out = nil, nil
	p.ctl.readN, p.ctl.n, p.ctl.kmN, p.ctl.trace, p.ctl.modelled, p.ctl.fired, p.ctl.hitKind, p.ctl.prevKind = 0, 0, 0, nil, 0, false, "", ""
	p.ctl.armed = true
	ch := make(chan executionclient.BlockLogs, 1)
	ch <- executionclient.BlockLogs{BlockNumber: num, Logs: logs}
	close(ch)
	func() {
		defer func() {
			p.ctl.armed = false
			if r := recover(); r != nil {
				if _, ok := r.(crashSignal); ok {
					res.status = "crashed"
				} else {
					res.status = "panic"
				}
			}
		}()
		_, err := p.eh.HandleBlockEventsStream(ch, true)
		switch {
		case err == nil:
			res.status = "ok"
		case errors.Is(err, eventhandler.ErrInferiorBlock):
			res.status = "refused"
		default:
			res.status = "failed"
		}
	}()
	res.out = string(p.met.out)
	if res.out == "" {
		res.out = "-"
	}
	res.tasks = strings.Join(p.exec.tasks, ",")
	if res.tasks == "" {
		res.tasks = "-"
	}
	var tr []string
	for _, k := range p.ctl.trace {
		if !unmodelled[k] {
			tr = append(tr, k)
		}
	}
	res.trace = strings.Join(tr, ",")
	if res.trace == "" {
		res.trace = "-"
	}
	return
}
