package main

// Generator of event histories. A light shadow of the registry (which operators / validators the generated
// history has registered so far, the nonce each owner is expected to sign next) is kept ONLY to make most
// events valid; it is never used as an oracle. Malformed variants flip exactly one fact of an otherwise
// valid event.

import (
	"sort"

	"github.com/bloxapp/ssv/zz_verif/lib/hx"
)

type shadowVal struct {
	owner int
	ops   []uint64
}

type shadow struct {
	ops    map[uint64]int // operator id -> RSA key id
	opIDs  []uint64
	own    uint64 // id under which the own key was registered (0: not yet)
	nonce  map[int]int
	vals   map[int]*shadowVal
	nextOp uint64
}

func newShadow() *shadow {
	return &shadow{ops: map[uint64]int{}, nonce: map[int]int{}, vals: map[int]*shadowVal{}, nextOp: 1}
}

type genCfg struct {
	adversarial bool // duplicate operator ids / operator id 0 (inputs the contract itself never emits)
	big         bool // register 13 operators so that committees of 7, 10, 13 occur
	noTopics    bool // contains a log without topics
	focusOwn    bool // C12: mostly own validators, removals, liquidations
	valRange    int  // validators are drawn from 1..valRange (0: the whole pool)
}

func (sh *shadow) addOp(id uint64, rsa int) {
	if _, ok := sh.ops[id]; !ok {
		sh.ops[id] = rsa
		sh.opIDs = append(sh.opIDs, id)
		sort.Slice(sh.opIDs, func(i, j int) bool { return sh.opIDs[i] < sh.opIDs[j] })
		if rsa == 1 && sh.own == 0 {
			sh.own = id
		}
	}
}

func (sh *shadow) genOA(r *hx.Rng, cfg genCfg, run *hx.Run) *event {
	e := &event{Kind: "OA", Owner: 1 + r.Intn(nOwners)}
	e.ID = sh.nextOp
	e.RSA = 2 + r.Intn(nRSA-1)
	c := r.Intn(100)
	switch {
	case sh.own == 0 && c < 45:
		e.RSA = 1 // the node's own key
		run.Tag("oa:own")
	case sh.own != 0 && c < 6:
		e.RSA = 1 // own key again under another id: ErrAlreadyRegistered
		run.Tag("oa:own-again")
	case c < 12 && len(sh.opIDs) > 0:
		e.ID = sh.opIDs[r.Intn(len(sh.opIDs))] // id of an already stored operator: ignored
		run.Tag("oa:existing-id")
	default:
		run.Tag("oa:new")
	}
	if cfg.adversarial {
		switch r.Intn(6) {
		case 0:
			e.ID = 0
			if r.Bool() {
				e.RSA = 1
			}
			run.Tag("oa:id-zero")
		case 1:
			if len(sh.opIDs) > 0 {
				e.ID = sh.opIDs[len(sh.opIDs)-1] // most recent id again (likely in the same block)
				if r.Bool() {
					e.RSA = 1
				}
				run.Tag("oa:dup-recent-id")
			}
		}
	}
	if e.ID == sh.nextOp {
		sh.nextOp++
	}
	if !(sh.own != 0 && e.RSA == 1 && e.ID != sh.own) {
		sh.addOp(e.ID, e.RSA)
	}
	return e
}

func (sh *shadow) pickCommittee(r *hx.Rng, size int, withOwn bool) []uint64 {
	var pool []uint64
	for _, id := range sh.opIDs {
		if id != sh.own {
			pool = append(pool, id)
		}
	}
	perm := r.Perm(len(pool))
	var c []uint64
	if withOwn && sh.own != 0 {
		c = append(c, sh.own)
	}
	for _, i := range perm {
		if len(c) >= size {
			break
		}
		c = append(c, pool[i])
	}
	for len(c) < size { // not enough registered operators: fill with unknown ids
		c = append(c, 900+uint64(len(c)))
	}
	// random order
	p2 := r.Perm(len(c))
	o := make([]uint64, len(c))
	for i, j := range p2 {
		o[i] = c[j]
	}
	return o
}

func (sh *shadow) genVA(r *hx.Rng, cfg genCfg, run *hx.Run) *event {
	e := &event{Kind: "VA", Owner: 1 + r.Intn(nOwners), Val: 1 + r.Intn(nVal), Len: -1}
	if cfg.valRange > 0 {
		e.Val = 1 + r.Intn(cfg.valRange)
		e.Owner = 1 + r.Intn(2)
	}
	size := 4
	if len(sh.opIDs) >= 7 {
		size = r.Pick(4, 4, 7, 7, 10, 13)
		if size > len(sh.opIDs) {
			size = 7
		}
	}
	withOwn := r.Chance(65) || cfg.focusOwn
	ops := sh.pickCommittee(r, size, withOwn)
	for i, o := range ops {
		m := member{Op: o, Key: 1 + (e.Val*3+i)%nShare}
		if o == sh.own && sh.own != 0 {
			m.Dec, m.KM = true, true
		}
		e.Mem = append(e.Mem, m)
	}
	e.SN = sh.nonce[e.Owner] % 65536
	variant := "valid"
	if r.Chance(38) && !cfg.focusOwn || cfg.focusOwn && r.Chance(12) {
		switch r.Intn(14) {
		case 0:
			e.SN, e.SigAlt, variant = -1, r.Intn(2), "bad-signature"
		case 1:
			if e.SN > 0 {
				e.SN, variant = r.Intn(e.SN), "replayed-nonce"
			} else {
				e.SN, variant = 1, "future-nonce"
			}
		case 2:
			e.SN, e.SigAlt, variant = -1, 2, "wrong-owner-signed"
		case 3:
			if len(e.Mem) > 1 {
				e.Mem[1].Op = e.Mem[0].Op
				variant = "duplicate-operator"
			}
		case 4:
			e.Mem[r.Intn(len(e.Mem))].Op = 700 + uint64(r.Intn(5))
			variant = "unknown-operator"
		case 5:
			n := r.Pick(1, 2, 3, 5, 6, 8)
			for len(e.Mem) > n {
				e.Mem = e.Mem[:len(e.Mem)-1]
			}
			for len(e.Mem) < n {
				e.Mem = append(e.Mem, member{Op: 600 + uint64(len(e.Mem)), Key: 1})
			}
			variant = "invalid-committee-size"
		case 6:
			e.Mem = nil
			variant = "no-operators"
		case 7:
			for len(e.Mem) < 14+r.Intn(3) {
				e.Mem = append(e.Mem, member{Op: 500 + uint64(len(e.Mem)), Key: 1})
			}
			variant = "too-many-operators"
		case 8:
			exact := 96 + len(e.Mem)*(48+256)
			e.Len = exact + r.Pick(-1, 1, -256, 256, -48, 7, -exact, -exact+50)
			if e.Len < 0 {
				e.Len = 0
			}
			variant = "bad-share-length"
		case 9:
			for i := range e.Mem {
				if e.Mem[i].Dec {
					e.Mem[i].Dec, e.Mem[i].KM, e.Mem[i].Alt = false, false, r.Intn(3)
					variant = "undecryptable-key"
				}
			}
		case 10:
			for i := range e.Mem {
				if e.Mem[i].Dec {
					e.Mem[i].KM = false
					variant = "mismatching-key"
				}
			}
		case 11:
			e.Val, e.SN = 99, -1
			variant = "junk-validator-key"
		case 12:
			// another owner registers an existing validator (its own nonce is fine)
			vs := make([]int, 0, len(sh.vals))
			for v := range sh.vals {
				vs = append(vs, v)
			}
			sort.Ints(vs)
			for _, v := range vs {
				if sh.vals[v].owner != e.Owner {
					e.Val = v
					variant = "existing-validator-other-owner"
					break
				}
			}
		case 13:
			// non-own member happens to be decryptable by us: must not matter
			for i := range e.Mem {
				if !e.Mem[i].Dec {
					e.Mem[i].Dec, e.Mem[i].KM = true, r.Bool()
					variant = "foreign-member-decryptable"
					break
				}
			}
		}
	}
	run.Tag("va:" + variant)
	// shadow: every parsed ValidatorAdded bumps the nonce; a valid one registers the validator
	sh.nonce[e.Owner]++
	if variant == "valid" || variant == "foreign-member-decryptable" {
		if _, ok := sh.vals[e.Val]; !ok {
			known := true
			for _, m := range e.Mem {
				if _, ok := sh.ops[m.Op]; !ok {
					known = false
				}
			}
			if known {
				o := make([]uint64, len(e.Mem))
				for i, m := range e.Mem {
					o[i] = m.Op
				}
				sh.vals[e.Val] = &shadowVal{owner: e.Owner, ops: o}
			}
		}
	}
	return e
}

// genVASameCluster: a valid ValidatorAdded for a validator that is not registered yet, with the owner and the
// operator set (in a fresh random order) of a registered one — so that clusters hold several validators and
// ClusterLiquidated / ClusterReactivated save several shares in one call.
func (sh *shadow) genVASameCluster(r *hx.Rng, cfg genCfg, run *hx.Run) *event {
	_, sv := sh.anyVal(r)
	free := 0
	for v := 1; v <= nVal; v++ {
		if _, ok := sh.vals[v]; !ok {
			free = v
			if r.Bool() {
				break
			}
		}
	}
	if sv == nil || free == 0 {
		return sh.genVA(r, cfg, run)
	}
	e := &event{Kind: "VA", Owner: sv.owner, Val: free, Len: -1, SN: sh.nonce[sv.owner] % 65536}
	for i, o := range shuffled(r, sv.ops) {
		m := member{Op: o, Key: 1 + (free*3+i)%nShare}
		if o == sh.own && sh.own != 0 {
			m.Dec, m.KM = true, true
		}
		e.Mem = append(e.Mem, m)
	}
	sh.nonce[e.Owner]++
	sh.vals[free] = &shadowVal{owner: sv.owner, ops: append([]uint64{}, sv.ops...)}
	run.Tag("va:same-cluster")
	return e
}

func (sh *shadow) anyVal(r *hx.Rng) (int, *shadowVal) {
	if len(sh.vals) == 0 {
		return 0, nil
	}
	ks := make([]int, 0, len(sh.vals))
	for k := range sh.vals {
		ks = append(ks, k)
	}
	sort.Ints(ks)
	k := ks[r.Intn(len(ks))]
	return k, sh.vals[k]
}

func shuffled(r *hx.Rng, v []uint64) []uint64 {
	o := make([]uint64, len(v))
	for i, j := range r.Perm(len(v)) {
		o[i] = v[j]
	}
	return o
}

func (sh *shadow) genEvent(r *hx.Rng, cfg genCfg, run *hx.Run) *event {
	need := 4
	if cfg.big {
		need = 13
	}
	if len(sh.opIDs) < need && r.Chance(85) {
		return sh.genOA(r, cfg, run)
	}
	c := r.Intn(100)
	switch {
	case c < 8:
		return sh.genOA(r, cfg, run)
	case c < 12:
		e := &event{Kind: "OR", ID: uint64(1 + r.Intn(int(sh.nextOp)+1))}
		run.Tag("or")
		return e
	case c < 40:
		return sh.genVA(r, cfg, run)
	case c < 52: // another validator in the cluster (same owner, same operator set) of a registered validator
		return sh.genVASameCluster(r, cfg, run)
	case c < 64: // removal
		v, sv := sh.anyVal(r)
		e := &event{Kind: "VR", Owner: 1 + r.Intn(nOwners), Val: 1 + r.Intn(nVal)}
		if sv != nil && r.Chance(80) {
			e.Val, e.Ops = v, shuffled(r, sv.ops)
			if r.Chance(75) {
				e.Owner = sv.owner
				delete(sh.vals, v)
				run.Tag("vr:owner")
			} else {
				run.Tag("vr:maybe-wrong-owner")
			}
		} else {
			run.Tag("vr:random")
		}
		return e
	case c < 72: // exit
		v, sv := sh.anyVal(r)
		e := &event{Kind: "VE", Owner: 1 + r.Intn(nOwners), Val: 1 + r.Intn(nVal)}
		if sv != nil && r.Chance(80) {
			e.Val, e.Ops = v, sv.ops
			if r.Chance(75) {
				e.Owner = sv.owner
			}
		}
		run.Tag("ve")
		return e
	case c < 86: // liquidation / reactivation
		_, sv := sh.anyVal(r)
		if r.Bool() { // prefer a cluster (owner + operator set) that holds several validators
			best := 0
			for _, cand := range sh.vals {
				n := 0
				for _, other := range sh.vals {
					if other.owner == cand.owner && sameSet(other.ops, cand.ops) {
						n++
					}
				}
				if n > best || (n == best && sv != nil && cand.owner < sv.owner) {
					best, sv = n, cand
				}
			}
		}
		e := &event{Kind: pick2(r, "CL", "CR"), Owner: 1 + r.Intn(nOwners)}
		if sv != nil && r.Chance(85) {
			e.Ops = shuffled(r, sv.ops)
			if r.Chance(85) {
				e.Owner = sv.owner
			}
			if r.Chance(8) && len(e.Ops) > 1 {
				e.Ops[0] = e.Ops[1] // duplicate id: never a cluster of a stored share
			}
		} else {
			e.Ops = []uint64{1, 2, 3, 4}
		}
		run.Tag("cluster:" + e.Kind)
		return e
	case c < 95:
		e := &event{Kind: "FR", Owner: 1 + r.Intn(nOwners), Fee: 1 + r.Intn(nAddr)}
		run.Tag("fr")
		return e
	case c < 97:
		run.Tag("unparsable")
		return &event{Kind: "UP"}
	default:
		run.Tag("unknown-topic")
		return &event{Kind: "UK"}
	}
}

// item of a generated history: an event, or an operation that is not a contract event (forces a block boundary)
type item struct {
	ev  *event
	op  string // "restart" | "setmeta" | "hist" | "seedrec"
	arg []int
}

func genHistory(r *hx.Rng, cfg genCfg, run *hx.Run, n int) []item {
	sh := newShadow()
	var items []item
	if r.Chance(6) { // start an owner just below the uint16 wrap of its nonce
		o := 1 + r.Intn(nOwners)
		nn := 65533 + r.Intn(3)
		items = append(items, item{op: "seedrec", arg: []int{o, o, nn}})
		sh.nonce[o] = nn + 1
		run.Tag("seed:nonce-near-wrap")
	}
	for len(items) < n {
		c := r.Intn(100)
		switch {
		case c < 5:
			items = append(items, item{op: "restart"})
		case c < 10 && len(sh.vals) > 0:
			v, _ := sh.anyVal(r)
			items = append(items, item{op: "setmeta", arg: []int{v, 100 + r.Intn(50)}})
		case c < 14 && len(sh.vals) > 0:
			v, _ := sh.anyVal(r)
			items = append(items, item{op: "hist", arg: []int{v}})
		default:
			items = append(items, item{ev: sh.genEvent(r, cfg, run)})
		}
	}
	if cfg.noTopics {
		pos := r.Intn(len(items) + 1)
		items = append(items[:pos], append([]item{{ev: &event{Kind: "NT"}}}, items[pos:]...)...)
	}
	return items
}

// batching: cuts[i] = true means a block boundary in front of item i
func genCuts(r *hx.Rng, items []item, density int) []bool {
	cuts := make([]bool, len(items)+1)
	for i := range items {
		if i == 0 || items[i].ev == nil || items[i-1].ev == nil || r.Chance(density) {
			cuts[i] = true
		}
	}
	cuts[len(items)] = true
	return cuts
}

func pick2(r *hx.Rng, a, b string) string {
	if r.Bool() {
		return a
	}
	return b
}

// genHistoryC12: operators first (the own key among them), then the life cycle of a few validators that are
// mostly the node's own: add, store decided history, metadata, liquidate, reactivate, exit, remove, add again.
func genHistoryC12(r *hx.Rng, run *hx.Run) []item {
	sh := newShadow()
	cfg := genCfg{focusOwn: true, valRange: 3}
	var items []item
	nOps := r.Pick(4, 4, 4, 5, 7)
	ownPos := r.Intn(4)
	for i := 0; i < nOps; i++ {
		e := &event{Kind: "OA", ID: uint64(i + 1), Owner: 1 + r.Intn(nOwners), RSA: 2 + r.Intn(nRSA-1)}
		if i == ownPos && r.Chance(92) {
			e.RSA = 1
		}
		sh.addOp(e.ID, e.RSA)
		sh.nextOp = e.ID + 1
		items = append(items, item{ev: e})
	}
	n := 4 + r.Intn(8)
	for k := 0; k < n; k++ {
		c := r.Intn(100)
		v, sv := sh.anyVal(r)
		switch {
		case c < 22 || sv == nil:
			items = append(items, item{ev: sh.genVA(r, cfg, run)})
		case c < 34:
			items = append(items, item{ev: sh.genVASameCluster(r, cfg, run)})
		case c < 52:
			e := &event{Kind: "VR", Owner: sv.owner, Val: v, Ops: shuffled(r, sv.ops)}
			if r.Chance(12) {
				e.Owner = sv.owner%nOwners + 1
			} else {
				delete(sh.vals, v)
			}
			run.Tag("vr:c12")
			items = append(items, item{ev: e})
		case c < 62:
			items = append(items, item{ev: &event{Kind: "CL", Owner: sv.owner, Ops: shuffled(r, sv.ops)}})
			run.Tag("cluster:CL")
		case c < 70:
			items = append(items, item{ev: &event{Kind: "CR", Owner: sv.owner, Ops: shuffled(r, sv.ops)}})
			run.Tag("cluster:CR")
		case c < 75:
			items = append(items, item{ev: &event{Kind: "VE", Owner: sv.owner, Val: v, Ops: sv.ops}})
			run.Tag("ve")
		case c < 81:
			items = append(items, item{ev: &event{Kind: "FR", Owner: 1 + r.Intn(nOwners), Fee: 1 + r.Intn(nAddr)}})
			run.Tag("fr")
		case c < 89:
			items = append(items, item{op: "hist", arg: []int{v}})
		case c < 94:
			items = append(items, item{op: "setmeta", arg: []int{v, 100 + r.Intn(50)}})
		default:
			items = append(items, item{ev: sh.genOA(r, genCfg{}, run)})
		}
	}
	return items
}

func sameSet(a, b []uint64) bool {
	if len(a) != len(b) {
		return false
	}
	m := map[uint64]int{}
	for _, x := range a {
		m[x]++
	}
	for _, x := range b {
		m[x]--
	}
	for _, v := range m {
		if v != 0 {
			return false
		}
	}
	return true
}
