package main

// Abstract events (exactly what an op line carries) and their realisation as real contract logs.
// The op-line token is written AFTER the log was built: every fact in it (signedNonce, share data length,
// per-member decryptOk/keyMatches) is recomputed from the real bytes with the real code.

import (
	"bytes"
	"fmt"
	"math/big"
	"strconv"
	"strings"

	"github.com/attestantio/go-eth2-client/spec/phase0"
	ethcommon "github.com/ethereum/go-ethereum/common"
	ethtypes "github.com/ethereum/go-ethereum/core/types"
	"github.com/ethereum/go-ethereum/crypto"
	"github.com/herumi/bls-eth-go-binary/bls"

	"github.com/bloxapp/ssv/eth/contract"
	"github.com/bloxapp/ssv/eth/eventhandler"
	"github.com/bloxapp/ssv/eth/eventparser"
)

type member struct {
	Op  uint64
	Key int  // listed share public key (share key index+1)
	Dec bool // wanted: the node's own RSA key decrypts the encrypted share to a hex BLS secret
	KM  bool // wanted: ... and that secret's public key is the listed one
	Alt int  // how "not decryptable" is realised: 0 encrypted to another operator, 1 garbage, 2 decrypts to non-hex text
	// facts recomputed from the real bytes
	dec, km bool
}

type event struct {
	Kind   string // OA OR VA VR VE CL CR FR UP UK NT
	ID     uint64 // operator id (OA, OR)
	Owner  int    // address id
	RSA    int    // RSA public key id (OA)
	Val    int    // validator pk id (VA VR VE); 99 = 48 bytes that are no BLS key
	Ops    []uint64
	Fee    int // address id (FR)
	Mem    []member
	SN     int // wanted signed nonce; -1 = the signature must not verify
	SigAlt int // how a non-verifying signature is realised: 0 garbage bytes, 1 other validator key, 2 other owner in the text
	Len    int // wanted len(shares); -1 = exact
	// facts recomputed from the real bytes
	signedNonce int
	sharesLen   int
}

func valKeyBytes(id int) []byte {
	if id >= 1 && id <= nVal {
		return valPK[id-1]
	}
	return junkPK
}

var decCache = map[string][2]bool{}

// decryptFacts runs the node's own decrypter and BLS key derivation on one encrypted share:
// decOk = RSA decryption and SetHexString succeed; kmOk = the derived public key equals the listed one.
func decryptFacts(blob, listedPK []byte) (bool, bool) {
	ck := string(blob) + "|" + string(listedPK)
	if v, ok := decCache[ck]; ok {
		return v[0], v[1]
	}
	decOk, kmOk := false, false
	if plain, err := rsaKeys[0].Decrypt(blob); err == nil {
		sk := &bls.SecretKey{}
		if err := sk.SetHexString(string(plain)); err == nil {
			decOk = true
			kmOk = bytes.Equal(sk.GetPublicKey().Serialize(), listedPK)
		}
	}
	decCache[ck] = [2]bool{decOk, kmOk}
	return decOk, kmOk
}

func topicU64(v uint64) ethcommon.Hash             { return ethcommon.BigToHash(new(big.Int).SetUint64(v)) }
func topicAddr(a ethcommon.Address) ethcommon.Hash { return ethcommon.BytesToHash(a.Bytes()) }

var zeroCluster = contract.ISSVNetworkCoreCluster{Balance: big.NewInt(0), Active: true}

func addrOf(id int) ethcommon.Address {
	if id >= 1 && id <= nAddr {
		return addrs[id-1]
	}
	var a ethcommon.Address
	a[0] = 0xee
	a[19] = byte(id)
	return a
}

func shareKeyBytes(k int) []byte {
	if k >= 1 && k <= nShare {
		return sharePK[k-1]
	}
	return sharePK[0]
}

// buildLog packs the abstract event into a real log and fills the recomputed facts.
func buildLog(e *event, blockNumber uint64, idx uint) ethtypes.Log {
	lg := ethtypes.Log{BlockNumber: blockNumber, Index: idx, TxIndex: idx}
	pack := func(name string, args ...interface{}) []byte {
		d, err := abi.Events[name].Inputs.NonIndexed().Pack(args...)
		must(err)
		return d
	}
	owner := addrOf(e.Owner)
	switch e.Kind {
	case "OA":
		rsa := e.RSA
		if rsa < 1 || rsa > nRSA {
			rsa = nRSA
		}
		packed, err := eventparser.PackOperatorPublicKey(rsaPub[rsa-1])
		must(err)
		lg.Topics = []ethcommon.Hash{abi.Events["OperatorAdded"].ID, topicU64(e.ID), topicAddr(owner)}
		lg.Data = pack("OperatorAdded", packed, big.NewInt(1))
	case "OR":
		lg.Topics = []ethcommon.Hash{abi.Events["OperatorRemoved"].ID, topicU64(e.ID)}
	case "VA":
		n := len(e.Mem)
		pk := valKeyBytes(e.Val)
		var sig []byte
		signWith := func(sk *bls.SecretKey, o ethcommon.Address, nonce int) []byte {
			txt := fmt.Sprintf("%s:%d", o.String(), nonce)
			return sk.SignByte(crypto.Keccak256([]byte(txt))).Serialize()
		}
		switch {
		case e.SN >= 0 && e.Val >= 1 && e.Val <= nVal:
			sig = signWith(valSK[e.Val-1], owner, e.SN)
		case e.SigAlt == 1:
			sig = signWith(valSK[e.Val%nVal], owner, 0) // a valid signature by a different validator key
		case e.SigAlt == 2 && e.Val >= 1 && e.Val <= nVal:
			sig = signWith(valSK[e.Val-1], addrOf(e.Owner%nAddr+1), 0) // right key, other owner in the signed text
		default:
			sig = bytes.Repeat([]byte{0x11}, phase0.SignatureLength)
		}
		var pks, encs []byte
		ops := make([]uint64, n)
		for i := range e.Mem {
			m := &e.Mem[i]
			ops[i] = m.Op
			listed := shareKeyBytes(m.Key)
			pks = append(pks, listed...)
			var blob []byte
			ki := m.Key
			if ki < 1 || ki > nShare {
				ki = 1
			}
			switch {
			case m.Dec && m.KM:
				blob = blobOwn[ki-1]
			case m.Dec:
				blob = blobOwn[ki%nShare] // decrypts, but to the secret of another share key
			case m.Alt == 1:
				blob = bytes.Repeat([]byte{byte(0x20 + i)}, eventhandler.VerifEncryptedKeyLength)
			case m.Alt == 2:
				blob = blobNoHex
			default:
				blob = blobOther[ki-1]
			}
			encs = append(encs, blob...)
			m.dec, m.km = decryptFacts(blob, listed)
		}
		shares := append(append(append([]byte{}, sig...), pks...), encs...)
		if e.Len >= 0 {
			if e.Len < len(shares) {
				shares = shares[:e.Len]
			} else {
				shares = append(shares, bytes.Repeat([]byte{7}, e.Len-len(shares))...)
			}
		}
		e.sharesLen = len(shares)
		e.Ops = ops
		// the nonce the signature really covers, established by the handler's own verifier
		e.signedNonce = -1
		if len(shares) >= phase0.SignatureLength {
			cands := []int{e.SN, 0}
			for _, c := range cands {
				if c >= 0 && c < 65536 && eventhandler.VerifVerifySignature(shares[:phase0.SignatureLength], owner, pk, uint16(c)) {
					e.signedNonce = c
					break
				}
			}
		}
		lg.Topics = []ethcommon.Hash{abi.Events["ValidatorAdded"].ID, topicAddr(owner)}
		lg.Data = pack("ValidatorAdded", ops, pk, shares, zeroCluster)
	case "VR":
		lg.Topics = []ethcommon.Hash{abi.Events["ValidatorRemoved"].ID, topicAddr(owner)}
		lg.Data = pack("ValidatorRemoved", e.Ops, valKeyBytes(e.Val), zeroCluster)
	case "VE":
		lg.Topics = []ethcommon.Hash{abi.Events["ValidatorExited"].ID, topicAddr(owner)}
		lg.Data = pack("ValidatorExited", e.Ops, valKeyBytes(e.Val))
	case "CL":
		lg.Topics = []ethcommon.Hash{abi.Events["ClusterLiquidated"].ID, topicAddr(owner)}
		lg.Data = pack("ClusterLiquidated", e.Ops, zeroCluster)
	case "CR":
		lg.Topics = []ethcommon.Hash{abi.Events["ClusterReactivated"].ID, topicAddr(owner)}
		lg.Data = pack("ClusterReactivated", e.Ops, zeroCluster)
	case "FR":
		lg.Topics = []ethcommon.Hash{abi.Events["FeeRecipientAddressUpdated"].ID, topicAddr(owner)}
		lg.Data = pack("FeeRecipientAddressUpdated", addrOf(e.Fee))
	case "UP": // known event id, data that the ABI decoder refuses
		lg.Topics = []ethcommon.Hash{abi.Events["ValidatorAdded"].ID, topicAddr(addrs[0])}
		lg.Data = []byte{1, 2, 3}
	case "UK": // unknown event id
		lg.Topics = []ethcommon.Hash{ethcommon.BytesToHash([]byte("not a registry event"))}
	case "NT": // a log without topics (anonymous event)
		lg.Topics = nil
	}
	// the abstraction must classify the log as the real parser does
	if e.Kind != "NT" && e.Kind != "UK" {
		perr := parseErr(e.Kind, lg)
		if (e.Kind == "UP") != (perr != nil) {
			panic(fmt.Sprintf("harness: parser disagrees on %s: %v", e.Kind, perr))
		}
	}
	return lg
}

func parseErr(kind string, lg ethtypes.Log) error {
	var err error
	switch kind {
	case "OA":
		_, err = parser.ParseOperatorAdded(lg)
	case "OR":
		_, err = parser.ParseOperatorRemoved(lg)
	case "VA", "UP":
		_, err = parser.ParseValidatorAdded(lg)
	case "VR":
		_, err = parser.ParseValidatorRemoved(lg)
	case "VE":
		_, err = parser.ParseValidatorExited(lg)
	case "CL":
		_, err = parser.ParseClusterLiquidated(lg)
	case "CR":
		_, err = parser.ParseClusterReactivated(lg)
	case "FR":
		_, err = parser.ParseFeeRecipientAddressUpdated(lg)
	}
	return err
}

func u64s(v []uint64) string {
	if len(v) == 0 {
		return "-"
	}
	s := make([]string, len(v))
	for i, x := range v {
		s[i] = strconv.FormatUint(x, 10)
	}
	return strings.Join(s, ",")
}

func b2i(b bool) int {
	if b {
		return 1
	}
	return 0
}

// token renders the abstract event with the recomputed facts (what the Lean model sees). Call after buildLog.
func (e *event) token() string {
	switch e.Kind {
	case "OA":
		return fmt.Sprintf("OA:%d:%d:%d", e.ID, e.Owner, e.RSA)
	case "OR":
		return fmt.Sprintf("OR:%d", e.ID)
	case "VA":
		ms := make([]string, len(e.Mem))
		for i, m := range e.Mem {
			ms[i] = fmt.Sprintf("%d/%d/%d/%d", m.Op, m.Key, b2i(m.dec), b2i(m.km))
		}
		sn := "-"
		if e.signedNonce >= 0 {
			sn = strconv.Itoa(e.signedNonce)
		}
		mm := strings.Join(ms, ",")
		if mm == "" {
			mm = "-"
		}
		return fmt.Sprintf("VA:%d:%d:%s:%d:%s", e.Owner, e.Val, sn, e.sharesLen, mm)
	case "VR", "VE":
		return fmt.Sprintf("%s:%d:%d:%s", e.Kind, e.Owner, e.Val, u64s(e.Ops))
	case "CL", "CR":
		return fmt.Sprintf("%s:%d:%s", e.Kind, e.Owner, u64s(e.Ops))
	case "FR":
		return fmt.Sprintf("FR:%d:%d", e.Owner, e.Fee)
	}
	return e.Kind
}

func atoi(s string) int {
	v, err := strconv.Atoi(s)
	must(err)
	return v
}
func parseU64s(s string) []uint64 {
	if s == "-" || s == "" {
		return nil
	}
	var o []uint64
	for _, p := range strings.Split(s, ",") {
		v, err := strconv.ParseUint(p, 10, 64)
		must(err)
		o = append(o, v)
	}
	return o
}

// parseToken: an op-line token becomes a recipe that realises exactly the stated facts.
func parseToken(t string) *event {
	f := strings.Split(t, ":")
	e := &event{Kind: f[0], SN: -1, Len: -1}
	switch f[0] {
	case "OA":
		e.ID, e.Owner, e.RSA = uint64(atoi(f[1])), atoi(f[2]), atoi(f[3])
	case "OR":
		e.ID = uint64(atoi(f[1]))
	case "VA":
		e.Owner, e.Val = atoi(f[1]), atoi(f[2])
		if f[3] != "-" {
			e.SN = atoi(f[3])
		}
		e.Len = atoi(f[4])
		if f[5] != "-" {
			for _, m := range strings.Split(f[5], ",") {
				q := strings.Split(m, "/")
				e.Mem = append(e.Mem, member{Op: uint64(atoi(q[0])), Key: atoi(q[1]), Dec: q[2] == "1", KM: q[3] == "1"})
			}
		}
	case "VR", "VE":
		e.Owner, e.Val, e.Ops = atoi(f[1]), atoi(f[2]), parseU64s(f[3])
	case "CL", "CR":
		e.Owner, e.Ops = atoi(f[1]), parseU64s(f[2])
	case "FR":
		e.Owner, e.Fee = atoi(f[1]), atoi(f[2])
	}
	return e
}

func (e *event) clone() *event {
	c := *e
	c.Mem = append([]member{}, e.Mem...)
	c.Ops = append([]uint64{}, e.Ops...)
	return &c
}
