package main

// Sessions (one op line per executed operation), the implementation-side oracles, the C11 / C12 case drivers,
// replay, main.

import (
	"errors"
	"flag"
	"fmt"
	"os"
	"path/filepath"
	"reflect"
	"runtime/pprof"
	"strconv"
	"strings"

	"github.com/attestantio/go-eth2-client/spec/phase0"
	specqbft "github.com/bloxapp/ssv-spec/qbft"
	spectypes "github.com/bloxapp/ssv-spec/types"
	"github.com/dgraph-io/badger/v4"

	"github.com/bloxapp/ssv/eth/eventhandler"
	operatorstorage "github.com/bloxapp/ssv/operator/storage"
	beaconprotocol "github.com/bloxapp/ssv/protocol/v2/blockchain/beacon"
	qbftstorage "github.com/bloxapp/ssv/protocol/v2/qbft/storage"
	ssvtypes "github.com/bloxapp/ssv/protocol/v2/types"
	registrystorage "github.com/bloxapp/ssv/registry/storage"
	"github.com/bloxapp/ssv/storage/basedb"
	"github.com/bloxapp/ssv/storage/kv"
	"github.com/bloxapp/ssv/zz_verif/lib/hx"
)

var _ = errors.Is
var _ = eventhandler.ErrInferiorBlock

type blockRec struct {
	num uint64
	evs []*event
}

// session: one case = one database; every executed operation is written as an op line with the
// implementation's observation.
type session struct {
	run     *hx.Run
	emit    bool
	dir     string // on-disk database directory ("" = in-memory Badger)
	raw     basedb.Database
	p       *proc
	lines   []string
	blocks  []blockRec // blocks processed successfully or attempted, in order (cause analysis)
	retry   bool       // a `fault retry` happened: memory/database divergence is measured, not judged
	okCnt   int
	faulted bool                // a crash / error fault fired in this session
	vaSeen  map[int][]string    // validator id -> "owner|op/key,op/key,…" of every ValidatorAdded delivered so far
	traces  map[uint64][]string // block number -> real write trace of the successfully processed block
	counted map[uint64]bool     // block numbers whose add attempts were counted (a block counts once, however often it is delivered)
	base    map[int]int         // owner -> nonce expected next when the case started / the recipient was seeded
	adds    map[int]int         // owner -> parsed ValidatorAdded events processed since then
}

func (s *session) out(op, obs string) {
	s.lines = append(s.lines, op)
	if s.emit {
		s.run.Emit(op, obs)
	}
}

func (s *session) state() string { return "mem=" + memView(s.p) + " db=" + dbView(s.raw) }

func openDisk(dir string) basedb.Database {
	db, err := kv.New(logger, basedb.Options{Path: dir})
	must(err)
	return db
}

func newSession(run *hx.Run, emit bool, disk bool, extra string) *session {
	s := &session{run: run, emit: emit, base: map[int]int{}, adds: map[int]int{}, vaSeen: map[int][]string{}, traces: map[uint64][]string{}, counted: map[uint64]bool{}}
	if disk {
		d, err := os.MkdirTemp("", "verif-registry-")
		must(err)
		s.dir = d
		s.raw = openDisk(d)
	} else {
		s.raw = pooledMemDB()
	}
	s.p = startProc(s.raw)
	op := "reset me=1"
	if extra != "" {
		op += " " + extra
	}
	s.out(op, "ok")
	return s
}

func (s *session) close() {
	if s.dir != "" {
		if s.raw != nil {
			_ = s.raw.Close()
		}
		_ = os.RemoveAll(s.dir)
	} else if s.raw != nil {
		memPool = append(memPool, s.raw.(*kv.BadgerDB))
	}
	s.raw = nil
}

// In-memory Badger instances are expensive to create (64 MB memtable arenas), so finished sessions hand their
// instance back and the next session gets it with every key deleted.
var memPool []*kv.BadgerDB
var memUses = map[*kv.BadgerDB]int{}

func pooledMemDB() basedb.Database {
	for len(memPool) > 0 {
		n := len(memPool)
		db := memPool[n-1]
		memPool = memPool[:n-1]
		memUses[db]++
		if memUses[db] > 25 { // deleted keys stay as tombstones in the memtable and slow every scan down
			delete(memUses, db)
			_ = db.Close()
			continue
		}
		must(db.Badger().Update(func(txn *badger.Txn) error {
			it := txn.NewIterator(badger.IteratorOptions{PrefetchValues: false})
			var keys [][]byte
			for it.Rewind(); it.Valid(); it.Next() {
				keys = append(keys, it.Item().KeyCopy(nil))
			}
			it.Close()
			for _, k := range keys {
				if err := txn.Delete(k); err != nil {
					return err
				}
			}
			return nil
		}))
		return db
	}
	return newMemDB()
}

// reboot drops all process state; with an on-disk database the database is closed and reopened.
func (s *session) reboot() {
	if s.dir != "" {
		must(s.raw.Close())
		s.raw = openDisk(s.dir)
	}
	s.p = startProc(s.raw)
}

func tokens(evs []*event) string {
	t := make([]string, len(evs))
	for i, e := range evs {
		t[i] = e.token()
	}
	if len(t) == 0 {
		return ""
	}
	return " " + strings.Join(t, " ")
}

func splitViews(p *proc, raw basedb.Database) (memS, memSelf, dbS, dbSelf, db string) {
	return splitViewStrings(memView(p), dbView(raw))
}

func splitViewStrings(mv, dbv string) (memS, memSelf, dbS, dbSelf, db string) {
	db = dbv
	i := strings.Index(mv, "self=")
	memS, memSelf = mv[:i], mv[i+5:]
	j := strings.Index(db, "]O[")
	dbS = db[:j+1]
	k := strings.LastIndex(db, "rself=")
	dbSelf = db[k+6:]
	return
}

// dupOpInOneBlock: two OperatorAdded events with the same id inside one block of this session
func (s *session) dupOpInOneBlock() bool {
	for _, b := range s.blocks {
		seen := map[uint64]bool{}
		for _, e := range b.evs {
			if e.Kind == "OA" {
				if seen[e.ID] {
					return true
				}
				seen[e.ID] = true
			}
		}
	}
	return false
}

// oracle "the in-memory view equals the database and a restart reproduces it", evaluated on the implementation.
func (s *session) checkMemDB(when string) {
	s.checkMemDBViews(when, memView(s.p), dbView(s.raw))
}

// checkReloadedShares: FIELD-COMPLETE comparison of every share as a freshly started process decodes it from the
// database with the share in memory (every exported field of spectypes.Share and of Metadata: keys, committee ids and
// share keys, Quorum, PartialQuorum, DomainType, FeeRecipientAddress, Graffiti, OwnerAddress, Liquidated,
// BeaconMetadata), and of both with what the committee size prescribes (n = 3f+1: Quorum 2f+1, PartialQuorum f+1).
func (s *session) checkReloadedShares(when string) {
	if s.retry {
		return
	}
	prop := "C12"
	if modeC11 {
		prop = "C11"
	}
	fresh, err := operatorstorage.NewNodeStorage(logger, s.raw)
	must(err)
	mem := map[string]*ssvtypes.SSVShare{}
	for _, sh := range s.p.ns.Shares().List(nil) {
		mem[string(sh.ValidatorPubKey)] = sh
	}
	quorumOK := func(sh *ssvtypes.SSVShare) bool {
		n := len(sh.Committee)
		f := (n - 1) / 3
		return n != 3*f+1 || (sh.Quorum == uint64(2*f+1) && sh.PartialQuorum == uint64(f+1))
	}
	for _, re := range fresh.Shares().List(nil) {
		v := idOfVal(re.ValidatorPubKey)
		if !quorumOK(re) {
			s.run.Violate(prop+"/reloaded-share-quorum-not-2f+1", fmt.Sprintf("%s: validator %d reloaded from the database with %d members has Quorum=%d PartialQuorum=%d", when, v, len(re.Committee), re.Quorum, re.PartialQuorum), s.lines...)
			return
		}
		m, ok := mem[string(re.ValidatorPubKey)]
		if !ok {
			continue // presence is judged by the memory-vs-database oracle
		}
		if !quorumOK(m) {
			s.run.Violate(prop+"/memory-share-quorum-not-2f+1", fmt.Sprintf("%s: validator %d in memory with %d members has Quorum=%d PartialQuorum=%d", when, v, len(m.Committee), m.Quorum, m.PartialQuorum), s.lines...)
			return
		}
		if field := firstDifferentField(reflect.ValueOf(m.Share), reflect.ValueOf(re.Share)); field != "" {
			s.run.Violate(prop+"/reloaded-share-differs-from-memory:"+field, fmt.Sprintf("%s: validator %d: field %s in memory %v, reloaded %v", when, v, field, reflect.ValueOf(m.Share).FieldByName(field), reflect.ValueOf(re.Share).FieldByName(field)), s.lines...)
			return
		}
		if field := firstDifferentField(reflect.ValueOf(m.Metadata), reflect.ValueOf(re.Metadata)); field != "" {
			s.run.Violate(prop+"/reloaded-share-differs-from-memory:"+field, fmt.Sprintf("%s: validator %d: metadata field %s differs between memory and the reloaded share", when, v, field), s.lines...)
			return
		}
	}
	s.run.Tag("oracle:reloaded-shares-field-complete")
}

// firstDifferentField: name of the first EXPORTED field in which two struct values differ ("" if none); nil and empty
// byte slices count as equal (gob does not distinguish them)
func firstDifferentField(a, b reflect.Value) string {
	t := a.Type()
	for i := 0; i < t.NumField(); i++ {
		if t.Field(i).PkgPath != "" {
			continue
		}
		x, y := a.Field(i).Interface(), b.Field(i).Interface()
		if bx, ok := x.([]byte); ok {
			if by, _ := y.([]byte); len(bx) == 0 && len(by) == 0 {
				continue
			}
		}
		if !reflect.DeepEqual(x, y) {
			return t.Field(i).Name
		}
	}
	return ""
}

func (s *session) checkMemDBViews(when, mv, dbv string) {
	s.checkReloadedShares(when)
	if s.retry {
		return
	}
	memS, memSelf, dbS, dbSelf, db := splitViewStrings(mv, dbv)
	if memS == dbS && memSelf == dbSelf {
		return
	}
	sig := "C11/memory-differs-from-database"
	if !modeC11 {
		sig = "C12/memory-differs-from-database"
	}
	switch {
	case memS == dbS && strings.Contains(db, "O[0:1:") && memSelf != dbSelf:
		sig = "C11/restart-forgets-own-operator-id-after-operator-id-zero-with-own-key"
	case memS == dbS && s.dupOpInOneBlock():
		sig = "C11/restart-changes-own-operator-id-after-duplicate-operator-id-in-one-block"
	}
	s.run.Violate(sig, fmt.Sprintf("%s: memory shares %s self=%s, a restarted process would see %s self=%s", when, memS, memSelf, dbS, dbSelf), s.lines...)
}

func markerOf(dbv string) string {
	i := strings.Index(dbv, "]M=")
	j := strings.Index(dbv[i:], "W[")
	return dbv[i+3 : i+j]
}

func (s *session) block(num uint64, evs []*event) blockResult {
	before := markerOf(dbView(s.raw))
	pre := s.snapshotForAddOracle()
	res := s.p.processBlock(num, evs)
	s.blocks = append(s.blocks, blockRec{num, evs})
	st := res.status
	op := fmt.Sprintf("block %d%s", num, tokens(evs))
	if st == "failed" || st == "crashed" {
		// no fault was injected, yet the handler returned an error: reported as a disagreement with the model
		// (which knows no such failure); the node would exit, so a new process takes over
		dbv := dbView(s.raw)
		s.out(op, fmt.Sprintf("%s out=%s tasks=%s trace=%s mem=%s db=%s", st, res.out, res.tasks, res.trace, memView(s.p), dbv))
		s.run.Tag("block:failed-without-fault")
		if markerOf(dbv) != before {
			s.run.Violate("C12/marker-advanced-by-a-block-that-failed", fmt.Sprintf("block %d returned an error, yet the stored marker went from %s to %s", num, before, markerOf(dbv)), s.lines...)
		}
		s.reboot()
		return res
	}
	mv, dbv := memView(s.p), dbView(s.raw)
	s.out(op, fmt.Sprintf("%s out=%s tasks=%s trace=%s mem=%s db=%s", st, res.out, res.tasks, res.trace, mv, dbv))
	if st == "ok" {
		s.traces[num] = append([]string{}, s.p.ctl.trace...)
		s.okCnt++
		s.checkMemDBViews(fmt.Sprintf("after block %d", num), mv, dbv)
		if !s.counted[num] {
			s.counted[num] = true
			for _, e := range evs {
				if e.Kind == "VA" {
					s.adds[e.Owner]++
				}
			}
		}
		s.checkNonces(fmt.Sprintf("after block %d", num), dbv)
		s.checkAdds(num, evs, pre)
	}
	s.run.Tag("block:" + st)
	s.run.Seen(st + ":" + res.out + ":" + res.trace)
	s.checkMarkerRule(num, len(evs), before, st)
	return res
}

// fault processes the block with an injected fault. Exactly one of atReal / atModel / kmAt is >= 0.
// Returns whether the fault fired and the number of real writes / key-manager calls the block made.
func (s *session) fault(kind string, atReal, atModel, kmAt int, num uint64, evs []*event) (fired bool, res blockResult) {
	c := s.p.ctl
	c.clearFault()
	c.mode = kind
	if kind == "retry" {
		c.mode = "error"
	}
	c.at, c.atModel, c.kmAt = atReal, atModel, kmAt
	res = s.p.processBlock(num, evs)
	fired = c.fired
	k := c.modelled
	hit, prev := c.hitKind, c.prevKind
	if fired {
		lastFault = faultInfo{hit, prev}
		s.faulted = true
	}
	c.clearFault()
	s.blocks = append(s.blocks, blockRec{num, evs})
	status := map[string]string{"ok": "completed", "failed": "faulted", "crashed": "faulted", "refused": "refused", "panic": "panic"}[res.status]
	if fired && kind != "retry" {
		s.reboot()
	}
	if !fired && res.status == "ok" { // the fault index lies beyond the block's writes: an ordinary processed block
		for _, e := range evs {
			if e.Kind == "VA" {
				if !s.counted[num] {
					s.adds[e.Owner]++
				}
				s.vaSeen[e.Val] = append(s.vaSeen[e.Val], pairing(e))
			}
		}
		s.counted[num] = true
	}
	if kind == "retry" {
		s.retry = true
	}
	op := fmt.Sprintf("fault %s %d %d%s", kind, k, num, tokens(evs))
	if !fired {
		op = fmt.Sprintf("fault %s %d %d%s", kind, 1000000, num, tokens(evs))
	}
	s.out(op, fmt.Sprintf("%s %s", status, s.state()))
	s.run.Tag("fault:" + kind + ":" + status)
	if fired {
		s.run.Tag("fault-at:" + hit + "-after-" + prev)
		s.run.Seen("fault:" + kind + ":" + hit + ":" + prev)
	}
	return
}

// ---- oracle "a validator is added exactly when the registration rules say so, with the committee as emitted" ----
// Evaluated on the implementation with the facts the real code computed (signedNonce, share data length, decryptOk,
// keyMatches) and the oracle's own nonce count; silent whenever the outcome could depend on something it does not
// track (same validator twice in the block, own operator id changing inside the block, operators added in the block).

type addPre struct {
	ops   map[uint64]bool
	vals  map[int]bool
	self  uint64
	nonce map[int]int
}

func (s *session) snapshotForAddOracle() addPre {
	p := addPre{ops: map[uint64]bool{}, vals: map[int]bool{}, nonce: map[int]int{}, self: s.p.ods.GetOperatorID()}
	ops, err := s.p.ns.ListOperators(nil, 0, 0)
	must(err)
	for _, o := range ops {
		p.ops[o.ID] = true
	}
	for _, sh := range s.p.ns.Shares().List(nil) {
		p.vals[idOfVal(sh.ValidatorPubKey)] = true
	}
	for o := 1; o <= nAddr; o++ {
		p.nonce[o] = (s.base[o] + s.adds[o]) % 65536
	}
	return p
}

func pairing(e *event) string {
	ps := make([]string, len(e.Mem))
	for i, m := range e.Mem {
		ps[i] = fmt.Sprintf("%d/%d", m.Op, m.Key)
	}
	return fmt.Sprintf("%d|%s", e.Owner, strings.Join(ps, ","))
}

func (s *session) checkAdds(num uint64, evs []*event, pre addPre) {
	if s.retry || s.faulted {
		return
	}
	stored := map[int]string{}   // validator -> "owner|op/key,…" as stored
	storedOp := map[int]uint64{} // validator -> Share.OperatorID
	for _, sh := range s.p.ns.Shares().List(nil) {
		ps := make([]string, len(sh.Committee))
		for i, m := range sh.Committee {
			ps[i] = fmt.Sprintf("%d/%d", m.OperatorID, idOfShare(m.PubKey))
		}
		v := idOfVal(sh.ValidatorPubKey)
		stored[v] = fmt.Sprintf("%d|%s", idOfAddr(sh.OwnerAddress), strings.Join(ps, ","))
		storedOp[v] = sh.OperatorID
	}
	valUses := map[int]int{}
	ownOA := false
	for _, e := range evs {
		if e.Kind == "VA" || e.Kind == "VR" {
			valUses[e.Val]++
		}
		if e.Kind == "OA" && e.RSA == 1 {
			ownOA = true
		}
		if e.Kind == "VA" {
			s.vaSeen[e.Val] = append(s.vaSeen[e.Val], pairing(e))
		}
	}
	// (1) every stored committee pairs operator ids and share keys exactly as some delivered ValidatorAdded emitted them
	for v, st := range stored {
		ok := false
		for _, p := range s.vaSeen[v] {
			if p == st {
				ok = true
			}
		}
		if !ok {
			s.run.Violate("C11/stored-committee-not-as-emitted", fmt.Sprintf("after block %d: validator %d is stored as %s, no ValidatorAdded event delivered so far says that (emitted: %v)", num, v, st, s.vaSeen[v]), s.lines...)
			return
		}
	}
	// (2) a ValidatorAdded that passes every listed check is registered
	nonce := map[int]int{}
	for o, n := range pre.nonce {
		nonce[o] = n
	}
	for _, e := range evs {
		if e.Kind != "VA" {
			continue
		}
		expected := nonce[e.Owner]
		nonce[e.Owner] = (nonce[e.Owner] + 1) % 65536
		n := len(e.Mem)
		if ownOA || valUses[e.Val] != 1 || pre.vals[e.Val] || e.Val < 1 || e.Val > nVal || e.signedNonce != expected ||
			!(n == 4 || n == 7 || n == 10 || n == 13) || e.sharesLen != 96+n*(48+eventhandler.VerifEncryptedKeyLength) {
			continue
		}
		seen := map[uint64]bool{}
		good, mine := true, false
		for _, m := range e.Mem {
			if seen[m.Op] || !pre.ops[m.Op] {
				good = false
			}
			seen[m.Op] = true
			if m.Op == pre.self {
				if pre.self == 0 || !m.dec || !m.km {
					good = false
				}
				mine = true
			}
		}
		if !good {
			continue
		}
		wantOp := uint64(0)
		if mine {
			wantOp = pre.self
		}
		st, found := stored[e.Val]
		switch {
		case !found:
			s.run.Violate("C11/valid-validator-added-not-registered", fmt.Sprintf("block %d: %s passes every check (nonce %d expected and signed, %d existing distinct operators, exact share length, own member decryptable and matching: %v) but validator %d is not stored", num, e.token(), expected, n, mine, e.Val), s.lines...)
			return
		case st != pairing(e) || storedOp[e.Val] != wantOp:
			s.run.Violate("C11/stored-committee-not-as-emitted", fmt.Sprintf("block %d: %s was accepted but is stored as %s with OperatorID %d (expected %s, OperatorID %d)", num, e.token(), st, storedOp[e.Val], pairing(e), wantOp), s.lines...)
			return
		}
		s.run.Tag("oracle:valid-add-registered")
	}
}

// oracle "a block that is not newer than the last processed block is refused; the marker never goes back"
func (s *session) checkMarkerRule(num uint64, nEvents int, before, status string) {
	if s.retry {
		return
	}
	prop := "C12"
	if modeC11 {
		prop = "C11"
	}
	mb := uint64(0)
	if before != "-" {
		v, err := strconv.ParseUint(before, 10, 64)
		must(err)
		mb = v
	}
	after := markerOf(dbView(s.raw))
	ma := uint64(0)
	if after != "-" {
		v, err := strconv.ParseUint(after, 10, 64)
		must(err)
		ma = v
	}
	kind := "inferior"
	if nEvents == 0 {
		kind = "empty-inferior"
		s.run.Tag("block:empty")
	}
	switch {
	case num <= mb && status != "refused" && status != "panic":
		s.run.Tag("block:" + kind + "-accepted")
		s.run.Violate(prop+"/inferior-block-accepted", fmt.Sprintf("block %d (%d events) is not newer than the last processed block %s but was not refused (%s); marker now %s", num, nEvents, before, status, after), s.lines...)
	case ma < mb || (before != "-" && after == "-"):
		s.run.Violate(prop+"/marker-went-back", fmt.Sprintf("block %d (%s): marker %s -> %s", num, status, before, after), s.lines...)
	}
	if num <= mb {
		s.run.Tag("block:" + kind + "-refused-rule-checked")
	}
}

// oracle "the nonce counts every add attempt exactly once" (mod 2^16), evaluated on the stored recipients
func (s *session) checkNonces(when, dbv string) {
	if s.retry || (s.faulted && !modeC11) { // in C12 mode the final-state oracle judges the nonces as well
		return
	}
	i := strings.Index(dbv, "]R[")
	j := strings.Index(dbv[i+3:], "]")
	stored := map[int]int{}
	if body := dbv[i+3 : i+3+j]; body != "" {
		for _, rec := range strings.Split(body, ";") {
			f := strings.Split(rec, ":")
			if f[2] != "-" {
				stored[atoi(f[0])] = (atoi(f[2]) + 1) % 65536
			}
		}
	}
	for o := 1; o <= nAddr; o++ {
		want := (s.base[o] + s.adds[o]) % 65536
		if stored[o] != want {
			s.run.Violate("C11/nonce-does-not-count-add-attempts", fmt.Sprintf("%s: owner %d is expected to sign nonce %d next, but %d ValidatorAdded events were processed since it stood at %d", when, o, stored[o], s.adds[o], s.base[o]), s.lines...)
			return
		}
	}
}

func (s *session) restart() {
	s.reboot()
	mv, dbv := memView(s.p), dbView(s.raw)
	s.out("restart", "ok mem="+mv+" db="+dbv)
	s.checkMemDBViews("after restart", mv, dbv)
}

func (s *session) setmeta(pk, idx int) {
	must(s.p.ns.Shares().UpdateValidatorMetadata(fmt.Sprintf("%x", valKeyBytes(pk)), &beaconprotocol.ValidatorMetadata{Index: phase0.ValidatorIndex(idx)}))
	s.out(fmt.Sprintf("setmeta %d %d", pk, idx), "ok "+s.state())
}

func (s *session) hist(pk int) {
	id := spectypes.NewMsgID(netCfg.Domain, valKeyBytes(pk), histRole)
	inst := &qbftstorage.StoredInstance{
		State: &specqbft.State{ID: id[:], Height: 1, Share: &spectypes.Share{},
			ProposeContainer: specqbft.NewMsgContainer(), PrepareContainer: specqbft.NewMsgContainer(),
			CommitContainer: specqbft.NewMsgContainer(), RoundChangeContainer: specqbft.NewMsgContainer()},
		DecidedMessage: &specqbft.SignedMessage{Message: specqbft.Message{Identifier: id[:], Height: 1}},
	}
	must(s.p.store.SaveHighestAndHistoricalInstance(inst))
	s.out(fmt.Sprintf("hist %d", pk), "ok "+s.state())
}

func (s *session) seedrec(owner, fee, nonce int) {
	rd := &registrystorage.RecipientData{Owner: addrOf(owner)}
	copy(rd.FeeRecipient[:], addrOf(fee).Bytes())
	ns := "-"
	if nonce >= 0 {
		n := registrystorage.Nonce(nonce)
		rd.Nonce = &n
		ns = strconv.Itoa(nonce)
	}
	_, err := s.p.ns.SaveRecipientData(nil, rd)
	must(err)
	s.base[owner], s.adds[owner] = 0, 0
	if nonce >= 0 {
		s.base[owner] = (nonce + 1) % 65536
	}
	s.out(fmt.Sprintf("seedrec %d %d %s", owner, fee, ns), "ok "+s.state())
}

func (s *session) doItem(it item) {
	switch it.op {
	case "restart":
		s.restart()
	case "setmeta":
		s.setmeta(it.arg[0], it.arg[1])
	case "hist":
		s.hist(it.arg[0])
	case "seedrec":
		s.seedrec(it.arg[0], it.arg[1], it.arg[2])
	}
}

// plan: the items of a history cut into blocks with numbers
type planStep struct {
	it  *item // non-event operation, or
	num uint64
	evs []*event
	blk bool
	dup bool // an inferior empty block or a re-delivery of an already processed block: must be refused
}

// planNoRestartNoise: adversarial histories (operator id 0 with the own key …) make a plain restart change the own
// operator id (known findings); restarts drawn per batching would turn that into a batching difference
var planNoRestartNoise bool

func makePlan(r *hx.Rng, items []item, cuts []bool, lastNum uint64) []planStep {
	var plan []planStep
	num := uint64(r.Intn(3))
	i := 0
	for i < len(items) {
		if items[i].ev == nil {
			plan = append(plan, planStep{it: &items[i]})
			i++
			continue
		}
		j := i
		var evs []*event
		for j < len(items) && items[j].ev != nil && (j == i || !cuts[j]) {
			evs = append(evs, items[j].ev.clone())
			j++
		}
		num += 1 + uint64(r.Intn(3))
		plan = append(plan, planStep{blk: true, num: num, evs: evs})
		if r.Chance(8) { // an empty (progress-only) block above the marker
			num += 1 + uint64(r.Intn(2))
			plan = append(plan, planStep{blk: true, num: num})
		}
		if j < len(items) && r.Chance(12) {
			// an EMPTY block that is not newer than the marker (equal / just below / far below), then — maybe after a
			// restart — blocks above it that were processed already are delivered again: all of them must be refused
			low := num
			switch r.Intn(3) {
			case 1:
				if low > 0 {
					low--
				}
			case 2:
				low = uint64(r.Intn(int(num) + 1))
			}
			plan = append(plan, planStep{blk: true, num: low, dup: true})
			if r.Chance(40) && !planNoRestartNoise {
				plan = append(plan, planStep{it: &item{op: "restart"}})
			}
			if r.Chance(70) {
				for k := len(plan) - 1; k >= 0; k-- { // the most recent block with events
					if plan[k].blk && !plan[k].dup && len(plan[k].evs) > 0 {
						var again []*event
						for _, e := range plan[k].evs {
							again = append(again, e.clone())
						}
						plan = append(plan, planStep{blk: true, num: plan[k].num, evs: again, dup: true})
						break
					}
				}
			}
		}
		i = j
	}
	// make the last block carry the agreed last number (both batchings of a pair end on the same marker)
	for k := len(plan) - 1; k >= 0; k-- {
		if plan[k].blk && !plan[k].dup {
			if lastNum > plan[k].num {
				plan[k].num = lastNum
			}
			break
		}
	}
	return plan
}

func lastBlockNum(plan []planStep) uint64 {
	for k := len(plan) - 1; k >= 0; k-- {
		if plan[k].blk && !plan[k].dup {
			return plan[k].num
		}
	}
	return 0
}

func finalObs(s *session) string {
	_, _, _, _, db := splitViews(s.p, s.raw)
	return "mem=" + memView(s.p) + " db=" + db
}

// runPlan executes a plan without faults; stops after a panic (the node would be dead).
func runPlan(s *session, r *hx.Rng, plan []planStep, inferiorProb int) (panicked bool) {
	for _, st := range plan {
		if !st.blk {
			s.doItem(*st.it)
			continue
		}
		res := s.block(st.num, st.evs)
		if res.status == "panic" {
			s.restart()
			return true
		}
		if r != nil && r.Chance(inferiorProb) && st.num > 0 { // a block that is not newer than the marker
			var evs []*event
			if r.Bool() {
				evs = []*event{{Kind: "FR", Owner: 1, Fee: 2}}
			}
			s.block(st.num-uint64(r.Intn(2)), evs)
			s.run.Tag("inferior-block-attempt")
		}
	}
	return false
}

func hasNT(items []item) bool {
	for _, it := range items {
		if it.ev != nil && it.ev.Kind == "NT" {
			return true
		}
	}
	return false
}

// ---------------------------------------------------------------------------------------------- C11

func caseC11(run *hx.Run, r *hx.Rng, caseNo int) {
	cfg := genCfg{adversarial: r.Chance(6), big: r.Chance(12), noTopics: r.Chance(3)}
	n := 4 + r.Intn(22)
	if cfg.big {
		n += 14
	}
	items := genHistory(r, cfg, run, n)
	pair := fmt.Sprintf("pair=%d", caseNo)
	planNoRestartNoise = cfg.adversarial
	defer func() { planNoRestartNoise = false }()
	// first batching
	planA := makePlan(r, items, genCuts(r, items, r.Pick(15, 35, 60, 100)), 0)
	// second batching of the same events, drawn independently; same last block number
	planB := makePlan(r, items, genCuts(r, items, r.Pick(0, 25, 50, 100)), 0)
	last := lastBlockNum(planA)
	if lb := lastBlockNum(planB); lb > last {
		last = lb
	}
	last += uint64(r.Intn(2))
	for _, pl := range [][]planStep{planA, planB} {
		for k := len(pl) - 1; k >= 0; k-- {
			if pl[k].blk && !pl[k].dup {
				pl[k].num = last
				break
			}
		}
	}
	sa := newSession(run, true, false, pair)
	pa := runPlan(sa, r, planA, 4)
	sb := newSession(run, true, false, pair)
	pb := runPlan(sb, r, planB, 4)
	if !pa && !pb && !hasNT(items) && last > 0 {
		fa, fb := finalObs(sa), finalObs(sb)
		if fa != fb {
			sig := "C11/batching-dependent"
			if sa.dupOpInOneBlock() || sb.dupOpInOneBlock() {
				sig = "C11/batching-dependent-duplicate-operator-id-in-one-block"
			}
			run.Violate(sig, "same events, two batchings: "+fa+"  vs  "+fb, append(append([]string{}, sa.lines...), sb.lines...)...)
		}
		run.Seen(fmt.Sprintf("pair:%d:%d", sa.okCnt, sb.okCnt))
	}
	// (duplicate operator ids inside one block / operator id 0 already make a plain restart change the own operator
	// id — the known findings reported by the memory-vs-database oracle; the fault stratum stays away from them)
	if !pa && !pb && !hasNT(items) && !cfg.adversarial && !sa.dupOpInOneBlock() && r.Chance(40) {
		c11FaultCase(run, r, planA, sa)
	}
	sa.close()
	sb.close()
}

// regObs: registry part of the final observation (memory + database: shares, operators, recipients with nonces,
// marker, decided history, own id); the wallet is C12's subject
func regObs(s *session) string { return stripAccounts(c12Obs(s)) }

// c11FaultCase: the same batching once more with ONE crash or failing storage write at a write the fault-free run
// made while processing some block (any write: transactional, direct with a nil transaction, before or after the
// commit), a restart on the surviving database and re-delivery from the stored marker+1. The registry must still be
// the function of the event log: every add attempt counted once, final registry = fault-free run.
func c11FaultCase(run *hx.Run, r *hx.Rng, plan []planStep, ref *session) {
	var blks []int
	bi := -1
	for _, st := range plan {
		if st.blk {
			bi++
			if len(ref.traces[st.num]) > 0 {
				blks = append(blks, bi)
			}
		}
	}
	if len(blks) == 0 {
		return
	}
	target := blks[r.Intn(len(blks))]
	var tr []string
	bi = -1
	for _, st := range plan {
		if st.blk {
			bi++
			if bi == target {
				tr = ref.traces[st.num]
			}
		}
	}
	w := r.Intn(len(tr))
	if r.Chance(45) { // the last writes of a block: marker, commit, whatever comes after the commit
		w = len(tr) - 1 - r.Intn(hx.Min(3, len(tr)))
	}
	if tr[w] == "wal" { // the position between account record and wallet index is C12's known finding
		prev := ""
		for i := w - 1; i >= 0; i-- {
			if !unmodelled[tr[i]] {
				prev = tr[i]
				break
			}
		}
		if prev == "acc" {
			return
		}
	}
	kind := pick2(r, "crash", "error")
	want := regObs(ref)
	s, fired := runWithFault(run, plan, faultSpec{target, kind, w, -1}, false, true, "")
	if fired {
		s.reboot()
		run.Tag("c11:fault-run:" + kind + ":" + tr[w])
		run.Seen("c11fault:" + kind + ":" + tr[w])
		if got := regObs(s); got != want {
			run.Violate("C11/registry-after-fault-and-restart-differs-from-event-log", fmt.Sprintf("%s at write %d (%s) of block #%d, restart, re-delivery from marker+1: %s ; fault-free run: %s", kind, w, tr[w], target, got, want), s.lines...)
		}
	}
	s.close()
}

// ---------------------------------------------------------------------------------------------- C12

type faultSpec struct {
	blockIdx int
	kind     string
	atReal   int
	kmAt     int
}

// runWithFault: fresh database, blocks before blockIdx normally, the fault, then restart-and-resume from the
// stored marker + 1 (node.go setupEventHandling), to the end of the plan.
func runWithFault(run *hx.Run, plan []planStep, fs faultSpec, disk bool, emit bool, extra string) (*session, bool) {
	s := newSession(run, emit, disk, extra)
	bi := -1
	fired := false
	for pi, st := range plan {
		if !st.blk {
			s.doItem(*st.it)
			continue
		}
		bi++
		if bi != fs.blockIdx {
			s.block(st.num, st.evs)
			continue
		}
		var res blockResult
		fired, res = s.fault(fs.kind, fs.atReal, -1, fs.kmAt, st.num, st.evs)
		_ = res
		if !fired {
			continue
		}
		if fs.kind == "retry" {
			// the same process is asked again for the same block (hypothetical: the real node exits)
			s.block(st.num, st.evs)
			continue
		}
		// resume: blocks from marker+1 on
		from := uint64(0)
		lpb, found, err := s.p.ns.GetLastProcessedBlock(nil)
		must(err)
		if found {
			from = lpb.Uint64() + 1
		}
		if st.num >= from {
			s.block(st.num, st.evs)
		}
		_ = pi
	}
	return s, fired
}

func caseC12(run *hx.Run, r *hx.Rng, caseNo int) {
	if caseNo%8 == 1 {
		caseC12Large(run, r, caseNo)
		return
	}
	items := genHistoryC12(r, run)
	plan := makePlan(r, items, genCuts(r, items, r.Pick(20, 40, 70)), 0)
	// reference: the uninterrupted run
	ref := newSession(run, true, false, fmt.Sprintf("c12=%d", caseNo))
	type cnt struct{ writes, kms int }
	var counts []cnt
	for _, st := range plan {
		if !st.blk {
			ref.doItem(*st.it)
			continue
		}
		ref.block(st.num, st.evs)
		counts = append(counts, cnt{ref.p.ctl.n, ref.p.ctl.kmN})
	}
	ref.reboot()
	refFinal := c12Obs(ref)
	ref.close()
	nb := len(counts)
	diskPct := 2
	if run.Tier == "thorough" {
		diskPct = 1
	}
	for bi := 0; bi < nb; bi++ {
		var specs []faultSpec
		for w := 0; w < counts[bi].writes; w++ {
			specs = append(specs, faultSpec{bi, "crash", w, -1}, faultSpec{bi, "error", w, -1})
		}
		for k := 0; k < counts[bi].kms; k++ {
			specs = append(specs, faultSpec{bi, "error", -1, k})
		}
		for _, fs := range specs {
			disk := r.Chance(diskPct) && (run.Tier == "thorough" || diskRuns == 0) || (diskRuns == 0 && fs.atReal >= 2)
			faultAndCompare(run, plan, fs, disk, refFinal, fmt.Sprintf("c12=%d", caseNo))
		}
		// measurement (outside the property's fault model, which covers writes / key-manager calls / commit): a READ
		// error of validateOperators' OperatorsExist is wrapped into a MalformedEventError, i.e. swallowed
		if bi == nb-1 {
			s := newSession(run, false, false, "")
			k := -1
			for _, st := range plan {
				if !st.blk {
					s.doItem(*st.it)
					continue
				}
				k++
				if k == bi {
					s.p.ctl.clearFault()
					s.p.ctl.readAt = 0
				}
				res := s.p.processBlock(st.num, st.evs)
				if k == bi && s.p.ctl.fired {
					bump(run, "read_error_runs")
					if res.status == "ok" {
						bump(run, "read_error_swallowed_block_committed")
					}
				}
				s.p.ctl.clearFault()
			}
			s.reboot()
			if k >= 0 && c12Obs(s) != refFinal {
				bump(run, "read_error_final_state_differs_from_run_without_error")
			}
			s.close()
		}
		// measurement (not a property violation: the real node exits on every stream error): the same process
		// retries the block after an injected write error
		if counts[bi].writes > 1 {
			fs := faultSpec{bi, "retry", 1 + r.Intn(counts[bi].writes-1), -1}
			s, fired := runWithFault(run, plan, fs, false, true, fmt.Sprintf("c12=%d", caseNo))
			if fired {
				memS, memSelf, dbS, dbSelf, _ := splitViews(s.p, s.raw)
				if memS != dbS || memSelf != dbSelf {
					run.Tag("retry-in-process:memory-differs-from-database")
					bump(run, "retry_in_process_memory_ne_database")
				} else {
					run.Tag("retry-in-process:consistent")
				}
				bump(run, "retry_in_process_runs")
			}
			s.close()
		}
	}
}

// faultAndCompare: one fault run (blocks before, the fault, new process, resume to the end) against the final state
// of the uninterrupted real run.
func faultAndCompare(run *hx.Run, plan []planStep, fs faultSpec, disk bool, refFinal, extra string) {
	if disk {
		diskRuns++
		run.Tag("c12:on-disk-database-reopened")
	}
	s, fired := runWithFault(run, plan, fs, disk, true, extra)
	if fired {
		s.reboot()
		got := c12Obs(s)
		if got != refFinal {
			sig := "C12/resume-differs-from-uninterrupted-run"
			c := lastFault
			if c.hit == "wal" && c.prev == "acc" && accountsOf(got) != accountsOf(refFinal) && stripAccounts(got) == stripAccounts(refFinal) {
				sig = "C12/duplicate-account-record-after-fault-between-account-record-and-wallet-index"
			}
			run.Violate(sig, fmt.Sprintf("fault %s in block #%d (write %d / km %d, hit %s after %s): final %s ; uninterrupted %s", fs.kind, fs.blockIdx, fs.atReal, fs.kmAt, c.hit, c.prev, got, refFinal), s.lines...)
		}
		run.Tag("c12:fault-run")
	}
	s.close()
}

// caseC12Large: one block with 130..400 cheap events (fee recipients, ValidatorAdded attempts that only bump the
// nonce, unknown topics) between two small blocks; crash / error points drawn over ALL its writes: the first ones,
// around every 128th event, random ones, the last event writes, the marker write, the commit.
func caseC12Large(run *hx.Run, r *hx.Rng, caseNo int) {
	run.Tag("c12:large-block-case")
	var ops []*event
	for i := 0; i < 4; i++ {
		rsa := 2 + r.Intn(nRSA-1)
		if i == 0 {
			rsa = 1
		}
		ops = append(ops, &event{Kind: "OA", ID: uint64(i + 1), Owner: 1, RSA: rsa})
	}
	n := 130 + r.Intn(271)
	var big []*event
	for i := 0; i < n; i++ {
		c := r.Intn(100)
		switch {
		case c < 55:
			big = append(big, &event{Kind: "FR", Owner: 1 + r.Intn(nOwners), Fee: 1 + r.Intn(nAddr)})
		case c < 85: // committee exists, share data sized correctly, signature bytes are garbage: nonce bumped, nothing else
			e := &event{Kind: "VA", Owner: 1 + r.Intn(nOwners), Val: 1 + r.Intn(nVal), SN: -1, Len: -1}
			for j := 0; j < 4; j++ {
				e.Mem = append(e.Mem, member{Op: uint64(j + 1), Key: 1 + j})
			}
			big = append(big, e)
		case c < 95: // no operators: rejected by validateOperators after the bump
			big = append(big, &event{Kind: "VA", Owner: 1 + r.Intn(nOwners), Val: 1 + r.Intn(nVal), SN: -1, Len: -1})
		default:
			big = append(big, &event{Kind: "UK"})
		}
	}
	b0 := uint64(1 + r.Intn(3))
	plan := []planStep{
		{blk: true, num: b0, evs: ops},
		{blk: true, num: b0 + 1 + uint64(r.Intn(3)), evs: big},
	}
	plan = append(plan, planStep{blk: true, num: plan[1].num + 1, evs: []*event{{Kind: "FR", Owner: 1, Fee: 2}, {Kind: "VA", Owner: 1, Val: 1, SN: -1, Len: -1}}})
	extra := fmt.Sprintf("c12=%d", caseNo)
	ref := newSession(run, true, false, extra)
	writes := 0
	for i, st := range plan {
		ref.block(st.num, st.evs)
		if i == 1 {
			writes = ref.p.ctl.n
		}
	}
	ref.reboot()
	refFinal := c12Obs(ref)
	ref.close()
	run.Tag(fmt.Sprintf("c12:large-block-writes-%d00s", writes/100))
	cand := []int{0, 1, 126, 127, 128, 129, 130, 254, 255, 256, 257, 258, 383, 384, 385, writes - 4, writes - 3, writes - 2, writes - 1}
	extraPts := 3
	if run.Tier == "thorough" {
		extraPts = 10
	}
	for i := 0; i < extraPts; i++ {
		cand = append(cand, r.Intn(writes))
	}
	// quick tier: a spread subset, always including late writes, the marker write and the commit
	seen := map[int]bool{}
	var pts []int
	for _, w := range cand {
		if w >= 0 && w < writes && !seen[w] {
			seen[w] = true
			pts = append(pts, w)
		}
	}
	if run.Tier != "thorough" {
		keep := map[int]bool{writes - 1: true, writes - 2: true, writes - 3: true}
		var sub []int
		for _, w := range pts {
			if keep[w] || r.Chance(45) {
				sub = append(sub, w)
			}
		}
		pts = sub
	}
	for i, w := range pts {
		kind := "crash"
		if (i+caseNo)%2 == 1 {
			kind = "error"
		}
		faultAndCompare(run, plan, faultSpec{1, kind, w, -1}, false, refFinal, extra)
		run.Seen(fmt.Sprintf("large:%s:%d", kind, w*8/writes))
	}
}

func bump(run *hx.Run, k string) {
	v, _ := run.Extra[k].(int)
	run.Extra[k] = v + 1
}

// what C12 compares: registry, nonces, marker, stored key shares (account records), decided history, and what a
// fresh process sees; the wallet index (I[...]) may keep a dangling entry and is not compared.
func c12Obs(s *session) string {
	o := "mem=" + memView(s.p) + " db=" + dbView(s.raw)
	i := strings.Index(o, "I[")
	j := strings.Index(o[i:], "]")
	return o[:i] + o[i+j+1:]
}

func accountsOf(o string) string {
	i := strings.Index(o, "W[")
	j := strings.Index(o[i:], "]")
	return o[i : i+j+1]
}
func stripAccounts(o string) string {
	i := strings.Index(o, "W[")
	j := strings.Index(o[i:], "]")
	return o[:i] + o[i+j+1:]
}

// ---------------------------------------------------------------------------------------------- replay

// replay re-runs op lines. Cases start at `reset`. Oracles: memory = database / restart after every block; cases
// that carry the same pair=<id> must end in the same state; a case with a crash/error fault must end in the state
// of the uninterrupted run of its distinct blocks.
func replay(run *hx.Run, lines []string) {
	var s *session
	pairFinal := map[string]string{}
	pairLines := map[string][]string{}
	var curPair string
	var hadFault bool
	var faultLine string
	var caseOps []string
	finish := func() {
		if s == nil {
			return
		}
		if curPair != "" && !s.retry && !hadFault {
			f := finalObs(s)
			if prev, ok := pairFinal[curPair]; ok {
				if prev != f {
					sig := "C11/batching-dependent"
					if s.dupOpInOneBlock() || strings.Contains(strings.Join(pairLines[curPair], "\n"), "#dup") {
						sig = "C11/batching-dependent-duplicate-operator-id-in-one-block"
					}
					run.Violate(sig, "same events, two batchings: "+prev+"  vs  "+f, append(append([]string{}, pairLines[curPair]...), s.lines...)...)
				}
			} else {
				pairFinal[curPair] = f
				pairLines[curPair] = append([]string{}, s.lines...)
				if s.dupOpInOneBlock() {
					pairLines[curPair] = append(pairLines[curPair], "#dup")
				}
			}
		}
		if hadFault && !s.retry {
			s.reboot()
			got := c12Obs(s)
			// reference: the distinct blocks and other operations of the case, uninterrupted, on a fresh database
			ref := newSession(run, false, false, "")
			seen := map[string]bool{}
			for _, l := range caseOps {
				w := strings.Fields(l)
				switch w[0] {
				case "block", "fault":
					off := 1
					if w[0] == "fault" {
						off = 3
					}
					if seen[w[off]] {
						continue
					}
					seen[w[off]] = true
					var evs []*event
					for _, t := range w[off+1:] {
						evs = append(evs, parseToken(t))
					}
					n, _ := strconv.ParseUint(w[off], 10, 64)
					ref.block(n, evs)
				case "setmeta":
					ref.setmeta(atoi(w[1]), atoi(w[2]))
				case "hist":
					ref.hist(atoi(w[1]))
				case "seedrec":
					nn := -1
					if w[3] != "-" {
						nn = atoi(w[3])
					}
					ref.seedrec(atoi(w[1]), atoi(w[2]), nn)
				}
			}
			ref.reboot()
			want := c12Obs(ref)
			ref.close()
			if modeC11 {
				if stripAccounts(got) != stripAccounts(want) && !s.dupOpInOneBlock() && !strings.Contains(got, "O[0:1:") {
					run.Violate("C11/registry-after-fault-and-restart-differs-from-event-log", fmt.Sprintf("%s: final %s ; fault-free run %s", faultLine, stripAccounts(got), stripAccounts(want)), s.lines...)
				}
			} else if got != want {
				sig := "C12/resume-differs-from-uninterrupted-run"
				if lastFault.hit == "wal" && lastFault.prev == "acc" && accountsOf(got) != accountsOf(want) && stripAccounts(got) == stripAccounts(want) {
					sig = "C12/duplicate-account-record-after-fault-between-account-record-and-wallet-index"
				}
				run.Violate(sig, fmt.Sprintf("%s: final %s ; uninterrupted %s", faultLine, got, want), s.lines...)
			}
		}
		s.close()
		s = nil
	}
	for _, l := range lines {
		w := strings.Fields(l)
		if len(w) == 0 {
			continue
		}
		if w[0] == "reset" {
			finish()
			curPair, hadFault, caseOps = "", false, nil
			extra := ""
			for _, x := range w[1:] {
				if strings.HasPrefix(x, "pair=") {
					curPair = x
					extra = x
				}
			}
			s = newSession(run, true, false, extra)
			continue
		}
		if s == nil {
			s = newSession(run, true, false, "")
		}
		caseOps = append(caseOps, l)
		switch w[0] {
		case "block":
			n, err := strconv.ParseUint(w[1], 10, 64)
			must(err)
			var evs []*event
			for _, t := range w[2:] {
				evs = append(evs, parseToken(t))
			}
			s.blockLenient(n, evs)
		case "fault":
			n, err := strconv.ParseUint(w[3], 10, 64)
			must(err)
			var evs []*event
			for _, t := range w[4:] {
				evs = append(evs, parseToken(t))
			}
			fired, _ := s.fault(w[1], -1, atoi(w[2]), -1, n, evs)
			if fired && w[1] != "retry" {
				hadFault = true
				faultLine = l
			}
		case "restart":
			s.restart()
		case "setmeta":
			s.setmeta(atoi(w[1]), atoi(w[2]))
		case "hist":
			s.hist(atoi(w[1]))
		case "seedrec":
			nn := -1
			if w[3] != "-" {
				nn = atoi(w[3])
			}
			s.seedrec(atoi(w[1]), atoi(w[2]), nn)
		}
	}
	finish()
}

// blockLenient: like block, but a retry session may legitimately see failures
func (s *session) blockLenient(num uint64, evs []*event) {
	s.block(num, evs)
}

var diskRuns int

// modeC11: the harness judges property C11 (registry = function of the event log): after a fault + restart the nonce
// oracle stays on and the registry (not the wallet, which is C12's subject) is compared with the fault-free run.
var modeC11 = true

type faultInfo struct{ hit, prev string }

var lastFault faultInfo

func main() {
	mode := flag.String("mode", "c11", "c11 | c12")
	prof := flag.String("cpuprofile", "", "write a CPU profile")
	run := hx.Start()
	defer run.Finish()
	if *prof != "" {
		f, err := os.Create(*prof)
		must(err)
		must(pprof.StartCPUProfile(f))
		defer pprof.StopCPUProfile()
	}
	r := hx.NewRng(run.Seed)
	if f := flag.Lookup("stats"); f != nil && f.Value.String() != "" {
		rsaCachePath = filepath.Join(filepath.Dir(f.Value.String()), "registry_rsa_keys.cache")
	}
	setupMaterial(r)
	modeC11 = *mode != "c12"
	if lines := run.ReplayLines(); lines != nil {
		replay(run, lines)
		return
	}
	for i := 0; i < run.N; i++ {
		if *mode == "c12" {
			caseC12(run, r, i)
		} else {
			caseC11(run, r, i)
		}
	}
}
