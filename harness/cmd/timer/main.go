// Harness for engine `timer` (property C17).
//
// Timer half: arms the REAL roundtimer.RoundTimer (allowances scaled to milliseconds through the
// verif-tagged setter, slot duration through a mock BeaconNetwork) with scripted TimeoutForRound
// sequences in real time: strictly increasing rounds, re-arming before expiry, arming after expiry,
// parent-context cancellation, plus the points the property's quantifier excludes (same round armed
// twice, a round armed again after being superseded, a new height on the shared timer). Every
// callback is timestamped. Observation per op line = rounds of the callbacks delivered since the
// previous op. Scripts keep every op >= margin away from every expiry instant, cases run
// concurrently, every case is executed twice and a case whose two executions differ (or whose
// execution measured scheduling latency above the tolerance) is re-run in isolation.
// `dur` ops compare the duration arithmetic of the real RoundTimeout (incl. production constants).
//
// Controller half: a real controller.Controller (testing config: recording timer + network) is fed
// start / decided / timeout / undecodable-timeout events, incl. stale and duplicate timeouts.
//
// Property oracle (does not use the model): at most one callback per arming, only for the most
// recently armed round, never before the deadline computed from the real RoundTimeout; a timeout
// event for a lower round, an unknown height or a decided instance leaves controller, instances,
// broadcast count and timer untouched.
package main

import (
	"context"
	"crypto/sha256"
	"encoding/json"
	"fmt"
	"os"
	"sort"
	"strconv"
	"strings"
	"sync"
	"time"

	"github.com/attestantio/go-eth2-client/spec/phase0"
	specqbft "github.com/bloxapp/ssv-spec/qbft"
	spectypes "github.com/bloxapp/ssv-spec/types"
	"github.com/bloxapp/ssv-spec/types/testingutils"
	"github.com/herumi/bls-eth-go-binary/bls"
	"go.uber.org/zap"

	"github.com/bloxapp/ssv/protocol/v2/blockchain/beacon"
	"github.com/bloxapp/ssv/protocol/v2/qbft/controller"
	"github.com/bloxapp/ssv/protocol/v2/qbft/instance"
	"github.com/bloxapp/ssv/protocol/v2/qbft/roundtimer"
	qbfttesting "github.com/bloxapp/ssv/protocol/v2/qbft/testing"
	"github.com/bloxapp/ssv/protocol/v2/types"
	"github.com/bloxapp/ssv/zz_verif/lib/hx"
)

const (
	base   = int64(1_000_000_000_000) // abstract instant (ns) of a timer case's start
	ms     = int64(time.Millisecond)
	margin = 60 * ms // distance kept between every scripted op and every expiry instant
	// liveness oracle: an arming is only judged "never called back" when nothing could have superseded, cancelled or
	// re-targeted it for this long after its expiry instant (or ever, for the last arming of a case: then the harness
	// waits up to lastArmingWait for the callback before it gives up)
	livenessClearance = 400 * time.Millisecond
	lastArmingWait    = 3 * time.Second
	// a run is "disturbed" (and re-run) when the harness itself measured more scheduling latency than this
	latencyTolerance = 30 * time.Millisecond
)

// ---------------------------------------------------------------------------------------------
// mocks of the beacon network (external system)

type mockNet struct {
	slot     time.Duration
	slotZero time.Time // real instant of slot 0
}

func (m *mockNet) GetSlotStartTime(s phase0.Slot) time.Time {
	return m.slotZero.Add(time.Duration(s) * m.slot)
}
func (m *mockNet) SlotDurationSec() time.Duration { return m.slot }

// durNet places every slot start a fixed distance after "now", which turns RoundTimeout's return
// value into (distance + duration part) and makes the arithmetic observable without waiting.
type durNet struct {
	slot time.Duration
	x    time.Duration
}

func (m *durNet) GetSlotStartTime(phase0.Slot) time.Time { return time.Now().Add(m.x) }
func (m *durNet) SlotDurationSec() time.Duration         { return m.slot }

type cfg struct {
	role  int64
	slot  int64
	thr   uint64
	quick int64
	slow  int64
}

func realRoundTimeout(c cfg, round uint64, x time.Duration) int64 {
	n := &durNet{slot: time.Duration(c.slot), x: x}
	t := roundtimer.New(context.Background(), n, spectypes.BeaconRole(c.role), nil)
	t.VerifSetTimeoutOptions(specqbft.Round(c.thr), time.Duration(c.quick), time.Duration(c.slow))
	return int64(t.RoundTimeout(0, specqbft.Round(round)))
}

// measureDur runs the real RoundTimeout and returns its duration part, and whether the result is
// relative to the slot start (true) or to the current time (false: the default: branch, which never
// consults the beacon network, so moving the slot start does not move the result).
// All configured values are multiples of 1 ms and the two clock readings inside RoundTimeout are
// microseconds apart, so rounding up to 1 ms recovers the exact value.
func measureDur(c cfg, round uint64) (int64, bool) {
	a, b := realRoundTimeout(c, round, time.Hour), realRoundTimeout(c, round, 2*time.Hour)
	if a == b {
		return a, false
	}
	best := a - int64(time.Hour)
	if v := b - int64(2*time.Hour); v > best {
		best = v
	}
	for try := 0; try < 12 && ceilMs(best)-best >= ms/2; try++ {
		if v := realRoundTimeout(c, round, time.Hour) - int64(time.Hour); v > best {
			best = v
		}
	}
	return ceilMs(best), true
}

// roleDeadlineSpec is the deadline the PROPERTY states for the four slot-timed roles, as a distance from the
// slot start: role base (a third / two thirds of the slot) + the cumulative per-round allowance
// (quick for rounds up to the threshold, slow beyond). ok=false for roles the statement does not cover.
// It is used only by the oracle, in the early direction (a longer real timeout is not a violation).
func roleDeadlineSpec(c cfg, round uint64) (int64, bool) {
	var b int64
	switch spectypes.BeaconRole(c.role) {
	case spectypes.BNRoleAttester, spectypes.BNRoleSyncCommittee:
		b = c.slot / 3
	case spectypes.BNRoleAggregator, spectypes.BNRoleSyncCommitteeContribution:
		b = c.slot / 3 * 2
	default:
		return 0, false
	}
	if round <= c.thr {
		return b + int64(round)*c.quick, true
	}
	return b + int64(c.thr)*c.quick + int64(round-c.thr)*c.slow, true
}

func ceilMs(v int64) int64 {
	if v >= 0 {
		return (v + ms - 1) / ms * ms
	}
	return -((-v) / ms * ms)
}

// ---------------------------------------------------------------------------------------------
// timer cases

type tOp struct {
	kind string // arm | cancel | register | end
	k    int64  // register: handler number, -1 = nil
	h, r uint64
	at   int64 // ns offset from the case start
}

type tCase struct {
	c      cfg
	gen    int64 // abstract instant of slot 0
	ops    []tOp
	probe  string // "" = inside the property's quantifier (strictly increasing rounds, one height)
	hdNil  bool   // the timer is built with a nil callback (as operator/validator does), else with handler 0
	styles []string
}

func (tc *tCase) lines() []string {
	first := fmt.Sprintf("reset timer role=%d slot=%d thr=%d quick=%d slow=%d gen=%d", tc.c.role, tc.c.slot, tc.c.thr, tc.c.quick, tc.c.slow, tc.gen)
	if tc.hdNil {
		first += " hd=-"
	}
	ls := []string{first}
	for _, o := range tc.ops {
		switch o.kind {
		case "arm":
			ls = append(ls, fmt.Sprintf("arm h=%d r=%d at=%d", o.h, o.r, base+o.at))
		case "register":
			if o.k < 0 {
				ls = append(ls, fmt.Sprintf("register k=- at=%d", base+o.at))
			} else {
				ls = append(ls, fmt.Sprintf("register k=%d at=%d", o.k, base+o.at))
			}
		default:
			ls = append(ls, fmt.Sprintf("%s at=%d", o.kind, base+o.at))
		}
	}
	return ls
}

type fire struct {
	round   uint64
	handler int64 // which registered callback was invoked
	ts      time.Time
}
type regRec struct {
	k     int64 // -1 = nil
	start time.Time
}
type armRec struct {
	round  uint64
	h      uint64
	start  time.Time // just before TimeoutForRound
	lb     time.Time // start + real RoundTimeout(h, round) computed at `start`: lower bound of the deadline
	cancel bool      // context already cancelled when armed
	opIdx  int       // index of the arm op in the case
}
type tRun struct {
	obs       []string // one per line of tc.lines()
	fires     []fire
	arms      []armRec
	regs      []regRec // handler registrations: New(…, done) first, then every OnTimeout call
	opStart   []time.Time // real start instant of every op of the case
	cancelAt  time.Time
	slotZero  time.Time
	disturbed bool
	latency   time.Duration
}

func sleepUntil(t time.Time) {
	for {
		d := time.Until(t)
		if d <= 0 {
			return
		}
		time.Sleep(d)
	}
}

func fmtFires(fs []fire) string {
	if len(fs) == 0 {
		return "f=-"
	}
	s := make([]string, len(fs))
	for i, f := range fs {
		s[i] = strconv.FormatUint(f.round, 10) + "@" + strconv.FormatInt(f.handler, 10)
	}
	return "f=" + strings.Join(s, ",")
}

func runTimerCase(tc *tCase) *tRun {
	res := &tRun{}
	t0 := time.Now().Add(10 * time.Millisecond)
	net := &mockNet{slot: time.Duration(tc.c.slot), slotZero: t0.Add(time.Duration(tc.gen - base))}
	res.slotZero = net.slotZero
	ctx, cancel := context.WithCancel(context.Background())
	defer cancel()
	var mu sync.Mutex
	var fires []fire
	mkcb := func(k int64) roundtimer.OnRoundTimeoutF {
		if k < 0 {
			return nil
		}
		return func(r specqbft.Round) {
			ts := time.Now()
			mu.Lock()
			fires = append(fires, fire{uint64(r), k, ts})
			mu.Unlock()
		}
	}
	k0 := int64(0)
	if tc.hdNil {
		k0 = -1
	}
	res.regs = append(res.regs, regRec{k0, time.Now()})
	tm := roundtimer.New(ctx, net, spectypes.BeaconRole(tc.c.role), mkcb(k0))
	tm.VerifSetTimeoutOptions(specqbft.Round(tc.c.thr), time.Duration(tc.c.quick), time.Duration(tc.c.slow))

	// canary: measures the scheduling latency this process experiences while the case runs
	stop := make(chan struct{})
	var canaryMax time.Duration
	var wg sync.WaitGroup
	wg.Add(1)
	go func() {
		defer wg.Done()
		for {
			select {
			case <-stop:
				return
			default:
			}
			a := time.Now()
			time.Sleep(4 * time.Millisecond)
			if over := time.Since(a) - 4*time.Millisecond; over > canaryMax {
				canaryMax = over
			}
		}
	}()

	res.obs = append(res.obs, "ok")
	seen := 0
	cancelled := false
	for opIdx, op := range tc.ops {
		due := t0.Add(time.Duration(op.at))
		sleepUntil(due)
		res.opStart = append(res.opStart, time.Now())
		if l := time.Since(due); l > res.latency {
			res.latency = l
			if debugLatency {
				fmt.Fprintf(os.Stderr, "op late %v\n", l)
			}
		}
		mu.Lock()
		nw := append([]fire(nil), fires[seen:]...)
		seen = len(fires)
		mu.Unlock()
		res.obs = append(res.obs, fmtFires(nw))
		switch op.kind {
		case "arm":
			st := time.Now()
			d := tm.RoundTimeout(specqbft.Height(op.h), specqbft.Round(op.r))
			res.arms = append(res.arms, armRec{round: op.r, h: op.h, start: st, lb: st.Add(d), cancel: cancelled, opIdx: opIdx})
			tm.TimeoutForRound(specqbft.Height(op.h), specqbft.Round(op.r))
		case "register":
			res.regs = append(res.regs, regRec{op.k, time.Now()})
			tm.OnTimeout(mkcb(op.k))
		case "cancel":
			res.cancelAt = time.Now()
			cancel()
			cancelled = true
		}
	}
	close(stop)
	wg.Wait()
	// the last arming can no longer be superseded: if it is owed a callback, wait generously for it
	if n := len(res.arms); n > 0 && owedCallback(tc, res, n-1) {
		waitUntil := time.Now().Add(lastArmingWait)
		for time.Now().Before(waitUntil) {
			mu.Lock()
			res.fires = append(res.fires[:0], fires...)
			mu.Unlock()
			if calledBack(res, n-1) {
				break
			}
			time.Sleep(10 * time.Millisecond)
		}
	}
	mu.Lock()
	res.fires = append([]fire(nil), fires...)
	mu.Unlock()
	if canaryMax > res.latency {
		res.latency = canaryMax
	}
	// callback latency relative to the real deadline (never negative unless the property is violated)
	for _, f := range res.fires {
		lat := time.Duration(-1)
		for _, a := range res.arms {
			ref := a.lb
			if ref.Before(a.start) {
				ref = a.start
			}
			if a.round == f.round && !ref.After(f.ts) {
				if l := f.ts.Sub(ref); lat < 0 || l < lat {
					lat = l
				}
			}
		}
		if lat > res.latency {
			res.latency = lat
			if debugLatency {
				fmt.Fprintf(os.Stderr, "cb late %v round %d\n", lat, f.round)
			}
		}
	}
	res.disturbed = res.latency > latencyTolerance
	if debugLatency {
		fmt.Fprintf(os.Stderr, "latency=%v canary=%v fires=%d\n", res.latency, canaryMax, len(res.fires))
	}
	return res
}

// owedCallback: arming i was made on a live context with a non-nil handler in force, and no later op of the case
// (arm = supersede, cancel, register = other handler) begins within livenessClearance after its expiry instant.
func owedCallback(tc *tCase, r *tRun, i int) bool {
	a := r.arms[i]
	if a.cancel {
		return false
	}
	handler := int64(-1)
	for _, g := range r.regs {
		if !g.start.After(a.start) {
			handler = g.k
		}
	}
	if handler < 0 {
		return false
	}
	expiry := a.lb
	if expiry.Before(a.start) {
		expiry = a.start
	}
	for j := a.opIdx + 1; j < len(tc.ops) && j < len(r.opStart); j++ {
		if tc.ops[j].kind != "end" && r.opStart[j].Before(expiry.Add(livenessClearance)) {
			return false
		}
	}
	return true
}

func calledBack(r *tRun, i int) bool {
	a := r.arms[i]
	for _, f := range r.fires {
		if f.round == a.round && !f.ts.Before(a.start) {
			return true
		}
	}
	return false
}

// oracle evaluates the property on one execution of a case inside the property's quantifier.
func oracle(run *hx.Run, tc *tCase, r *tRun) {
	if tc.probe != "" {
		return
	}
	for i, a := range r.arms {
		if owedCallback(tc, r, i) && !calledBack(r, i) {
			late := ""
			if a.lb.Before(a.start) {
				late = fmt.Sprintf(" (its deadline had passed %v before it was armed)", a.start.Sub(a.lb).Round(time.Millisecond))
			}
			run.Violate("C17/arming-never-called-back", fmt.Sprintf("round %d was armed%s, was neither superseded nor cancelled, and its callback never ran", a.round, late), tc.lines()...)
		}
	}
	count := map[uint64]int{}
	for _, f := range r.fires {
		count[f.round]++
		if count[f.round] == 2 {
			run.Violate("C17/callback-twice-for-one-arming", fmt.Sprintf("round %d was armed once and its callback ran twice", f.round), tc.lines()...)
		}
		// the callback in force: the handler of the most recent registration (New or OnTimeout); a registration that
		// began less than 10 ms before the callback is not counted against it
		hStrict, hLoose := int64(-2), int64(-2)
		for _, g := range r.regs {
			if !g.start.After(f.ts) {
				hLoose = g.k
			}
			if !g.start.After(f.ts.Add(-10 * time.Millisecond)) {
				hStrict = g.k
			}
		}
		if f.handler != hStrict && f.handler != hLoose {
			run.Violate("C17/callback-to-replaced-handler", fmt.Sprintf("callback for round %d was delivered to handler %d while handler %d was the one registered last", f.round, f.handler, hLoose), tc.lines()...)
		}
		// the arming of this round
		var a *armRec
		for i := range r.arms {
			if r.arms[i].round == f.round {
				a = &r.arms[i]
			}
		}
		if a == nil {
			run.Violate("C17/callback-for-never-armed-round", fmt.Sprintf("callback for round %d which was never armed", f.round), tc.lines()...)
			continue
		}
		if f.ts.Before(a.lb) {
			run.Violate("C17/callback-before-deadline", fmt.Sprintf("callback for round %d ran %v before start+RoundTimeout", f.round, a.lb.Sub(f.ts)), tc.lines()...)
		}
		if d, ok := roleDeadlineSpec(tc.c, f.round); ok {
			if dl := r.slotZero.Add(time.Duration(int64(a.h)*tc.c.slot + d)); f.ts.Before(dl) {
				run.Violate("C17/callback-before-role-deadline", fmt.Sprintf("callback for round %d ran %v before slot start + role base + cumulative allowance", f.round, dl.Sub(f.ts)), tc.lines()...)
			}
		}
		// most recently armed round at the time of the callback; an arming that began less than
		// 10 ms before the callback is not counted against it (check-then-call window of waitForRound)
		latestStrict, latestLoose := int64(-1), int64(-1)
		for _, b := range r.arms {
			if !b.start.After(f.ts) {
				latestLoose = int64(b.round)
			}
			if !b.start.After(f.ts.Add(-10 * time.Millisecond)) {
				latestStrict = int64(b.round)
			}
		}
		if int64(f.round) != latestStrict && int64(f.round) != latestLoose {
			run.Violate("C17/callback-for-superseded-round", fmt.Sprintf("callback for round %d while round %d was the most recently armed", f.round, latestLoose), tc.lines()...)
		}
	}
}

// ---- generator

func genTimerCase(r *hx.Rng, forceProbe string) *tCase {
	tc := &tCase{}
	switch {
	case r.Chance(70):
		tc.c.role = int64([]spectypes.BeaconRole{spectypes.BNRoleAttester, spectypes.BNRoleAggregator, spectypes.BNRoleSyncCommittee, spectypes.BNRoleSyncCommitteeContribution}[r.Intn(4)])
	case r.Chance(80):
		tc.c.role = int64(spectypes.BNRoleProposer)
	default:
		tc.c.role = int64(r.Pick(int(spectypes.BNRoleValidatorRegistration), int(spectypes.BNRoleVoluntaryExit), 9))
	}
	tc.c.slot = 3 * ms * int64(20+r.Intn(60))
	tc.c.quick = ms * int64(60+r.Intn(60))
	tc.c.slow = ms * int64(150+r.Intn(150))
	tc.c.thr = uint64(1 + r.Intn(3))
	h0 := uint64(r.Intn(40))
	slotOff := ms * int64(-150+r.Intn(250))
	lateStart := forceProbe == "" && r.Chance(25) // late duty start: the deadlines of the first 0..several rounds have already passed
	if lateStart {
		slotOff = -ms * int64(250+r.Intn(1100))
	}
	tc.gen = base + slotOff - int64(h0)*tc.c.slot
	tc.probe = forceProbe

	// expiry instants are learnt from the real RoundTimeout (they are only used to keep the script away from them)
	durCache := map[uint64]int64{}
	_, slotTimed := measureDur(tc.c, 1)
	dur := func(round uint64) int64 {
		if v, ok := durCache[round]; ok {
			return v
		}
		v, _ := measureDur(tc.c, round)
		durCache[round] = v
		return v
	}
	fireAt := func(h, round uint64, at int64) int64 {
		d := at + dur(round)
		if slotTimed {
			d = slotOff + (int64(h)-int64(h0))*tc.c.slot + dur(round)
		}
		if d < at {
			return at
		}
		return d
	}
	var fireTimes []int64
	conflict := func(t int64) bool {
		for _, f := range fireTimes {
			if t-f < margin && f-t < margin {
				return true
			}
		}
		return false
	}
	place := func(t int64) int64 {
		for conflict(t) {
			t += 7 * ms
		}
		return t
	}

	nArms := 1 + r.Intn(5)
	round := uint64(1)
	if r.Chance(20) {
		round += uint64(r.Intn(3))
	}
	h := h0
	t := ms * int64(r.Intn(30))
	cancelled := false
	cancelAfter := -1
	if r.Chance(25) {
		cancelAfter = r.Intn(nArms)
	}
	probeAt := -1
	if tc.probe != "" && nArms < 2 {
		nArms = 2
	}
	if tc.probe != "" {
		probeAt = 1 + r.Intn(nArms-1)
	}
	var prevFire int64
	var prevRounds []uint64
	// handler registration: built with nil as operator/validator does (the handler arrives shortly after the first
	// arming, like registerTimeoutHandler), and/or re-registered later (a new height's handler replaces the old one)
	tc.hdNil = r.Chance(20)
	reRegister := tc.hdNil || r.Chance(35)
	nextHandler := int64(1)
	for i := 0; i < nArms; i++ {
		style := "first"
		if i > 0 {
			switch {
			case r.Chance(45) && prevFire-margin > t+5*ms: // re-arm before the previous arming expires
				style = "rearm-before-expiry"
				t = t + 5*ms + int64(r.Intn(int((prevFire-margin-t-5*ms)/ms+1)))*ms
			case r.Chance(70): // after the previous arming expired (the timeout chain)
				style = "arm-after-expiry"
				if prevFire > t {
					t = prevFire
				}
				t += margin + ms*int64(r.Intn(60))
				if lateStart && r.Chance(50) { // leave the previous arming alone long enough for the liveness oracle to judge it
					t += ms * int64(400+r.Intn(100))
					style = "arm-long-after-expiry"
				}
			default:
				style = "random-gap"
				t += ms * int64(5+r.Intn(250))
			}
			if i == probeAt {
				switch tc.probe {
				case "same-round-twice":
					round = prevRounds[len(prevRounds)-1]
				case "round-rearmed-after-supersede":
					if len(prevRounds) >= 2 {
						round = prevRounds[len(prevRounds)-2]
					} else {
						round = prevRounds[0] // degenerates to same-round-twice
					}
				case "new-height-same-timer":
					h++
					round = 1
				}
			} else {
				round++
				if r.Chance(25) {
					round += uint64(1 + r.Intn(2))
				}
			}
		}
		t = place(t)
		if cancelled { // after cancellation only arm with a deadline safely in the future (ctx.Done vs timer channel would race)
			for tries := 0; fireAt(h, round, t) < t+margin && tries < 50; tries++ {
				round++
			}
			style = "arm-after-cancel"
		}
		f := fireAt(h, round, t)
		if f == t && !cancelled {
			style += "+deadline-passed"
		}
		tc.ops = append(tc.ops, tOp{kind: "arm", h: h, r: round, at: t})
		tc.styles = append(tc.styles, style)
		fireTimes = append(fireTimes, f)
		prevFire = f
		prevRounds = append(prevRounds, round)
		if reRegister && ((tc.hdNil && i == 0 && r.Chance(85)) || r.Chance(30)) {
			t = place(t + ms*int64(3+r.Intn(80)))
			k := nextHandler
			nextHandler++
			st := "register"
			if r.Chance(8) {
				k, st = -1, "register-nil"
			}
			tc.ops = append(tc.ops, tOp{kind: "register", k: k, at: t})
			tc.styles = append(tc.styles, st)
		}
		if i == cancelAfter {
			t = place(t + ms*int64(5+r.Intn(200)))
			tc.ops = append(tc.ops, tOp{kind: "cancel", at: t})
			tc.styles = append(tc.styles, "cancel")
			cancelled = true
		}
	}
	end := t
	for _, f := range fireTimes {
		if f > end {
			end = f
		}
	}
	tc.ops = append(tc.ops, tOp{kind: "end", at: end + margin + 20*ms})
	if lateStart {
		tc.styles = append(tc.styles, "late-duty-start")
	}
	return tc
}

func parseKV(fs []string) map[string]int64 {
	m := map[string]int64{}
	for _, f := range fs {
		if i := strings.IndexByte(f, '='); i > 0 {
			if v, err := strconv.ParseInt(f[i+1:], 10, 64); err == nil {
				m[f[:i]] = v
			}
		}
	}
	return m
}

// caseFromLines rebuilds a timer case from its op lines (replay / corpus).
func caseFromLines(ls []string) *tCase {
	tc := &tCase{probe: "replay"}
	for i, l := range ls {
		fs := strings.Fields(l)
		kv := parseKV(fs)
		switch {
		case i == 0:
			tc.c = cfg{role: kv["role"], slot: kv["slot"], thr: uint64(kv["thr"]), quick: kv["quick"], slow: kv["slow"]}
			tc.gen = kv["gen"]
			tc.hdNil = strings.Contains(l, " hd=-")
		case fs[0] == "register":
			k, ok := kv["k"]
			if !ok {
				k = -1
			}
			tc.ops = append(tc.ops, tOp{kind: "register", k: k, at: kv["at"] - base})
		case fs[0] == "arm":
			tc.ops = append(tc.ops, tOp{kind: "arm", h: uint64(kv["h"]), r: uint64(kv["r"]), at: kv["at"] - base})
		default:
			tc.ops = append(tc.ops, tOp{kind: fs[0], at: kv["at"] - base})
		}
	}
	// a replayed case is inside the property's quantifier iff one height and strictly increasing rounds
	inside := true
	var lastR, lastH uint64
	first := true
	for _, o := range tc.ops {
		if o.kind != "arm" {
			continue
		}
		if !first && (o.r <= lastR || o.h != lastH) {
			inside = false
		}
		first, lastR, lastH = false, o.r, o.h
	}
	if inside {
		tc.probe = ""
	}
	return tc
}

func obsKey(r *tRun) string { return strings.Join(r.obs, "|") }

// agreed returns the accepted execution: two executions with the same observation of which at least one
// measured no scheduling latency above the tolerance, or (busy machine) three executions with the same
// observation; nil while there is none.
func agreed(runs []*tRun) *tRun {
	all := map[string]int{}
	for _, r := range runs {
		all[obsKey(r)]++
	}
	for _, r := range runs {
		if !r.disturbed && all[obsKey(r)] >= 2 {
			return r
		}
	}
	for _, r := range runs {
		if all[obsKey(r)] >= 3 {
			return r
		}
	}
	return nil
}

// stable re-executes a case IN ISOLATION until executions agree; a difference that does not
// reproduce is scheduling noise, one that reproduces is reported as observed.
func stable(tc *tCase, runs []*tRun, stats map[string]int) *tRun {
	if a := agreed(runs); a != nil {
		return a
	}
	stats["timer-cases-rerun-in-isolation"]++
	for i := 0; i < 6; i++ {
		runs = append(runs, runTimerCase(tc))
		if a := agreed(runs); a != nil {
			return a
		}
	}
	stats["timer-cases-unstable"]++
	cnt := map[string]int{}
	best := runs[len(runs)-1]
	for _, r := range runs {
		cnt[obsKey(r)]++
		if cnt[obsKey(r)] > cnt[obsKey(best)] {
			best = r
		}
	}
	return best
}

// pool executes every listed case `times` more times on `workers` goroutines.
func pool(cases []*tCase, runs [][]*tRun, idx []int, times, workers int) {
	type job struct{ i int }
	jobs := make(chan job, times*len(idx))
	for k := 0; k < times; k++ {
		for _, i := range idx {
			jobs <- job{i}
		}
	}
	close(jobs)
	var mu sync.Mutex
	var wg sync.WaitGroup
	for w := 0; w < workers; w++ {
		wg.Add(1)
		go func() {
			defer wg.Done()
			for j := range jobs {
				r := runTimerCase(cases[j.i])
				mu.Lock()
				runs[j.i] = append(runs[j.i], r)
				mu.Unlock()
			}
		}()
	}
	wg.Wait()
}

func emitTimerCase(run *hx.Run, tc *tCase, acc *tRun) {
	ls := tc.lines()
	for i, l := range ls {
		run.Emit(l, acc.obs[i])
	}
	oracle(run, tc, acc)
	nf := len(acc.fires)
	roleClass := "default-branch"
	if tc.c.role == int64(spectypes.BNRoleAttester) || tc.c.role == int64(spectypes.BNRoleSyncCommittee) {
		roleClass = "third-slot"
	} else if tc.c.role == int64(spectypes.BNRoleAggregator) || tc.c.role == int64(spectypes.BNRoleSyncCommitteeContribution) {
		roleClass = "two-thirds-slot"
	}
	run.Tag("timer/role/" + roleClass)
	run.Tag("timer/callbacks/" + hx.Itoa(hx.Min(nf, 4)))
	for _, s := range tc.styles {
		run.Tag("timer/op/" + s)
	}
	if tc.probe != "" {
		run.Tag("timer/excluded-point/" + tc.probe)
	} else {
		run.Tag("timer/inside-quantifier")
	}
	sty := append([]string(nil), tc.styles...)
	sort.Strings(sty)
	run.Seen(fmt.Sprintf("timer|%s|%s|%s|f%d", roleClass, tc.probe, strings.Join(uniq(sty), "+"), hx.Min(nf, 3)))
}

func uniq(s []string) []string {
	var o []string
	for i, x := range s {
		if i == 0 || x != s[i-1] {
			o = append(o, x)
		}
	}
	return o
}

// ---------------------------------------------------------------------------------------------
// duration arithmetic

func genDur(r *hx.Rng) (cfg, uint64) {
	var c cfg
	c.role = int64(r.Pick(0, 1, 2, 3, 4, 5, 6, 7, 200))
	if r.Chance(50) { // production options and slot time
		thr, q, s := roundtimer.New(context.Background(), &durNet{}, spectypes.BNRoleAttester, nil).VerifTimeoutOptions()
		c.thr, c.quick, c.slow = uint64(thr), int64(q), int64(s)
		c.slot = 12 * int64(time.Second)
	} else {
		c.thr = uint64(r.Intn(12))
		c.quick = ms * int64(1+r.Intn(3000))
		c.slow = ms * int64(1+r.Intn(200000))
		c.slot = 3 * ms * int64(r.Pick(0, 1, 2, 3, 33, 100, 101, 333, 1000, 2000, 4000, 1333))
	}
	var round uint64
	switch r.Intn(6) {
	case 0:
		round = uint64(r.Intn(3))
	case 1:
		round = c.thr + uint64(r.Intn(3))
	case 2:
		if c.thr > 0 {
			round = c.thr - 1
		}
	case 3:
		round = uint64(r.Intn(20))
	case 4:
		round = uint64(r.Intn(1000000))
	default:
		round = uint64(1 + r.Intn(16))
	}
	return c, round
}

func doDur(run *hx.Run, c cfg, round uint64) {
	v, _ := measureDur(c, round)
	if d, ok := roleDeadlineSpec(c, round); ok && v < d {
		run.Violate("C17/timeout-shorter-than-role-deadline", fmt.Sprintf("RoundTimeout places the deadline of round %d at slot start + %d ns, the role's deadline is slot start + %d ns", round, v, d),
			fmt.Sprintf("dur role=%d slot=%d thr=%d quick=%d slow=%d r=%d", c.role, c.slot, c.thr, c.quick, c.slow, round))
	}
	run.Emit(fmt.Sprintf("dur role=%d slot=%d thr=%d quick=%d slow=%d r=%d", c.role, c.slot, c.thr, c.quick, c.slow, round), strconv.FormatInt(v, 10))
	rc := "default"
	if c.role == 0 || c.role == 3 {
		rc = "third"
	} else if c.role == 1 || c.role == 4 {
		rc = "twothirds"
	}
	tier := "quick-tier"
	if round > c.thr {
		tier = "slow-tier"
	} else if round == c.thr {
		tier = "at-threshold"
	}
	run.Tag("dur/" + rc + "/" + tier)
	run.Seen("dur|" + rc + "|" + tier)
}

// ---------------------------------------------------------------------------------------------
// real beacon.Network stratum: the RoundTimer is built the way the operator builds it
// (operator/validator: options.BeaconNetwork.GetNetwork() → validator.Options.BeaconNetwork → roundtimer.New),
// from a configured beacon.Network (incl. local test networks, whose genesis differs from the spec network's).
// Observation: the absolute deadline the real RoundTimeout aims at (slot-timed roles) or its relative result.
// Oracle: that deadline is never before slot start + role base + cumulative allowance, the slot start being
// computed here from MinGenesisTime / SlotDurationSec of the SAME configured object, not through GetNetwork.

var specNets = []spectypes.BeaconNetwork{spectypes.MainNetwork, spectypes.HoleskyNetwork, spectypes.PraterNetwork, spectypes.BeaconTestNetwork}

func configuredNet(name string, local bool) (beacon.Network, bool) {
	for _, n := range specNets {
		if string(n) == name {
			if local {
				return beacon.NewLocalTestNetwork(n), true
			}
			return beacon.NewNetwork(n), true
		}
	}
	return beacon.Network{}, false
}

func doNetDl(run *hx.Run, name string, local bool, c cfg, scaled bool, h, round uint64) {
	cn, ok := configuredNet(name, local)
	if !ok {
		panic("unknown network " + name)
	}
	var handed beacon.BeaconNetwork = cn.GetNetwork() // what NewController hands to validator.Options
	tm := roundtimer.New(context.Background(), handed, spectypes.BeaconRole(c.role), nil)
	if scaled {
		tm.VerifSetTimeoutOptions(specqbft.Round(c.thr), time.Duration(c.quick), time.Duration(c.slow))
	}
	thr, q, sl := tm.VerifTimeoutOptions()
	c.thr, c.quick, c.slow = uint64(thr), int64(q), int64(sl)
	// independent of GetNetwork: the configured object's own genesis and slot duration
	c.slot = int64(cn.SlotDurationSec())
	genesis := int64(cn.MinGenesisTime()) * int64(time.Second)
	slotStart := genesis + int64(h)*int64(uint64(cn.SlotDurationSec().Seconds()))*int64(time.Second)
	line := fmt.Sprintf("netdl net=%s local=%s role=%d slot=%d thr=%d quick=%d slow=%d gen=%d h=%d r=%d scaled=%s",
		name, b01(local), c.role, c.slot, c.thr, c.quick, c.slow, genesis, h, round, b01(scaled))
	spec, slotTimed := roleDeadlineSpec(c, round)
	call := func() (int64, int64, int64) {
		before := time.Now().UnixNano()
		d := int64(tm.RoundTimeout(specqbft.Height(h), specqbft.Round(round)))
		return before, d, time.Now().UnixNano()
	}
	b1, d1, a1 := call()
	time.Sleep(2 * time.Millisecond)
	_, d2, _ := call()
	obs := ""
	if d1 == d2 { // the clock did not enter the result: relative to the arming time (default: branch)
		obs = "rel " + strconv.FormatInt(d1, 10)
	} else {
		best := b1 + d1
		check := func(after, d int64) {
			if slotTimed && after+d < slotStart+spec {
				run.Violate("C17/deadline-before-slot-start-formula", fmt.Sprintf("network %s (local=%v): RoundTimeout(h=%d, r=%d) aims at an instant %d ns before slot start + role base + cumulative allowance",
					name, local, h, round, slotStart+spec-(after+d)), line)
			}
		}
		check(a1, d1)
		for try := 0; try < 12 && ceilMs(best)-best >= ms/2; try++ {
			b, d, a := call()
			check(a, d)
			if b+d > best {
				best = b + d
			}
		}
		obs = "abs " + strconv.FormatInt(ceilMs(best), 10)
	}
	run.Emit(line, obs)
	lc := "spec-genesis"
	if local {
		lc = "local-genesis"
	}
	rc := "default-branch"
	if slotTimed {
		rc = "slot-timed"
	}
	run.Tag("netdl/" + lc + "/" + rc)
	run.Seen("netdl|" + name + "|" + lc + "|" + rc)
}

func genNetDl(run *hx.Run, r *hx.Rng) {
	name := string(specNets[r.Intn(len(specNets))])
	local := r.Chance(50)
	cn, _ := configuredNet(name, local)
	var c cfg
	c.role = int64(r.Pick(0, 1, 2, 3, 4, 0, 1, 3, 4, 5))
	scaled := r.Chance(30)
	if scaled {
		c.thr, c.quick, c.slow = uint64(1+r.Intn(10)), ms*int64(1+r.Intn(5000)), ms*int64(1+r.Intn(300000))
	}
	h := uint64(cn.EstimatedCurrentSlot())
	switch r.Intn(4) {
	case 0:
		h = uint64(r.Intn(1 << 24))
	case 1:
		h += uint64(r.Intn(64))
	default:
		h += uint64(r.Intn(3))
	}
	doNetDl(run, name, local, c, scaled, h, uint64(r.Pick(1, 1, 2, 3, 8, 9, 12, r.Intn(30))))
}

// ---------------------------------------------------------------------------------------------
// controller half

type ctlEnv struct {
	ctrl  *controller.Controller
	timer *roundtimer.TestQBFTTimer
	net   *testingutils.TestingNetwork
	ks    *testingutils.TestKeySet
	id    []byte
	lines []string
	// height of the most recently (successfully) started instance = the runner's running instance
	started bool
	running uint64
}

var logger = zap.NewNop()
var debugLatency = os.Getenv("VERIF_TIMER_DEBUG") != ""

// newCtl builds a real controller; capacity > 0 replaces the instance container by one of that capacity
// (as qbfttesting.NewTestingQBFTController does), 0 keeps the production container of NewController.
func newCtl(capacity int) *ctlEnv {
	ks := testingutils.Testing4SharesSet()
	conf := qbfttesting.TestingConfig(logger, ks, spectypes.BNRoleAttester)
	id := spectypes.NewMsgID(testingutils.TestingSSVDomainType, ks.ValidatorPK.Serialize(), spectypes.BNRoleAttester)
	e := &ctlEnv{ks: ks, id: id[:]}
	e.timer = conf.Timer.(*roundtimer.TestQBFTTimer)
	e.net = conf.Network.(*testingutils.TestingNetwork)
	e.ctrl = controller.NewController(e.id, qbfttesting.TestingShare(ks), conf, false)
	if capacity > 0 {
		e.ctrl.StoredInstances = make(controller.InstanceContainer, 0, capacity)
	}
	return e
}

func b01(b bool) string {
	if b {
		return "1"
	}
	return "0"
}

func (e *ctlEnv) snapshot() string {
	var parts []string
	for _, in := range e.ctrl.StoredInstances {
		if in == nil {
			parts = append(parts, "nil")
			continue
		}
		parts = append(parts, fmt.Sprintf("%d:%d:%s:%s", in.State.Height, in.State.Round, b01(in.State.Decided), b01(in.CanProcessMessages())))
	}
	return fmt.Sprintf("H%d[%s]", e.ctrl.Height, strings.Join(parts, ","))
}

func timeoutMsg(h, r uint64) types.EventMsg {
	data, err := json.Marshal(types.TimeoutData{Height: specqbft.Height(h), Round: specqbft.Round(r)})
	if err != nil {
		panic(err)
	}
	return types.EventMsg{Type: types.Timeout, Data: data}
}

func (e *ctlEnv) decidedMsg(h, r uint64) *specqbft.SignedMessage {
	full := []byte{1, 2, 3, 4, byte(h), byte(r)}
	sks := []*bls.SecretKey{e.ks.Shares[1], e.ks.Shares[2], e.ks.Shares[3]}
	ids := []spectypes.OperatorID{1, 2, 3}
	return testingutils.TestingCommitMultiSignerMessageWithParams(sks, ids, specqbft.Round(r), specqbft.Height(h), e.id, sha256.Sum256(full), full)
}

func (e *ctlEnv) do(run *hx.Run, line string) {
	fs := strings.Fields(line)
	kv := parseKV(fs)
	h, r := uint64(kv["h"]), uint64(kv["r"])
	e.lines = append(e.lines, line)
	bc0 := len(e.net.BroadcastedMsgs)
	var err error
	showBc := true
	switch fs[0] {
	case "start":
		showBc = false
		err = e.ctrl.StartNewInstance(logger, specqbft.Height(h), []byte{1, 2, 3, 4})
		if err == nil {
			e.started, e.running = true, h
		}
	case "decide":
		_, err = e.ctrl.ProcessMsg(logger, e.decidedMsg(h, r))
	case "timeout", "badtimeout":
		var msg types.EventMsg
		stale := false
		cls := "bad-data"
		if fs[0] == "timeout" {
			msg = timeoutMsg(h, r)
			in := e.ctrl.StoredInstances.FindInstance(specqbft.Height(h))
			switch {
			case in == nil:
				stale, cls = true, "unknown-height"
			case !e.started || h != e.running: // not the instance most recently started: "another height"
				stale, cls = true, "other-height"
			case specqbft.Round(r) < in.State.Round:
				stale, cls = true, "lower-round"
			case in.State.Decided:
				stale, cls = true, "decided-instance"
			case !in.CanProcessMessages():
				cls = "stopped-instance"
			case specqbft.Round(r) > in.State.Round:
				cls = "future-round"
			default:
				cls = "current-round"
			}
		} else {
			msg = types.EventMsg{Type: types.Timeout, Data: []byte("{not json")}
			stale = true
		}
		before := fmt.Sprintf("%s bc=%d tm=%d:%d", e.snapshot(), bc0, e.timer.State.Timeouts, e.timer.State.Round)
		err = e.ctrl.OnTimeout(logger, msg)
		after := fmt.Sprintf("%s bc=%d tm=%d:%d", e.snapshot(), len(e.net.BroadcastedMsgs), e.timer.State.Timeouts, e.timer.State.Round)
		if stale && before != after {
			run.Violate("C17/stale-timeout-changed-state:"+cls, fmt.Sprintf("timeout event class %s changed the controller: %s -> %s", cls, before, after), e.lines...)
		}
		run.Tag("ctl/timeout/" + cls)
		run.Seen("ctl|timeout|" + cls + "|" + b01(err != nil))
	default:
		panic("bad ctl op " + line)
	}
	bc := "-"
	if showBc {
		bc = hx.Itoa(len(e.net.BroadcastedMsgs) - bc0)
	}
	if fs[0] != "timeout" && fs[0] != "badtimeout" {
		run.Tag("ctl/" + fs[0] + "/err=" + b01(err != nil))
		run.Seen("ctl|" + fs[0] + "|" + b01(err != nil))
	}
	run.Emit(line, fmt.Sprintf("e=%s bc=%s tm=%d:%d st=%s", b01(err != nil), bc, e.timer.State.Timeouts, e.timer.State.Round, e.snapshot()))
}

func startCtl(run *hx.Run, capacity int) *ctlEnv {
	e := newCtl(capacity)
	line := fmt.Sprintf("reset ctl cap=%d cutoff=%d", cap(e.ctrl.StoredInstances), instance.CutoffRound)
	e.lines = []string{line}
	run.Emit(line, "ok")
	return e
}

func genCtlCase(run *hx.Run, r *hx.Rng) {
	e := startCtl(run, r.Pick(0, 0, 1, 3, 3, 4, 8, 1024))
	n := 8 + r.Intn(25)
	cur := uint64(r.Intn(5))
	started := false
	roundOf := func(h uint64) uint64 {
		if in := e.ctrl.StoredInstances.FindInstance(specqbft.Height(h)); in != nil {
			return uint64(in.State.Round)
		}
		return 1
	}
	pickH := func() uint64 {
		if r.Chance(65) || cur < 3 {
			return cur + uint64(r.Intn(3))
		}
		return cur - uint64(1+r.Intn(3))
	}
	for i := 0; i < n; i++ {
		x := r.Intn(100)
		switch {
		case !started || x < 18:
			h := cur
			if started {
				h = pickH()
				if r.Chance(60) {
					h = cur + 1
				}
			}
			e.do(run, fmt.Sprintf("start h=%d", h))
			if h >= cur {
				cur = h
			}
			started = true
		case x < 30:
			h := pickH()
			rr := roundOf(h)
			if r.Chance(40) {
				rr = uint64(1 + r.Intn(6))
			}
			e.do(run, fmt.Sprintf("decide h=%d r=%d", h, rr))
			if h > cur {
				cur = h
			}
		case x < 35:
			e.do(run, "badtimeout")
		case x < 42: // a long chain of genuine timeouts (reaches the cutoff round)
			k := 3 + r.Intn(16)
			for j := 0; j < k; j++ {
				e.do(run, fmt.Sprintf("timeout h=%d r=%d", cur, roundOf(cur)))
			}
		case x < 62 && len(e.ctrl.StoredInstances) > 0: // a timeout aimed at ANY stored instance (old, decided-created, running), around its round
			in := e.ctrl.StoredInstances[r.Intn(len(e.ctrl.StoredInstances))]
			rr := uint64(in.State.Round)
			switch r.Intn(4) {
			case 0:
				if rr > 0 {
					rr--
				}
			case 1:
				rr += uint64(1 + r.Intn(2))
			}
			e.do(run, fmt.Sprintf("timeout h=%d r=%d", in.State.Height, rr))
		default:
			h := cur
			if r.Chance(30) {
				h = pickH()
			}
			cr := roundOf(h)
			rr := cr
			switch r.Intn(10) {
			case 0, 1, 2: // stale: lower round (incl. a duplicate of the timeout just processed)
				if cr > 1 {
					rr = cr - uint64(1+r.Intn(int(cr-1)))
				} else {
					rr = 0
				}
			case 3:
				rr = cr + uint64(1+r.Intn(3))
			}
			line := fmt.Sprintf("timeout h=%d r=%d", h, rr)
			e.do(run, line)
			if r.Chance(25) { // duplicate delivery of the same event
				e.do(run, line)
			}
		}
	}
}

// ---------------------------------------------------------------------------------------------

func replay(run *hx.Run, lines []string, stats map[string]int) {
	var e *ctlEnv
	for i := 0; i < len(lines); i++ {
		fs := strings.Fields(lines[i])
		if len(fs) == 0 {
			continue
		}
		switch {
		case fs[0] == "reset" && len(fs) > 1 && fs[1] == "timer":
			j := i + 1
			for j < len(lines) && !strings.HasPrefix(lines[j], "reset") && !strings.HasPrefix(lines[j], "dur") && !strings.HasPrefix(lines[j], "netdl") {
				j++
			}
			tc := caseFromLines(lines[i:j])
			emitTimerCase(run, tc, stable(tc, []*tRun{runTimerCase(tc), runTimerCase(tc)}, stats))
			i = j - 1
		case fs[0] == "reset" && len(fs) > 1 && fs[1] == "ctl":
			e = startCtl(run, int(parseKV(fs)["cap"]))
		case fs[0] == "netdl":
			kv := parseKV(fs)
			name := ""
			for _, f := range fs {
				if strings.HasPrefix(f, "net=") {
					name = f[4:]
				}
			}
			doNetDl(run, name, kv["local"] == 1, cfg{role: kv["role"], thr: uint64(kv["thr"]), quick: kv["quick"], slow: kv["slow"]}, kv["scaled"] == 1, uint64(kv["h"]), uint64(kv["r"]))
		case fs[0] == "dur":
			kv := parseKV(fs)
			doDur(run, cfg{role: kv["role"], slot: kv["slot"], thr: uint64(kv["thr"]), quick: kv["quick"], slow: kv["slow"]}, uint64(kv["r"]))
		default:
			if e == nil {
				e = startCtl(run, 0)
			}
			e.do(run, lines[i])
		}
	}
}

func main() {
	run := hx.Start()
	defer run.Finish()
	spectypes.InitBLS()
	stats := map[string]int{}
	defer func() { run.Extra["timer_stability"] = stats }()

	if lines := run.ReplayLines(); lines != nil {
		replay(run, lines, stats)
		return
	}
	r := hx.NewRng(run.Seed)

	// 1. timer cases: generated up front, executed twice each on a pool, emitted in order
	nTimer := run.N
	cases := make([]*tCase, nTimer)
	for i := range cases {
		probe := ""
		if r.Chance(18) {
			probe = []string{"same-round-twice", "round-rearmed-after-supersede", "new-height-same-timer"}[r.Intn(3)]
		}
		cases[i] = genTimerCase(r, probe)
	}
	runs := make([][]*tRun, nTimer)
	all := make([]int, nTimer)
	for i := range all {
		all[i] = i
	}
	pool(cases, runs, all, 2, 32) // every case twice, concurrently
	var again []int
	for i := range cases {
		if agreed(runs[i]) == nil {
			again = append(again, i)
		}
	}
	stats["timer-cases-second-stage"] = len(again)
	pool(cases, runs, again, 2, 4) // cases whose two executions differ or were both disturbed: twice more, nearly alone
	var maxLat time.Duration
	for i, tc := range cases {
		acc := stable(tc, runs[i], stats)
		if acc.latency > maxLat {
			maxLat = acc.latency
		}
		emitTimerCase(run, tc, acc)
	}
	run.Extra["timer_max_latency_accepted_ms"] = maxLat.Milliseconds()

	// 2. duration arithmetic of the real RoundTimeout
	for i := 0; i < 6*run.N; i++ {
		c, round := genDur(r)
		doDur(run, c, round)
	}

	// 2b. the real beacon.Network behind the timer
	for i := 0; i < 3*run.N; i++ {
		genNetDl(run, r)
	}

	// 3. controller half
	for i := 0; i < run.N; i++ {
		genCtlCase(run, r)
	}
}
