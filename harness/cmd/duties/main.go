// Harness for engine `duties` (property C16): drives the REAL AttesterHandler / ProposerHandler /
// SyncCommitteeHandler of operator/duties (set up through their exported Setup, started through
// HandleInitialDuties + HandleDuties) one event at a time.
//
// The ValidatorController is the REAL operator/validator controller (AllActiveIndices / CommitteeActiveIndices /
// GetOperatorShares over a real shares store on an in-memory Badger and a real validators map, built by the verif
// shim harness/inpkg/operator/validator); the harness scripts the registry (own / foreign shares, liquidated,
// attesting / pending-queued / exited / slashed / unknown statuses, missing metadata) and changes it during a case.
// Mocks of external systems only: slot ticker (a channel + a slot value), wall clock
// (BeaconNetwork.EstimatedCurrentSlot/Epoch return a scripted slot), beacon node (scripted per-event answers: error, or
// the duties the chain assigns to anybody — of which it returns those of the REQUESTED indices), and — in `small` mode — the
// network parameters slots-per-epoch / epochs-per-period (in `real` mode all slot/epoch/period arithmetic is
// the real beacon.Network with 32 / 256).  The executeDuties callback records synchronously.
//
// Determinism without sleeps: every handler runs its select loop in ONE goroutine and all its channels are
// unbuffered, so after injecting an event the harness sends a no-op ReorgEvent (Previous = Current = false)
// on the handler's reorg channel; that send can only complete once the handler has finished the injected
// event and is back in its select.  All fetch calls and executeDuties calls of the event have happened by then.
//
// Observation per op = the atoms of that event in call order: `F<epoch arg>:ok|fail|noidx` for every
// fetchAndProcessDuties that consulted the validator controller, `X[slot/vidx/tag,…]` (sorted) for every
// non-empty executeDuties call.
//
// Property oracle (independent of the Lean model), per case:
//   - at most once: no (role, slot, validator) is handed to executeDuties twice;
//   - only at its slot / window: a dispatched spec duty carries the slot of the tick that dispatched it, and
//     that slot is within the handler's window of the clock;
//   - only latest: every dispatched duty is in the assignment returned by the most recent successful fetch
//     for the tick's epoch (period);
//   - exactly once if fetched: at a tick whose clock equals its slot, if the most recent fetch for the tick's
//     epoch (period) succeeded and no fetch of any epoch failed or was skipped (no active indices) since,
//     every duty of that assignment for this slot is dispatched at this tick.
package main

import (
	"context"
	"encoding/binary"
	"errors"
	"fmt"
	"sort"
	"strconv"
	"strings"
	"sync"
	"sync/atomic"
	"time"

	eth2client "github.com/attestantio/go-eth2-client"
	eth2apiv1 "github.com/attestantio/go-eth2-client/api/v1"
	"github.com/attestantio/go-eth2-client/spec/phase0"
	spectypes "github.com/bloxapp/ssv-spec/types"
	"go.uber.org/zap"

	"github.com/bloxapp/ssv/networkconfig"
	"github.com/bloxapp/ssv/operator/duties"
	"github.com/bloxapp/ssv/operator/duties/dutystore"
	"github.com/bloxapp/ssv/operator/slotticker"
	vctrl "github.com/bloxapp/ssv/operator/validator"
	"github.com/bloxapp/ssv/protocol/v2/blockchain/beacon"
	"github.com/bloxapp/ssv/protocol/v2/types"
	"github.com/bloxapp/ssv/zz_verif/lib/hx"
)

// ------------------------------------------------------------------------------------------------
// scripted values

type duty struct{ slot, vidx, tag uint64 }

// fres: what the beacon node would answer to a duty request: an error, or the duties the chain assigns (to anybody)
type fres struct {
	kind   byte // 'f' beacon error, 'o' ok
	duties []duty
}

func (f fres) String() string {
	if f.kind == 'f' {
		return "f"
	}
	d := "-"
	if len(f.duties) > 0 {
		p := make([]string, len(f.duties))
		for i, x := range f.duties {
			p[i] = fmt.Sprintf("%d/%d/%d", x.slot, x.vidx, x.tag)
		}
		d = strings.Join(p, ";")
	}
	return "ok:" + d
}

func parseRes(s string) (fres, error) {
	if s == "f" {
		return fres{kind: 'f'}, nil
	}
	p := strings.Split(s, ":")
	if len(p) != 2 || p[0] != "ok" {
		return fres{}, errors.New("bad chain answer " + s)
	}
	r := fres{kind: 'o'}
	if p[1] != "-" {
		for _, w := range strings.Split(p[1], ";") {
			q := strings.Split(w, "/")
			if len(q) != 3 {
				return r, errors.New("bad duty " + w)
			}
			var d duty
			var err error
			if d.slot, err = strconv.ParseUint(q[0], 10, 64); err != nil {
				return r, err
			}
			if d.vidx, err = strconv.ParseUint(q[1], 10, 64); err != nil {
				return r, err
			}
			if d.tag, err = strconv.ParseUint(q[2], 10, 64); err != nil {
				return r, err
			}
			r.duties = append(r.duties, d)
		}
	}
	return r, nil
}

// share: one scripted registry entry. status: a attesting (ActiveOngoing), x attesting (ActiveExiting), q pending queued
// (activation epoch act), e exited, s slashed, u pending-initialized, n no beacon metadata.
type share struct {
	vidx     uint64
	own, liq bool
	status   byte
	act      uint64
}

// canonical status letter of the op line: a | q<act> | o | n
func (x share) String() string {
	st := "o"
	switch x.status {
	case 'a', 'x':
		st = "a"
	case 'q':
		st = "q" + strconv.FormatUint(x.act, 10)
	case 'n':
		st = "n"
	}
	return fmt.Sprintf("%d/%d%d/%s", x.vidx, b2i(x.own), b2i(x.liq), st)
}

func sharesString(l []share) string {
	if len(l) == 0 {
		return "-"
	}
	p := make([]string, len(l))
	for i, x := range l {
		p[i] = x.String()
	}
	return strings.Join(p, ";")
}

func parseShares(s string) ([]share, error) {
	if s == "-" || s == "" {
		return nil, nil
	}
	var out []share
	for _, w := range strings.Split(s, ";") {
		q := strings.Split(w, "/")
		if len(q) != 3 || len(q[1]) != 2 || len(q[2]) == 0 {
			return nil, errors.New("bad share " + w)
		}
		v, err := strconv.ParseUint(q[0], 10, 64)
		if err != nil {
			return nil, err
		}
		x := share{vidx: v, own: q[1][0] == '1', liq: q[1][1] == '1', status: q[2][0]}
		if x.status == 'q' {
			if x.act, err = strconv.ParseUint(q[2][1:], 10, 64); err != nil {
				return nil, err
			}
		}
		out = append(out, x)
	}
	return out, nil
}

// attesting: the oracle's own reading of "active validator" at an epoch (SSVShare.IsAttesting as specified)
func (x share) attesting(epoch uint64) bool {
	switch x.status {
	case 'a', 'x':
		return true
	case 'q':
		return x.act <= epoch
	}
	return false
}

func toVerifShares(l []share, _ *hx.Rng) []vctrl.VerifShare {
	out := make([]vctrl.VerifShare, 0, len(l))
	for _, x := range l {
		v := vctrl.VerifShare{Index: x.vidx, Own: x.own, Liquidated: x.liq, HasMeta: x.status != 'n', Activation: x.act}
		switch x.status {
		case 'a':
			v.Status = eth2apiv1.ValidatorStateActiveOngoing
		case 'x':
			v.Status = eth2apiv1.ValidatorStateActiveExiting
		case 'q':
			v.Status = eth2apiv1.ValidatorStatePendingQueued
		case 'e':
			v.Status = eth2apiv1.ValidatorStateExitedUnslashed
		case 's':
			v.Status = eth2apiv1.ValidatorStateActiveSlashed
		case 'u':
			v.Status = eth2apiv1.ValidatorStatePendingInitialized
		case 'o': // replayed canonical "other": any non-attesting status
			v.Status = eth2apiv1.ValidatorStateExitedUnslashed
		}
		out = append(out, v)
	}
	return out
}

func pubKeyOf(tag uint64) (pk phase0.BLSPubKey) {
	binary.BigEndian.PutUint64(pk[:8], tag)
	pk[47] = 0xC1
	return
}
func tagOf(pk []byte) uint64 { return binary.BigEndian.Uint64(pk[:8]) }

// ------------------------------------------------------------------------------------------------
// mocks of external systems

// fakeNet: the wall clock is scripted; in small mode slots-per-epoch / epochs-per-period are parameters
// (network configuration), in real mode every slot/epoch/period computation is the real beacon.Network.
type fakeNet struct {
	beacon.Network
	real     bool
	spe, epp uint64
	clock    *atomic.Uint64
}

func (n *fakeNet) EstimatedCurrentSlot() phase0.Slot { return phase0.Slot(n.clock.Load()) }
func (n *fakeNet) EstimatedCurrentEpoch() phase0.Epoch {
	return n.EstimatedEpochAtSlot(n.EstimatedCurrentSlot())
}
func (n *fakeNet) GetSlotStartTime(phase0.Slot) time.Time { return time.Now().Add(time.Hour) }
func (n *fakeNet) GetSlotEndTime(phase0.Slot) time.Time   { return time.Now().Add(time.Hour) }
func (n *fakeNet) SlotsPerEpoch() uint64 {
	if n.real {
		return n.Network.SlotsPerEpoch()
	}
	return n.spe
}
func (n *fakeNet) EstimatedEpochAtSlot(s phase0.Slot) phase0.Epoch {
	if n.real {
		return n.Network.EstimatedEpochAtSlot(s)
	}
	return phase0.Epoch(uint64(s) / n.spe)
}
func (n *fakeNet) IsFirstSlotOfEpoch(s phase0.Slot) bool {
	if n.real {
		return n.Network.IsFirstSlotOfEpoch(s)
	}
	return uint64(s)%n.spe == 0
}
func (n *fakeNet) GetEpochFirstSlot(e phase0.Epoch) phase0.Slot {
	if n.real {
		return n.Network.GetEpochFirstSlot(e)
	}
	return phase0.Slot(uint64(e) * n.spe)
}
func (n *fakeNet) FirstSlotAtEpoch(e phase0.Epoch) phase0.Slot { return n.GetEpochFirstSlot(e) }
func (n *fakeNet) EpochsPerSyncCommitteePeriod() uint64 {
	if n.real {
		return n.Network.EpochsPerSyncCommitteePeriod()
	}
	return n.epp
}
func (n *fakeNet) EstimatedSyncCommitteePeriodAtEpoch(e phase0.Epoch) uint64 {
	if n.real {
		return n.Network.EstimatedSyncCommitteePeriodAtEpoch(e)
	}
	return uint64(e) / n.epp
}
func (n *fakeNet) FirstEpochOfSyncPeriod(p uint64) phase0.Epoch {
	if n.real {
		return n.Network.FirstEpochOfSyncPeriod(p)
	}
	return phase0.Epoch(p * n.epp)
}
func (n *fakeNet) LastSlotOfSyncPeriod(p uint64) phase0.Slot {
	if n.real {
		return n.Network.LastSlotOfSyncPeriod(p)
	}
	// mirror of beacon.Network.LastSlotOfSyncPeriod with the scripted parameters
	lastEpoch := n.FirstEpochOfSyncPeriod(p+1) - 1
	return n.GetEpochFirstSlot(lastEpoch+1) - 2
}

type fakeTicker struct {
	ch   chan time.Time
	slot atomic.Uint64
}

func (t *fakeTicker) Next() <-chan time.Time { return t.ch }
func (t *fakeTicker) Slot() phase0.Slot      { return phase0.Slot(t.slot.Load()) }

type xduty struct {
	role            spectypes.BeaconRole
	slot, vidx, tag uint64
}

type atom struct {
	fetch bool
	arg   uint64
	tag   string   // ok | fail | noidx | unscripted
	res   fres     // the scripted chain answer that was consumed
	own   []uint64 // ok: this operator's active validators at epoch `arg`, by the harness's registry (oracle ground truth)
	exec  []xduty
}

// world = one handler under test with its mocks
type world struct {
	kind     string
	net      *fakeNet
	clock    atomic.Uint64
	tk       *fakeTicker
	reorgCh  chan duties.ReorgEvent
	idxCh    chan struct{}
	cancel   context.CancelFunc
	done     chan struct{}
	mu       sync.Mutex
	queue    []fres
	atoms    []atom
	protoErr string
	vc       *vctrl.VerifIndexController // the real validator controller (index functions)
	shares   []share                     // the scripted registry (what the real store was filled with)
}

// noIndices: the real index function returned nothing for `epoch`: the fetch ends here (it still consumes the scripted
// answer of its position, like the model)
func (w *world) noIndices(epoch phase0.Epoch) {
	w.mu.Lock()
	defer w.mu.Unlock()
	a := atom{fetch: true, arg: uint64(epoch), tag: "noidx"}
	if len(w.queue) > 0 {
		a.res = w.queue[0]
		w.queue = w.queue[1:]
	} else {
		a.tag = "unscripted"
	}
	w.atoms = append(w.atoms, a)
}

// ownActive: this operator's active validators at `epoch` according to the scripted registry (oracle ground truth:
// own share, not liquidated, attesting at the epoch)
func (w *world) ownActive(epoch uint64) []uint64 {
	var out []uint64
	for _, x := range w.shares {
		if x.own && !x.liq && x.attesting(epoch) {
			out = append(out, x.vidx)
		}
	}
	return out
}

// answer: the beacon node is asked for the duties of `indices` at `epoch`
func (w *world) answer(epoch phase0.Epoch, indices []phase0.ValidatorIndex) ([]duty, error) {
	w.mu.Lock()
	defer w.mu.Unlock()
	if len(w.queue) == 0 {
		w.protoErr = "beacon call without scripted answer"
		return nil, errors.New("unscripted")
	}
	h := w.queue[0]
	w.queue = w.queue[1:]
	if h.kind == 'f' {
		w.atoms = append(w.atoms, atom{fetch: true, arg: uint64(epoch), tag: "fail", res: h})
		return nil, errors.New("scripted beacon failure")
	}
	w.atoms = append(w.atoms, atom{fetch: true, arg: uint64(epoch), tag: "ok", res: h, own: w.ownActive(uint64(epoch))})
	asked := map[uint64]bool{}
	for _, i := range indices {
		asked[uint64(i)] = true
	}
	var out []duty
	for _, d := range h.duties {
		if asked[d.vidx] { // a beacon node answers for the requested validators only
			out = append(out, d)
		}
	}
	return out, nil
}

// --- ValidatorController: the REAL controller; this wrapper only notices an empty answer of the function that opens a
// fetch (attester: CommitteeActiveIndices; proposer, sync committee: AllActiveIndices)
func (w *world) CommitteeActiveIndices(epoch phase0.Epoch) []phase0.ValidatorIndex {
	out := w.vc.Controller().CommitteeActiveIndices(epoch)
	if w.kind == "att" && len(out) == 0 {
		w.noIndices(epoch)
	}
	return out
}
func (w *world) AllActiveIndices(epoch phase0.Epoch, afterInit bool) []phase0.ValidatorIndex {
	out := w.vc.Controller().AllActiveIndices(epoch, afterInit)
	if len(out) == 0 {
		w.noIndices(epoch)
	}
	return out
}
func (w *world) GetOperatorShares() []*types.SSVShare { return w.vc.Controller().GetOperatorShares() }

// --- BeaconNode
func (w *world) AttesterDuties(ctx context.Context, epoch phase0.Epoch, indices []phase0.ValidatorIndex) ([]*eth2apiv1.AttesterDuty, error) {
	ds, err := w.answer(epoch, indices)
	if err != nil {
		return nil, err
	}
	out := make([]*eth2apiv1.AttesterDuty, 0, len(ds))
	for _, d := range ds {
		out = append(out, &eth2apiv1.AttesterDuty{PubKey: pubKeyOf(d.tag), Slot: phase0.Slot(d.slot), ValidatorIndex: phase0.ValidatorIndex(d.vidx),
			CommitteeIndex: phase0.CommitteeIndex(d.tag % 64), CommitteeLength: 128, CommitteesAtSlot: 64, ValidatorCommitteeIndex: d.vidx})
	}
	return out, nil
}
func (w *world) ProposerDuties(ctx context.Context, epoch phase0.Epoch, indices []phase0.ValidatorIndex) ([]*eth2apiv1.ProposerDuty, error) {
	ds, err := w.answer(epoch, indices)
	if err != nil {
		return nil, err
	}
	out := make([]*eth2apiv1.ProposerDuty, 0, len(ds))
	for _, d := range ds {
		out = append(out, &eth2apiv1.ProposerDuty{PubKey: pubKeyOf(d.tag), Slot: phase0.Slot(d.slot), ValidatorIndex: phase0.ValidatorIndex(d.vidx)})
	}
	return out, nil
}
func (w *world) SyncCommitteeDuties(ctx context.Context, epoch phase0.Epoch, indices []phase0.ValidatorIndex) ([]*eth2apiv1.SyncCommitteeDuty, error) {
	ds, err := w.answer(epoch, indices)
	if err != nil {
		return nil, err
	}
	out := make([]*eth2apiv1.SyncCommitteeDuty, 0, len(ds))
	for _, d := range ds {
		out = append(out, &eth2apiv1.SyncCommitteeDuty{PubKey: pubKeyOf(d.tag), ValidatorIndex: phase0.ValidatorIndex(d.vidx),
			ValidatorSyncCommitteeIndices: []phase0.CommitteeIndex{phase0.CommitteeIndex(d.vidx % 512)}})
	}
	return out, nil
}
func (w *world) Events(context.Context, []string, eth2client.EventHandlerFunc) error { return nil }
func (w *world) SubmitBeaconCommitteeSubscriptions(context.Context, []*eth2apiv1.BeaconCommitteeSubscription) error {
	return nil
}
func (w *world) SubmitSyncCommitteeSubscriptions(context.Context, []*eth2apiv1.SyncCommitteeSubscription) error {
	return nil
}

func (w *world) execute(_ *zap.Logger, ds []*spectypes.Duty) {
	a := atom{}
	for _, d := range ds {
		a.exec = append(a.exec, xduty{role: d.Type, slot: uint64(d.Slot), vidx: uint64(d.ValidatorIndex), tag: tagOf(d.PubKey[:])})
	}
	w.mu.Lock()
	w.atoms = append(w.atoms, a)
	w.mu.Unlock()
}

func (w *world) drain() []atom {
	w.mu.Lock()
	defer w.mu.Unlock()
	a := w.atoms
	w.atoms = nil
	w.queue = nil
	return a
}

type handler interface {
	HandleDuties(context.Context)
	HandleInitialDuties(context.Context)
}

const sendTimeout = 20 * time.Second

func (w *world) barrier() bool {
	select {
	case w.reorgCh <- duties.ReorgEvent{Slot: phase0.Slot(w.clock.Load())}:
		return true
	case <-time.After(sendTimeout):
		return false
	}
}

func (w *world) setShares(l []share) {
	w.mu.Lock()
	w.shares = l
	w.mu.Unlock()
	if err := w.vc.SetShares(toVerifShares(l, nil)); err != nil {
		w.protoErr = "registry: " + err.Error()
	}
}

// one real controller (one in-memory Badger) per process; every case replaces the registry content (cases run one
// after the other)
var theController *vctrl.VerifIndexController

func sharedController() *vctrl.VerifIndexController {
	if theController == nil {
		vc, err := vctrl.VerifNewIndexController(7)
		if err != nil {
			panic(err)
		}
		theController = vc
	}
	return theController
}

func newWorld(kind string, real bool, spe, epp, clock uint64, shares []share, f1 fres) (*world, []atom) {
	w := &world{kind: kind, tk: &fakeTicker{ch: make(chan time.Time)}, reorgCh: make(chan duties.ReorgEvent), idxCh: make(chan struct{}), done: make(chan struct{})}
	w.net = &fakeNet{Network: networkconfig.TestNetwork.Beacon.GetNetwork(), real: real, spe: spe, epp: epp, clock: &w.clock}
	w.clock.Store(clock)
	w.vc = sharedController()
	w.setShares(shares)
	nc := networkconfig.NetworkConfig{Name: "verif", Beacon: w.net}
	var h handler
	name := ""
	setup := func(s interface {
		Setup(string, *zap.Logger, duties.BeaconNode, duties.ExecutionClient, networkconfig.NetworkConfig, duties.ValidatorController, duties.ExecuteDutiesFunc, slotticker.Provider, chan duties.ReorgEvent, chan struct{})
	}) {
		s.Setup(name, zap.NewNop(), w, nil, nc, w, w.execute, func() slotticker.SlotTicker { return w.tk }, w.reorgCh, w.idxCh)
	}
	switch kind {
	case "att":
		x := duties.NewAttesterHandler(dutystore.NewDuties[eth2apiv1.AttesterDuty]())
		name = x.Name()
		setup(x)
		h = x
	case "prop":
		x := duties.NewProposerHandler(dutystore.NewDuties[eth2apiv1.ProposerDuty]())
		name = x.Name()
		setup(x)
		h = x
	default:
		x := duties.NewSyncCommitteeHandler(dutystore.NewSyncCommitteeDuties())
		name = x.Name()
		setup(x)
		h = x
	}
	ctx, cancel := context.WithCancel(context.Background())
	w.cancel = cancel
	w.mu.Lock()
	w.queue = []fres{f1}
	w.mu.Unlock()
	h.HandleInitialDuties(ctx) // blocking, as in Scheduler.Start
	go func() {
		defer close(w.done)
		h.HandleDuties(ctx)
	}()
	if !w.barrier() { // the preamble of HandleDuties (reads the clock) is over once the handler is in its select
		w.protoErr = "handler did not reach its select loop"
	}
	return w, w.drain()
}

func (w *world) stop() {
	w.cancel()
	select {
	case <-w.done:
	case <-time.After(sendTimeout):
	}
}

// ------------------------------------------------------------------------------------------------
// ops

type op struct {
	name        string // reset tick reorg indices
	kind        string
	real        bool
	spe, epp    uint64
	slot, clock uint64
	prev, cur   bool
	f1, f2      fres
	shares      []share
}

func b2i(b bool) int {
	if b {
		return 1
	}
	return 0
}

func (o op) String() string {
	switch o.name {
	case "reset":
		net := "small"
		if o.real {
			net = "real"
		}
		return fmt.Sprintf("reset kind=%s net=%s spe=%d epp=%d clock=%d shares=%s f1=%s", o.kind, net, o.spe, o.epp, o.clock, sharesString(o.shares), o.f1)
	case "shares":
		return "shares set=" + sharesString(o.shares)
	case "tick":
		return fmt.Sprintf("tick slot=%d clock=%d f1=%s f2=%s", o.slot, o.clock, o.f1, o.f2)
	case "reorg":
		return fmt.Sprintf("reorg slot=%d prev=%d cur=%d", o.slot, b2i(o.prev), b2i(o.cur))
	default:
		return fmt.Sprintf("indices clock=%d", o.clock)
	}
}

func parseOp(line string) (op, error) {
	ws := strings.Fields(line)
	if len(ws) == 0 {
		return op{}, errors.New("empty")
	}
	o := op{name: ws[0]}
	kv := map[string]string{}
	for _, w := range ws[1:] {
		if i := strings.IndexByte(w, '='); i > 0 {
			kv[w[:i]] = w[i+1:]
		}
	}
	u := func(k string) uint64 { v, _ := strconv.ParseUint(kv[k], 10, 64); return v }
	var err error
	switch o.name {
	case "reset":
		o.kind, o.real, o.spe, o.epp, o.clock = kv["kind"], kv["net"] == "real", u("spe"), u("epp"), u("clock")
		if o.f1, err = parseRes(kv["f1"]); err == nil {
			o.shares, err = parseShares(kv["shares"])
		}
	case "shares":
		o.shares, err = parseShares(kv["set"])
	case "tick":
		o.slot, o.clock = u("slot"), u("clock")
		if o.f1, err = parseRes(kv["f1"]); err == nil {
			o.f2, err = parseRes(kv["f2"])
		}
	case "reorg":
		o.slot, o.prev, o.cur = u("slot"), u("prev") != 0, u("cur") != 0
	case "indices":
		o.clock = u("clock")
	default:
		err = errors.New("unknown op " + o.name)
	}
	return o, err
}

// ------------------------------------------------------------------------------------------------
// canonical observation

func expectedRoles(kind string) []spectypes.BeaconRole {
	switch kind {
	case "att":
		return []spectypes.BeaconRole{spectypes.BNRoleAttester, spectypes.BNRoleAggregator}
	case "prop":
		return []spectypes.BeaconRole{spectypes.BNRoleProposer}
	}
	return []spectypes.BeaconRole{spectypes.BNRoleSyncCommittee, spectypes.BNRoleSyncCommitteeContribution}
}

func showAtoms(kind string, as []atom) string {
	var parts []string
	for _, a := range as {
		if a.fetch {
			parts = append(parts, fmt.Sprintf("F%d:%s", a.arg, a.tag))
			continue
		}
		if len(a.exec) == 0 {
			continue
		}
		type key struct{ s, v, t uint64 }
		roles := map[key][]int{}
		var keys []key
		for _, x := range a.exec {
			k := key{x.slot, x.vidx, x.tag}
			if _, ok := roles[k]; !ok {
				keys = append(keys, k)
			}
			roles[k] = append(roles[k], int(x.role))
		}
		sort.Slice(keys, func(i, j int) bool {
			if keys[i].s != keys[j].s {
				return keys[i].s < keys[j].s
			}
			if keys[i].v != keys[j].v {
				return keys[i].v < keys[j].v
			}
			return keys[i].t < keys[j].t
		})
		exp := expectedRoles(kind)
		items := make([]string, 0, len(keys))
		for _, k := range keys {
			rs := roles[k]
			sort.Ints(rs)
			okRoles := len(rs) == len(exp)
			if okRoles {
				for i := range rs {
					if rs[i] != int(exp[i]) {
						okRoles = false
					}
				}
			}
			it := fmt.Sprintf("%d/%d/%d", k.s, k.v, k.t)
			if !okRoles {
				it += "!" + fmt.Sprint(rs)
			}
			items = append(items, it)
		}
		parts = append(parts, "X["+strings.Join(items, ",")+"]")
	}
	if len(parts) == 0 {
		return "-"
	}
	return strings.Join(parts, " ")
}

func reorgOf(p op) duties.ReorgEvent {
	return duties.ReorgEvent{Slot: phase0.Slot(p.slot), Previous: p.prev, Current: p.cur}
}
