package main

// Mode `-mode glue`: real-time strata around the duty handlers that the event-level model does not cover (no Lean model,
// implementation-side oracle only; wall-clock bounds are checked in ONE direction only — "not before its slot" — so
// that machine load can only make a case slower, never make it alarm).
//
//   tcase kind=raw  …  the REAL slotticker.New(…) with a scaled slot duration, read by a consumer that sleeps 0.2–2.5
//                      slots between Next() calls (the first sleep = a blocking HandleInitialDuties): every tick received
//                      at wall time w carries Slot() with start(Slot()) <= w, slots strictly increase.
//   tcase kind=e2e  …  the real ProposerHandler with the real slot ticker and a wall-clock BeaconNetwork, a slow
//                      initial beacon answer, a duty at every slot: no duty is dispatched before the start of its slot,
//                      none twice.
//   scase …            the REAL controller.StartValidators with a slow set-up (fee-recipient lookup gated) while the
//                      real SyncCommitteeHandler ticks: CommitteeActiveIndices must not be consulted by a
//                      waitForInitial fetch before the set-up completed, and the duties of the operator's validators
//                      fetched then must be dispatched at the following ticks.

import (
	"context"
	"flag"
	"fmt"
	"strconv"
	"strings"
	"sync"
	"sync/atomic"
	"time"

	eth2client "github.com/attestantio/go-eth2-client"
	eth2apiv1 "github.com/attestantio/go-eth2-client/api/v1"
	"github.com/attestantio/go-eth2-client/spec/phase0"
	spectypes "github.com/bloxapp/ssv-spec/types"
	"go.uber.org/zap"

	"github.com/bloxapp/ssv/networkconfig"
	"github.com/bloxapp/ssv/operator/duties"
	"github.com/bloxapp/ssv/operator/duties/dutystore"
	"github.com/bloxapp/ssv/operator/slotticker"
	vctrl "github.com/bloxapp/ssv/operator/validator"
	"github.com/bloxapp/ssv/protocol/v2/types"
	"github.com/bloxapp/ssv/zz_verif/lib/hx"
)

var mode = flag.String("mode", "handlers", "handlers (event-level, diffed against the model) | glue (real-time strata)")

const earlyTolerance = time.Millisecond // timers never fire early; this only absorbs clock read granularity

type glueCase struct {
	kind   string // raw | e2e | setup
	dms    int    // slot duration in ms
	off    int    // start at this percentage of a slot
	sleeps []int  // consumer sleeps, in percent of a slot (raw); [0] = initial blocking (e2e)
}

func (c glueCase) String() string {
	p := make([]string, len(c.sleeps))
	for i, s := range c.sleeps {
		p[i] = strconv.Itoa(s)
	}
	name := "tcase"
	if c.kind == "setup" {
		name = "scase"
	}
	return fmt.Sprintf("%s kind=%s d=%d off=%d sleeps=%s", name, c.kind, c.dms, c.off, strings.Join(p, "."))
}

func parseGlueCase(line string) (glueCase, bool) {
	ws := strings.Fields(line)
	if len(ws) == 0 || (ws[0] != "tcase" && ws[0] != "scase") {
		return glueCase{}, false
	}
	c := glueCase{}
	for _, w := range ws[1:] {
		i := strings.IndexByte(w, '=')
		if i < 0 {
			continue
		}
		k, v := w[:i], w[i+1:]
		switch k {
		case "kind":
			c.kind = v
		case "d":
			c.dms, _ = strconv.Atoi(v)
		case "off":
			c.off, _ = strconv.Atoi(v)
		case "sleeps":
			for _, x := range strings.Split(v, ".") {
				n, _ := strconv.Atoi(x)
				c.sleeps = append(c.sleeps, n)
			}
		}
	}
	if c.dms < 5 {
		c.dms = 40
	}
	return c, true
}

type glueResult struct {
	obs  string
	viol []violation
	tags []string
}

// ---- raw slot ticker ----

func runRawTicker(c glueCase) glueResult {
	D := time.Duration(c.dms) * time.Millisecond
	genesis := time.Now().Add(-3*D - D*time.Duration(c.off)/100)
	tk := slotticker.New(zap.NewNop(), slotticker.Config{SlotDuration: D, GenesisTime: genesis})
	var res glueResult
	last := int64(-1)
	n := 0
	for _, s := range c.sleeps {
		time.Sleep(D * time.Duration(s) / 100)
		ch := tk.Next()
		select {
		case <-ch:
		case <-time.After(30*D + 5*time.Second):
			res.tags = append(res.tags, "glue/raw/timeout")
			res.obs = "timeout"
			return res
		}
		w := time.Now()
		slot := int64(tk.Slot())
		n++
		start := genesis.Add(time.Duration(slot) * D)
		if w.Before(start.Add(-earlyTolerance)) {
			res.viol = append(res.viol, violation{"C16/slot-ticker-tick-before-the-start-of-its-slot",
				fmt.Sprintf("read %d: tick for slot %d received %v BEFORE that slot starts (consumer slept %d%% of a slot before Next())", n, slot, start.Sub(w), s)})
		}
		if slot <= last {
			res.viol = append(res.viol, violation{"C16/slot-ticker-slot-not-increasing",
				fmt.Sprintf("read %d: slot %d after slot %d", n, slot, last)})
		}
		last = slot
	}
	res.obs = fmt.Sprintf("ok reads=%d", n)
	res.tags = append(res.tags, "glue/raw/ok")
	return res
}

// ---- real proposer handler on the real ticker ----

type rtNet struct {
	fakeNet
	genesis time.Time
	d       time.Duration
}

func (n *rtNet) EstimatedCurrentSlot() phase0.Slot {
	since := time.Since(n.genesis)
	if since < 0 {
		return 0
	}
	return phase0.Slot(since / n.d)
}
func (n *rtNet) EstimatedCurrentEpoch() phase0.Epoch {
	return n.EstimatedEpochAtSlot(n.EstimatedCurrentSlot())
}
func (n *rtNet) GetSlotStartTime(s phase0.Slot) time.Time {
	return n.genesis.Add(time.Duration(s) * n.d)
}
func (n *rtNet) GetSlotEndTime(s phase0.Slot) time.Time { return n.GetSlotStartTime(s + 1) }
func (n *rtNet) SlotDurationSec() time.Duration         { return n.d }

type rtWorld struct {
	firstSleep time.Duration
	calls      atomic.Int64
}

func (w *rtWorld) CommitteeActiveIndices(phase0.Epoch) []phase0.ValidatorIndex {
	return []phase0.ValidatorIndex{1}
}
func (w *rtWorld) AllActiveIndices(phase0.Epoch, bool) []phase0.ValidatorIndex {
	return []phase0.ValidatorIndex{1}
}
func (w *rtWorld) GetOperatorShares() []*types.SSVShare { return nil }
func (w *rtWorld) AttesterDuties(context.Context, phase0.Epoch, []phase0.ValidatorIndex) ([]*eth2apiv1.AttesterDuty, error) {
	return nil, nil
}
func (w *rtWorld) ProposerDuties(_ context.Context, epoch phase0.Epoch, _ []phase0.ValidatorIndex) ([]*eth2apiv1.ProposerDuty, error) {
	if w.calls.Add(1) == 1 {
		time.Sleep(w.firstSleep) // slow start-up answer of the beacon node
	}
	var out []*eth2apiv1.ProposerDuty
	for s := uint64(epoch) * 32; s < (uint64(epoch)+1)*32; s++ {
		out = append(out, &eth2apiv1.ProposerDuty{PubKey: pubKeyOf(s), Slot: phase0.Slot(s), ValidatorIndex: 1})
	}
	return out, nil
}
func (w *rtWorld) SyncCommitteeDuties(context.Context, phase0.Epoch, []phase0.ValidatorIndex) ([]*eth2apiv1.SyncCommitteeDuty, error) {
	return nil, nil
}
func (w *rtWorld) Events(context.Context, []string, eth2client.EventHandlerFunc) error { return nil }
func (w *rtWorld) SubmitBeaconCommitteeSubscriptions(context.Context, []*eth2apiv1.BeaconCommitteeSubscription) error {
	return nil
}
func (w *rtWorld) SubmitSyncCommitteeSubscriptions(context.Context, []*eth2apiv1.SyncCommitteeSubscription) error {
	return nil
}

func runE2ETicker(c glueCase) glueResult {
	D := time.Duration(c.dms) * time.Millisecond
	genesis := time.Now().Add(-3*D - D*time.Duration(c.off)/100)
	var clk atomic.Uint64
	net := &rtNet{fakeNet: fakeNet{Network: networkconfig.TestNetwork.Beacon.GetNetwork(), real: true, spe: 32, epp: 256, clock: &clk}, genesis: genesis, d: D}
	nc := networkconfig.NetworkConfig{Name: "verif", Beacon: net}
	first := 0
	if len(c.sleeps) > 0 {
		first = c.sleeps[0]
	}
	w := &rtWorld{firstSleep: D * time.Duration(first) / 100}
	type disp struct {
		slot uint64
		at   time.Time
	}
	var mu sync.Mutex
	var got []disp
	h := duties.NewProposerHandler(dutystore.NewDuties[eth2apiv1.ProposerDuty]())
	h.Setup(h.Name(), zap.NewNop(), w, nil, nc, w, func(_ *zap.Logger, ds []*spectypes.Duty) {
		now := time.Now()
		mu.Lock()
		for _, d := range ds {
			got = append(got, disp{uint64(d.Slot), now})
		}
		mu.Unlock()
	}, func() slotticker.SlotTicker {
		return slotticker.New(zap.NewNop(), slotticker.Config{SlotDuration: D, GenesisTime: genesis})
	}, make(chan duties.ReorgEvent), make(chan struct{}))
	ctx, cancel := context.WithCancel(context.Background())
	h.HandleInitialDuties(ctx) // blocks for the slow first answer, as Scheduler.Start does
	done := make(chan struct{})
	go func() { defer close(done); h.HandleDuties(ctx) }()
	time.Sleep(6 * D)
	cancel()
	select {
	case <-done:
	case <-time.After(10 * time.Second):
	}
	var res glueResult
	mu.Lock()
	defer mu.Unlock()
	seen := map[uint64]int{}
	for _, d := range got {
		seen[d.slot]++
		start := genesis.Add(time.Duration(d.slot) * D)
		if d.at.Before(start.Add(-earlyTolerance)) {
			res.viol = append(res.viol, violation{"C16/proposer-duty-dispatched-before-the-start-of-its-slot",
				fmt.Sprintf("duty of slot %d dispatched %v BEFORE its slot starts (initial fetch blocked for %d%% of a slot)", d.slot, start.Sub(d.at), first)})
		}
		if seen[d.slot] > 1 {
			res.viol = append(res.viol, violation{"C16/proposer-duty-dispatched-twice", fmt.Sprintf("duty of slot %d dispatched %d times", d.slot, seen[d.slot])})
		}
	}
	res.obs = fmt.Sprintf("ok dispatched=%d", len(got))
	res.tags = append(res.tags, "glue/e2e/ok")
	return res
}

// ---- real StartValidators with a slow set-up + real sync-committee handler ----

var setupMu sync.Mutex // the set-up cases share the process-wide controller: one at a time

type setupWorld struct {
	vc         *vctrl.VerifIndexController
	mu         sync.Mutex
	expect     int  // validators setupValidators has to create (own, not liquidated, with metadata)
	early      bool // CommitteeActiveIndices consulted by a fetch while fewer than that were set up
	fetched    []uint64
	dispatched map[uint64]int
}

func (w *setupWorld) CommitteeActiveIndices(e phase0.Epoch) []phase0.ValidatorIndex {
	if w.vc.VerifRunningValidators() < w.expect { // set-up not complete: read BEFORE the call, so lateness cannot alarm
		w.mu.Lock()
		w.early = true
		w.mu.Unlock()
	}
	return w.vc.Controller().CommitteeActiveIndices(e)
}
func (w *setupWorld) AllActiveIndices(e phase0.Epoch, afterInit bool) []phase0.ValidatorIndex {
	if !afterInit {
		return nil // HandleInitialDuties runs before StartValidators in the node: nothing to fetch for yet
	}
	return w.vc.Controller().AllActiveIndices(e, afterInit)
}
func (w *setupWorld) GetOperatorShares() []*types.SSVShare { return nil }
func (w *setupWorld) AttesterDuties(context.Context, phase0.Epoch, []phase0.ValidatorIndex) ([]*eth2apiv1.AttesterDuty, error) {
	return nil, nil
}
func (w *setupWorld) ProposerDuties(context.Context, phase0.Epoch, []phase0.ValidatorIndex) ([]*eth2apiv1.ProposerDuty, error) {
	return nil, nil
}
func (w *setupWorld) SyncCommitteeDuties(_ context.Context, _ phase0.Epoch, idx []phase0.ValidatorIndex) ([]*eth2apiv1.SyncCommitteeDuty, error) {
	var out []*eth2apiv1.SyncCommitteeDuty
	w.mu.Lock()
	for _, i := range idx {
		w.fetched = append(w.fetched, uint64(i))
		out = append(out, &eth2apiv1.SyncCommitteeDuty{PubKey: pubKeyOf(uint64(i)), ValidatorIndex: i, ValidatorSyncCommitteeIndices: []phase0.CommitteeIndex{1}})
	}
	w.mu.Unlock()
	return out, nil
}
func (w *setupWorld) Events(context.Context, []string, eth2client.EventHandlerFunc) error { return nil }
func (w *setupWorld) SubmitBeaconCommitteeSubscriptions(context.Context, []*eth2apiv1.BeaconCommitteeSubscription) error {
	return nil
}
func (w *setupWorld) SubmitSyncCommitteeSubscriptions(context.Context, []*eth2apiv1.SyncCommitteeSubscription) error {
	return nil
}

func runSetupCase(c glueCase) glueResult {
	setupMu.Lock()
	defer setupMu.Unlock()
	var res glueResult
	vc := sharedController()
	// registry: own active validators 1..k, a foreign one, an own liquidated one
	k := 1 + c.off%3
	var list []vctrl.VerifShare
	for i := 1; i <= k; i++ {
		list = append(list, vctrl.VerifShare{Index: uint64(i), Own: true, HasMeta: true, Status: eth2apiv1.ValidatorStateActiveOngoing})
	}
	list = append(list, vctrl.VerifShare{Index: 8, Own: false, HasMeta: true, Status: eth2apiv1.ValidatorStateActiveOngoing},
		vctrl.VerifShare{Index: 9, Own: true, Liquidated: true, HasMeta: true, Status: eth2apiv1.ValidatorStateActiveOngoing})
	started, done, release, err := vc.VerifStartSlowSetup(list)
	if err != nil {
		res.obs = "setup-error"
		return res
	}
	defer release()
	w := &setupWorld{vc: vc, dispatched: map[uint64]int{}, expect: k}
	var clk atomic.Uint64
	clk.Store(100)
	net := &fakeNet{Network: networkconfig.TestNetwork.Beacon.GetNetwork(), real: true, spe: 32, epp: 256, clock: &clk}
	nc := networkconfig.NetworkConfig{Name: "verif", Beacon: net}
	tk := &fakeTicker{ch: make(chan time.Time)}
	reorgCh := make(chan duties.ReorgEvent)
	h := duties.NewSyncCommitteeHandler(dutystore.NewSyncCommitteeDuties())
	h.Setup(h.Name(), zap.NewNop(), w, nil, nc, w, func(_ *zap.Logger, ds []*spectypes.Duty) {
		w.mu.Lock()
		for _, d := range ds {
			if d.Type == spectypes.BNRoleSyncCommittee {
				w.dispatched[uint64(d.ValidatorIndex)]++
			}
		}
		w.mu.Unlock()
	}, func() slotticker.SlotTicker { return tk }, reorgCh, make(chan struct{}))
	ctx, cancel := context.WithCancel(context.Background())
	defer cancel()
	h.HandleInitialDuties(ctx)
	hdone := make(chan struct{})
	go func() { defer close(hdone); h.HandleDuties(ctx) }()
	barrier := func() bool {
		select {
		case reorgCh <- duties.ReorgEvent{}:
			return true
		case <-time.After(sendTimeout):
			return false
		}
	}
	if !barrier() {
		res.obs = "timeout"
		return res
	}
	<-started // StartValidators sits in setupValidators (first fee-recipient lookup)
	// the first tick: its fetch (waitForInitial = true) has to wait for the end of the set-up
	tk.slot.Store(100)
	select {
	case tk.ch <- time.Now():
	case <-time.After(sendTimeout):
		res.obs = "timeout"
		return res
	}
	wait := time.Duration(c.dms) * time.Millisecond
	time.Sleep(wait) // give a fetch that does NOT wait the time to happen; waiting longer/shorter can only hide a defect
	release()
	<-done
	if !barrier() {
		res.obs = "timeout"
		return res
	}
	w.mu.Lock()
	early := w.early
	w.mu.Unlock()
	if early {
		res.viol = append(res.viol, violation{"C16/committee-indices-consulted-before-validator-setup-completed",
			"a sync-committee fetch with waitForInitial=true consulted CommitteeActiveIndices while StartValidators was still setting the validators up (AllActiveIndices(epoch, afterInit=true) did not wait)"})
	}
	// following ticks: the duties fetched for the operator's validators must be dispatched
	for s := uint64(101); s <= 103; s++ {
		clk.Store(s)
		tk.slot.Store(s)
		select {
		case tk.ch <- time.Now():
		case <-time.After(sendTimeout):
			res.obs = "timeout"
			return res
		}
		if !barrier() {
			res.obs = "timeout"
			return res
		}
	}
	w.mu.Lock()
	defer w.mu.Unlock()
	fetchedOwn := map[uint64]bool{}
	for _, i := range w.fetched {
		if i >= 1 && i <= uint64(k) {
			fetchedOwn[i] = true
		}
	}
	for i := range fetchedOwn {
		if w.dispatched[i] == 0 {
			res.viol = append(res.viol, violation{"C16/sync-committee-fetched-duty-not-dispatched",
				fmt.Sprintf("validator %d (own, active): sync-committee duty fetched at the first tick after node start, dispatched at none of the 3 following ticks", i)})
			break
		}
	}
	res.obs = fmt.Sprintf("ok own=%d", k)
	res.tags = append(res.tags, "glue/setup/ok")
	cancel()
	select {
	case <-hdone:
	case <-time.After(5 * time.Second):
	}
	return res
}

// ---- driver of the mode ----

func genGlueCase(r *hx.Rng) glueCase {
	c := glueCase{dms: 40 + r.Intn(41), off: r.Intn(95)}
	switch x := r.Intn(100); {
	case x < 55:
		c.kind = "raw"
		n := 5 + r.Intn(5)
		for i := 0; i < n; i++ {
			switch y := r.Intn(100); {
			case y < 35:
				c.sleeps = append(c.sleeps, 20+r.Intn(60)) // reads within the slot
			case y < 70:
				c.sleeps = append(c.sleeps, 90+r.Intn(80)) // about a slot
			default:
				c.sleeps = append(c.sleeps, 150+r.Intn(101)) // up to 2.5 slots
			}
		}
		if r.Chance(60) { // a blocking start-up longer than the rest of the slot
			c.sleeps[0] = 100 + r.Intn(151)
		}
	case x < 80:
		c.kind = "e2e"
		c.sleeps = []int{20 + r.Intn(231)}
	default:
		c.kind = "setup"
		c.dms = 30 + r.Intn(90)
	}
	return c
}

func runGlueCase(c glueCase) glueResult {
	switch c.kind {
	case "raw":
		return runRawTicker(c)
	case "e2e":
		return runE2ETicker(c)
	case "setup":
		return runSetupCase(c)
	}
	return glueResult{obs: "bad-op"}
}

func runGlueMode(run *hx.Run) {
	var cases []glueCase
	if lines := run.ReplayLines(); lines != nil {
		for _, l := range lines {
			if c, ok := parseGlueCase(l); ok {
				cases = append(cases, c)
			}
		}
	} else {
		r := hx.NewRng(hx.NewRng(run.Seed).U64() ^ 0x61756c67)
		for i := 0; i < run.N; i++ {
			cases = append(cases, genGlueCase(r))
		}
	}
	results := make([]glueResult, len(cases))
	var wg sync.WaitGroup
	sem := make(chan struct{}, 16)
	for i := range cases {
		wg.Add(1)
		sem <- struct{}{}
		go func(i int) {
			defer wg.Done()
			defer func() { <-sem }()
			results[i] = runGlueCase(cases[i])
		}(i)
	}
	wg.Wait()
	seenSig := map[string]int{}
	for i, c := range cases {
		line := c.String()
		run.Tag("glue/case/" + c.kind)
		for _, t := range results[i].tags {
			run.Tag(t)
		}
		run.Seen("glue|" + c.kind + "|" + strings.Fields(results[i].obs + " -")[0])
		for _, v := range results[i].viol {
			run.Tag("oracle/" + v.sig)
			if seenSig[v.sig] < 3 {
				seenSig[v.sig]++
				run.Violate(v.sig, v.detail, line)
			}
		}
		run.Emit(line, results[i].obs)
	}
}
