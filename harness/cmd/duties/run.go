package main

import (
	"fmt"
)

// ------------------------------------------------------------------------------------------------
// property oracle on the implementation's observations (does not use the Lean model)

type hev struct { // history entry
	name      string // tick reorg indices
	slot      uint64 // tick slot / notice slot (indices: clock)
	prev, cur bool
	key       uint64 // epoch (period) of slot
}

type oracle struct {
	kind       string
	spe, epp   uint64
	latest     map[uint64][]duty // most recent successful assignment per epoch/period (committee members only)
	older      map[uint64][]duty // every duty of every earlier successful assignment per epoch/period
	due        map[uint64][]duty // obligations; cleared by every failed / skipped fetch
	done       map[[3]uint64]bool
	hist       []hev
	fetchAt    map[uint64]int    // history index of the most recent successful fetch per key
	stale      map[uint64]bool   // epoch/period whose fetched assignment was declared out of date by a notice and not re-fetched successfully since
	suspended  map[uint64][]duty // assignment voided by a FAILED re-fetch after a notice declared it out of date
	notRetried map[uint64]bool   // … owed again: a later tick could have re-fetched it (scripted ok) and the handler did not ask
	tainted    bool              // sync: a fetch could not be attributed to a period (clock in another period than the tick)
	lines      []string
}

func newOracle(kind string, spe, epp uint64) *oracle {
	return &oracle{kind: kind, spe: spe, epp: epp, latest: map[uint64][]duty{}, older: map[uint64][]duty{}, due: map[uint64][]duty{}, done: map[[3]uint64]bool{}, fetchAt: map[uint64]int{}, stale: map[uint64]bool{}, suspended: map[uint64][]duty{}, notRetried: map[uint64]bool{}}
}

func (o *oracle) keyOfSlot(s uint64) uint64 {
	e := s / o.spe
	if o.kind == "sync" {
		return e / o.epp
	}
	return e
}

func (o *oracle) keyOfArg(arg uint64) uint64 {
	if o.kind == "sync" {
		return arg / o.epp
	}
	return arg
}

func (o *oracle) inWindow(clock, slot uint64) bool {
	if clock+1 == slot {
		return true
	}
	if o.kind == "att" {
		return clock >= slot && clock-slot <= o.spe
	}
	return clock == slot
}

// assigned: the duties the chain assigns, at a successful fetch, to THIS operator's active validators (own share, not
// liquidated, attesting at the epoch the handler asked for) — by the harness's own registry, not by what the
// controller's index functions returned
func assigned(a atom) []duty {
	in := map[uint64]bool{}
	for _, v := range a.own {
		in[v] = true
	}
	var out []duty
	for _, d := range a.res.duties {
		if in[d.vidx] {
			out = append(out, d)
		}
	}
	return out
}

func uniqueKeys(kind string, ds []duty) bool {
	seen := map[[2]uint64]bool{}
	for _, d := range ds {
		k := [2]uint64{d.slot, d.vidx}
		if kind == "sync" {
			k[0] = 0
		}
		if seen[k] {
			return false
		}
		seen[k] = true
	}
	return true
}

func (o *oracle) sameDuty(x xduty, d duty) bool {
	if x.vidx != d.vidx || x.tag != d.tag {
		return false
	}
	return o.kind == "sync" || x.slot == d.slot
}

// invalidate: a reorg (dependent root changed) or indices-change (validator set changed) notice whose slot lies in
// epoch (period) k makes the fetched assignments of k and k+1 out of date (conservatively both, for every handler and
// every notice kind: marking more than a handler resets only makes the oracle ask for less).
func (o *oracle) invalidate(k uint64) {
	o.stale[k] = true
	o.stale[k+1] = true
}

type violation struct{ sig, detail string }

// observe consumes the atoms of one op in call order and returns the violations of that op
func (o *oracle) observe(p op, atoms []atom) []violation {
	var vs []violation
	switch p.name {
	case "reorg":
		o.hist = append(o.hist, hev{name: "reorg", slot: p.slot, prev: p.prev, cur: p.cur, key: o.keyOfSlot(p.slot)})
		if p.prev || p.cur {
			o.invalidate(o.keyOfSlot(p.slot))
		}
	case "indices":
		o.hist = append(o.hist, hev{name: "indices", slot: p.clock, key: o.keyOfSlot(p.clock)})
		// the validator set changed: every fetched assignment is out of date (the handlers reset the epoch of the
		// NEXT TICK, whatever the clock showed when the notice was handled)
		o.invalidate(o.keyOfSlot(p.clock))
		for k := range o.due {
			o.stale[k] = true
		}
	}
	if p.name == "tick" && o.kind == "sync" && o.keyOfSlot(p.clock) != o.keyOfSlot(p.slot) {
		o.tainted = true
	}
	dueBefore := map[uint64][]duty{}
	for k, v := range o.due {
		dueBefore[k] = v
	}
	notRetriedBefore := map[uint64]bool{}
	for k, v := range o.notRetried {
		notRetriedBefore[k] = v
	}
	fetchAtBefore := map[uint64]int{}
	for k, v := range o.fetchAt {
		fetchAtBefore[k] = v
	}
	firstTickOfKey := false
	if p.name == "tick" {
		firstTickOfKey = true
		for _, h := range o.hist {
			if h.name == "tick" && h.key == o.keyOfSlot(p.slot) {
				firstTickOfKey = false
			}
		}
	}
	for _, a := range atoms {
		if a.fetch {
			switch a.tag {
			case "ok":
				k := o.keyOfArg(a.arg)
				as := assigned(a)
				o.older[k] = append(o.older[k], o.latest[k]...)
				o.latest[k] = as
				if uniqueKeys(o.kind, as) {
					o.due[k] = as
				} else {
					delete(o.due, k)
				}
				o.fetchAt[k] = len(o.hist)
				delete(o.stale, k)
				delete(o.suspended, k)
				delete(o.notRetried, k)
			default:
				// fail, noidx, unscripted. A failed fetch does NOT cancel an assignment that had been fetched
				// successfully: it stays owed. Only exception: the assignment of this epoch (period) was declared
				// out of date by a reorg / indices-change notice since it was fetched (the handlers then drop it and
				// must re-fetch) and this is the failed re-fetch — then nothing is owed for it until the next success.
				// That exception lasts only while the beacon node really is unavailable: see the end of this function.
				k := o.keyOfArg(a.arg)
				if o.stale[k] {
					if a.tag == "fail" {
						if d, ok := o.due[k]; ok {
							o.suspended[k] = d
						}
					} else { // no active validators any more: nothing is owed for them
						delete(o.suspended, k)
					}
					delete(o.due, k)
				}
			}
			continue
		}
		if p.name != "tick" {
			vs = append(vs, violation{"C16/" + kindName[o.kind] + "-dispatch-without-tick", fmt.Sprintf("%d duties dispatched while handling %s", len(a.exec), p.name)})
			continue
		}
		key := o.keyOfSlot(p.slot)
		for _, x := range a.exec {
			id := [3]uint64{uint64(x.role), x.slot, x.vidx}
			if o.done[id] {
				vs = append(vs, violation{"C16/" + kindName[o.kind] + "-duty-dispatched-twice", fmt.Sprintf("role %d slot %d validator %d dispatched again at tick %d", x.role, x.slot, x.vidx, p.slot)})
			}
			o.done[id] = true
			if x.slot != p.slot || !o.inWindow(p.clock, x.slot) {
				vs = append(vs, violation{"C16/" + kindName[o.kind] + "-dispatch-outside-slot-window", fmt.Sprintf("duty slot %d validator %d dispatched at tick %d clock %d", x.slot, x.vidx, p.slot, p.clock)})
			}
			if o.tainted {
				continue
			}
			found := false
			for _, d := range o.latest[key] {
				if o.sameDuty(x, d) {
					found = true
				}
			}
			if !found {
				stale := false
				for _, d := range o.older[key] {
					if o.sameDuty(x, d) {
						stale = true
					}
				}
				sig := "C16/" + kindName[o.kind] + "-dispatch-not-in-any-assignment"
				if stale {
					sig = "C16/" + kindName[o.kind] + "-stale-duty-dispatched-after-refetch-without-reset"
				}
				vs = append(vs, violation{sig, fmt.Sprintf("tick %d: duty slot %d validator %d tag %d is not in the most recently fetched assignment of epoch/period %d", p.slot, x.slot, x.vidx, x.tag, key)})
			}
		}
		if p.clock == p.slot && !o.tainted {
			for _, d := range o.due[key] {
				if o.kind != "sync" && d.slot != p.slot {
					continue
				}
				got := false
				for _, x := range a.exec {
					if o.sameDuty(x, d) && x.slot == p.slot {
						got = true
					}
				}
				if got {
					continue
				}
				vs = append(vs, violation{o.classifyLoss(key, firstTickOfKey), fmt.Sprintf("tick %d: duty slot %d validator %d tag %d of the successfully fetched assignment of epoch/period %d was not dispatched", p.slot, d.slot, d.vidx, d.tag, key)})
			}
		}
	}
	if p.name == "tick" {
		hasExec := false
		for _, a := range atoms {
			if !a.fetch {
				hasExec = true
			}
		}
		if !hasExec && p.clock == p.slot && !o.tainted {
			// processExecution handed nothing to executeDuties. It sits before the fetches on a regular tick and
			// after them on a fetch-first tick; the position is not observable without a call, so a loss is
			// reported only if a duty is owed under BOTH readings.
			key := o.keyOfSlot(p.slot)
			ob, oa := o.owed(dueBefore, key, p.slot), o.owed(o.due, key, p.slot)
			if len(ob) > 0 && len(oa) > 0 {
				d := ob[0]
				vs = append(vs, violation{o.classifyLossFrom(key, fetchAtBefore[key], notRetriedBefore[key]), fmt.Sprintf("tick %d: duty slot %d validator %d tag %d of the successfully fetched assignment of epoch/period %d was not dispatched (nothing was dispatched)", p.slot, d.slot, d.vidx, d.tag, key)})
			}
		}
		// Retry: an assignment suspended by a failed re-fetch stays suspended only while the beacon node is
		// unavailable. If this tick belongs to that epoch (period) or the one before, every scripted fetch outcome of
		// the tick is `ok` (whatever the handler had asked would have been answered) and the handler did not ask for
		// that epoch (period) at all, the handler gave up on it: the assignment is owed again.
		if !o.tainted && p.f1.kind == 'o' && p.f2.kind == 'o' {
			tk := o.keyOfSlot(p.slot)
			for k, d := range o.suspended {
				if tk != k && tk+1 != k {
					continue
				}
				asked := false
				for _, a := range atoms {
					if a.fetch && o.keyOfArg(a.arg) == k {
						asked = true
					}
				}
				if !asked {
					o.due[k] = d
					o.notRetried[k] = true
					delete(o.suspended, k)
				}
			}
		}
		o.hist = append(o.hist, hev{name: "tick", slot: p.slot, key: o.keyOfSlot(p.slot)})
	}
	return vs
}

func (o *oracle) owed(due map[uint64][]duty, key, slot uint64) []duty {
	var out []duty
	for _, d := range due[key] {
		if o.kind == "sync" || d.slot == slot {
			out = append(out, d)
		}
	}
	return out
}

var kindName = map[string]string{"att": "attester", "prop": "proposer", "sync": "sync-committee"}

func (o *oracle) classifyLoss(key uint64, firstTickOfKey bool) string {
	return o.classifyLossFrom(key, o.fetchAt[key], o.notRetried[key])
}

func (o *oracle) classifyLossFrom(key uint64, from int, notRetried bool) string {
	if notRetried {
		return "C16/" + kindName[o.kind] + "-refetch-not-retried-after-failure"
	}
	// A tick handled after a reorg(previous) notice that carries a slot of a LATER epoch: the notice resets the
	// already fetched duties of that epoch (`ResetEpoch(currentEpoch)` of the notice's epoch) without setting
	// fetchNextEpoch when its slot is in the first half of the epoch; the late tick consumes fetchFirst for its own
	// (earlier) epoch, and the first tick of the reset epoch has nothing that tells it to fetch first.
	if o.kind == "att" {
		for i := from; i < len(o.hist); i++ {
			h := o.hist[i]
			if h.name != "reorg" || !h.prev || h.key != key {
				continue
			}
			for j := i + 1; j < len(o.hist); j++ {
				if o.hist[j].name == "tick" && o.hist[j].key < key {
					return "C16/attester-duties-lost-after-previous-reorg-of-later-epoch-handled-before-earlier-tick"
				}
			}
		}
	}
	return "C16/" + kindName[o.kind] + "-fetched-duty-not-dispatched"
}
