package main

import (
	"strings"
	"time"

	"github.com/bloxapp/ssv/zz_verif/lib/hx"
)

// ------------------------------------------------------------------------------------------------
// running a case (a `reset` line followed by events) against the real handler

func shape(as []atom) string {
	var p []string
	for _, a := range as {
		if a.fetch {
			p = append(p, "F"+a.tag)
		} else if len(a.exec) > 0 {
			p = append(p, "X")
		}
	}
	return strings.Join(p, ",")
}

func send[T any](ch chan T, v T) bool {
	select {
	case ch <- v:
		return true
	case <-time.After(sendTimeout):
		return false
	}
}

var sigCount = map[string]int{}

func runCase(run *hx.Run, ops []op) {
	var w *world
	var orc *oracle
	var lines []string
	reported := map[string]bool{}
	defer func() {
		if w != nil {
			w.stop()
		}
	}()
	netName := ""
	for _, p := range ops {
		line := p.String()
		lines = append(lines, line)
		var atoms []atom
		obs := ""
		switch {
		case p.name == "reset":
			if w != nil {
				w.stop()
				w = nil
			}
			if p.spe < 4 || p.epp < 2 || (p.kind != "att" && p.kind != "prop" && p.kind != "sync") {
				obs = "bad-params"
				break
			}
			netName = "small"
			if p.real {
				netName = "real"
			}
			w, atoms = newWorld(p.kind, p.real, p.spe, p.epp, p.clock, p.shares, p.f1)
			orc = newOracle(p.kind, p.spe, p.epp)
			run.Tag("case/" + p.kind + "/" + netName)
		case w == nil:
			obs = "no-state"
		case p.name == "tick":
			w.clock.Store(p.clock)
			w.tk.slot.Store(p.slot)
			w.mu.Lock()
			w.queue = []fres{p.f1, p.f2}
			w.mu.Unlock()
			if !send(w.tk.ch, time.Now()) || !w.barrier() {
				w.protoErr = "timeout"
			}
			atoms = w.drain()
		case p.name == "reorg":
			if !send(w.reorgCh, reorgOf(p)) || !w.barrier() {
				w.protoErr = "timeout"
			}
			atoms = w.drain()
		case p.name == "shares":
			w.setShares(p.shares)
			atoms = w.drain()
		case p.name == "indices":
			w.clock.Store(p.clock)
			if !send(w.idxCh, struct{}{}) || !w.barrier() {
				w.protoErr = "timeout"
			}
			atoms = w.drain()
		}
		if obs == "" {
			obs = showAtoms(w.kind, atoms)
			if w.protoErr != "" {
				obs += " !" + w.protoErr
			}
			run.Tag("op/" + w.kind + "/" + p.name)
			for _, a := range atoms {
				if a.fetch {
					run.Tag("fetch/" + w.kind + "/" + a.tag)
				} else if len(a.exec) > 0 {
					run.Tag("exec/" + w.kind + "/nonempty")
				}
			}
			sh := shape(atoms)
			if sh != "" || p.name != "tick" {
				run.Seen(w.kind + "|" + netName + "|" + p.name + "|" + sh)
			}
			for _, v := range orc.observe(p, atoms) {
				run.Tag("oracle/" + v.sig)
				// at most 3 reports per cause signature and run: hx keeps only the first 50 violations, and a
				// frequent known cause must not crowd out a different one
				if !reported[v.sig] && sigCount[v.sig] < 3 {
					reported[v.sig] = true
					sigCount[v.sig]++
					run.Violate(v.sig, v.detail, lines...)
				}
			}
			if orc.tainted {
				run.Tag("oracle/sync-case-tainted-by-clock-skew")
			}
		}
		run.Emit(line, obs)
	}
}

// ------------------------------------------------------------------------------------------------
// generator

type gen struct {
	r        *hx.Rng
	kind     string
	spe, epp uint64
	tagCtr   uint64
	failPct  int
}

var vpool = []uint64{1, 2, 3, 4, 5, 6, 7}

func (g *gen) res(slotNow uint64) fres {
	x := g.r.Intn(100)
	if x < g.failPct {
		return fres{kind: 'f'}
	}
	f := fres{kind: 'o'}
	n := g.r.Intn(7)
	e := slotNow / g.spe
	seen := map[[2]uint64]bool{}
	for i := 0; i < n; i++ {
		d := duty{vidx: vpool[g.r.Intn(len(vpool))]}
		if g.kind != "sync" {
			switch {
			case g.r.Chance(45): // soon
				d.slot = slotNow + uint64(g.r.Intn(4))
			case g.r.Chance(50): // start of the next epoch
				d.slot = (e+1)*g.spe + uint64(g.r.Intn(3))
			default:
				d.slot = e*g.spe + uint64(g.r.Intn(int(2*g.spe)))
			}
		}
		k := [2]uint64{d.slot, d.vidx}
		if g.kind == "sync" {
			k[0] = 0
		}
		if seen[k] {
			continue
		}
		seen[k] = true
		g.tagCtr++
		d.tag = g.tagCtr
		f.duties = append(f.duties, d)
	}
	return f
}

// one scripted registry entry for validator v around epoch e
func (g *gen) share(v, e uint64) share {
	x := share{vidx: v, own: g.r.Chance(65), liq: g.r.Chance(15)}
	switch y := g.r.Intn(100); {
	case y < 55:
		x.status = 'a'
	case y < 60:
		x.status = 'x'
	case y < 72:
		x.status = 'q'
		x.act = e + uint64(g.r.Intn(3))
		if x.act > 0 && g.r.Bool() {
			x.act--
		}
	case y < 79:
		x.status = 'e'
	case y < 84:
		x.status = 's'
	case y < 90:
		x.status = 'u'
	default:
		x.status = 'n'
	}
	return x
}

// a registry: a random subset of the validator pool in random order; now and then nobody is attesting
func (g *gen) shareSet(e uint64) []share {
	var out []share
	for _, i := range g.r.Perm(len(vpool)) {
		if g.r.Chance(75) {
			out = append(out, g.share(vpool[i], e))
		}
	}
	if g.r.Chance(4) {
		for i := range out {
			out[i].status = 'e'
		}
	}
	return out
}

// a registry change: a share is added / removed / liquidated / reactivated / gets new metadata; the order changes too
func (g *gen) mutate(l []share, e uint64) []share {
	out := append([]share(nil), l...)
	for n := 1 + g.r.Intn(2); n > 0; n-- {
		switch x := g.r.Intn(5); {
		case x == 0 || len(out) == 0: // add (or replace) a share
			v := vpool[g.r.Intn(len(vpool))]
			k := -1
			for i := range out {
				if out[i].vidx == v {
					k = i
				}
			}
			if k >= 0 {
				out[k] = g.share(v, e)
			} else {
				out = append(out, g.share(v, e))
			}
		case x == 1: // remove
			k := g.r.Intn(len(out))
			out = append(out[:k], out[k+1:]...)
		case x == 2: // liquidate / reactivate
			k := g.r.Intn(len(out))
			out[k].liq = !out[k].liq
		default: // metadata update
			k := g.r.Intn(len(out))
			n := g.share(out[k].vidx, e)
			out[k].status, out[k].act = n.status, n.act
		}
	}
	p := g.r.Perm(len(out))
	res := make([]share, len(out))
	for i, j := range p {
		res[i] = out[j]
	}
	return res
}

func genCase(r *hx.Rng, tier string) []op {
	g := &gen{r: r}
	switch x := r.Intn(100); {
	case x < 45:
		g.kind = "att"
	case x < 65:
		g.kind = "prop"
	default:
		g.kind = "sync"
	}
	transient := false // single failed fetch at the tick after a notice, everything else answered
	switch r.Intn(5) {
	case 0:
		g.failPct = 0
	case 4:
		g.failPct = 0
		transient = true
	case 1:
		g.failPct = 35
	default:
		g.failPct = 10
	}
	real := r.Chance(25)
	var start uint64
	var nticks int
	if real {
		g.spe, g.epp = 32, 256
		var e0 uint64
		if g.kind == "sync" && r.Chance(70) {
			e0 = uint64(1+r.Intn(3))*256 - uint64(1+r.Intn(3)) // shortly before a period boundary
		} else {
			e0 = uint64(r.Intn(2000))
		}
		start = e0*32 + uint64(r.Intn(32))
		nticks = 40 + r.Intn(80)
	} else {
		g.spe = uint64(r.Pick(4, 6, 8, 8, 16))
		g.epp = uint64(r.Pick(2, 3, 4, 4, 8))
		e0 := uint64(r.Intn(int(3 * g.epp)))
		start = e0*g.spe + uint64(r.Intn(int(g.spe)))
		nticks = int(g.spe) * (2 + r.Intn(4))
		if g.kind == "sync" {
			nticks = int(g.spe) * (int(g.epp) + r.Intn(int(2*g.epp)))
			if nticks > 160 {
				nticks = 160
			}
		}
	}
	reg := g.shareSet(start / g.spe)
	ops := []op{{name: "reset", kind: g.kind, real: real, spe: g.spe, epp: g.epp, clock: start, shares: reg, f1: g.res(start)}}
	// a notice; an indices-change notice usually follows a change of the registry
	emit := func(n op) {
		if n.name == "indices" && r.Chance(85) {
			reg = g.mutate(reg, n.clock/g.spe)
			ops = append(ops, op{name: "shares", shares: reg})
		}
		ops = append(ops, n)
	}
	notice := func(slot uint64) op {
		switch x := r.Intn(100); {
		case x < 28:
			return op{name: "reorg", slot: slot, prev: true}
		case x < 68:
			return op{name: "reorg", slot: slot, cur: true}
		case x < 70:
			return op{name: "reorg", slot: slot, prev: true, cur: true}
		default:
			return op{name: "indices", clock: slot}
		}
	}
	s := start
	quietCase := r.Chance(15) // some cases without any notice
	for i := 0; i < nticks; i++ {
		lastOfEpoch := s%g.spe == g.spe-1
		if !quietCase && r.Chance(8) { // notice handled before the tick of its slot
			emit(notice(s))
		}
		if !quietCase && r.Chance(1) { // a TICK handled late: a notice of a later slot is handled before it
			emit(notice(s + 1 + uint64(r.Intn(int(g.spe)))))
		}
		clock := s
		switch x := r.Intn(100); {
		case x < 3 && s > 0:
			clock = s - 1
		case x < 6:
			clock = s + 1
		case x < 8:
			clock = s + g.spe + 2
		}
		if g.kind == "sync" && clock/g.spe/g.epp != s/g.spe/g.epp && r.Chance(90) {
			clock = s
		}
		if !quietCase && r.Chance(2) { // the registry changes without a notice (metadata update)
			reg = g.mutate(reg, s/g.spe)
			ops = append(ops, op{name: "shares", shares: reg})
		}
		tk := op{name: "tick", slot: s, clock: clock, f1: g.res(s), f2: g.res(s)}
		if transient && len(ops) > 0 && ops[len(ops)-1].name != "tick" && ops[len(ops)-1].name != "reset" && r.Chance(60) {
			if r.Bool() {
				tk.f1 = fres{kind: 'f'}
			} else {
				tk.f2 = fres{kind: 'f'}
			}
		}
		ops = append(ops, tk)
		p := 12
		if lastOfEpoch {
			p = 45
		}
		if !quietCase && r.Chance(p) {
			emit(notice(s))
			if r.Chance(25) {
				emit(notice(s))
			}
		}
		if !quietCase && s > 0 && r.Chance(1) { // a notice that is handled one tick late
			emit(notice(s - 1))
		}
		switch x := r.Intn(100); {
		case x < 4:
			s += 2 + uint64(r.Intn(3))
		case x < 5:
			s += g.spe
		default:
			s++
		}
	}
	return ops
}

func main() {
	run := hx.Start()
	defer run.Finish()
	if *mode == "glue" {
		runGlueMode(run)
		return
	}
	if lines := run.ReplayLines(); lines != nil {
		var cur []op
		flush := func() {
			if len(cur) > 0 {
				runCase(run, cur)
			}
			cur = nil
		}
		for _, l := range lines {
			if _, isGlue := parseGlueCase(l); isGlue {
				continue
			}
			p, err := parseOp(l)
			if err != nil {
				run.Emit(l, "bad-op")
				continue
			}
			if p.name == "reset" {
				flush()
			}
			cur = append(cur, p)
		}
		flush()
		return
	}
	// hx.NewRng(seed) starts the splitmix64 stream at seed*gamma: seeds that differ by d produce the same stream shifted
	// by d draws. Re-seed with an OUTPUT of that stream (a hash of the seed) so that different seeds give unrelated runs.
	r := hx.NewRng(hx.NewRng(run.Seed).U64())
	for i := 0; i < run.N; i++ {
		runCase(run, genCase(r, run.Tier))
	}
}
